(* C01, (T) tie from the Python SOURCE: a small imperative language for the bodies of the methods of
   boltons.dictutils.OrderedMultiDict and its interpreter over the pointer-level state of
   Model/C01_PModel.v (dict storage, heap of [PREV, NEXT, KEY, VALUE] cells, _map, allocation counter).
   harness/translators/c01_src.py walks the ast of the CURRENT source and emits one program per method
   into coq/Gen/C01_Src.v (fail closed on anything outside this language); Proofs/C01_SrcEq*.v prove
   that interpreting the regenerated program is the model's method.  Definitions only.

   Python objects that occur:  tokens (keys / values; None is token 0), _MISSING, booleans, cells
   (heap addresses; self.root is address 0), fresh lists of tokens, and the two kinds of ALIASED list
   objects: the value list stored in the dict under k (VStoreRef k) and the cell list stored in _map
   under k (VMapRef k) - mutating them mutates the dict / _map entry.                              *)
From Boltons Require Import Lib.Prelude Spec.C01_Spec Model.C01_Model Model.C01_Ptr Model.C01_PModel.

Inductive field := FPrev | FNext | FKey | FVal.
Inductive meth :=
| MClearLL | MInsert | MRemove | MRemoveAll
| MAdd | MAddList | MGet | MGetList | MClear | MSetDefault | MSetItem | MGetItem | MDelItem
| MPop | MPopAll | MPopItem | MPopLast
| MUpdate | MUpdateExtend | MIOr
| MIterItems | MIterKeys | MIterValues | MReversed | MKeys | MValues | MItems | MIter
| MGetState | MSetState | MCopy | MInverted | MCounts | MSorted | MToDict
| MEq | MNe | MSortedValues
| MInit | MFromKeys | MReduceEx.

Inductive pv :=
| VTok (n : nat) | VMissing | VBool (b : bool) | VCell (a : nat)
| VToks (l : list nat) | VStoreRef (k : K) | VMapRef (k : K) | VItem (k v : nat)
(* arguments of update / update_extend: E as an iterable of pairs, a plain mapping or the object itself
   (VArg), E as ANOTHER OrderedMultiDict given by its state (VOtherObj), the keyword mapping F (VKw);
   an iterator of pairs; a local set; the object itself as a return value *)
| VArg (a : arg) | VOtherObj (q : pomd) | VKw (m : pairs) | VPairs (l : pairs) | VSet (l : list nat) | VSelfObj
| VNat (n : nat) | VDict (d : list (nat * nat))       (* an int; a local dict of ints (lengths in __reversed__) *)
| VKeyFn (f : keyfn) | VMulti (l : list (K * list V))    (* a sort key function; a plain dict of lists *)
| VJunk (len : option nat)
| VDictL (d : pydict (list V))      (* a local dict of lists (sorted_val_map in sortedvalues) *)
(* the *args tuple of __init__: empty, one argument (an `arg`, with the other object's state when it is AOther),
   or more than one *)
| VArgs0 | VArgs1 (a : arg) (q : pomd) | VArgsMany
| VReduce (state : pairs).           (* (copyreg.__newobj__, (cls,), state) *)      (* an object that is neither a mapping nor an OMD; len() works or raises TypeError *)

Inductive ex :=
| EVar (x : nat) | ENone | EMissing | ERoot
| EIdx (e : ex) (f : field)                    (* e[PREV] / e[NEXT] / e[KEY] / e[VALUE] *)
| ENewCell (a b k v : ex)                      (* [a, b, k, v] *)
| EList1 (e : ex) | ENil                       (* [e] / [] *)
| EListOf (e : ex)                             (* list(e) *)
| ELast (e : ex)                               (* e[-1] *)
| ECopy (e : ex)                               (* e[:] *)
| EPop (e : ex)                                (* e.pop() *)
| EMapSetdefault (k : ex)                      (* self._map.setdefault(k, []) *)
| EMapGet (k : ex)                             (* self._map[k] *)
| EStoreSetdefault (k : ex)                    (* super().setdefault(k, []) *)
| EStoreGetitem (k : ex)                       (* super().__getitem__(k) *)
| EStoreGetD (k d : ex)                        (* super().get(k, d) *)
| EStoreContains (k : ex)                      (* super().__contains__(k) *)
| EStorePop (k : ex)                           (* super().pop(k) *)
| EStorePopD (k d : ex)                        (* super().pop(k, d) *)
| ETruthSelf                                   (* truth value of self: len(dict) != 0 *)
| ENot (e : ex) | EIsMissing (e : ex)          (* not e / e is _MISSING *)
| ECond (c a b : ex)                           (* a if c else b *)
| ETuple2 (a b : ex)
| ECall0 (m : meth) | ECall1 (m : meth) (a : ex) | ECall2 (m : meth) (a b : ex)    (* self.m(...) *)
| ESelf | EEmptyTuple | ENoKw                  (* self / () / no keyword arguments *)
| EIsSelf (e : ex)                             (* e is self *)
| EIsOMD (e : ex)                              (* isinstance(e, OrderedMultiDict) *)
| EHasKeys (e : ex)                            (* hasattr(e, 'keys') / callable(getattr(e, 'keys', None)) *)
| EArgKeys (e : ex)                            (* e.keys() *)
| EArgGet (e k : ex)                           (* e[k] for the mapping arguments E / F *)
| EArgItemsMulti (e : ex)                      (* e.iteritems(multi=True) *)
| EArgItems (e : ex)                           (* iter(e.items()) (e is self) *)
| EGenKV (e : ex)                              (* ((k, e[k]) for k in e.keys()) *)
| ESetNew | EInSet (k s : ex)                  (* set() / k in s *)
| ETrue | EFalse
| ENotIs (a b : ex)                            (* a is not b, on cells *)
| ELen (e : ex) | EEqNat (a b : ex)            (* len(e) / a == b on ints *)
| EDictNew                                     (* {} *)
| EYieldedToks | EYieldedPairs                 (* what the generator has yielded (its value as a list) *)
| ENewFrom (e : ex)                            (* self.__class__(e): a new object built from pairs (the constructor
                                                  itself is the model's pm_from_pairs; an unhashable key raises) *)
| EComp1 (multi : bool) (x : nat) (src a b : ex)   (* ((a, b) for x in src) / {a: b for x in src} *)
| EComp2 (x y : nat) (src a b : ex)            (* ((a, b) for x, y in src) *)
| ESorted (e k r : ex)                         (* sorted(e, key=k, reverse=r) *)
| ELenObj (e : ex) | ELenSelf                  (* len(other) / len(self) *)
| ENe (a b : ex)                               (* a != b on ints, or on keys / values / the _MISSING sentinel *)
| EOr (a b : ex) | EAnd (a b : ex)             (* short-circuit *)
| EExhausted
| ESortedValMap (k r : ex)                     (* {k: sorted(v, key=k, reverse=r)[::-1] for k, v in super().items()} *)
| ENewEmpty                                    (* self.__class__() *)
| ELenGt1 (e : ex)                             (* len(args) > 1 *)
| EArgs0 (e : ex)                              (* args[0] *)
| EReduce (e : ex).                            (* (copyreg.__newobj__, (self.__class__,), e) *)                                  (* next(it, _MISSING) is _MISSING for an iterator that the preceding
                                                  zip_longest loop has run to its end (checked by the translator) *)

Inductive stmt :=
| SPass | SSeq (a b : stmt) | SAssign (x : nat) (e : ex) | SExpr (e : ex)
| SSetIdx (o : ex) (f : field) (v : ex)                         (* o[f] = v *)
| SSetIdx2 (o1 : ex) (f1 : field) (o2 : ex) (f2 : field) (v1 v2 : ex)   (* o1[f1], o2[f2] = v1, v2 *)
| SAppend (o v : ex) | SExtend (o v : ex)                       (* o.append(v) / o.extend(v) *)
| SDelMap (k : ex)                                              (* del self._map[k] *)
| SMapClear | SRootReset | SInitMap                             (* the three statements of _clear_ll *)
| SStoreSet (k v : ex) | SStoreDel (k : ex) | SStoreClear       (* super().__setitem__/__delitem__/clear *)
| SIf (c : ex) (a b : stmt) | SWhile (c : ex) (b : stmt) | SFor (x : nat) (e : ex) (b : stmt)
| STryKeyError (b h : stmt) | SReturn (e : ex) | SRaiseKeyError
| SSetAdd (x : nat) (k : ex)                                    (* x.add(k) for a local set x *)
| SFor2 (x y : nat) (e : ex) (b : stmt)                         (* for x, y in e: b *)
| SYield (e : ex)                                               (* yield e (generators are run to completion) *)
| SDictSetdefault (d tmp : nat) (k : ex) (v : nat)              (* tmp = d.setdefault(k, v) for a local dict d *)
| SDictIncr (d : nat) (k : ex)                                  (* d[k] += 1 *)
| SObjAddPop (r m : nat) (k : ex)                               (* r.add(k, m[k].pop()) for a local object r and a
                                                                   local dict of lists m *)
| SRaiseTypeError | SSuperInit                                  (* raise TypeError(...) / super().__init__() *)
| STryTypeError (b h : stmt)                                    (* try: b  except TypeError: h *)
| SForZip (k1 v1 k2 v2 : nat) (a b : ex) (body : stmt).         (* for (k1, v1), (k2, v2) in zip_longest(a, b,
                                                                   fillvalue=(_MISSING, _MISSING)): body *)

Definition type_error : exn := OtherExn 7.

Definition env := list (nat * pv).
Definition acc_toks : nat := 998.       (* environment slots collecting what a generator yields *)
Definition acc_pairs : nat := 999.
Fixpoint env_get (e : env) (x : nat) : res pv :=
  match e with
  | [] => Raise (OtherExn 8)                                     (* NameError *)
  | (y, v) :: r => if Nat.eqb x y then Ok v else env_get r x
  end.
Definition env_set (e : env) (x : nat) (v : pv) : env := (x, v) :: e.

Definition set_heap (s : pomd) (h : heap) : pomd := mkPomd (pstore s) h (pcmap s) (pnxt s).
Definition set_cmap (s : pomd) (c : pydict (list nat)) : pomd := mkPomd (pstore s) (pheap s) c (pnxt s).

Definition cell_field (c : pcell) (f : field) : pv :=
  match f with
  | FPrev => VCell (p_prev c) | FNext => VCell (p_next c) | FKey => VTok (p_key c) | FVal => VTok (p_val c)
  end.

Definition raise {A} (e : exn) (s : pomd) : res A * pomd := (Raise e, s).

(* e[-1] and truthiness look through the aliases *)
Definition list_of (s : pomd) (v : pv) : res (list nat) :=
  match v with
  | VToks l => Ok l
  | VStoreRef k => match d_get (pstore s) k with Some l => Ok l | None => Raise type_error end
  | VMapRef k => match d_get (pcmap s) k with Some l => Ok l | None => Raise type_error end
  | _ => Raise type_error
  end.
Definition truth (s : pomd) (v : pv) : res bool :=
  match v with
  | VBool b => Ok b
  | VArgs0 => Ok false
  | VArgs1 _ _ | VArgsMany => Ok true
  | VKw m => Ok (match m with [] => false | _ => true end)
  | VToks _ | VStoreRef _ | VMapRef _ =>
      match list_of s v with Ok l => Ok (match l with [] => false | _ => true end) | Raise e => Raise e end
  | _ => Raise type_error
  end.

Section Interp.
  (* semantics of the methods a body may call (given by the layer below) *)
  Variable callee : meth -> list pv -> pomd -> res pv * pomd.
  Variable fuel : nat.                            (* bound on the iterations of one while loop *)

  Fixpoint eval (en : env) (e : ex) (s : pomd) {struct e} : res pv * pomd :=
    let tok1 (k : ex) (f : K -> pomd -> res pv * pomd) :=
      match eval en k s with
      | (Ok (VTok kk), s1) => f kk s1
      | (Ok _, s1) => raise type_error s1
      | (Raise x, s1) => (Raise x, s1)
      end in
    match e with
    | EVar x => (env_get en x, s)
    | ENone => (Ok (VTok none_tok), s)
    | EMissing => (Ok VMissing, s)
    | ERoot => (Ok (VCell root), s)
    | EIdx o f =>
        match eval en o s with
        | (Ok (VCell a), s1) =>
            match d_get (pheap s1) a with
            | Some c => (Ok (cell_field c f), s1)
            | None => raise dangling s1
            end
        | (Ok _, s1) => raise type_error s1
        | (Raise x, s1) => (Raise x, s1)
        end
    | ENewCell a b k v =>
        match eval en a s with
        | (Ok (VCell pa), s1) =>
            match eval en b s1 with
            | (Ok (VCell pb), s2) =>
                match eval en k s2 with
                | (Ok (VTok kk), s3) =>
                    match eval en v s3 with
                    | (Ok (VTok vv), s4) =>
                        let ad := S (pnxt s4) in
                        (Ok (VCell ad),
                         mkPomd (pstore s4) (d_set (pheap s4) ad (mkP pa pb kk vv)) (pcmap s4) (S (pnxt s4)))
                    | (Ok _, s4) => raise type_error s4
                    | (Raise x, s4) => (Raise x, s4)
                    end
                | (Ok _, s3) => raise type_error s3
                | (Raise x, s3) => (Raise x, s3)
                end
            | (Ok _, s2) => raise type_error s2
            | (Raise x, s2) => (Raise x, s2)
            end
        | (Ok _, s1) => raise type_error s1
        | (Raise x, s1) => (Raise x, s1)
        end
    | EList1 a => tok1 a (fun t s1 => (Ok (VToks [t]), s1))
    | ENil => (Ok (VToks []), s)
    | EListOf a =>
        match eval en a s with
        | (Ok (VPairs l), s1) => (Ok (VPairs l), s1)
        | (Ok v, s1) => match list_of s1 v with Ok l => (Ok (VToks l), s1) | Raise x => (Raise x, s1) end
        | r => r
        end
    | ELast a =>
        match eval en a s with
        | (Ok v, s1) =>
            match list_of s1 v with
            | Ok l => match rev l with [] => raise IndexError s1 | t :: _ => (Ok (VTok t), s1) end
            | Raise x => (Raise x, s1)
            end
        | r => r
        end
    | ECopy a =>
        match eval en a s with
        | (Ok v, s1) => match list_of s1 v with Ok l => (Ok (VToks l), s1) | Raise x => (Raise x, s1) end
        | r => r
        end
    | EPop a =>
        match eval en a s with
        | (Ok (VStoreRef k), s1) =>
            match d_get (pstore s1) k with
            | None => raise type_error s1
            | Some l => match rev l with
                        | [] => raise IndexError s1
                        | t :: rr => (Ok (VTok t), pset_store s1 (d_set (pstore s1) k (rev rr)))
                        end
            end
        | (Ok (VMapRef k), s1) =>
            match d_get (pcmap s1) k with
            | None => raise type_error s1
            | Some l => match rev l with
                        | [] => raise IndexError s1
                        | i :: rr => (Ok (VCell (S i)), set_cmap s1 (d_set (pcmap s1) k (rev rr)))
                        end
            end
        | (Ok _, s1) => raise type_error s1
        | (Raise x, s1) => (Raise x, s1)
        end
    | EMapSetdefault k =>
        tok1 k (fun kk s1 =>
          (Ok (VMapRef kk),
           match d_get (pcmap s1) kk with Some _ => s1 | None => set_cmap s1 (d_set (pcmap s1) kk []) end))
    | EMapGet k =>
        tok1 k (fun kk s1 =>
          match d_get (pcmap s1) kk with Some _ => (Ok (VMapRef kk), s1) | None => raise KeyError s1 end)
    | EStoreSetdefault k =>
        tok1 k (fun kk s1 =>
          (Ok (VStoreRef kk),
           match d_get (pstore s1) kk with Some _ => s1 | None => pset_store s1 (d_set (pstore s1) kk []) end))
    | EStoreGetitem k =>
        tok1 k (fun kk s1 =>
          match d_get (pstore s1) kk with Some _ => (Ok (VStoreRef kk), s1) | None => raise KeyError s1 end)
    | EStoreGetD k d =>
        tok1 k (fun kk s1 =>
          match d_get (pstore s1) kk with
          | Some _ => (Ok (VStoreRef kk), s1)
          | None => eval en d s1
          end)
    | EStoreContains k => tok1 k (fun kk s1 => (Ok (VBool (d_mem (pstore s1) kk)), s1))
    | EStorePop k =>
        tok1 k (fun kk s1 =>
          match d_get (pstore s1) kk with
          | Some l => (Ok (VToks l), pset_store s1 (d_del (pstore s1) kk))
          | None => raise KeyError s1
          end)
    | EStorePopD k d =>
        tok1 k (fun kk s1 =>
          match d_get (pstore s1) kk with
          | Some l => (Ok (VToks l), pset_store s1 (d_del (pstore s1) kk))
          | None => eval en d s1
          end)
    | ETruthSelf => (Ok (VBool (match pstore s with [] => false | _ => true end)), s)
    | ENot a =>
        match eval en a s with
        | (Ok v, s1) => match truth s1 v with Ok b => (Ok (VBool (negb b)), s1) | Raise x => (Raise x, s1) end
        | r => r
        end
    | EIsMissing a =>
        match eval en a s with
        | (Ok VMissing, s1) => (Ok (VBool true), s1)
        | (Ok _, s1) => (Ok (VBool false), s1)
        | r => r
        end
    | ECond c a b =>
        match eval en c s with
        | (Ok v, s1) =>
            match truth s1 v with
            | Ok true => eval en a s1
            | Ok false => eval en b s1
            | Raise x => (Raise x, s1)
            end
        | r => r
        end
    | ETuple2 a b =>
        match eval en a s with
        | (Ok (VTok x), s1) =>
            match eval en b s1 with
            | (Ok (VTok y), s2) => (Ok (VItem x y), s2)
            | (Ok _, s2) => raise type_error s2
            | r => r
            end
        | (Ok _, s1) => raise type_error s1
        | r => r
        end
    | ESelf => (Ok VSelfObj, s)
    | EEmptyTuple => (Ok (VArg (APairs [])), s)
    | ENoKw => (Ok (VKw []), s)
    | EIsSelf a =>
        match eval en a s with
        | (Ok (VArg ASelf), s1) => (Ok (VBool true), s1)
        | (Ok (VArg _), s1) | (Ok (VOtherObj _), s1) | (Ok (VJunk _), s1) | (Ok (VKw _), s1) => (Ok (VBool false), s1)
        | (Ok _, s1) => raise type_error s1
        | r => r
        end
    | EIsOMD a =>
        match eval en a s with
        | (Ok (VArg ASelf), s1) | (Ok (VArg AOther), s1) | (Ok (VOtherObj _), s1) => (Ok (VBool true), s1)
        | (Ok (VArg _), s1) | (Ok (VJunk _), s1) | (Ok (VKw _), s1) => (Ok (VBool false), s1)
        | (Ok _, s1) => raise type_error s1
        | r => r
        end
    | EHasKeys a =>
        match eval en a s with
        | (Ok (VArg (APairs _)), s1) | (Ok (VJunk _), s1) => (Ok (VBool false), s1)
        | (Ok (VArg _), s1) | (Ok (VOtherObj _), s1) | (Ok (VKw _), s1) => (Ok (VBool true), s1)
        | (Ok _, s1) => raise type_error s1
        | r => r
        end
    | EArgKeys a =>
        match eval en a s with
        | (Ok (VArg (AMap m)), s1) | (Ok (VKw m), s1) => (Ok (VToks (map fst m)), s1)
        | (Ok _, s1) => raise type_error s1
        | r => r
        end
    | EArgGet a k =>
        match eval en a s with
        | (Ok (VArg (AMap m)), s1) | (Ok (VKw m), s1) =>
            match eval en k s1 with
            | (Ok (VTok kk), s2) =>
                match d_get m kk with Some v => (Ok (VTok v), s2) | None => raise KeyError s2 end
            | (Ok _, s2) => raise type_error s2
            | r => r
            end
        | (Ok _, s1) => raise type_error s1
        | r => r
        end
    | EArgItemsMulti a =>
        match eval en a s with
        | (Ok (VOtherObj q), s1) => (Ok (VPairs (pm_items q)), s1)
        | (Ok (VArg ASelf), s1) => (Ok (VPairs (pm_items s1)), s1)
        | (Ok _, s1) => raise type_error s1
        | r => r
        end
    | EArgItems a =>
        match eval en a s with
        | (Ok (VArg ASelf), s1) =>
            match pm_items1 s1 with Ok l => (Ok (VPairs l), s1) | Raise x => (Raise x, s1) end
        | (Ok _, s1) => raise type_error s1
        | r => r
        end
    | EGenKV a =>
        match eval en a s with
        | (Ok (VArg (AMap m)), s1) =>
            (Ok (VPairs (map (fun k => (k, match d_get m k with Some v => v | None => none_tok end)) (map fst m))), s1)
        | (Ok _, s1) => raise type_error s1
        | r => r
        end
    | ENewFrom a =>
        match eval en a s with
        | (Ok (VPairs l), s1) =>
            if existsb unhashable (map fst l) then raise TypeError s1
            else (Ok (VOtherObj (pm_from_pairs l)), s1)
        | (Ok _, s1) => raise type_error s1
        | r => r
        end
    | EComp1 multi x src a b =>
        match eval en src s with
        | (Ok (VToks l), s1) =>
            if multi then
              match (fix go (l : list nat) (s0 : pomd) {struct l} : res (list (K * list V)) * pomd :=
                       match l with
                       | [] => (Ok [], s0)
                       | t :: r =>
                           match eval (env_set en x (VTok t)) a s0 with
                           | (Ok (VTok ka), s2) =>
                               match eval (env_set en x (VTok t)) b s2 with
                               | (Ok (VToks vb), s3) =>
                                   match go r s3 with
                                   | (Ok rest, s4) => (Ok ((ka, vb) :: rest), s4)
                                   | (Raise x0, s4) => (Raise x0, s4)
                                   end
                               | (Ok _, s3) => (Raise type_error, s3)
                               | (Raise x0, s3) => (Raise x0, s3)
                               end
                           | (Ok _, s2) => (Raise type_error, s2)
                           | (Raise x0, s2) => (Raise x0, s2)
                           end
                       end) l s1 with
              | (Ok r, s5) => (Ok (VMulti r), s5)
              | (Raise x0, s5) => (Raise x0, s5)
              end
            else
              match (fix go (l : list nat) (s0 : pomd) {struct l} : res pairs * pomd :=
                       match l with
                       | [] => (Ok [], s0)
                       | t :: r =>
                           match eval (env_set en x (VTok t)) a s0 with
                           | (Ok (VTok ka), s2) =>
                               match eval (env_set en x (VTok t)) b s2 with
                               | (Ok (VTok vb), s3) | (Ok (VNat vb), s3) =>
                                   match go r s3 with
                                   | (Ok rest, s4) => (Ok ((ka, vb) :: rest), s4)
                                   | (Raise x0, s4) => (Raise x0, s4)
                                   end
                               | (Ok _, s3) => (Raise type_error, s3)
                               | (Raise x0, s3) => (Raise x0, s3)
                               end
                           | (Ok _, s2) => (Raise type_error, s2)
                           | (Raise x0, s2) => (Raise x0, s2)
                           end
                       end) l s1 with
              | (Ok r, s5) => (Ok (VPairs r), s5)
              | (Raise x0, s5) => (Raise x0, s5)
              end
        | (Ok _, s1) => raise type_error s1
        | r => r
        end
    | EComp2 x y src a b =>
        match eval en src s with
        | (Ok (VPairs l), s1) =>
            match (fix go (l : pairs) (s0 : pomd) {struct l} : res pairs * pomd :=
                     match l with
                     | [] => (Ok [], s0)
                     | (t, u) :: r =>
                         let en' := env_set (env_set en x (VTok t)) y (VTok u) in
                         match eval en' a s0 with
                         | (Ok (VTok ka), s2) =>
                             match eval en' b s2 with
                             | (Ok (VTok vb), s3) =>
                                 match go r s3 with
                                 | (Ok rest, s4) => (Ok ((ka, vb) :: rest), s4)
                                 | (Raise x0, s4) => (Raise x0, s4)
                                 end
                             | (Ok _, s3) => (Raise type_error, s3)
                             | (Raise x0, s3) => (Raise x0, s3)
                             end
                         | (Ok _, s2) => (Raise type_error, s2)
                         | (Raise x0, s2) => (Raise x0, s2)
                         end
                     end) l s1 with
            | (Ok r, s5) => (Ok (VPairs r), s5)
            | (Raise x0, s5) => (Raise x0, s5)
            end
        | (Ok _, s1) => raise type_error s1
        | r => r
        end
    | ESorted a k r =>
        match eval en a s with
        | (Ok (VPairs l), s1) =>
            match eval en k s1 with
            | (Ok (VKeyFn f), s2) =>
                match eval en r s2 with
                | (Ok (VBool rv), s3) => (Ok (VPairs (py_sorted (kf_item f) rv l)), s3)
                | (Ok _, s3) => raise type_error s3
                | r0 => r0
                end
            | (Ok _, s2) => raise type_error s2
            | r0 => r0
            end
        | (Ok _, s1) => raise type_error s1
        | r0 => r0
        end
    | ELenObj a =>
        match eval en a s with
        | (Ok (VOtherObj q), s1) => (Ok (VNat (length (pstore q))), s1)
        | (Ok (VArg ASelf), s1) => (Ok (VNat (length (pstore s1))), s1)
        | (Ok (VArg (AMap m)), s1) => (Ok (VNat (length m)), s1)
        | (Ok (VJunk (Some n)), s1) => (Ok (VNat n), s1)
        | (Ok (VJunk None), s1) => raise TypeError s1
        | (Ok _, s1) => raise type_error s1
        | r => r
        end
    | ELenSelf => (Ok (VNat (length (pstore s))), s)
    | ENe a b =>
        match eval en a s with
        | (Ok va, s1) =>
            match eval en b s1 with
            | (Ok vb, s2) =>
                match va, vb with
                | VNat x, VNat y | VTok x, VTok y => (Ok (VBool (negb (Nat.eqb x y))), s2)
                | VMissing, VMissing => (Ok (VBool false), s2)
                | VMissing, VTok _ | VTok _, VMissing => (Ok (VBool true), s2)
                | _, _ => raise type_error s2
                end
            | r => r
            end
        | r => r
        end
    | EOr a b =>
        match eval en a s with
        | (Ok v, s1) =>
            match truth s1 v with
            | Ok true => (Ok (VBool true), s1)
            | Ok false => match eval en b s1 with
                          | (Ok w, s2) => (match truth s2 w with Ok x => Ok (VBool x) | Raise x0 => Raise x0 end, s2)
                          | r => r
                          end
            | Raise x0 => (Raise x0, s1)
            end
        | r => r
        end
    | EAnd a b =>
        match eval en a s with
        | (Ok v, s1) =>
            match truth s1 v with
            | Ok false => (Ok (VBool false), s1)
            | Ok true => match eval en b s1 with
                         | (Ok w, s2) => (match truth s2 w with Ok x => Ok (VBool x) | Raise x0 => Raise x0 end, s2)
                         | r => r
                         end
            | Raise x0 => (Raise x0, s1)
            end
        | r => r
        end
    | EExhausted => (Ok (VBool true), s)
    | ESortedValMap k r =>
        match eval en k s with
        | (Ok (VKeyFn f), s1) =>
            match eval en r s1 with
            | (Ok (VBool rv), s2) =>
                (Ok (VDictL (map (fun kv => (fst kv, rev (py_sorted (kf_val f) rv (snd kv)))) (pstore s2))), s2)
            | (Ok _, s2) => raise type_error s2
            | r0 => r0
            end
        | (Ok _, s1) => raise type_error s1
        | r0 => r0
        end
    | ENewEmpty => (Ok (VOtherObj pm_empty), s)
    | ELenGt1 a =>
        match eval en a s with
        | (Ok VArgsMany, s1) => (Ok (VBool true), s1)
        | (Ok VArgs0, s1) | (Ok (VArgs1 _ _), s1) => (Ok (VBool false), s1)
        | (Ok _, s1) => raise type_error s1
        | r => r
        end
    | EArgs0 a =>
        match eval en a s with
        | (Ok (VArgs1 AOther q), s1) => (Ok (VOtherObj q), s1)
        | (Ok (VArgs1 x _), s1) => (Ok (VArg x), s1)
        | (Ok VArgs0, s1) => raise IndexError s1
        | (Ok _, s1) => raise type_error s1
        | r => r
        end
    | EReduce a =>
        match eval en a s with
        | (Ok (VPairs l), s1) => (Ok (VReduce l), s1)
        | (Ok _, s1) => raise type_error s1
        | r => r
        end
    | ETrue => (Ok (VBool true), s)
    | EFalse => (Ok (VBool false), s)
    | ENotIs a b =>
        match eval en a s with
        | (Ok (VCell x), s1) =>
            match eval en b s1 with
            | (Ok (VCell y), s2) => (Ok (VBool (negb (Nat.eqb x y))), s2)
            | (Ok _, s2) => raise type_error s2
            | r => r
            end
        | (Ok _, s1) => raise type_error s1
        | r => r
        end
    | ELen a =>
        match eval en a s with
        | (Ok v, s1) => match list_of s1 v with Ok l => (Ok (VNat (length l)), s1) | Raise x => (Raise x, s1) end
        | r => r
        end
    | EEqNat a b =>
        match eval en a s with
        | (Ok (VNat x), s1) =>
            match eval en b s1 with
            | (Ok (VNat y), s2) => (Ok (VBool (Nat.eqb x y)), s2)
            | (Ok _, s2) => raise type_error s2
            | r => r
            end
        | (Ok _, s1) => raise type_error s1
        | r => r
        end
    | EDictNew => (Ok (VDict []), s)
    | EYieldedToks => (match env_get en acc_toks with Ok v => Ok v | Raise _ => Ok (VToks []) end, s)
    | EYieldedPairs => (match env_get en acc_pairs with Ok v => Ok v | Raise _ => Ok (VPairs []) end, s)
    | ESetNew => (Ok (VSet []), s)
    | EInSet k st =>
        tok1 k (fun kk s1 =>
          match eval en st s1 with
          | (Ok (VSet l), s2) => (Ok (VBool (mem_nat kk l)), s2)
          | (Ok _, s2) => raise type_error s2
          | r => r
          end)
    | ECall0 m => callee m [] s
    | ECall1 m a =>
        match eval en a s with
        | (Ok va, s1) => callee m [va] s1
        | r => r
        end
    | ECall2 m a b =>
        match eval en a s with
        | (Ok va, s1) =>
            match eval en b s1 with
            | (Ok vb, s2) => callee m [va; vb] s2
            | r => r
            end
        | r => r
        end
    end.

  Inductive outcome := ONormal | OReturn (v : pv) | ORaise (e : exn).

  (* o[f] = v on the heap *)
  Definition set_field (s : pomd) (a : nat) (f : field) (v : pv) : res unit * pomd :=
    match f, v with
    | FNext, VCell n =>
        match set_next (pheap s) a n with Ok h => (Ok tt, set_heap s h) | Raise x => (Raise x, s) end
    | FPrev, VCell n =>
        match set_prev (pheap s) a n with Ok h => (Ok tt, set_heap s h) | Raise x => (Raise x, s) end
    | _, _ => raise type_error s
    end.

  (* while c: b   - at most [n] iterations, then the out-of-fuel error *)
  Fixpoint loop (n : nat) (cond : env -> pomd -> res bool * pomd)
                (body : env -> pomd -> outcome * env * pomd) (en : env) (s : pomd) : outcome * env * pomd :=
    match n with
    | 0 => (ORaise out_of_fuel, en, s)
    | S n' =>
        match cond en s with
        | (Raise x, s1) => (ORaise x, en, s1)
        | (Ok false, s1) => (ONormal, en, s1)
        | (Ok true, s1) =>
            match body en s1 with
            | (ONormal, en2, s2) => loop n' cond body en2 s2
            | r => r
            end
        end
    end.

  Fixpoint for_each (x : nat) (l : list nat) (body : env -> pomd -> outcome * env * pomd)
                    (en : env) (s : pomd) : outcome * env * pomd :=
    match l with
    | [] => (ONormal, en, s)
    | t :: r =>
        match body (env_set en x (VTok t)) s with
        | (ONormal, en2, s2) => for_each x r body en2 s2
        | o => o
        end
    end.

  Fixpoint for_each2 (x y : nat) (l : pairs) (body : env -> pomd -> outcome * env * pomd)
                     (en : env) (s : pomd) : outcome * env * pomd :=
    match l with
    | [] => (ONormal, en, s)
    | (a, b) :: r =>
        match body (env_set (env_set en x (VTok a)) y (VTok b)) s with
        | (ONormal, en2, s2) => for_each2 x y r body en2 s2
        | o => o
        end
    end.

  (* zip_longest with the fill value (_MISSING, _MISSING) *)
  Fixpoint for_zip (k1 v1 k2 v2 : nat) (la lb : pairs) (body : env -> pomd -> outcome * env * pomd)
                   (en : env) (s : pomd) {struct la} : outcome * env * pomd :=
    let bind4 (a b c d : pv) := env_set (env_set (env_set (env_set en k1 a) v1 b) k2 c) v2 d in
    let fix rest_b (lb : pairs) (en : env) (s : pomd) {struct lb} : outcome * env * pomd :=
        match lb with
        | [] => (ONormal, en, s)
        | (c, d) :: rb =>
            match body (env_set (env_set (env_set (env_set en k1 VMissing) v1 VMissing) k2 (VTok c)) v2 (VTok d)) s with
            | (ONormal, en2, s2) => rest_b rb en2 s2
            | o => o
            end
        end in
    match la, lb with
    | [], _ => rest_b lb en s
    | (a, b) :: ra, [] =>
        match body (bind4 (VTok a) (VTok b) VMissing VMissing) s with
        | (ONormal, en2, s2) => for_zip k1 v1 k2 v2 ra [] body en2 s2
        | o => o
        end
    | (a, b) :: ra, (c, d) :: rb =>
        match body (bind4 (VTok a) (VTok b) (VTok c) (VTok d)) s with
        | (ONormal, en2, s2) => for_zip k1 v1 k2 v2 ra rb body en2 s2
        | o => o
        end
    end.

  Definition eval_truth (c : ex) (en : env) (s : pomd) : res bool * pomd :=
    match eval en c s with
    | (Ok v, s1) => (truth s1 v, s1)
    | (Raise x, s1) => (Raise x, s1)
    end.

  Fixpoint exec (st : stmt) (en : env) (s : pomd) {struct st} : outcome * env * pomd :=
    match st with
    | SPass => (ONormal, en, s)
    | SSeq a b =>
        match exec a en s with
        | (ONormal, en1, s1) => exec b en1 s1
        | r => r
        end
    | SAssign x e =>
        match eval en e s with
        | (Ok v, s1) => (ONormal, env_set en x v, s1)
        | (Raise x0, s1) => (ORaise x0, en, s1)
        end
    | SExpr e =>
        match eval en e s with
        | (Ok _, s1) => (ONormal, en, s1)
        | (Raise x0, s1) => (ORaise x0, en, s1)
        end
    | SSetIdx o f v =>
        match eval en v s with
        | (Ok vv, s1) =>
            match eval en o s1 with
            | (Ok (VCell a), s2) =>
                match set_field s2 a f vv with
                | (Ok _, s3) => (ONormal, en, s3)
                | (Raise x0, s3) => (ORaise x0, en, s3)
                end
            | (Ok _, s2) => (ORaise type_error, en, s2)
            | (Raise x0, s2) => (ORaise x0, en, s2)
            end
        | (Raise x0, s1) => (ORaise x0, en, s1)
        end
    | SSetIdx2 o1 f1 o2 f2 v1 v2 =>
        (* the right-hand sides first, then the targets from left to right *)
        match eval en v1 s with
        | (Ok vv1, s1) =>
            match eval en v2 s1 with
            | (Ok vv2, s2) =>
                match eval en o1 s2 with
                | (Ok (VCell a1), s3) =>
                    match set_field s3 a1 f1 vv1 with
                    | (Ok _, s4) =>
                        match eval en o2 s4 with
                        | (Ok (VCell a2), s5) =>
                            match set_field s5 a2 f2 vv2 with
                            | (Ok _, s6) => (ONormal, en, s6)
                            | (Raise x0, s6) => (ORaise x0, en, s6)
                            end
                        | (Ok _, s5) => (ORaise type_error, en, s5)
                        | (Raise x0, s5) => (ORaise x0, en, s5)
                        end
                    | (Raise x0, s4) => (ORaise x0, en, s4)
                    end
                | (Ok _, s3) => (ORaise type_error, en, s3)
                | (Raise x0, s3) => (ORaise x0, en, s3)
                end
            | (Raise x0, s2) => (ORaise x0, en, s2)
            end
        | (Raise x0, s1) => (ORaise x0, en, s1)
        end
    | SAppend o v =>
        match eval en o s with
        | (Ok (VStoreRef k), s1) =>
            match eval en v s1 with
            | (Ok (VTok t), s2) =>
                match d_get (pstore s2) k with
                | Some l => (ONormal, en, pset_store s2 (d_set (pstore s2) k (l ++ [t])))
                | None => (ORaise type_error, en, s2)
                end
            | (Ok _, s2) => (ORaise type_error, en, s2)
            | (Raise x0, s2) => (ORaise x0, en, s2)
            end
        | (Ok (VMapRef k), s1) =>
            match eval en v s1 with
            | (Ok (VCell (S i)), s2) =>
                match d_get (pcmap s2) k with
                | Some l => (ONormal, en, set_cmap s2 (d_set (pcmap s2) k (l ++ [i])))
                | None => (ORaise type_error, en, s2)
                end
            | (Ok _, s2) => (ORaise type_error, en, s2)
            | (Raise x0, s2) => (ORaise x0, en, s2)
            end
        | (Ok _, s1) => (ORaise type_error, en, s1)
        | (Raise x0, s1) => (ORaise x0, en, s1)
        end
    | SExtend o v =>
        match eval en o s with
        | (Ok (VStoreRef k), s1) =>
            match eval en v s1 with
            | (Ok (VToks ts), s2) =>
                match d_get (pstore s2) k with
                | Some l => (ONormal, en, pset_store s2 (d_set (pstore s2) k (l ++ ts)))
                | None => (ORaise type_error, en, s2)
                end
            | (Ok _, s2) => (ORaise type_error, en, s2)
            | (Raise x0, s2) => (ORaise x0, en, s2)
            end
        | (Ok _, s1) => (ORaise type_error, en, s1)
        | (Raise x0, s1) => (ORaise x0, en, s1)
        end
    | SDelMap k =>
        match eval en k s with
        | (Ok (VTok kk), s1) =>
            match d_get (pcmap s1) kk with
            | Some _ => (ONormal, en, set_cmap s1 (d_del (pcmap s1) kk))
            | None => (ORaise KeyError, en, s1)
            end
        | (Ok _, s1) => (ORaise type_error, en, s1)
        | (Raise x0, s1) => (ORaise x0, en, s1)
        end
    | SMapClear => (ONormal, en, set_cmap s [])
    | SRootReset => (ONormal, en, set_heap s h_clear)
    | SInitMap => (ONormal, en, s)
    | SStoreSet k v =>
        match eval en k s with
        | (Ok (VTok kk), s1) =>
            match eval en v s1 with
            | (Ok (VToks l), s2) => (ONormal, en, pset_store s2 (d_set (pstore s2) kk l))
            | (Ok _, s2) => (ORaise type_error, en, s2)
            | (Raise x0, s2) => (ORaise x0, en, s2)
            end
        | (Ok _, s1) => (ORaise type_error, en, s1)
        | (Raise x0, s1) => (ORaise x0, en, s1)
        end
    | SStoreDel k =>
        match eval en k s with
        | (Ok (VTok kk), s1) =>
            match d_get (pstore s1) kk with
            | Some _ => (ONormal, en, pset_store s1 (d_del (pstore s1) kk))
            | None => (ORaise KeyError, en, s1)
            end
        | (Ok _, s1) => (ORaise type_error, en, s1)
        | (Raise x0, s1) => (ORaise x0, en, s1)
        end
    | SStoreClear => (ONormal, en, pset_store s [])
    | SIf c a b =>
        match eval_truth c en s with
        | (Ok true, s1) => exec a en s1
        | (Ok false, s1) => exec b en s1
        | (Raise x0, s1) => (ORaise x0, en, s1)
        end
    | SWhile c b => loop fuel (eval_truth c) (exec b) en s
    | SFor x e b =>
        match eval en e s with
        | (Ok (VToks l), s1) => for_each x l (exec b) en s1
        | (Ok (VKw m), s1) => for_each x (map fst m) (exec b) en s1                (* for k in F *)
        | (Ok (VOtherObj q), s1) => for_each x (pm_iterkeys q) (exec b) en s1      (* for k in <OMD> *)
        | (Ok _, s1) => (ORaise type_error, en, s1)
        | (Raise x0, s1) => (ORaise x0, en, s1)
        end
    | STryKeyError b h =>
        match exec b en s with
        | (ORaise KeyError, en1, s1) => exec h en1 s1
        | r => r
        end
    | SReturn e =>
        match eval en e s with
        | (Ok v, s1) => (OReturn v, en, s1)
        | (Raise x0, s1) => (ORaise x0, en, s1)
        end
    | SRaiseKeyError => (ORaise KeyError, en, s)
    | SSetAdd x k =>
        match eval en k s with
        | (Ok (VTok kk), s1) =>
            match env_get en x with
            | Ok (VSet l) => (ONormal, env_set en x (VSet (kk :: l)), s1)
            | Ok _ => (ORaise type_error, en, s1)
            | Raise x0 => (ORaise x0, en, s1)
            end
        | (Ok _, s1) => (ORaise type_error, en, s1)
        | (Raise x0, s1) => (ORaise x0, en, s1)
        end
    | SYield e =>
        match eval en e s with
        | (Ok (VTok t), s1) =>
            match env_get en acc_toks with
            | Ok (VToks l) => (ONormal, env_set en acc_toks (VToks (l ++ [t])), s1)
            | Ok _ => (ORaise type_error, en, s1)
            | Raise _ => (ONormal, env_set en acc_toks (VToks [t]), s1)
            end
        | (Ok (VItem a b), s1) =>
            match env_get en acc_pairs with
            | Ok (VPairs l) => (ONormal, env_set en acc_pairs (VPairs (l ++ [(a, b)])), s1)
            | Ok _ => (ORaise type_error, en, s1)
            | Raise _ => (ONormal, env_set en acc_pairs (VPairs [(a, b)]), s1)
            end
        | (Ok _, s1) => (ORaise type_error, en, s1)
        | (Raise x0, s1) => (ORaise x0, en, s1)
        end
    | SDictSetdefault d tmp k v =>
        match eval en k s with
        | (Ok (VTok kk), s1) =>
            match env_get en d with
            | Ok (VDict l) =>
                match d_get l kk with
                | Some n => (ONormal, env_set en tmp (VNat n), s1)
                | None => (ONormal, env_set (env_set en d (VDict (d_set l kk v))) tmp (VNat v), s1)
                end
            | Ok _ => (ORaise type_error, en, s1)
            | Raise x0 => (ORaise x0, en, s1)
            end
        | (Ok _, s1) => (ORaise type_error, en, s1)
        | (Raise x0, s1) => (ORaise x0, en, s1)
        end
    | SDictIncr d k =>
        match eval en k s with
        | (Ok (VTok kk), s1) =>
            match env_get en d with
            | Ok (VDict l) =>
                match d_get l kk with
                | Some n => (ONormal, env_set en d (VDict (d_set l kk (S n))), s1)
                | None => (ORaise KeyError, en, s1)
                end
            | Ok _ => (ORaise type_error, en, s1)
            | Raise x0 => (ORaise x0, en, s1)
            end
        | (Ok _, s1) => (ORaise type_error, en, s1)
        | (Raise x0, s1) => (ORaise x0, en, s1)
        end
    | SObjAddPop r m k =>
        match eval en k s with
        | (Ok (VTok kk), s1) =>
            match env_get en m, env_get en r with
            | Ok (VDictL d), Ok (VOtherObj q) =>
                match d_get d kk with
                | None => (ORaise KeyError, en, s1)
                | Some vs =>
                    match rev vs with
                    | [] => (ORaise IndexError, en, s1)
                    | v :: rrest =>
                        let en1 := env_set en m (VDictL (d_set d kk (rev rrest))) in
                        match callee MAdd [VTok kk; VTok v] q with
                        | (Ok _, q') => (ONormal, env_set en1 r (VOtherObj q'), s1)
                        | (Raise x0, q') => (ORaise x0, env_set en1 r (VOtherObj q'), s1)
                        end
                    end
                end
            | Raise x0, _ | _, Raise x0 => (ORaise x0, en, s1)
            | _, _ => (ORaise type_error, en, s1)
            end
        | (Ok _, s1) => (ORaise type_error, en, s1)
        | (Raise x0, s1) => (ORaise x0, en, s1)
        end
    | SRaiseTypeError => (ORaise TypeError, en, s)
    | SSuperInit => (ONormal, en, s)
    | STryTypeError b h =>
        match exec b en s with
        | (ORaise TypeError, en1, s1) => exec h en1 s1
        | r => r
        end
    | SForZip k1 v1 k2 v2 a b body =>
        match eval en a s with
        | (Ok (VPairs la), s1) =>
            match eval en b s1 with
            | (Ok (VPairs lb), s2) => for_zip k1 v1 k2 v2 la lb (exec body) en s2
            | (Ok _, s2) => (ORaise type_error, en, s2)
            | (Raise x0, s2) => (ORaise x0, en, s2)
            end
        | (Ok _, s1) => (ORaise type_error, en, s1)
        | (Raise x0, s1) => (ORaise x0, en, s1)
        end
    | SFor2 x y e b =>
        match eval en e s with
        | (Ok (VPairs l), s1) | (Ok (VArg (APairs l)), s1) => for_each2 x y l (exec b) en s1
        | (Ok _, s1) => (ORaise type_error, en, s1)
        | (Raise x0, s1) => (ORaise x0, en, s1)
        end
    end.

  Fixpoint bind_params (i : nat) (args : list pv) : env :=
    match args with [] => [] | v :: r => (i, v) :: bind_params (S i) r end.

  (* calling a method whose body is [body]: parameters are variables 0, 1, ...; falling off the end
     returns None *)
  Definition run_body (body : stmt) (args : list pv) (s : pomd) : res pv * pomd :=
    match exec body (bind_params 0 args) s with
    | (ONormal, _, s1) => (Ok (VTok none_tok), s1)
    | (OReturn v, _, s1) => (Ok v, s1)
    | (ORaise x, _, s1) => (Raise x, s1)
    end.
End Interp.

(* no method may be called from the bodies of the lowest layer *)
Definition no_callee : meth -> list pv -> pomd -> res pv * pomd := fun _ _ s => (Raise (OtherExn 6), s).
