(* C10 - executable model of boltons.queueutils (BasePriorityQueue,
   HeapPriorityQueue, SortedPriorityQueue) and of the part of
   boltons.listutils.BarrelList the sorted queue runs on, AS WRITTEN.
   Definitions only.

   * entry  [priority, count, task]  = (Z * nat * option K); task None is the
     _REMOVED tombstone.  An entry object is shared by _entry_map and _pq and is
     tombstoned in place; the pure model identifies an entry by its (unique)
     count: [tomb c] rewrites the entry with count c wherever it sits in the
     back end.
   * _entry_map is a Python dict = association list in insertion order
     (Prelude.pydict): task -> (priority, count).
   * effective priority: _default_priority_key = -float(p or 0); priorities are
     ranks in Z (see Spec), so the stored key is [- prio_of p].
   * heapq is modelled twice: concretely in [heapq_backend] (heappush/heappop with
     _siftdown/_siftup on the list, the text of Lib/heapq.py, which _heapq.c
     implements) and by its contract (a bag with pop-min) in [heap_backend];
     bisect.insort_right is the binary search over __len__/__getitem__ followed
     by a call of the container's insert method (Appendix C of DESIGN).
   * BarrelList: lists : list (list A); _cur_size_limit is an arbitrary
     function [limit : nat -> nat] of len(self).
   * loops (while in _cull, _balance_list, bisect) take explicit fuel; running
     out of fuel is the distinguished error [OutOfFuel], never a result.      *)
From Boltons Require Import Lib.Prelude Spec.C10_Spec.

Definition OutOfFuel : exn := OtherExn 0.
Definition UnboundLocal : exn := OtherExn 1.     (* for/else over an empty self.lists *)
Definition ReturnedSentinel : exn := OtherExn 2. (* peek would hand out _REMOVED *)

(* ------------------------------------------------------------------------ *)
(* Python list primitives                                                    *)
(* ------------------------------------------------------------------------ *)
Section PyList.
  Context {A : Type}.

  (* list.insert(i, x): negative indices count from the end, then clamp *)
  Definition py_insert (l : list A) (i : Z) (x : A) : list A :=
    let n := Z.of_nat (length l) in
    let i1 := if (i <? 0)%Z then (i + n)%Z else i in
    let i2 := if (i1 <? 0)%Z then 0%Z else if (n <? i1)%Z then n else i1 in
    let k := Z.to_nat i2 in
    firstn k l ++ x :: skipn k l.

  Definition py_index (l : list A) (i : Z) : option nat :=
    let n := Z.of_nat (length l) in
    let i1 := if (i <? 0)%Z then (i + n)%Z else i in
    if ((i1 <? 0) || (n <=? i1))%Z then None else Some (Z.to_nat i1).

  (* list.pop(i) *)
  Definition py_pop (l : list A) (i : Z) : res (A * list A) :=
    match py_index l i with
    | None => Raise IndexError
    | Some k => match nth_error l k with
                | Some v => Ok (v, firstn k l ++ skipn (S k) l)
                | None => Raise IndexError
                end
    end.

  (* l[i] *)
  Definition py_get (l : list A) (i : Z) : res A :=
    match py_index l i with
    | None => Raise IndexError
    | Some k => match nth_error l k with Some v => Ok v | None => Raise IndexError end
    end.

  Fixpoint set_nth {X} (n : nat) (v : X) (l : list X) : list X :=
    match l, n with
    | [], _ => []
    | _ :: r, O => v :: r
    | x :: r, S m => x :: set_nth m v r
    end.
End PyList.

(* ------------------------------------------------------------------------ *)
(* BarrelList                                                                *)
(* ------------------------------------------------------------------------ *)
Section Barrel.
  Context {A : Type}.
  Variable limit : nat -> nat.          (* _cur_size_limit as a function of len(self) *)

  Definition barrel := list (list A).   (* self.lists *)
  Definition bl_new : barrel := [[]].

  (* __len__ : sum([len(l) for l in self.lists]) *)
  Fixpoint bl_len (ls : barrel) : nat :=
    match ls with [] => 0 | l :: r => length l + bl_len r end.

  (* __iter__ : chain.from_iterable(self.lists) *)
  Definition bl_items (ls : barrel) : list A := concat ls.

  (* _translate_index: the for/else loop.  [i] is list_idx, [rel] is rel_idx. *)
  Fixpoint translate_go (ls : barrel) (i : nat) (rel : Z) : nat * Z :=
    match ls with
    | [] => (i, rel)
    | l :: rest =>
        let n := Z.of_nat (length l) in
        if (rel <? n)%Z then (i, rel)                     (* break *)
        else match rest with
             | [] => (i, (rel - n + n)%Z)                 (* else: rel_idx += len_list *)
             | _ :: _ => translate_go rest (S i) (rel - n)%Z
             end
    end.

  Definition translate_index (ls : barrel) (index : Z) : res (option (nat * Z)) :=
    match ls with
    | [] => Raise UnboundLocal
    | _ =>
      let index1 := if (index <? 0)%Z then (index + Z.of_nat (bl_len ls))%Z else index in
      let '(li, rel) := translate_go ls 0 index1 in
      if (rel <? 0)%Z then Ok None else Ok (Some (li, rel))
    end.

  (* the while loop of _balance_list: move cur_list[-half:] to position
     list_idx+1 until len(cur_list) <= half.  [after] = self.lists[list_idx+1:] *)
  Fixpoint bal_loop (fuel half : nat) (cur : list A) (after : barrel)
    : option (list A * barrel) :=
    if half <? length cur then
      match fuel with
      | O => None
      | S f =>
          (* start of the slice cur_list[-half:]  (-0 is 0: the whole list) *)
          let k := if Nat.eqb half 0 then 0 else length cur - half in
          bal_loop f half (firstn k cur) (skipn k cur :: after)
      end
    else Some (cur, after).

  Definition bl_balance (ls : barrel) (li : nat) : res barrel :=
    match nth_error ls li with
    | None => Raise IndexError
    | Some cur =>
        let size_limit := limit (bl_len ls) in
        if size_limit <? length cur then
          let half := Nat.div size_limit 2 in
          match bal_loop (length cur) half cur (skipn (S li) ls) with
          | None => Raise OutOfFuel
          | Some (cur', after') => Ok (firstn li ls ++ cur' :: after')
          end
        else Ok ls
    end.

  (* insert(index, item) *)
  Definition bl_insert (ls : barrel) (index : Z) (x : A) : res barrel :=
    match ls with
    | [l0] => bl_balance [py_insert l0 index x] 0
    | _ =>
        match translate_index ls index with
        | Raise e => Raise e
        | Ok tr =>
            (* if list_idx is None: list_idx, rel_idx = 0, 0   (before the front: clamp) *)
            let '(li, rel) := match tr with None => (0, 0%Z) | Some p => p end in
            match nth_error ls li with
            | None => Raise IndexError
            | Some l => bl_balance (set_nth li (py_insert l rel x) ls) li
            end
        end
    end.

  (* pop( *a ) : the optional index *)
  (* while len(lists) > 1 and not lists[-1]: lists.pop() *)
  Fixpoint trim_tail (ls : barrel) : barrel :=
    match ls with
    | [] => []
    | l :: rest =>
        match rest with
        | [] => [l]
        | _ :: _ => match trim_tail rest with
                    | [[]] => [l]
                    | r' => l :: r'
                    end
        end
    end.

  Definition bl_pop_last (ls0 : barrel) : res (A * barrel) :=
    let ls := trim_tail ls0 in
    match py_pop (last ls []) (-1) with
    | Raise e => Raise e
    | Ok (v, l') =>
        let ls1 := set_nth (length ls - 1) l' ls in
        if (1 <? length ls) && (match l' with [] => true | _ => false end)
        then Ok (v, removelast ls1) else Ok (v, ls1)
    end.

  Definition bl_pop (ls : barrel) (a : option Z) : res (A * barrel) :=
    match ls, a with
    | [l0], None => match py_pop l0 (-1) with
                    | Raise e => Raise e
                    | Ok (v, l') => Ok (v, [l'])
                    end
    | _, None => bl_pop_last ls
    | _, Some index =>
        if (index =? -1)%Z then bl_pop_last ls
        else match translate_index ls index with
             | Raise e => Raise e
             | Ok None => Raise IndexError
             | Ok (Some (li, rel)) =>
                 match nth_error ls li with
                 | None => Raise IndexError
                 | Some l => match py_pop l rel with
                             | Raise e => Raise e
                             | Ok (v, l') =>
                                 match bl_balance (set_nth li l' ls) li with
                                 | Raise e => Raise e
                                 | Ok ls' => Ok (v, ls')
                                 end
                             end
                 end
             end
    end.

  (* __getitem__(index) for an integer index *)
  Definition bl_get (ls : barrel) (index : Z) : res A :=
    match translate_index ls index with
    | Raise e => Raise e
    | Ok None => Raise IndexError
    | Ok (Some (li, rel)) =>
        match nth_error ls li with
        | None => Raise IndexError
        | Some l => py_get l rel
        end
    end.

  (* bisect.insort_right(a, x): lo, hi = 0, len(a); binary search through
     a[mid]; then a.insert(lo, x) *)
  Variable ltb : A -> A -> bool.

  Fixpoint bisect_loop (fuel : nat) (ls : barrel) (x : A) (lo hi : nat) : res nat :=
    if lo <? hi then
      match fuel with
      | O => Raise OutOfFuel
      | S f =>
          let mid := Nat.div (lo + hi) 2 in
          match bl_get ls (Z.of_nat mid) with
          | Raise e => Raise e
          | Ok y => if ltb x y then bisect_loop f ls x lo mid
                    else bisect_loop f ls x (S mid) hi
          end
      end
    else Ok lo.

  Definition bl_insort (ls : barrel) (x : A) : res barrel :=
    let hi := bl_len ls in
    match bisect_loop hi ls x 0 hi with
    | Raise e => Raise e
    | Ok lo => bl_insert ls (Z.of_nat lo) x
    end.
End Barrel.

(* ------------------------------------------------------------------------ *)
(* entries                                                                   *)
(* ------------------------------------------------------------------------ *)
Definition entry := (Z * nat * option K)%type.
Definition e_prio (e : entry) : Z := fst (fst e).
Definition e_cnt (e : entry) : nat := snd (fst e).
Definition e_task (e : entry) : option K := snd e.

(* list comparison [p1, c1, t1] < [p2, c2, t2]; counts are unique, so the task
   field is never reached (if it were, Python would compare tasks: modelled as
   "not less") *)
Definition entry_ltb (x y : entry) : bool :=
  (e_prio x <? e_prio y)%Z || ((e_prio x =? e_prio y)%Z && (e_cnt x <? e_cnt y)).

(* entry[-1] = _REMOVED on the entry object whose count is c *)
Definition tomb (c : nat) (e : entry) : entry :=
  if Nat.eqb (e_cnt e) c then (e_prio e, e_cnt e, None) else e.

(* ------------------------------------------------------------------------ *)
(* back ends: what a subclass supplies (_backend_type, _push_entry,          *)
(* _pop_entry) plus what the base class does to self._pq directly            *)
(* (truth value, [0]) and the aliasing of entry objects ([b_tomb])           *)
(* ------------------------------------------------------------------------ *)
Record backend := mkBackend {
  B : Type;
  b_empty : B;
  b_push : B -> entry -> res B;             (* _push_entry *)
  b_pop : B -> res (entry * B);             (* _pop_entry *)
  b_first : B -> res entry;                 (* self._pq[0] *)
  b_nonempty : B -> bool;                   (* while self._pq *)
  b_size : B -> nat;                        (* only used as loop fuel *)
  b_tomb : nat -> B -> B
}.

(* heapq by contract: a bag of entries; [0] is the least entry, heappop removes it *)
Fixpoint least (e : entry) (l : list entry) : entry :=
  match l with
  | [] => e
  | x :: r => least (if entry_ltb x e then x else e) r
  end.

Fixpoint remove_cnt (c : nat) (l : list entry) : list entry :=
  match l with
  | [] => []
  | x :: r => if Nat.eqb (e_cnt x) c then r else x :: remove_cnt c r
  end.

Definition heap_first (h : list entry) : res entry :=
  match h with [] => Raise IndexError | e :: r => Ok (least e r) end.

Definition heap_backend : backend := {|
  B := list entry;
  b_empty := [];
  b_push := fun h e => Ok (h ++ [e]);
  b_pop := fun h => match heap_first h with
                    | Raise e => Raise e
                    | Ok m => Ok (m, remove_cnt (e_cnt m) h)
                    end;
  b_first := heap_first;
  b_nonempty := fun h => match h with [] => false | _ => true end;
  b_size := @length entry;
  b_tomb := fun c h => map (tomb c) h
|}.

(* heapq (the pure-Python text of Lib/heapq.py; _heapq.c implements the same
   algorithm): heappush = append + _siftdown(heap, 0, len-1); heappop = pop the
   last element, put it at the root, _siftup(heap, 0). *)
Section Heapq.
  Context {A : Type}.
  Variable ltb : A -> A -> bool.

  (* _siftdown(heap, startpos, pos) with newitem = heap[pos] already read *)
  Fixpoint hq_siftdown (fuel : nat) (h : list A) (startpos pos : nat) (newitem : A) : res (list A) :=
    if startpos <? pos then
      match fuel with
      | O => Raise OutOfFuel
      | S f =>
          let parentpos := Nat.div (pos - 1) 2 in          (* (pos - 1) >> 1 *)
          match nth_error h parentpos with
          | None => Raise IndexError
          | Some parent =>
              if ltb newitem parent
              then hq_siftdown f (set_nth pos parent h) startpos parentpos newitem
              else Ok (set_nth pos newitem h)
          end
      end
    else Ok (set_nth pos newitem h).

  Definition hq_siftdown_at (h : list A) (startpos pos : nat) : res (list A) :=
    match nth_error h pos with
    | None => Raise IndexError
    | Some newitem => hq_siftdown pos h startpos pos newitem
    end.

  Definition hq_push (h : list A) (x : A) : res (list A) :=
    hq_siftdown_at (h ++ [x]) 0 (length (h ++ [x]) - 1).

  (* the while loop of _siftup: bubble the smaller child up until a leaf is hit *)
  Fixpoint hq_siftup_loop (fuel : nat) (h : list A) (endpos pos : nat) : res (list A * nat) :=
    let childpos := 2 * pos + 1 in
    if childpos <? endpos then
      match fuel with
      | O => Raise OutOfFuel
      | S f =>
          let rightpos := childpos + 1 in
          match nth_error h childpos with
          | None => Raise IndexError
          | Some c =>
              let pick := if rightpos <? endpos
                          then match nth_error h rightpos with
                               | Some r => if negb (ltb c r) then Ok rightpos else Ok childpos
                               | None => Raise IndexError
                               end
                          else Ok childpos in
              match pick with
              | Raise e => Raise e
              | Ok cp => match nth_error h cp with
                         | None => Raise IndexError
                         | Some v => hq_siftup_loop f (set_nth pos v h) endpos cp
                         end
              end
          end
      end
    else Ok (h, pos).

  Definition hq_siftup (h : list A) (pos : nat) : res (list A) :=
    match nth_error h pos with
    | None => Raise IndexError
    | Some newitem =>
        match hq_siftup_loop (length h) h (length h) pos with
        | Raise e => Raise e
        | Ok (h', pos') => hq_siftdown_at (set_nth pos' newitem h') pos pos'
        end
    end.

  Definition hq_pop (h : list A) : res (A * list A) :=
    match length h with
    | O => Raise IndexError                                  (* heap.pop() on an empty list *)
    | S n =>
        match nth_error h n with
        | None => Raise IndexError
        | Some lastelt =>
            match firstn n h with
            | [] => Ok (lastelt, [])
            | returnitem :: rest =>
                match hq_siftup (lastelt :: rest) 0 with
                | Raise e => Raise e
                | Ok h2 => Ok (returnitem, h2)
                end
            end
        end
    end.
End Heapq.

Definition heapq_backend : backend := {|
  B := list entry;
  b_empty := [];
  b_push := hq_push entry_ltb;
  b_pop := hq_pop entry_ltb;
  b_first := fun h => match nth_error h 0 with Some e => Ok e | None => Raise IndexError end;
  b_nonempty := fun h => match h with [] => false | _ => true end;
  b_size := @length entry;
  b_tomb := fun c h => map (tomb c) h
|}.


(* sorted BarrelList: insort / pop(0) / [0] / len *)
Definition sorted_backend (limit : nat -> nat) : backend := {|
  B := barrel (A := entry);
  b_empty := bl_new;
  b_push := fun b e => bl_insort limit entry_ltb b e;
  b_pop := fun b => bl_pop limit b (Some 0%Z);
  b_first := fun b => bl_get b 0%Z;
  b_nonempty := fun b => 0 <? bl_len b;
  b_size := bl_len;
  b_tomb := fun c b => map (map (tomb c)) b
|}.

(* ------------------------------------------------------------------------ *)
(* BasePriorityQueue                                                         *)
(* ------------------------------------------------------------------------ *)
Section Queue.
  Variable bk : backend.

  Record pq_state := mkPQ {
    q_pq : B bk;                            (* self._pq *)
    q_map : pydict (Z * nat);               (* self._entry_map : task -> entry (priority, count) *)
    q_counter : nat                         (* next value of self._counter *)
  }.

  Definition q_init : pq_state := mkPQ (b_empty bk) [] 0.

  (* remove(task) *)
  Definition q_remove (st : pq_state) (t : K) : pq_state * res unit :=
    match d_get (q_map st) t with
    | None => (st, Raise KeyError)                         (* self._entry_map.pop(task) *)
    | Some (_, c) => (mkPQ (b_tomb bk c (q_pq st)) (d_del (q_map st) t) (q_counter st), Ok tt)
    end.

  (* add(task, priority) *)
  Definition q_add (st : pq_state) (t : K) (p : option Z) : pq_state * res unit :=
    let prio := (- prio_of p)%Z in
    let st1 := if d_mem (q_map st) t then fst (q_remove st t) else st in
    let c := q_counter st1 in
    let e : entry := (prio, c, Some t) in
    let em := d_set (q_map st1) t (prio, c) in
    match b_push bk (q_pq st1) e with
    | Ok b' => (mkPQ b' em (S c), Ok tt)
    | Raise x => (mkPQ (q_pq st1) em (S c), Raise x)
    end.

  (* _cull(): drop tombstones from the head; IndexError when nothing is left *)
  Fixpoint cull (fuel : nat) (b : B bk) : B bk * res unit :=
    if b_nonempty bk b then
      match fuel with
      | O => (b, Raise OutOfFuel)
      | S f =>
          match b_first bk b with
          | Raise e => (b, Raise e)
          | Ok e =>
              match e_task e with
              | Some _ => (b, Ok tt)
              | None => match b_pop bk b with
                        | Raise x => (b, Raise x)
                        | Ok (_, b') => cull f b'
                        end
              end
          end
      end
    else (b, Raise IndexError).

  Definition with_pq (st : pq_state) (b : B bk) : pq_state := mkPQ b (q_map st) (q_counter st).

  (* except IndexError: default given -> return it, else raise IndexError *)
  Definition handler (d : option dflt) (e : exn) : pq_obs :=
    match e with
    | IndexError => match d with
                    | Some (DTask t) => OTask t       (* return default: the object is also a task *)
                    | Some (DOther v) => ODefault v
                    | None => OErr IndexError
                    end
    | _ => OErr e
    end.

  (* peek(default) *)
  Definition q_peek (st : pq_state) (d : option dflt) : pq_state * pq_obs :=
    let '(b1, r) := cull (b_size bk (q_pq st)) (q_pq st) in
    let st1 := with_pq st b1 in
    match r with
    | Raise e => (st1, handler d e)
    | Ok _ => match b_first bk b1 with
              | Raise e => (st1, handler d e)
              | Ok e => match e_task e with
                        | Some t => (st1, OTask t)
                        | None => (st1, OErr ReturnedSentinel)
                        end
              end
    end.

  (* pop(default) *)
  Definition q_pop (st : pq_state) (d : option dflt) : pq_state * pq_obs :=
    let '(b1, r) := cull (b_size bk (q_pq st)) (q_pq st) in
    let st1 := with_pq st b1 in
    match r with
    | Raise e => (st1, handler d e)
    | Ok _ => match b_pop bk b1 with
              | Raise e => (st1, handler d e)
              | Ok (e, b2) =>
                  let st2 := with_pq st b2 in
                  match e_task e with
                  | None => (st2, OErr KeyError)           (* del self._entry_map[_REMOVED] *)
                  | Some t => if d_mem (q_map st) t
                              then (mkPQ b2 (d_del (q_map st) t) (q_counter st), OTask t)
                              else (st2, OErr KeyError)
                  end
              end
    end.

  Definition unit_obs (r : res unit) : pq_obs :=
    match r with Ok _ => ONone | Raise e => OErr e end.

  Definition q_step (st : pq_state) (op : pq_op) : pq_state * pq_obs :=
    match op with
    | Add t p => let '(st', r) := q_add st t p in (st', unit_obs r)
    | AddBad t e => (st, OErr e)       (* priority = self._get_priority(priority) raises: first statement of add *)
    | Remove t => let '(st', r) := q_remove st t in (st', unit_obs r)
    | Pop d => q_pop st d
    | Peek d => q_peek st d
    | Len => (st, OLen (length (q_map st)))               (* len(self._entry_map) *)
    end.

  Fixpoint q_run (st : pq_state) (ops : list pq_op) : list pq_obs :=
    match ops with
    | [] => []
    | op :: r => let '(st', o) := q_step st op in o :: q_run st' r
    end.
End Queue.

(* ------------------------------------------------------------------------ *)
(* BarrelList driven directly (harness case kind B)                          *)
(* ------------------------------------------------------------------------ *)
Definition bl_step (limit : nat -> nat) (ls : barrel (A := nat)) (op : bl_op)
  : barrel (A := nat) * bl_obs :=
  match op with
  | BInsert i x => match bl_insert limit ls (Z.of_nat i) x with
                   | Ok ls' => (ls', BNone)
                   | Raise e => (ls, BErr e)
                   end
  | BPop i => match bl_pop limit ls (Some (Z.of_nat i)) with
              | Ok (v, ls') => (ls', BVal v)
              | Raise e => (ls, BErr e)
              end
  | BGet i => match bl_get ls (Z.of_nat i) with
              | Ok v => (ls, BVal v)
              | Raise e => (ls, BErr e)
              end
  | BInsertNeg k x => match bl_insert limit ls (- Z.of_nat k)%Z x with
                      | Ok ls' => (ls', BNone)
                      | Raise e => (ls, BErr e)
                      end
  | BPopLast => match bl_pop limit ls None with
                | Ok (v, ls') => (ls', BVal v)
                | Raise e => (ls, BErr e)
                end
  | BPopNeg k => match bl_pop limit ls (Some (- Z.of_nat k)%Z) with
                 | Ok (v, ls') => (ls', BVal v)
                 | Raise e => (ls, BErr e)
                 end
  | BGetNeg k => match bl_get ls (- Z.of_nat k)%Z with
                 | Ok v => (ls, BVal v)
                 | Raise e => (ls, BErr e)
                 end
  | BLen => (ls, BLenIs (bl_len ls))
  | BList => (ls, BItems (bl_items ls))
  end.

Fixpoint bl_run (limit : nat -> nat) (ls : barrel (A := nat)) (ops : list bl_op) : list bl_obs :=
  match ops with
  | [] => []
  | op :: r => let '(ls', o) := bl_step limit ls op in o :: bl_run limit ls' r
  end.

(* size limit as a step function: [(threshold, value); ...] with ascending
   thresholds; value of the last pair whose threshold <= n (0 before the first).
   Binary numbers: the real limits (1520 * log2 (n+2)) are in the thousands. *)
Fixpoint limit_of_N (tbl : list (N * N)) (n : N) : N :=
  match tbl with
  | [] => 0%N
  | (th, v) :: r => if (n <? th)%N then 0%N
                    else match r with
                         | (th2, _) :: _ => if (n <? th2)%N then v else limit_of_N r n
                         | [] => v
                         end
  end.
Definition limit_of (tbl : list (N * N)) (n : nat) : nat := N.to_nat (limit_of_N tbl (N.of_nat n)).
