(* An interpreter for the tiny straight-line Python subset in which the five
   linked-list helpers of boltons.cacheutils.LRI are written (assignments,
   chained assignments, subscripts with PREV/NEXT/KEY/VALUE, self._anchor,
   self._link_lookup[...], .pop, del, a 4-element list display, return).
   harness/translators/c02_helpers.py regenerates the five programs from the
   source on every run (coq/Gen/C02_Gen.v); Props/C02.v proves that interpreting
   them IS the pointer-level model (Model/C02_PtrModel.v).  Definitions only. *)
From Boltons Require Import Lib.Prelude Lib.C02_Syntax Model.C02_Model Model.C02_PtrModel.
Open Scope nat_scope.

Inductive fld := PREV | NEXT | KEY | VALUE.

Inductive expr :=
| EVar (x : nat)                      (* a local variable (numbered in order of first assignment) *)
| EKey | EValue                       (* the parameters key, value *)
| EAnchor                             (* self._anchor *)
| EMissing                            (* _MISSING *)
| EField (e : expr) (f : fld)         (* e[f] *)
| ELookup (e : expr)                  (* self._link_lookup[e] *)
| ELookupPop (e : expr)               (* self._link_lookup.pop(e) *)
| ENewCell (e1 e2 e3 e4 : expr)       (* [e1, e2, e3, e4] *)
| ENewEmpty.                          (* [] *)

Inductive target :=
| TVar (x : nat)
| TField (e : expr) (f : fld)         (* e[f] = ... *)
| TAnchor                             (* self._anchor = ... *)
| TLookup (e : expr).                 (* self._link_lookup[e] = ... *)

Inductive stmt :=
| SAssign (ts : list target) (e : expr)        (* t1 = t2 = ... = e (targets assigned left to right) *)
| SFill (x : nat) (e1 e2 e3 e4 : expr)         (* x[:] = [e1, e2, e3, e4] *)
| SLookupClear                                 (* self._link_lookup = {} *)
| SLookupDel (e : expr)                        (* del self._link_lookup[e] *)
| SReturn (e : expr).

(* dynamically typed values *)
Inductive dv :=
| DCell (i : id)
| DKeyO (k : option K)       (* what a KEY field holds: a key, or _MISSING *)
| DValO (v : option V)       (* what a VALUE field holds *)
| DMissing
| DNone.

Definition env := nat -> dv.
Definition eupd (r : env) (x : nat) (v : dv) : env := fun y => if Nat.eqb y x then v else r y.

Record istate := mkIS { is_ring : pring; is_env : env }.

Definition with_ring (s : istate) (pr : pring) : istate := mkIS pr (is_env s).

Definition as_key (v : dv) : option (option K) :=
  match v with DKeyO k => Some k | DMissing => Some None | _ => None end.
Definition as_val (v : dv) : option (option V) :=
  match v with DValO x => Some x | DMissing => Some None | _ => None end.
Definition as_cell (v : dv) : option id :=
  match v with DCell i => Some i | _ => None end.

(* None = KeyError (or a construct applied to the wrong kind of value) *)
Fixpoint eval (k : K) (v : V) (s : istate) (e : expr) : option (dv * istate) :=
  let pr := is_ring s in
  match e with
  | EVar x => Some (is_env s x, s)
  | EKey => Some (DKeyO (Some k), s)
  | EValue => Some (DValO (Some v), s)
  | EAnchor => Some (DCell (pr_anchor pr), s)
  | EMissing => Some (DMissing, s)
  | EField e1 f =>
      match eval k v s e1 with
      | Some (DCell i, s1) =>
          let c := pr_heap (is_ring s1) i in
          Some (match f with
                | PREV => DCell (c_prev c) | NEXT => DCell (c_next c)
                | KEY => DKeyO (c_key c) | VALUE => DValO (c_val c)
                end, s1)
      | _ => None
      end
  | ELookup e1 =>
      match eval k v s e1 with
      | Some (DKeyO (Some k1), s1) =>
          match d_get (pr_lookup (is_ring s1)) k1 with
          | Some n => Some (DCell n, s1)
          | None => None
          end
      | _ => None
      end
  | ELookupPop e1 =>
      match eval k v s e1 with
      | Some (DKeyO (Some k1), s1) =>
          let p := is_ring s1 in
          match d_get (pr_lookup p) k1 with
          | Some n => Some (DCell n, with_ring s1 (mkPR (pr_heap p) (pr_anchor p) (d_del (pr_lookup p) k1) (pr_fresh p)))
          | None => None
          end
      | _ => None
      end
  | ENewCell e1 e2 e3 e4 =>
      match eval k v s e1 with
      | Some (v1, s1) =>
        match eval k v s1 e2 with
        | Some (v2, s2) =>
          match eval k v s2 e3 with
          | Some (v3, s3) =>
            match eval k v s3 e4 with
            | Some (v4, s4) =>
                match as_cell v1, as_cell v2, as_key v3, as_val v4 with
                | Some p, Some n, Some ko, Some vo =>
                    let r := is_ring s4 in
                    let i := pr_fresh r in
                    Some (DCell i, with_ring s4 (mkPR (upd (pr_heap r) i (mkCell p n ko vo)) (pr_anchor r) (pr_lookup r) (S i)))
                | _, _, _, _ => None
                end
            | None => None end
          | None => None end
        | None => None end
      | None => None
      end
  | ENewEmpty =>
      let r := is_ring s in
      Some (DCell (pr_fresh r), with_ring s (mkPR (pr_heap r) (pr_anchor r) (pr_lookup r) (S (pr_fresh r))))
  end.

Definition write_field (pr : pring) (i : id) (f : fld) (x : dv) : option pring :=
  let h := pr_heap pr in
  match f with
  | PREV => match as_cell x with Some j => Some (mkPR (set_prev h i j) (pr_anchor pr) (pr_lookup pr) (pr_fresh pr)) | None => None end
  | NEXT => match as_cell x with Some j => Some (mkPR (set_next h i j) (pr_anchor pr) (pr_lookup pr) (pr_fresh pr)) | None => None end
  | KEY => match as_key x with Some ko => Some (mkPR (set_key h i ko) (pr_anchor pr) (pr_lookup pr) (pr_fresh pr)) | None => None end
  | VALUE => match as_val x with Some vo => Some (mkPR (set_val h i vo) (pr_anchor pr) (pr_lookup pr) (pr_fresh pr)) | None => None end
  end.

Definition assign (k : K) (v : V) (s : istate) (t : target) (x : dv) : option istate :=
  match t with
  | TVar y => Some (mkIS (is_ring s) (eupd (is_env s) y x))
  | TField e f =>
      match eval k v s e with
      | Some (DCell i, s1) =>
          match write_field (is_ring s1) i f x with
          | Some pr => Some (with_ring s1 pr)
          | None => None
          end
      | _ => None
      end
  | TAnchor =>
      match as_cell x with
      | Some i => let r := is_ring s in Some (with_ring s (mkPR (pr_heap r) i (pr_lookup r) (pr_fresh r)))
      | None => None
      end
  | TLookup e =>
      match eval k v s e, as_cell x with
      | Some (DKeyO (Some k1), s1), Some n =>
          let r := is_ring s1 in
          Some (with_ring s1 (mkPR (pr_heap r) (pr_anchor r) (d_set (pr_lookup r) k1 n) (pr_fresh r)))
      | _, _ => None
      end
  end.

Fixpoint assign_all (k : K) (v : V) (s : istate) (ts : list target) (x : dv) : option istate :=
  match ts with
  | [] => Some s
  | t :: rest => match assign k v s t x with Some s1 => assign_all k v s1 rest x | None => None end
  end.

(* one statement: the new state, and the returned value if it was a return *)
Definition exec1 (k : K) (v : V) (s : istate) (st : stmt) : option (istate * option dv) :=
  match st with
  | SAssign ts e =>
      match eval k v s e with
      | Some (x, s1) => match assign_all k v s1 ts x with Some s2 => Some (s2, None) | None => None end
      | None => None
      end
  | SFill x e1 e2 e3 e4 =>
      match as_cell (is_env s x), eval k v s e1 with
      | Some i, Some (v1, s1) =>
        match eval k v s1 e2 with
        | Some (v2, s2) =>
          match eval k v s2 e3 with
          | Some (v3, s3) =>
            match eval k v s3 e4 with
            | Some (v4, s4) =>
                match as_cell v1, as_cell v2, as_key v3, as_val v4 with
                | Some p, Some n, Some ko, Some vo =>
                    let r := is_ring s4 in
                    Some (with_ring s4 (mkPR (upd (pr_heap r) i (mkCell p n ko vo)) (pr_anchor r) (pr_lookup r) (pr_fresh r)), None)
                | _, _, _, _ => None
                end
            | None => None end
          | None => None end
        | None => None end
      | _, _ => None
      end
  | SLookupClear =>
      let r := is_ring s in Some (with_ring s (mkPR (pr_heap r) (pr_anchor r) [] (pr_fresh r)), None)
  | SLookupDel e =>
      match eval k v s e with
      | Some (DKeyO (Some k1), s1) =>
          let r := is_ring s1 in
          if d_mem (pr_lookup r) k1
          then Some (with_ring s1 (mkPR (pr_heap r) (pr_anchor r) (d_del (pr_lookup r) k1) (pr_fresh r)), None)
          else None
      | _ => None
      end
  | SReturn e =>
      match eval k v s e with
      | Some (x, s1) => Some (s1, Some x)
      | None => None
      end
  end.

Fixpoint exec (k : K) (v : V) (s : istate) (prog : list stmt) : option (pring * dv) :=
  match prog with
  | [] => Some (is_ring s, DNone)
  | st :: rest =>
      match exec1 k v s st with
      | Some (s1, Some x) => Some (is_ring s1, x)
      | Some (s1, None) => exec k v s1 rest
      | None => None
      end
  end.

(* run a helper: key and value are its parameters (unused ones are ignored) *)
Definition run_helper (prog : list stmt) (pr : pring) (k : K) (v : V) : option (pring * dv) :=
  exec k v (mkIS pr (fun _ => DNone)) prog.
