(* Executable model of boltons.urlutils quoting / parsing / rendering AS WRITTEN
   (after the fix: commits listed in notes/C06.md).  Definitions only.
   Text = list of code points.  Data tables (quote maps, delimiter sets, hex map,
   scheme registries) are a parameter: the check instantiates them with
   Gen/C06_Gen.v, regenerated from the source on every run.  Stdlib codecs that
   the code calls (unicodedata.normalize, the idna codec, socket.inet_pton) are
   oracle functions, also a parameter. *)
From Boltons Require Import Lib.Prelude Lib.C06_Text.
Open Scope N_scope.

(* ---- results: ok / Python exception / outside the modelled domain ------------ *)
Inductive mres (A : Type) := MOk (a : A) | MRaise (e : exn) | MOut (why : N).
Arguments MOk {A} a.
Arguments MRaise {A} e.
Arguments MOut {A} why.
Definition mbind {A B} (x : mres A) (f : A -> mres B) : mres B :=
  match x with MOk a => f a | MRaise e => MRaise e | MOut w => MOut w end.
Notation "'do' x <- e1 ; e2" := (mbind e1 (fun x => e2)) (at level 200, x pattern, e1 at level 100, e2 at level 200).

(* ---- data carried by the module (regenerated) -------------------------------- *)
Record tables := mkTables {
  t_user_map : list text;  t_path_map : list text;       (* _*_QUOTE_MAP[chr(i)], i = 0..255 *)
  t_query_map : list text; t_frag_map : list text;
  t_user_delims : list N;  t_path_delims : list N;       (* _*_DELIMS *)
  t_query_delims : list N; t_frag_delims : list N;
  t_hex : list (N * N * N);                              (* _HEX_CHAR_MAP: (a, b) -> byte *)
  t_ports : list (text * option Z);                      (* SCHEME_PORT_MAP *)
  t_nonetloc : list text                                 (* NO_NETLOC_SCHEMES *)
}.

(* ---- stdlib oracles --------------------------------------------------------------- *)
Inductive inet6_result := V6Ok | V6OSError | V6UnicodeError.
Record oracles := mkOracles {
  o_nfc : text -> text;                     (* unicodedata.normalize('NFC', s) *)
  o_idna_dec : text -> mres text;           (* s.encode('ascii').decode('idna'); MRaise = UnicodeError *)
  o_idna_enc : text -> mres text;           (* s.encode('idna').decode('ascii') *)
  o_inet4 : text -> mres bool;              (* inet_pton(AF_INET, s) succeeds *)
  o_inet6 : text -> mres inet6_result;      (* inet_pton(AF_INET6, s): ok / OSError or ValueError / UnicodeEncodeError *)
  o_int : text -> mres (option Z)           (* int(s) for a text with non-ASCII characters; None = ValueError *)
}.

Inductive comp := CUser | CPath | CQuery | CFrag.

Section Model.
Variable T : tables.
Variable O : oracles.

Definition qmap (c : comp) : list text :=
  match c with CUser => t_user_map T | CPath => t_path_map T
             | CQuery => t_query_map T | CFrag => t_frag_map T end.
Definition qdelims (c : comp) : list N :=
  match c with CUser => t_user_delims T | CPath => t_path_delims T
             | CQuery => t_query_delims T | CFrag => t_frag_delims T end.

(* _X_QUOTE_MAP[b]; a missing key would be a KeyError, which never happens for
   b < 256 (checked: the generated maps have 256 entries) *)
Definition map_get (m : list text) (b : N) : text := nth (N.to_nat b) m [].

(* quote_*_part(text, full_quote=True):
     bytestr = normalize('NFC', text).encode('utf8'); ''.join(MAP[b] for b in bytestr) *)
Definition quote_bytes (c : comp) (bs : list N) : text := flat_map (map_get (qmap c)) bs.
Definition quote_full (c : comp) (s : text) : text := quote_bytes c (utf8_enc (o_nfc O s)).
(* full_quote=False: ''.join(MAP[t] if t in DELIMS else t for t in text) *)
Definition quote_min (c : comp) (s : text) : text :=
  flat_map (fun t => if memN t (qdelims c) then map_get (qmap c) t else [t]) s.
Definition quote (full : bool) (c : comp) (s : text) : text :=
  if full then quote_full c s else quote_min c s.

(* ---- unquote_to_bytes: split on '%', look the next two characters up ----------- *)
Fixpoint hex_lookup (m : list (N * N * N)) (a b : N) : option N :=
  match m with
  | [] => None
  | (x, y, v) :: r => if (x =? a) && (y =? b) then Some v else hex_lookup r a b
  end.

Definition unq_item (item : text) : text :=
  match item with
  | a :: b :: rest =>
      match hex_lookup (t_hex T) a b with
      | Some v => v :: rest                       (* append(_HEX_CHAR_MAP[item[:2]]); append(item[2:]) *)
      | None => 37 :: item                        (* except KeyError: append(b'%'); append(item) *)
      end
  | _ => 37 :: item
  end.

(* argument: an ASCII string (bytes = code points) *)
Definition unquote_to_bytes (s : text) : list N :=
  match split_on 37 s with
  | [] => []
  | first :: items => first ++ flat_map unq_item items
  end.

(* _ASCII_RE.split: maximal ASCII runs alternate with non-ASCII stretches *)
Fixpoint ascii_runs (s : text) : list (bool * text) :=
  match s with
  | [] => []
  | c :: r =>
    match ascii_runs r with
    | (a, run) :: q => if Bool.eqb a (is_ascii c) then (a, c :: run) :: q
                       else (is_ascii c, [c]) :: (a, run) :: q
    | [] => [(is_ascii c, [c])]
    end
  end.

(* unquote(string): untouched unless it contains '%' *)
Definition unquote (s : text) : text :=
  if memN 37 s
  then flat_map (fun '(a, run) => if (a : bool) then utf8_dec (unquote_to_bytes run) else run) (ascii_runs s)
  else s.

(* `unquote(x) if '%' in x else x` (URL.__init__): same function *)
Definition unq_if_pct (s : text) : text := if memN 37 s then unquote s else s.

(* ---- _URL_RE as deterministic span functions --------------------------------------- *)
Definition not_in (l : list N) (c : N) : bool := negb (memN c l).

Record re_groups := mkRe {
  g_scheme : option text; g_authority : option text; g_path : text;
  g_query : option text; g_fragment : option text }.

Definition url_re (s : text) : re_groups :=
  (* optional scheme group: a non-empty run of characters other than : / ? # followed by ':' *)
  let '(run, rest) := span (not_in [58; 47; 63; 35]) s in
  let '(sch, s1) := match run, rest with
                    | _ :: _, 58 :: r => (Some run, r)
                    | _, _ => (None, s)
                    end in
  (* optional '//' + authority: run of characters other than / ? # *)
  let '(au, s2) := match s1 with
                   | 47 :: 47 :: r => let '(a, r') := span (not_in [47; 63; 35]) r in (Some a, r')
                   | _ => (None, s1)
                   end in
  (* path: run of characters other than ? # *)
  let '(path, s3) := span (not_in [63; 35]) s2 in
  (* optional '?' + query: run of characters other than # *)
  let '(q, s4) := match s3 with
                  | 63 :: r => let '(a, r') := span (not_in [35]) r in (Some a, r')
                  | _ => (None, s3)
                  end in
  (* optional '#' + fragment: everything that is left (re.DOTALL) *)
  let f := match s4 with 35 :: r => Some r | _ => None end in
  mkRe sch au path q f.

(* ---- parse_host / parse_url ------------------------------------------------------------ *)
Definition URLParseErr {A} : mres A := MRaise URLParseError.

Definition last_is (c : N) (s : text) : bool :=
  match rev s with x :: _ => x =? c | [] => false end.

(* returns (family, host): family 0 = None, 4 = AF_INET, 6 = AF_INET6 *)
Definition parse_host (host : text) : mres (N * text) :=
  match host with
  | [] => MOk (0, [])
  | h0 :: _ =>
    let try4 (h : text) :=
      do ok <- o_inet4 O h; MOk ((if (ok : bool) then 4 else 0), h) in
    if memN 58 host && (h0 =? 91) && last_is 93 host then
      let inner := removelast (tl host) in
      do r <- o_inet6 O inner;
      match r with
      | V6Ok => MOk (6, inner)
      | V6OSError => URLParseErr
      | V6UnicodeError => try4 inner
      end
    else try4 host
  end.

Record parsed := mkParsed {
  pu_scheme : option text; pu_sep : bool; pu_user : text; pu_pass : text;
  pu_family : N; pu_host : text; pu_port : option Z;
  pu_path : text; pu_query : option text; pu_fragment : option text }.

Definition all_ascii (s : text) : bool := forallb is_ascii s.

(* userinfo, sep, hostinfo = au_text.rpartition('@'); user, _, pw = userinfo.partition(':') *)
Definition split_userinfo (au : text) : text * text * text :=
  match au with
  | [] => ([], [], au)
  | _ => match rpartition 64 au with
         | Some (userinfo, hi) => let '(u, _, p) := partition 58 userinfo in (u, p, hi)
         | None => ([], [], au)
         end
  end.

(* try: port = int(port_str)  except ValueError: (raise URLParseError if port_str else port = None) *)
Definition port_of (port_str : text) : mres (option Z) :=
  if all_ascii port_str then
    match py_int port_str with
    | Some p => MOk (Some p)
    | None => match port_str with [] => MOk None | _ => URLParseErr end
    end
  else                                      (* int() of non-ASCII text: Unicode digits/blanks, asked of the oracle *)
    do r <- o_int O port_str;
    match r with
    | Some p => MOk (Some p)
    | None => URLParseErr
    end.

(* host, sep, port_str = hostinfo.partition(':'), the IPv6 bracket repair, int(port_str) *)
Definition split_hostport (hostinfo : text) : mres (text * option Z) :=
  match hostinfo with
  | [] => MOk ([], None)
  | _ =>
    let '(host, sep, port_str) := partition 58 hostinfo in
    if (sep : bool) then
      let '(host, port_str) :=
        if (match host with h0 :: _ => h0 =? 91 | [] => false end) && memN 93 port_str then
          let '(host_right, _, ps) := partition 93 port_str in
          (host ++ [58] ++ host_right ++ [93],
           match ps with 58 :: r => r | _ => ps end)
        else (host, port_str) in
      do p <- port_of port_str; MOk (host, p)
    else MOk (host, None)
  end.

Definition parse_url (s : text) : mres parsed :=
  let g := url_re s in
  let au := match g_authority g with Some a => a | None => [] end in
  let '(user, pw, hostinfo) := split_userinfo au in
  do hp <- split_hostport hostinfo;
  let '(host, port) := hp in
  do fh <- parse_host host;
  let '(family, host) := fh in
  MOk (mkParsed (g_scheme g) (match g_authority g with Some _ => true | None => false end)
                user pw family host port (g_path g) (g_query g) (g_fragment g)).

(* ---- parse_qsl (keep_blank_values=True) --------------------------------------------------- *)
Definition qsl_pair (pair : text) : text * option text :=
  let '(key, sep, value) := partition 61 pair in
  let key := unquote (replace_char 43 32 key) in
  match value with
  | [] => (key, if (sep : bool) then Some [] else None)
  | _ => (key, Some (unquote (replace_char 43 32 value)))
  end.

Definition parse_qsl (qs : text) : list (text * option text) :=
  let pairs := flat_map (split_on 59) (split_on 38 qs) in
  map qsl_pair (filter (fun p => match p with [] => false | _ => true end) pairs).

(* ---- the URL object --------------------------------------------------------------------------- *)
Record url := mkU {
  u_scheme : text; u_sep : bool;               (* _netloc_sep == '//' *)
  u_user : text; u_pass : text; u_family : N; u_host : text; u_port : option Z;
  u_path : list text; u_query : list (text * option text); u_frag : text }.

Definition opt_text (o : option text) : text := match o with Some t => t | None => [] end.

(* self.host: ASCII host text goes through the idna codec (UnicodeError -> URLParseError) *)
Definition decode_host (h : text) : mres text :=
  match h with
  | [] => MOk []
  | _ => if all_ascii h
         then match o_idna_dec O h with
              | MRaise _ => URLParseErr
              | r => r
              end
         else MOk h
  end.

(* URL(text) for str text *)
Definition url_init (s : text) : mres url :=
  match s with
  | [] => MOk (mkU [] false [] [] 0 [] None [[]] [] [])     (* DEFAULT_PARSED_URL *)
  | _ =>
    do p <- parse_url s;
    do host <- decode_host (pu_host p);
    MOk (mkU (opt_text (pu_scheme p)) (pu_sep p)
             (unq_if_pct (pu_user p)) (unq_if_pct (pu_pass p))
             (pu_family p) host (pu_port p)
             (map unq_if_pct (split_on 47 (pu_path p)))
             (parse_qsl (opt_text (pu_query p)))
             (unq_if_pct (opt_text (pu_fragment p))))
  end.

(* URL.from_parts(scheme, host, path_parts, (), fragment, port, username, password)
   followed by query_params.add(k, v) for every pair *)
Definition from_parts (scheme host : text) (port : option Z) (user pw : text)
  (path : list text) (q : list (text * option text)) (frag : text) : url :=
  mkU scheme false user pw 0 host port (match path with [] => [[]] | _ => path end) q frag.

(* u = URL(base); u.username = ..; u.password = ..; u.path_parts = ..; u.fragment = ..; adds *)
Definition with_parts (u : url) (user pw : text) (path : list text)
  (q : list (text * option text)) (frag : text) : url :=
  mkU (u_scheme u) (u_sep u) user pw (u_family u) (u_host u) (u_port u) path (u_query u ++ q) frag.

(* ---- scheme registries ---------------------------------------------------------------------------- *)
Fixpoint assoc_text {B} (k : text) (l : list (text * B)) : option B :=
  match l with
  | [] => None
  | (k', v) :: r => if text_eqb k k' then Some v else assoc_text k r
  end.
Definition mem_text (k : text) (l : list text) : bool := existsb (text_eqb k) l.
Definition last_plus_part (s : text) : text := last (split_on 43 s) [].

Definition uses_netloc (u : url) : bool :=
  match assoc_text (u_scheme u) (t_ports T) with
  | Some _ => true
  | None =>
    if mem_text (u_scheme u) (t_nonetloc T) then false
    else match assoc_text (last_plus_part (u_scheme u)) (t_ports T) with
         | Some _ => true
         | None => u_sep u
         end
  end.

Definition default_port (u : url) : option Z :=
  match assoc_text (u_scheme u) (t_ports T) with
  | Some p => p
  | None => match assoc_text (last_plus_part (u_scheme u)) (t_ports T) with
            | Some p => p
            | None => None
            end
  end.

Definition optZ_eqb (a b : option Z) : bool :=
  match a, b with
  | Some x, Some y => Z.eqb x y
  | None, None => true
  | _, _ => false
  end.

(* ---- rendering --------------------------------------------------------------------------------------- *)
Definition nonempty (s : text) : bool := match s with [] => false | _ => true end.

(* if self.port and self.port != self.default_port: ':' + str(self.port) *)
Definition port_text (u : url) : text :=
  match u_port u with
  | Some p => if negb (Z.eqb p 0) && negb (optZ_eqb (Some p) (default_port u))
              then 58 :: str_of_Z p else []
  | None => []
  end.

(* get_authority(full_quote, with_userinfo=True); userinfo is always fully quoted *)
Definition get_authority (full : bool) (u : url) : mres text :=
  let userinfo :=
    if nonempty (u_user u) || nonempty (u_pass u)
    then quote_full CUser (u_user u)
         ++ (if nonempty (u_pass u) then 58 :: quote_full CUser (u_pass u) else [])
         ++ [64]
    else [] in
  match u_host u with
  | [] => MOk userinfo
  | h =>
    do ht <- (if (u_family u =? 6) || memN 58 h then MOk ([91] ++ h ++ [93])
              else if full then match o_idna_enc O h with
                                | MRaise _ => MRaise (OtherExn 1)    (* UnicodeError from the idna codec *)
                                | r => r
                                end
              else MOk h);
    MOk (userinfo ++ ht ++ port_text u)
  end.

Definition query_to_text (full : bool) (q : list (text * option text)) : text :=
  join [38] (map (fun '(k, v) =>
                    match v with
                    | None => quote full CQuery k
                    | Some v => quote full CQuery k ++ [61] ++ quote full CQuery v
                    end) q).

Definition to_text (full : bool) (u : url) : mres text :=
  let scheme := u_scheme u in
  let path := join [47] (map (quote full CPath) (u_path u)) in
  do authority <- get_authority full u;
  let qs := query_to_text full (u_query u) in
  let fragment := quote full CFrag (u_frag u) in
  MOk ((if nonempty scheme then scheme ++ [58] else [])
       ++ (if nonempty authority then [47; 47] ++ authority
           else if (match path with 47 :: 47 :: _ => true | _ => false end)
                   || (nonempty scheme
                       && (match path with [] => true | 47 :: _ => true | _ => false end)
                       && uses_netloc u) then [47; 47] else [])
       ++ (if nonempty path
           then (if nonempty scheme && nonempty authority
                    && negb (match path with 47 :: _ => true | _ => false end) then [47] else [])
                ++ path
           else [])
       ++ (if nonempty qs then 63 :: qs else [])
       ++ (if nonempty fragment then 35 :: fragment else [])).

(* ---- find_all_links: the handling of the matches of _FIND_ALL_URL_RE ------------------------------------
   The regular expression itself is an oracle: [spans] are the (start, end) offsets of its successive matches
   (match.start(1), match.end(1); group 0 = group 1).  Items of the result: (true, URL) | (false, text). *)
Definition slice (t : text) (a b : nat) : text := firstn (b - a) (skipn a t).

(* what is assumed of the oracle: the matches of a regular expression that cannot match the empty string come in
   order, do not overlap and lie inside the text (checked on the implementation's matches in every links case) *)
Fixpoint spans_okb (n prev : nat) (spans : list (nat * nat)) : bool :=
  match spans with
  | [] => true
  | (a, b) :: r => Nat.leb prev a && Nat.ltb a b && Nat.leb b n && spans_okb n b r
  end.

(* _add_text: glue onto a preceding text piece *)
Definition add_text (ret : list (bool * url + text)) (s : text) : list (bool * url + text) :=
  match rev ret with
  | inr s0 :: r => rev r ++ [inr (s0 ++ s)]
  | _ => ret ++ [inr s]
  end.

Definition fal_step (with_text : bool) (ds : option text) (schemes : list text) (t : text)
  (st : nat * list (bool * url + text)) (span : nat * nat) : mres (nat * list (bool * url + text)) :=
  let '(prev_end, ret) := st in
  let '(start, end_) := span in
  let ret := if Nat.ltb prev_end start && with_text then ret ++ [inr (slice t prev_end start)] else ret in
  let cur := slice t start end_ in
  (* except URLParseError: if with_text: _add_text(text[start:end]) *)
  let on_error := MOk (end_, if with_text then add_text ret cur else ret) in
  let finish (u : url) :=
    if match schemes with [] => false | _ => negb (mem_text (u_scheme u) schemes) end
    then MOk (end_, add_text ret cur)
    else MOk (end_, ret ++ [inl (true, u)]) in
  match url_init cur with
  | MRaise URLParseError => on_error
  | MOk u =>
    match u_scheme u with
    | [] =>
      match ds with
      | Some d =>
        match url_init (d ++ [58; 47; 47] ++ cur) with
        | MRaise URLParseError => on_error
        | MOk u2 => finish u2
        | MRaise e => MRaise e
        | MOut w => MOut w
        end
      | None => MOk (end_, add_text ret cur)
      end
    | _ => finish u
    end
  | MRaise e => MRaise e
  | MOut w => MOut w
  end.

Fixpoint fal_loop (with_text : bool) (ds : option text) (schemes : list text) (t : text)
  (spans : list (nat * nat)) (st : nat * list (bool * url + text)) : mres (nat * list (bool * url + text)) :=
  match spans with
  | [] => MOk st
  | sp :: r => do st' <- fal_step with_text ds schemes t st sp; fal_loop with_text ds schemes t r st'
  end.

Definition find_all_links (with_text : bool) (ds : option text) (schemes : list text) (t : text)
  (spans : list (nat * nat)) : mres (list (bool * url + text)) :=
  do st <- fal_loop with_text ds schemes t spans (0%nat, []);
  let '(prev_end, ret) := st in
  MOk (if with_text
       then match skipn prev_end t with [] => ret | tail => add_text ret tail end
       else ret).

End Model.
