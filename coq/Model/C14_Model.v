(* Executable model of the strutils encoders of property C14, following the
   code of boltons/strutils.py as written: args2sh, args2cmd,
   escape_shell_args, parse_int_list, format_int_list, complement_int_list,
   int_ranges_from_int_list, gzip_bytes / gunzip_bytes (container framing; the
   deflate coder is an abstract oracle).  Definitions only.

   Text = list of code points, bytes = list of byte values (Lib/C14_Text). *)
From Boltons Require Import Lib.Prelude Lib.C14_Text.
Open Scope N_scope.

(* ========================================================================= *)
(* args2sh                                                                    *)
(* ========================================================================= *)

(* arg.replace(squote, squote dquote squote dquote squote) *)
Definition sq_splice : text := [c_sq; c_dq; c_sq; c_dq; c_sq].
Definition replace_sq (arg : text) : text :=
  flat_map (fun c => if c =? c_sq then sq_splice else [c]) arg.

Section Sh.
  (* the class of characters NOT matched by _find_sh_unsafe; instantiated with
     the table regenerated from the source (Gen/C14_Gen.v) *)
  Variable safe : N -> bool.

  (* _find_sh_unsafe(arg) is None *)
  Definition all_safe (arg : text) : bool := forallb safe arg.

  Definition sh_piece (arg : text) : text :=
    match arg with
    | [] => [c_sq; c_sq]                                   (* if not arg *)
    | _ => if all_safe arg then arg
           else [c_sq] ++ replace_sq arg ++ [c_sq]
    end.

  (* the sep argument is accepted and ignored by the code: ' '.join(ret_list) *)
  Definition args2sh (args : list text) : text := join [c_sp] (map sh_piece args).
End Sh.

(* ========================================================================= *)
(* args2cmd: result is the list of pieces flattened, bs_buf a count           *)
(* ========================================================================= *)

Fixpoint cmd_loop (result : text) (bs_buf : nat) (arg : text) : text * nat :=
  match arg with
  | [] => (result, bs_buf)
  | c :: r =>
      if c =? c_bs then cmd_loop result (S bs_buf) r
      else if c =? c_dq then cmd_loop (result ++ repeat c_bs (bs_buf * 2) ++ [c_bs; c_dq]) 0 r
      else cmd_loop (result ++ repeat c_bs bs_buf ++ [c]) 0 r
  end.

Definition needquote (arg : text) : bool := memN c_sp arg || memN c_tab arg || is_nil arg.

Definition cmd_arg (result : text) (arg : text) : text :=
  let result := if is_nil result then result else result ++ [c_sp] in
  let result := if needquote arg then result ++ [c_dq] else result in
  let '(result, bs_buf) := cmd_loop result 0 arg in
  let result := result ++ repeat c_bs bs_buf in            (* if bs_buf: result.extend(bs_buf) *)
  if needquote arg then result ++ repeat c_bs bs_buf ++ [c_dq] else result.

Definition args2cmd (args : list text) : text := fold_left cmd_arg args [].

(* escape_shell_args(args, style=...) *)
Inductive sh_style := StyleSh | StyleCmd | StyleDefault | StyleOther.
Definition escape_shell_args (safe : N -> bool) (args : list text) (style : sh_style) : res text :=
  match style with
  | StyleSh | StyleDefault => Ok (args2sh safe args)        (* sys.platform != win32 here *)
  | StyleCmd => Ok (args2cmd args)
  | StyleOther => Raise ValueError
  end.

(* ========================================================================= *)
(* str.strip / str.split(sep) / int(str)                                      *)
(* ========================================================================= *)

(* str.isspace code points (CPython 3.12) *)
Definition py_space_list : list N :=
  [9; 10; 11; 12; 13; 28; 29; 30; 31; 32; 133; 160; 5760; 8192; 8193; 8194; 8195; 8196; 8197;
   8198; 8199; 8200; 8201; 8202; 8232; 8233; 8239; 8287; 12288].
Definition py_isspace (c : N) : bool := memN c py_space_list.
(* int(str) first maps every non-ASCII blank to a space and every Unicode decimal
   digit (category Nd) to its ASCII digit, any other non-ASCII character to a
   question mark; the C parser then skips the C-locale blanks 9..13 and 32 (the
   ASCII separators 28..31 are blanks for str.strip but not here) *)
Definition int_isspace (c : N) : bool := ((9 <=? c) && (c <=? 13)) || (c =? c_sp).

(* code points of the digit zero of every run of ten decimal digits (Unicode
   15.0.0, the data of this CPython; compared with the live unicodedata on every
   run: Gen.gen_digit_zeros, Props.C14_digit_table_current) *)
Definition digit_zeros : list N :=
  [48; 1632; 1776; 1984; 2406; 2534; 2662; 2790; 2918; 3046; 3174; 3302; 3430; 3558; 3664;
   3792; 3872; 4160; 4240; 6112; 6160; 6470; 6608; 6784; 6800; 6992; 7088; 7232; 7248; 42528;
   43216; 43264; 43472; 43504; 43600; 44016; 65296; 66720; 68912; 69734; 69872; 69942; 70096;
   70384; 70736; 70864; 71248; 71360; 71472; 71904; 72016; 72784; 73040; 73120; 73552; 92768;
   92864; 93008; 120782; 120792; 120802; 120812; 120822; 123200; 123632; 124144; 125264; 130032].

Definition to_ascii (c : N) : N :=
  if c <? 128 then c
  else if py_isspace c then c_sp
  else match find (fun z => (z <=? c) && (c <? z + 10)) digit_zeros with
       | Some z => 48 + (c - z)
       | None => 63
       end.

(* digits with single underscores between digits *)
Fixpoint digits_ok_from (prev_digit : bool) (s : text) : bool :=
  match s with
  | [] => prev_digit
  | c :: r =>
      if is_digit c then digits_ok_from true r
      else if c =? c_us then
        prev_digit && (match r with c2 :: _ => is_digit c2 | [] => false end) && digits_ok_from false r
      else false
  end.

Definition py_int (s : text) : res Z :=
  let t := strip_by int_isspace (map to_ascii s) in
  let '(neg, d) := match t with
                   | c :: r => if c =? c_minus then (true, r) else if c =? c_plus then (false, r) else (false, t)
                   | [] => (false, [])
                   end in
  if digits_ok_from false d then
    let v := Z.of_N (digits_val 0 (filter is_digit d)) in Ok (if neg then (- v)%Z else v)
  else Raise ValueError.

Fixpoint map_res {A B} (f : A -> res B) (l : list A) : res (list B) :=
  match l with
  | [] => Ok []
  | x :: r => match f x with
              | Raise e => Raise e
              | Ok y => match map_res f r with Raise e => Raise e | Ok ys => Ok (y :: ys) end
              end
  end.

(* s.split(sep) for any separator text: leftmost, non-overlapping; the empty
   separator raises ValueError.  skip = characters of a matched separator still
   to be passed over; cur = the piece in progress, reversed *)
Fixpoint starts_with (p s : text) : bool :=
  match p, s with
  | [], _ => true
  | c :: p', d :: s' => (c =? d) && starts_with p' s'
  | _ :: _, [] => false
  end.

Fixpoint split_aux (sep : text) (skip : nat) (cur : text) (s : text) : list text :=
  match s with
  | [] => [rev cur]
  | c :: r =>
      match skip with
      | S k => split_aux sep k cur r
      | O => if starts_with sep s then rev cur :: split_aux sep (length sep - 1) [] r
             else split_aux sep 0 (c :: cur) r
      end
  end.

Definition py_split (sep s : text) : res (list text) :=
  match sep with [] => Raise ValueError | _ => Ok (split_aux sep 0 [] s) end.

(* sep in s (substring test; the empty text is in everything) *)
Fixpoint contains (sep s : text) : bool :=
  starts_with sep s || match s with [] => false | _ :: r => contains sep r end.

(* ========================================================================= *)
(* parse_int_list                                                             *)
(* ========================================================================= *)

Fixpoint parse_parts (rdelim : text) (parts : list text) (output : list Z) : res (list Z) :=
  match parts with
  | [] => Ok (sortZ output)
  | x :: r =>
      if contains rdelim x then                             (* range_delim in x *)
        match py_split rdelim x with
        | Raise e => Raise e
        | Ok ws =>
            match map_res py_int ws with
            | Raise e => Raise e
            | Ok lims => parse_parts rdelim r (output ++ zrange (list_minZ lims) (list_maxZ lims + 1))
            end
        end
      else if is_nil x then parse_parts rdelim r output     (* elif not x: continue *)
      else match py_int x with
           | Raise e => Raise e
           | Ok v => parse_parts rdelim r (output ++ [v])
           end
  end.

Definition parse_int_list (s : text) (delim rdelim : text) : res (list Z) :=
  match py_split delim (strip_by py_isspace s) with
  | Raise e => Raise e
  | Ok parts => parse_parts rdelim parts []
  end.

(* ========================================================================= *)
(* format_int_list: contig_range is the deque, output the list of pieces      *)
(* ========================================================================= *)

Section Fmt.
  Variables delim rdelim : text.

  Definition range_substr (contig : list Z) : text :=
    decZ (list_minZ contig) ++ rdelim ++ decZ (list_maxZ contig).

  Fixpoint fmt_loop (xs contig : list Z) (output : list text) : list text :=
    match xs with
    | [] =>                                                 (* the for/else clause *)
        match contig with
        | [] => output
        | [a] => output ++ [decZ a]
        | _ => output ++ [range_substr contig]
        end
    | x :: r =>
        match contig with
        | [] => fmt_loop r [x] output
        | [a] =>
            let delta := (x - a)%Z in
            if (delta =? 1)%Z then fmt_loop r [a; x] output
            else if (1 <? delta)%Z then fmt_loop r [x] (output ++ [decZ a])
            else fmt_loop r contig output
        | _ =>
            let delta := (x - last contig 0%Z)%Z in
            if (delta =? 1)%Z then fmt_loop r (contig ++ [x]) output
            else if (1 <? delta)%Z then fmt_loop r [x] (output ++ [range_substr contig])
            else fmt_loop r contig output
        end
    end.

  Definition format_int_list (L : list Z) (delim_space : bool) : text :=
    join (if delim_space then delim ++ [c_sp] else delim) (fmt_loop (sortZ L) [] []).
End Fmt.

(* ========================================================================= *)
(* complement_int_list / int_ranges_from_int_list                             *)
(* ========================================================================= *)

Definition complement_int_list (s : text) (range_start : Z) (range_end : option Z)
           (delim rdelim : text) : res text :=
  match parse_int_list s delim rdelim with
  | Raise e => Raise e
  | Ok ints =>
      let range_end := match range_end with
                       | Some e => e
                       | None => match ints with [] => range_start | _ => (list_maxZ ints + 1)%Z end
                       end in
      (* set(range(range_end)) - int_list - set(range(range_start)) *)
      let vals := filter (fun x => negb (memZ x ints) && negb ((0 <=? x)%Z && (x <? range_start)%Z))
                         (zrange 0 range_end) in
      Ok (format_int_list delim rdelim vals false)
  end.

Definition int_ranges_from_int_list (s : text) (delim rdelim : text) : res (list (Z * Z)) :=
  match parse_int_list s delim rdelim with
  | Raise e => Raise e
  | Ok ints =>
      let rs := format_int_list [c_comma] [c_minus] ints false in
      if is_nil rs then Ok [] else
      map_res (fun bounds =>
                 if memN c_minus bounds then
                   match split1 c_minus bounds with
                   | [a; b] => match py_int a, py_int b with
                               | Ok x, Ok y => Ok (x, y)
                               | Raise e, _ => Raise e
                               | _, Raise e => Raise e
                               end
                   | _ => Raise ValueError                 (* unpacking start, end *)
                   end
                 else match py_int bounds with Ok x => Ok (x, x) | Raise e => Raise e end)
              (split1 c_comma rs)
  end.

(* ========================================================================= *)
(* gzip_bytes / gunzip_bytes: RFC 1952 member framing around an abstract       *)
(* deflate coder                                                               *)
(* ========================================================================= *)

Definition gz_isize (b : list N) : N := len_N b mod 4294967296.
(* what every gzip member of b ends with *)
Definition gz_trailer (b : list N) : list N := le32 (crc32 b) ++ le32 (gz_isize b).

Section Gzip.
  Variable deflate : list N -> N -> list N.                 (* raw deflate stream of b at a level *)
  Variable inflate : list N -> option (list N * list N).    (* decoded data, bytes after the stream *)

  (* GzipFile(fileobj=BytesIO(), mode='wb', compresslevel=level): no file name,
     FLG = 0; MTIME is the clock (4 bytes, any), XFL depends on the level, OS = 255 *)
  Definition gz_header (mtime : list N) (level : N) : list N :=
    [31; 139; 8; 0] ++ mtime ++ [(if level =? 9 then 2 else if level =? 1 then 4 else 0); 255].

  Definition gzip_bytes (mtime : list N) (b : list N) (level : N) : list N :=
    gz_header mtime level ++ deflate b level ++ gz_trailer b.

  (* zlib.decompress(z, 16 + MAX_WBITS): exactly one gzip member, FLG = 0 form *)
  Definition gunzip_bytes (z : list N) : res (list N) :=
    match z with
    | 31 :: 139 :: 8 :: 0 :: _ :: _ :: _ :: _ :: _ :: _ :: body =>
        match inflate body with
        | Some (b, rest) =>
            if text_eqb rest (gz_trailer b) then Ok b else Raise (OtherExn 1)   (* zlib.error *)
        | None => Raise (OtherExn 1)
        end
    | _ => Raise (OtherExn 1)
    end.
End Gzip.
