(* Executable model of boltons.setutils.IndexedSet AS WRITTEN (after the
   fix: commits listed in known_findings.d/C11.json): item_list with
   tombstones, item_index_map, dead_indices intervals, _add_dead with the
   dints[int_idx - 1] wrap-around, _cull's branches, _compact,
   _get_real_index/_get_apparent_index, and the set algebra built on
   iteration + add/discard.  Definitions only.

   By contract (trusted CPython builtins, DESIGN 2.6): bisect_left on a
   sorted list (= number of leading elements < x), sorted(), islice,
   list/dict primitives.  _MISSING is [None]. *)
From Boltons Require Import Lib.Prelude Lib.C11_Iface.

Record iset := mkIS {
  items : list (option K);          (* item_list; None = _MISSING *)
  imap  : tdict nat;               (* item_index_map: item -> real slot *)
  dead  : list (nat * nat)          (* dead_indices: [start, stop) runs *)
}.

Definition m_empty : iset := mkIS [] [] [].

Definition live_of (its : list (option K)) : list K :=
  flat_map (fun o => match o with Some x => [x] | None => [] end) its.

Definition m_live (s : iset) : list K := live_of (items s).      (* __iter__ *)
Definition m_len (s : iset) : nat := length (imap s).             (* __len__ *)
Definition m_contains (s : iset) (x : K) : bool := d_mem (imap s) x.
Definition dead_count (s : iset) : nat := length (items s) - length (imap s).

(* ---- list primitives ------------------------------------------------------ *)
Fixpoint set_nth {A} (n : nat) (v : A) (l : list A) {struct l} : list A :=
  match l, n with
  | [], _ => []
  | _ :: r, 0 => v :: r
  | y :: r, S n' => y :: set_nth n' v r
  end.

Fixpoint insert_at {A} (n : nat) (v : A) (l : list A) : list A :=   (* list.insert *)
  match n, l with
  | 0, _ => v :: l
  | S n', y :: r => y :: insert_at n' v r
  | S _, [] => [v]
  end.

Definition pair_ltb (p q : nat * nat) : bool :=                    (* list < list, two elements *)
  (fst p <? fst q) || ((fst p =? fst q) && (snd p <? snd q)).

Fixpoint bisect_left (l : list (nat * nat)) (x : nat * nat) : nat :=
  match l with
  | [] => 0
  | y :: r => if pair_ltb y x then S (bisect_left r x) else 0
  end.

Fixpoint enumerate_from {A} (i : nat) (l : list A) : list (nat * A) :=
  match l with [] => [] | x :: r => (i, x) :: enumerate_from (S i) r end.

(* for i, item in enumerate(xs): index_map[item] = i *)
Definition remap (m : tdict nat) (xs : list K) : tdict nat :=
  fold_left (fun m ix => d_set m (snd ix) (fst ix)) (enumerate_from 0 xs) m.

(* for i, item in enumerate(vals): items[i] = item *)
Fixpoint overwrite (l : list (option K)) (vals : list K) : list (option K) :=
  match vals, l with
  | v :: vs, _ :: tl => Some v :: overwrite tl vs
  | _, _ => l
  end.

(* ---- add ------------------------------------------------------------------- *)
Definition m_add (s : iset) (x : K) : iset :=
  if d_mem (imap s) x then s
  else mkIS (items s ++ [Some x]) (d_set (imap s) x (length (items s))) (dead s).

Definition m_from_list (l : list K) : iset := fold_left m_add l m_empty.   (* from_iterable / cls(it) *)

(* ---- _add_dead ------------------------------------------------------------ *)
Definition add_dead (dints : list (nat * nat)) (start : nat) : list (nat * nat) :=
  let stop := S start in
  match dints with
  | [] => [(start, stop)]
  | _ =>
      let i := bisect_left dints (start, stop) in
      let j := match i with 0 => length dints - 1 | S i' => i' end in    (* dints[int_idx - 1]; -1 wraps *)
      let '(ds, de) := nth j dints (0, 0) in
      if (start <=? ds) && (ds <=? stop) then set_nth j (start, de) dints
      else if (start <=? de) && (de <=? stop) then set_nth j (ds, stop) dints
      else insert_at i (start, stop) dints
  end.

(* ---- _compact / _cull ----------------------------------------------------- *)
Definition m_compact (s : iset) : iset :=
  match dead s with
  | [] => s
  | _ =>
      let dc := dead_count s in
      let lv := m_live s in
      (* the generator reads slot j >= i before slot i is written, so the
         in-place writes equal writes from a snapshot of the live items *)
      let items1 := overwrite (items s) lv in
      let imap1 := remap (imap s) lv in
      (* del items[-dc:]  (dc = 0 would delete everything) *)
      let items2 := if dc =? 0 then [] else firstn (length items1 - dc) items1 in
      mkIS items2 imap1 []
  end.

Fixpoint leading_none (l : list (option K)) : nat :=
  match l with None :: r => S (leading_none r) | _ => 0 end.

Fixpoint drop_while {A} (f : A -> bool) (l : list A) : list A :=
  match l with [] => [] | x :: r => if f x then drop_while f r else l end.

(* while ded and ded[-1][0] >= n: del ded[-1] *)
Definition drop_trailing_dead (d : list (nat * nat)) (n : nat) : list (nat * nat) :=
  rev (drop_while (fun ab => n <=? fst ab) (rev d)).

Definition m_cull (c : cfg) (s : iset) : iset :=
  match dead s with
  | [] => s
  | _ =>
      if length (imap s) =? 0 then mkIS [] (imap s) []
      else if max_dead_intervals c <? length (dead s) then m_compact s
      else if length (items s) <? compaction_factor c * dead_count s then m_compact s
                                   (* dead_count > len(items) / _COMPACTION_FACTOR *)
      else match last (items s) (Some 0%N) with
           | Some _ => s
           | None =>
               let nd := leading_none (rev (items s)) in
               let items' := firstn (length (items s) - nd) (items s) in
               mkIS items' (imap s) (drop_trailing_dead (dead s) (length items'))
           end
  end.

(* ---- index translation ------------------------------------------------------ *)
Fixpoint real_loop (d : list (nat * nat)) (r : nat) : nat :=
  match d with
  | [] => r
  | (a, b) :: t => if r <? a then r else real_loop t (r + (b - a))
  end.

Fixpoint apparent_loop (d : list (nat * nat)) (index acc : nat) : nat :=
  match d with
  | [] => acc
  | (a, b) :: t => if index <? a then acc else apparent_loop t index (acc - (b - a))
  end.

(* out-of-domain marker: an index that is still negative after + len(self)
   makes the code continue with Python's negative list indexing; that is
   outside the property's quantifier and is not modelled *)
Definition NotModelled : exn := OtherExn 11.

Definition norm_neg (s : iset) (i : Z) : Z := if (i <? 0)%Z then (i + Z.of_nat (m_len s))%Z else i.

Definition m_real_index (s : iset) (i : Z) : res nat :=
  let i := norm_neg s i in
  if (i <? 0)%Z then Raise NotModelled
  else Ok (real_loop (dead s) (Z.to_nat i)).      (* `if not dead_indices: return index` is the [] case *)

Definition m_getitem (s : iset) (i : Z) : res K :=
  match m_real_index s (norm_neg s i) with
  | Raise e => Raise e
  | Ok r => match nth_error (items s) r with
            | None => Raise IndexError
            | Some (Some x) => Ok x
            | Some None => Raise (OtherExn 12)     (* would hand _MISSING to the caller *)
            end
  end.

Definition m_index (s : iset) (x : K) : res nat :=
  match d_get (imap s) x with
  | None => Raise ValueError
  | Some r => Ok (apparent_loop (dead s) r r)
  end.

(* ---- remove / discard / pop / clear / reverse / sort ----------------------- *)
Definition m_remove (c : cfg) (s : iset) (x : K) : iset * res ret :=
  match d_get (imap s) x with
  | None => (s, Raise KeyError)
  | Some didx =>
      (m_cull c (mkIS (set_nth didx None (items s)) (d_del (imap s) x) (add_dead (dead s) didx)),
       Ok RNone)
  end.

Definition m_discard (c : cfg) (s : iset) (x : K) : iset := fst (m_remove c s x).

Definition m_pop (c : cfg) (s : iset) (index : option Z) : iset * res ret :=
  let n := Z.of_nat (m_len s) in
  let at_end := match index with
                | None => true
                | Some i => (i =? -1)%Z || (i =? n - 1)%Z
                end in
  if at_end then
    match rev (items s) with
    | [] => (s, Raise IndexError)                                     (* list.pop() on [] *)
    | Some x :: _ => (m_cull c (mkIS (removelast (items s)) (d_del (imap s) x) (dead s)), Ok (RItem x))
    | None :: _ => (mkIS (removelast (items s)) (imap s) (dead s), Raise KeyError)
    end
  else
    match index with
    | None => (s, Raise NotModelled)
    | Some i =>
        match m_real_index s i with
        | Raise e => (s, Raise e)
        | Ok r =>
            match nth_error (items s) r with
            | None => (s, Raise IndexError)
            | Some None => (mkIS (set_nth r None (items s)) (imap s) (dead s), Raise KeyError)
            | Some (Some x) =>
                (m_cull c (mkIS (set_nth r None (items s)) (d_del (imap s) x) (add_dead (dead s) r)),
                 Ok (RItem x))
            end
        end
    end.

Definition m_clear (s : iset) : iset := m_empty.

Definition m_reverse (s : iset) : iset :=
  let rl := rev (m_live s) in
  mkIS (map Some rl) (remap (imap s) rl) [].

Definition slot_eqb : option K -> option K -> bool := option_eqb N.eqb.

Definition m_sort (s : iset) (reverse : bool) : iset :=
  let sl := py_sorted (m_live s) reverse in
  if list_eqb slot_eqb (map Some sl) (items s) then s
  else mkIS (map Some sl) (remap (imap s) sl) [].

Definition m_sort_key (s : iset) (m : nat) (reverse : bool) : iset :=      (* sort(key=..., reverse=...) *)
  let sl := py_sorted_key (m_live s) m reverse in
  if list_eqb slot_eqb (map Some sl) (items s) then s
  else mkIS (map Some sl) (remap (imap s) sl) [].

(* ---- set algebra ------------------------------------------------------------ *)
Definition m_union (s : iset) (os : list operand) : iset :=
  m_from_list (m_live s ++ all_elems os).                        (* chain(self, *others) *)

Definition m_intersection (s : iset) (os : list operand) : iset :=
  match os with
  | [o] => m_from_list (filter (fun k => opd_mem k o) (m_live s))
  | _ => m_from_list (filter (fun k => forallb (opd_mem k) os) (m_live s))     (* iter_intersection *)
  end.

Definition m_difference (s : iset) (os : list operand) : iset :=
  match os with
  | [o] => m_from_list (filter (fun k => negb (opd_mem k o)) (m_live s))
  | _ => m_from_list (filter (fun k => negb (existsb (opd_mem k) os)) (m_live s))  (* iter_difference *)
  end.

Definition as_operand (s : iset) : operand := Opd true (m_live s).

Definition m_symmetric_difference (s : iset) (o : operand) : iset :=
  m_difference (m_union s [o]) [as_operand (m_intersection s [o])].

Definition m_update (s : iset) (os : list operand) : iset :=
  match os with
  | [] => s
  | [o] => fold_left m_add (o_elems o) s
  | _ => fold_left m_add (all_elems os) s
  end.

Definition discard_all (c : cfg) (s : iset) (xs : list K) : iset := fold_left (m_discard c) xs s.

Definition m_intersection_update (c : cfg) (s : iset) (os : list operand) : iset :=
  discard_all c s (m_live (m_difference s [as_operand (m_intersection s os)])).

(* other == self, as IndexedSet.__eq__ decides it *)
Definition eq_self (s : iset) (o : operand) : bool :=
  if o_iset o then (length (o_elems o) =? m_len s) && lK_eqb (m_live s) (o_elems o)
  else forallb (fun x => opd_mem x o) (m_live s) && forallb (m_contains s) (o_elems o).

Definition m_difference_update (c : cfg) (s : iset) (os : list operand) : iset :=
  let s0 := if existsb (eq_self s) os then m_clear s else s in           (* if self in others *)
  fold_left (fun st o => discard_all c st (m_live (m_intersection st [o]))) os s0.

Definition m_symmetric_difference_update (c : cfg) (s : iset) (o : operand) : iset :=
  fold_left (fun st v => if m_contains st v then m_discard c st v else m_add st v)
            (m_live (m_from_list (o_elems o))) s.

(* ---- slicing: iter_slice + islice ------------------------------------------- *)
Fixpoint stride_aux (k c : nat) (l : list K) : list K :=
  match l with
  | [] => []
  | x :: r => match c with
              | 0 => x :: stride_aux k (k - 1) r
              | S c' => stride_aux k c' r
              end
  end.

Definition islice (l : list K) (start : nat) (stop : option nat) (step : nat) : list K :=
  let tl := skipn start l in
  stride_aux step 0 (match stop with None => tl | Some e => firstn (e - start) tl end).

Definition slice_bound (s : iset) (x : Z) : nat :=               (* max(x + len(self), 0) if x < 0 *)
  if (x <? 0)%Z then Z.to_nat (Z.max (x + Z.of_nat (m_len s)) 0) else Z.to_nat x.

Definition m_slice (s : iset) (a b : option Z) (k : option nat) : res ret :=
  match k with
  | Some 0 => Raise ValueError                                    (* islice: step must be positive *)
  | _ =>
      let start := match a with None => 0 | Some v => slice_bound s v end in
      let stop := match b with None => None | Some v => Some (slice_bound s v) end in
      let step := match k with None => 1 | Some k => k end in
      Ok (RList (m_live (m_from_list (islice (m_live s) start stop step))))
  end.

(* ---- one public operation ----------------------------------------------------- *)
Definition res_map {A B} (f : A -> B) (r : res A) : res B :=
  match r with Ok a => Ok (f a) | Raise e => Raise e end.

Fixpoint all_ok {A} (l : list (res A)) : res (list A) :=
  match l with
  | [] => Ok []
  | Ok a :: r => match all_ok r with Ok t => Ok (a :: t) | Raise e => Raise e end
  | Raise e :: _ => Raise e
  end.

Definition m_get_all (s : iset) : res (list K) :=                 (* [s[i] for i in range(len(s))] *)
  all_ok (map (fun i => m_getitem s (Z.of_nat i)) (seq 0 (m_len s))).
Definition m_get_all_neg (s : iset) : res (list K) :=             (* [s[i] for i in range(-len(s), 0)] *)
  all_ok (map (fun i => m_getitem s (Z.of_nat i - Z.of_nat (m_len s))%Z) (seq 0 (m_len s))).
Definition m_index_all (s : iset) : res (list nat) :=
  all_ok (map (m_index s) (m_live s)).

Definition m_snapshot (s : iset) : res ret :=
  match m_get_all s, m_get_all_neg s, m_index_all s with
  | Ok g, Ok gn, Ok ix => Ok (RSnap (m_live s) g gn (rev (m_live s)) ix)
  | Raise e, _, _ => Raise e
  | _, Raise e, _ => Raise e
  | _, _, Raise e => Raise e
  end.

(* collections.abc.Set.__le__/__lt__/__ge__/__gt__ (the other side is a Set) and IndexedSet.__eq__ *)
Definition m_le (s : iset) (o : operand) : bool :=
  if length (o_elems o) <? m_len s then false                       (* len(self) > len(other) *)
  else forallb (fun k => opd_mem k o) (m_live s).
Definition m_ge (s : iset) (o : operand) : bool :=
  if m_len s <? length (o_elems o) then false                       (* len(self) < len(other) *)
  else forallb (m_contains s) (o_elems o).
Definition m_cmp (s : iset) (k : cmpop) (o : operand) : bool :=
  match k with
  | CEq => eq_self s o
  | CNe => negb (eq_self s o)
  | CLe => m_le s o
  | CLt => (m_len s <? length (o_elems o)) && m_le s o
  | CGe => m_ge s o
  | CGt => (length (o_elems o) <? m_len s) && m_ge s o
  end.

Definition m_step1 (c : cfg) (s : iset) (o : op) : iset * res ret :=
  match o with
  | Add x => (m_add s x, Ok RNone)
  | Remove x => m_remove c s x
  | Discard x => (m_discard c s x, Ok RNone)
  | Pop i => m_pop c s i
  | Clear => (m_clear s, Ok RNone)
  | Sort r => (m_sort s r, Ok RNone)
  | Reverse => (m_reverse s, Ok RNone)
  | SortKey m r => (m_sort_key s m r, Ok RNone)
  | Update os => (m_update s os, Ok RNone)
  | IntersectionUpdate os => (m_intersection_update c s os, Ok RNone)
  | DifferenceUpdate os => (m_difference_update c s os, Ok RNone)
  | SymDiffUpdate o => (m_symmetric_difference_update c s o, Ok RNone)
  | Union os => (s, Ok (RList (m_live (m_union s os))))
  | Intersection os => (s, Ok (RList (m_live (m_intersection s os))))
  | Difference os => (s, Ok (RList (m_live (m_difference s os))))
  | SymDiff o => (s, Ok (RList (m_live (m_symmetric_difference s o))))
  | RSub o => (s, Ok (RList (sort_nat (filter (fun x => negb (m_contains s x)) (o_elems o)))))
  | IsSubset o =>
      (s, Ok (RBool (if length (o_elems o) <? m_len s then false
                     else forallb (fun k => opd_mem k o) (d_keys (imap s)))))
  | IsSuperset o => (s, Ok (RBool (forallb (m_contains s) (o_elems o))))
  | IsDisjoint o => (s, Ok (RBool (forallb (fun k => negb (m_contains s k)) (o_elems o))))
  | GetItem i => (s, res_map RItem (m_getitem s i))
  | Slice a b k => (s, m_slice s a b k)
  | Index x => (s, res_map RNat (m_index s x))
  | Count x => (s, Ok (RNat (if m_contains s x then 1 else 0)))
  | Contains x => (s, Ok (RBool (m_contains s x)))
  | Len => (s, Ok (RNat (m_len s)))
  | Iter => (s, Ok (RList (m_live s)))
  | Reversed => (s, Ok (RList (rev (m_live s))))
  | Snapshot => (s, m_snapshot s)
  | SelfOp _ => (s, Raise NotModelled)
  | Cmp k o => (s, Ok (RBool (m_cmp s k o)))
  | SelfMix _ _ => (s, Raise NotModelled)
  end.

(* Calls whose operand is the set itself.  Every method except symmetric_difference_update reads the
   operand (membership, iteration, len, ==) only before its first mutation of self - update(s) adds
   items that are all present, intersection_update/difference_update first build a new IndexedSet, and
   difference_update's `self in others` is true by identity, which as_operand also makes true through
   __eq__ - so the aliased call behaves as the call on a snapshot of the live items.
   symmetric_difference_update tests `self is other`, clears, and then iterates the emptied set. *)
Definition m_step (c : cfg) (s : iset) (o : op) : iset * res ret :=
  match o with
  | SelfOp SSymDiffUpdate => (m_clear s, Ok RNone)
  | SelfOp k => m_step1 c s (expand_self k (as_operand s))
  | SelfMix k os =>
      (* several operands, some of them the set itself: update() reaches self through chain() only after the
         earlier operands were added, and then adds items that are all present; intersection_update builds
         its IndexedSets before the first discard; difference_update finds `self in others` by identity (which
         the snapshot reproduces through __eq__) and clears; the others do not mutate: a snapshot in each case *)
      m_step1 c s (expand_mix k (map (resolve_self (m_live s)) os))
  | _ => m_step1 c s o
  end.

Definition m_obs (digests : bool) (s : iset) (r : res ret) : obs :=
  mkObs r (m_len s)
        (if digests
         then Some (match m_get_all s with Ok g => digest g | Raise _ => dg_raised end,
                    digest (m_live s))
         else None).

Fixpoint m_run (c : cfg) (digests : bool) (s : iset) (ops : list op) : list obs :=
  match ops with
  | [] => []
  | o :: r => let '(s', x) := m_step c s o in m_obs digests s' x :: m_run c digests s' r
  end.
