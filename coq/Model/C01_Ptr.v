(* Pointer-level layer for C01: the PREV/NEXT surgery of OrderedMultiDict AS WRITTEN, on a heap
   of cells [PREV, NEXT, KEY, VALUE] addressed by numbers, with the sentinel `root` at address 0.
   Model/C01_Model.v abstracts this ring to a list of identified cells (append / unlink by id /
   forward and backward traversal / "root[PREV]"); Proofs/C01_Ptr.v shows that abstraction is
   implemented correctly by the code below (representation predicate [Rep]).  Definitions only. *)
From Boltons Require Import Lib.Prelude Spec.C01_Spec Model.C01_Model.

Record pcell := mkP { p_prev : nat; p_next : nat; p_key : K; p_val : V }.
Definition heap := pydict pcell.          (* address -> cell *)
Definition root : nat := 0.
(* the cell with model id i lives at address S i *)
Definition addr (c : cell) : nat := S (c_id c).

Definition dangling : exn := OtherExn 3.
Definition out_of_fuel : exn := OtherExn 4.

(* self.root[:] = [self.root, self.root, None] *)
Definition h_clear : heap := [(root, mkP root root 0 0)].

Definition set_next (h : heap) (a n : nat) : res heap :=          (* a[NEXT] = n *)
  match d_get h a with
  | None => Raise dangling
  | Some c => Ok (d_set h a (mkP (p_prev c) n (p_key c) (p_val c)))
  end.
Definition set_prev (h : heap) (a p : nat) : res heap :=          (* a[PREV] = p *)
  match d_get h a with
  | None => Raise dangling
  | Some c => Ok (d_set h a (mkP p (p_next c) (p_key c) (p_val c)))
  end.

(* last = root[PREV]; cell = [last, root, k, v]; last[NEXT] = root[PREV] = cell *)
Definition h_insert (h : heap) (a : nat) (k : K) (v : V) : res heap :=
  match d_get h root with
  | None => Raise dangling
  | Some r =>
      let last := p_prev r in
      let h1 := d_set h a (mkP last root k v) in
      do h2 <- set_next h1 last a;
      set_prev h2 root a
  end.

(* cell[PREV][NEXT], cell[NEXT][PREV] = cell[NEXT], cell[PREV] *)
Definition h_unlink (h : heap) (a : nat) : res heap :=
  match d_get h a with
  | None => Raise dangling
  | Some c =>
      do h1 <- set_next h (p_prev c) (p_next c);
      set_prev h1 (p_next c) (p_prev c)
  end.

(* curr = root[dir]; while curr is not root: yield curr; curr = curr[dir] *)
Fixpoint h_walk (dir : pcell -> nat) (h : heap) (fuel : nat) (cur : nat) : res (list (nat * K * V)) :=
  match fuel with
  | 0 => Raise out_of_fuel
  | S f =>
      if Nat.eqb cur root then Ok []
      else match d_get h cur with
           | None => Raise dangling
           | Some c => do r <- h_walk dir h f (dir c); Ok ((cur, p_key c, p_val c) :: r)
           end
  end.
Definition h_forward (h : heap) (fuel : nat) : res (list (nat * K * V)) :=
  match d_get h root with None => Raise dangling | Some r => h_walk p_next h fuel (p_next r) end.
Definition h_backward (h : heap) (fuel : nat) : res (list (nat * K * V)) :=
  match d_get h root with None => Raise dangling | Some r => h_walk p_prev h fuel (p_prev r) end.

(* self.root[PREV] : address of the last cell (root itself when empty) *)
Definition h_last (h : heap) : res nat :=
  match d_get h root with None => Raise dangling | Some r => Ok (p_prev r) end.

(* ---- the list-level operations the model performs, and their pointer-level counterparts ---- *)
Inductive llop := LInsert (id : nat) (k : K) (v : V) | LUnlink (id : nat).

Definition ll_apply (l : list cell) (o : llop) : list cell :=
  match o with
  | LInsert id k v => l ++ [mkCell id k v]
  | LUnlink id => unlink l id
  end.
Definition h_apply (h : heap) (o : llop) : res heap :=
  match o with
  | LInsert id k v => h_insert h (S id) k v
  | LUnlink id => h_unlink h (S id)
  end.
(* what the invariant of the model guarantees about the operations it issues *)
Definition ll_valid (l : list cell) (o : llop) : Prop :=
  match o with
  | LInsert id _ _ => ~ In id (map c_id l)
  | LUnlink id => In id (map c_id l)
  end.

Fixpoint ll_run (l : list cell) (ops : list llop) : list cell :=
  match ops with [] => l | o :: r => ll_run (ll_apply l o) r end.
Fixpoint h_run (h : heap) (ops : list llop) : res heap :=
  match ops with [] => Ok h | o :: r => do h1 <- h_apply h o; h_run h1 r end.
Fixpoint ll_valid_run (l : list cell) (ops : list llop) : Prop :=
  match ops with [] => True | o :: r => ll_valid l o /\ ll_valid_run (ll_apply l o) r end.

Definition cell_triple (c : cell) : nat * K * V := (addr c, c_key c, c_val c).

(* consecutive addresses a, b of the ring: a[NEXT] is b and b[PREV] is a *)
Fixpoint links (h : heap) (ids : list nat) : Prop :=
  match ids with
  | a :: ((b :: _) as r) =>
      (exists ca cb, d_get h a = Some ca /\ d_get h b = Some cb /\ p_next ca = b /\ p_prev cb = a)
      /\ links h r
  | _ => True
  end.

(* heap h represents the cell list l: root -> c1 -> ... -> cn -> root, doubly linked, with the
   right keys and values; addresses distinct and different from root *)
Definition Rep (h : heap) (l : list cell) : Prop :=
  NoDup (map addr l) /\
  (exists r, d_get h root = Some r) /\
  links h (root :: map addr l ++ [root]) /\
  (forall c, In c l -> exists pc, d_get h (addr c) = Some pc /\ p_key pc = c_key c /\ p_val pc = c_val c).
