(* Executable model of the linked list of boltons.cacheutils.LRI at the level of
   cells and pointers, as written: every link is a 4-field list object
   [PREV, NEXT, KEY, VALUE]; self._anchor is the sentinel; self._link_lookup maps
   a key to its link.  Cells are identified by allocation numbers; the heap is a
   function from cell id to cell contents.  Each helper performs the reads and
   writes of the Python code in the same order.  Definitions only. *)
From Boltons Require Import Lib.Prelude Lib.C02_Syntax Model.C02_Model.
Open Scope nat_scope.

Definition id := nat.
Record cell := mkCell { c_prev : id; c_next : id; c_key : option K; c_val : option V }.   (* None = _MISSING *)

Definition heap := id -> cell.
Definition upd (h : heap) (i : id) (c : cell) : heap := fun j => if Nat.eqb j i then c else h j.

Definition set_prev (h : heap) (i p : id) : heap := upd h i (mkCell p (c_next (h i)) (c_key (h i)) (c_val (h i))).
Definition set_next (h : heap) (i n : id) : heap := upd h i (mkCell (c_prev (h i)) n (c_key (h i)) (c_val (h i))).
Definition set_key (h : heap) (i : id) (k : option K) : heap := upd h i (mkCell (c_prev (h i)) (c_next (h i)) k (c_val (h i))).
Definition set_val (h : heap) (i : id) (v : option V) : heap := upd h i (mkCell (c_prev (h i)) (c_next (h i)) (c_key (h i)) v).

Record pring := mkPR {
  pr_heap : heap;
  pr_anchor : id;              (* self._anchor *)
  pr_lookup : pydict id;       (* self._link_lookup *)
  pr_fresh : id                (* next allocation number *)
}.

(* _init_ll: anchor = []; anchor[:] = [anchor, anchor, _MISSING, _MISSING]; self._link_lookup = {} *)
Definition p_init (h : heap) (fresh : id) : pring :=
  mkPR (upd h fresh (mkCell fresh fresh None None)) fresh [] (S fresh).

(* link = self._link_lookup[key] ... link[VALUE] *)
Definition p_find (pr : pring) (k : K) : option V :=
  match d_get (pr_lookup pr) k with
  | None => None
  | Some n => c_val (pr_heap pr n)
  end.

(* _get_link_and_move_to_front_of_ll *)
Definition p_move_to_front (pr : pring) (k : K) : option (pring * id) :=
  match d_get (pr_lookup pr) k with
  | None => None                                               (* KeyError *)
  | Some newest =>
      let h := pr_heap pr in
      let h := set_next h (c_prev (h newest)) (c_next (h newest)) in   (* newest[PREV][NEXT] = newest[NEXT] *)
      let h := set_prev h (c_next (h newest)) (c_prev (h newest)) in   (* newest[NEXT][PREV] = newest[PREV] *)
      let anchor := pr_anchor pr in
      let second_newest := c_prev (h anchor) in
      let h := set_next h second_newest newest in                      (* second_newest[NEXT] = anchor[PREV] = newest *)
      let h := set_prev h anchor newest in
      let h := set_prev h newest second_newest in                      (* newest[PREV] = second_newest *)
      let h := set_next h newest anchor in                             (* newest[NEXT] = anchor *)
      Some (mkPR h anchor (pr_lookup pr) (pr_fresh pr), newest)
  end.

(* link[VALUE] = value *)
Definition p_set_value (pr : pring) (n : id) (v : V) : pring :=
  mkPR (set_val (pr_heap pr) n (Some v)) (pr_anchor pr) (pr_lookup pr) (pr_fresh pr).

(* _set_key_and_add_to_front_of_ll *)
Definition p_add_to_front (pr : pring) (k : K) (v : V) : pring :=
  let h := pr_heap pr in
  let anchor := pr_anchor pr in
  let second_newest := c_prev (h anchor) in
  let newest := pr_fresh pr in
  let h := upd h newest (mkCell second_newest anchor (Some k) (Some v)) in   (* newest = [second_newest, anchor, key, value] *)
  let h := set_next h second_newest newest in                          (* second_newest[NEXT] = anchor[PREV] = newest *)
  let h := set_prev h anchor newest in
  mkPR h anchor (d_set (pr_lookup pr) k newest) (S newest).              (* self._link_lookup[key] = newest *)

(* _set_key_and_evict_last_in_ll: None = KeyError from `del self._link_lookup[evicted]` *)
Definition p_evict (pr : pring) (k : K) (v : V) : option (pring * K) :=
  let h := pr_heap pr in
  let oldanchor := pr_anchor pr in
  let h := set_key h oldanchor (Some k) in                              (* oldanchor[KEY] = key *)
  let h := set_val h oldanchor (Some v) in                              (* oldanchor[VALUE] = value *)
  let anchor := c_next (h oldanchor) in                                 (* self._anchor = anchor = oldanchor[NEXT] *)
  let evicted := c_key (h anchor) in                                    (* evicted = anchor[KEY] *)
  let h := set_key h anchor None in                                     (* anchor[KEY] = anchor[VALUE] = _MISSING *)
  let h := set_val h anchor None in
  match evicted with
  | None => None
  | Some e =>
      if d_mem (pr_lookup pr) e                                          (* del self._link_lookup[evicted] *)
      then Some (mkPR h anchor (d_set (d_del (pr_lookup pr) e) k oldanchor) (pr_fresh pr), e)
      else None
  end.

(* _remove_from_ll *)
Definition p_remove (pr : pring) (k : K) : option pring :=
  match d_get (pr_lookup pr) k with
  | None => None                                                          (* self._link_lookup.pop(key): KeyError *)
  | Some link =>
      let h := pr_heap pr in
      let h := set_next h (c_prev (h link)) (c_next (h link)) in        (* link[PREV][NEXT] = link[NEXT] *)
      let h := set_prev h (c_next (h link)) (c_prev (h link)) in        (* link[NEXT][PREV] = link[PREV] *)
      Some (mkPR h (pr_anchor pr) (d_del (pr_lookup pr) k) (pr_fresh pr))
  end.

(* _get_flattened_ll()[1:] : follow NEXT from the anchor until the anchor is met again *)
Fixpoint walk (h : heap) (anchor cur : id) (fuel : nat) : list (K * V) :=
  match fuel with
  | O => []
  | S f =>
      if Nat.eqb cur anchor then []
      else match c_key (h cur), c_val (h cur) with
           | Some k, Some v => (k, v) :: walk h anchor (c_next (h cur)) f
           | _, _ => walk h anchor (c_next (h cur)) f
           end
  end.

Definition p_flatten (pr : pring) : list (K * V) :=
  walk (pr_heap pr) (pr_anchor pr) (c_next (pr_heap pr (pr_anchor pr))) (pr_fresh pr).
