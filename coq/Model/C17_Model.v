(* Executable model of boltons.dictutils.OneToOne / ManyToMany / FrozenDict as
   written (after the C17 fix: commits cf9ca5a 1a89850 9ee068e 7e654fb e6e23d5
   80f61d0).  Definitions only.  Keys and values are nat tokens; a python dict
   is an association list in insertion order; a python set is a duplicate-free
   list (its iteration order is never observed: views are canonicalised). *)
From Boltons Require Import Lib.Prelude.

Definition kv := (nat * nat)%type.
Definition dict := list kv.                       (* pydict nat *)

(* del d[k] *)
Definition d_rm {B} (d : list (nat * B)) (k : nat) : list (nat * B) :=
  filter (fun p => negb (Nat.eqb k (fst p))) d.

Definition kv_eqb (a b : kv) : bool := Nat.eqb (fst a) (fst b) && Nat.eqb (snd a) (snd b).
Definition flip (d : dict) : dict := map (fun p => (snd p, fst p)) d.
(* dict(pairs): later pairs overwrite in place *)
Definition dict_of (kvs : list kv) : dict := fold_left (fun d p => d_set d (fst p) (snd p)) kvs [].

(* tokens >= 900 stand for unhashable python objects (lists) *)
Definition unhashable (v : nat) : bool := Nat.leb 900 v.
Global Arguments unhashable : simpl never.
Definition kv_unhashable (p : kv) : bool := unhashable (fst p) || unhashable (snd p).

(* results of public calls *)
Inductive val :=
| VNone | VTok (n : nat) | VPair (k v : nat) | VSelf | VBool (b : bool) | VSet (l : list nat).

Definition val_eqb (a b : val) : bool :=
  match a, b with
  | VNone, VNone | VSelf, VSelf => true
  | VTok x, VTok y => Nat.eqb x y
  | VPair k v, VPair k' v' => Nat.eqb k k' && Nat.eqb v v'
  | VBool x, VBool y => Bool.eqb x y
  | VSet x, VSet y => list_eqb Nat.eqb x y
  | _, _ => false
  end.

(* ====================================================================== *)
(* OneToOne                                                                *)
(* ====================================================================== *)
Record oto := mkOto { o_fwd : dict; o_inv : dict }.
Definition oto_swap (o : oto) : oto := mkOto (o_inv o) (o_fwd o).      (* o.inv *)

(* __init__: dict.__init__; inv built from [(v,k)]; if the lengths differ the
   forward dict is rebuilt from inv *)
Definition oto_init (kvs : list kv) : oto :=
  let fwd := dict_of kvs in
  let inv := dict_of (flip fwd) in
  if Nat.eqb (length fwd) (length inv) then mkOto fwd inv
  else mkOto (dict_of (flip inv)) inv.

Definition oto_init_unique (kvs : list kv) : res oto :=
  let fwd := dict_of kvs in
  let inv := dict_of (flip fwd) in
  if Nat.eqb (length fwd) (length inv) then Ok (mkOto fwd inv) else Raise ValueError.

(* OneToOne(...) / OneToOne.unique(...): dict.__init__ hashes every key; building
   inv hashes the values the dict ended up with (a value overwritten by a later
   pair is never hashed): TypeError, no instance *)
Definition new_rejects (kvs : list kv) : bool :=
  existsb (fun p => unhashable (fst p)) kvs || existsb (fun p => unhashable (snd p)) (dict_of kvs).
Definition oto_new (uniq : bool) (kvs : list kv) : res oto :=
  if new_rejects kvs then Raise TypeError
  else if uniq then oto_init_unique kvs else Ok (oto_init kvs).

(* __setitem__ *)
Definition oto_setitem (o : oto) (k v : nat) : oto :=
  (* if key in self: dict.__delitem__(self.inv, self[key]) *)
  let inv1 := match d_get (o_fwd o) k with Some v0 => d_rm (o_inv o) v0 | None => o_inv o end in
  (* if val in self.inv: del self.inv[val]   (OneToOne.__delitem__ of the inverse:
     removes inv[val] from the forward dict, then val from inv) *)
  let '(fwd2, inv2) := match d_get inv1 v with
                       | Some k2 => (d_rm (o_fwd o) k2, d_rm inv1 v)
                       | None => (o_fwd o, inv1)
                       end in
  mkOto (d_set fwd2 k v) (d_set inv2 v k).

Inductive oto_op :=
| OSet (k v : nat) | ODel (k : nat) | OPop (k : nat) (d : option nat) | OPopitem | OClear
| OSetdefault (k d : nat) | OUpdate (kvs : list kv) | OIor (kvs : list kv) | OGet (k : nat).

Definition oto_update (o : oto) (kvs : list kv) : oto :=
  fold_left (fun o p => oto_setitem o (fst p) (snd p)) kvs o.

(* hash(val) / `key in self` come first: an unhashable operand raises TypeError
   before anything is written; update validates every pair before the first write *)
Definition oto_step (o : oto) (op : oto_op) : oto * res val :=
  match op with
  | OSet k v => if unhashable v || unhashable k then (o, Raise TypeError) else (oto_setitem o k v, Ok VNone)
  | ODel k =>
      if unhashable k then (o, Raise TypeError) else
      match d_get (o_fwd o) k with
      | None => (o, Raise KeyError)
      | Some v => (mkOto (d_rm (o_fwd o) k) (d_rm (o_inv o) v), Ok VNone)
      end
  | OPop k d =>
      if unhashable k then (o, Raise TypeError) else
      match d_get (o_fwd o) k with
      | Some v => (mkOto (d_rm (o_fwd o) k) (d_rm (o_inv o) v), Ok (VTok v))
      | None => match d with Some dv => (o, Ok (VTok dv)) | None => (o, Raise KeyError) end
      end
  | OPopitem =>
      match rev (o_fwd o) with
      | [] => (o, Raise KeyError)
      | (k, v) :: _ => (mkOto (removelast (o_fwd o)) (d_rm (o_inv o) v), Ok (VPair k v))
      end
  | OClear => (mkOto [] [], Ok VNone)
  | OSetdefault k d =>
      if unhashable k then (o, Raise TypeError) else
      match d_get (o_fwd o) k with
      | Some v => (o, Ok (VTok v))
      | None => if unhashable d then (o, Raise TypeError) else (oto_setitem o k d, Ok (VTok d))
      end
  | OUpdate kvs => if existsb kv_unhashable kvs then (o, Raise TypeError) else (oto_update o kvs, Ok VNone)
  | OIor kvs => if existsb kv_unhashable kvs then (o, Raise TypeError) else (oto_update o kvs, Ok VSelf)
  | OGet k =>
      if unhashable k then (o, Raise TypeError) else
      (o, match d_get (o_fwd o) k with Some v => Ok (VTok v) | None => Raise KeyError end)
  end.

(* an operation applied through o.inv *)
Definition oto_step_side (s : bool) (o : oto) (op : oto_op) : oto * res val :=
  if s then let '(o', r) := oto_step (oto_swap o) op in (oto_swap o', r) else oto_step o op.
Definition oto_side (s : bool) (o : oto) : oto := if s then oto_swap o else o.

Definition dict_eqb_unordered (a b : dict) : bool :=
  Nat.eqb (length a) (length b) &&
  forallb (fun p => match d_get b (fst p) with Some v => Nat.eqb v (snd p) | None => false end) a.

(* several instances; values are immutable here, so independence is built in
   and is CHECKED on the code by observing every instance after every step *)
Inductive oto_hop :=
| HNew (uniq : bool) (kvs : list kv)            (* OneToOne(...) / OneToOne.unique(...), appended *)
| HCopy (i : nat) (s : bool)                    (* x.copy(), OneToOne(x), copy.copy(x) with x = side s of instance i *)
| HOp (i : nat) (s : bool) (op : oto_op)
| HUpdFrom (ior : bool) (i : nat) (s : bool) (j : nat) (t : bool)    (* x.update(y) / x |= y *)
| HFromkeys (keys : list nat) (v : nat)         (* OneToOne.fromkeys(keys, v): cls() then o[k] = v for each key *)
| HDeepcopy (i : nat) (s : bool)                (* copy.deepcopy(x) *)
| HEq (i : nat) (s : bool) (j : nat) (t : bool).        (* x == y  (inherited dict.__eq__) *)

(* copy.deepcopy(x) as the copy protocol + the methods above produce it: the copy
   of x.inv is filled first (through __setitem__, which also fills the new
   forward dict), then the forward items are re-assigned in place: the new
   forward dict is in the order of x.inv, the new inverse in the order of x *)
Definition oto_deepcopy (x : oto) : oto := mkOto (flip (o_inv x)) (flip (o_fwd x)).

Definition fromkeys_pairs (keys : list nat) (v : nat) : list kv := map (fun k => (k, v)) keys.

Fixpoint set_nth {A} (l : list A) (i : nat) (x : A) : list A :=
  match l, i with
  | [], _ => []
  | _ :: r, O => x :: r
  | y :: r, S i => y :: set_nth r i x
  end.

Definition BadIndex := OtherExn 99.

Definition oto_hstep (h : list oto) (hop : oto_hop) : list oto * res val :=
  match hop with
  | HNew uniq kvs =>
      match oto_new uniq kvs with Ok o => (h ++ [o], Ok VNone) | Raise e => (h, Raise e) end
  | HCopy i s =>
      match nth_error h i with
      | Some o => (h ++ [oto_init (o_fwd (oto_side s o))], Ok VNone)
      | None => (h, Raise BadIndex)
      end
  | HOp i s op =>
      match nth_error h i with
      | Some o => let '(o', r) := oto_step_side s o op in (set_nth h i o', r)
      | None => (h, Raise BadIndex)
      end
  | HUpdFrom ior i s j t =>
      match nth_error h i, nth_error h j with
      | Some o, Some o2 =>
          let kvs := o_fwd (oto_side t o2) in            (* list(other.items()) taken first *)
          let '(o', r) := oto_step_side s o (if ior then OIor kvs else OUpdate kvs) in
          (set_nth h i o', r)
      | _, _ => (h, Raise BadIndex)
      end
  | HFromkeys keys v =>
      let kvs := fromkeys_pairs keys v in
      if existsb kv_unhashable kvs then (h, Raise TypeError)
      else (h ++ [oto_update (mkOto [] []) kvs], Ok VNone)
  | HDeepcopy i s =>
      match nth_error h i with
      | Some o => (h ++ [oto_deepcopy (oto_side s o)], Ok VNone)
      | None => (h, Raise BadIndex)
      end
  | HEq i s j t =>
      match nth_error h i, nth_error h j with
      | Some o, Some o2 =>
          (h, Ok (VBool (dict_eqb_unordered (o_fwd (oto_side s o)) (o_fwd (oto_side t o2)))))
      | _, _ => (h, Raise BadIndex)
      end
  end.

(* public view of an instance: list(o.items()), list(o.inv.items()), o.inv.inv is o *)
Definition oto_view := (dict * dict * bool)%type.
Definition oto_view_of (o : oto) : oto_view := (o_fwd o, o_inv o, true).
Definition oto_obs := (res val * list oto_view)%type.

(* ====================================================================== *)
(* ManyToMany                                                              *)
(* ====================================================================== *)
Definition sdict := list (nat * list nat).         (* key -> set *)
Record m2m := mkM { m_data : sdict; m_inv : sdict }.
Definition m2m_swap (m : m2m) : m2m := mkM (m_inv m) (m_data m).

Definition s_mem (x : nat) (s : list nat) : bool := existsb (Nat.eqb x) s.
Definition s_add (s : list nat) (x : nat) : list nat := if s_mem x s then s else s ++ [x].
Definition s_rm (s : list nat) (x : nat) : list nat := filter (fun y => negb (Nat.eqb x y)) s.
Definition s_union (s t : list nat) : list nat := fold_left s_add t s.
Definition s_diff (s t : list nat) : list nat := filter (fun y => negb (s_mem y t)) s.
Definition s_of_list (l : list nat) : list nat := fold_left s_add l [].

(* if k not in d: d[k] = set();  d[k].add(v) *)
Definition sd_add (d : sdict) (k v : nat) : sdict :=
  match d_get d k with
  | None => d_set d k [v]
  | Some s => d_set d k (s_add s v)
  end.
(* d[k].remove(v); if not d[k]: del d[k] *)
Definition sd_discard (d : sdict) (k v : nat) : sdict :=
  match d_get d k with
  | None => d
  | Some s => match s_rm s v with [] => d_rm d k | s' => d_set d k s' end
  end.

Definition m_add (m : m2m) (k v : nat) : m2m := mkM (sd_add (m_data m) k v) (sd_add (m_inv m) v k).
Definition m_has (m : m2m) (k v : nat) : bool :=
  match d_get (m_data m) k with Some s => s_mem v s | None => false end.
(* remove(key, val): KeyError before any change when the pair is absent *)
Definition m_remove (m : m2m) (k v : nat) : res m2m :=
  if m_has m k v then Ok (mkM (sd_discard (m_data m) k v) (sd_discard (m_inv m) v k))
  else Raise KeyError.
Definition m_remove' (m : m2m) (k v : nat) : m2m :=
  mkM (sd_discard (m_data m) k v) (sd_discard (m_inv m) v k).

Definition m_setitem (m : m2m) (k : nat) (vals : list nat) : m2m :=
  let vals := s_of_list vals in
  match d_get (m_data m) k with
  | Some cur =>
      let to_remove := s_diff cur vals in
      let vals' := s_diff vals cur in
      let m1 := fold_left (fun m v => m_remove' m k v) to_remove m in
      fold_left (fun m v => m_add m k v) vals' m1
  | None => fold_left (fun m v => m_add m k v) vals m
  end.

Definition m_delitem (m : m2m) (k : nat) : res m2m :=
  match d_get (m_data m) k with
  | None => Raise KeyError
  | Some s => Ok (mkM (d_rm (m_data m) k)
                      (fold_left (fun inv v => sd_discard inv v k) s (m_inv m)))
  end.

(* replace(key, newkey) after fix e6e23d5 *)
Definition m_replace (m : m2m) (k nk : nat) : m2m :=
  match d_get (m_data m) k with
  | None => m
  | Some fwdset =>
      let d1 := d_rm (m_data m) k in
      let d2 := match d_get d1 nk with
                | Some s => d_set d1 nk (s_union s fwdset)
                | None => d_set d1 nk (s_union [] fwdset)
                end in
      let inv' := fold_left (fun inv v =>
                    match d_get inv v with
                    | Some rs => d_set inv v (s_add (s_rm rs k) nk)
                    | None => inv
                    end) fwdset (m_inv m) in
      mkM d2 inv'
  end.

Definition m_update_pairs (m : m2m) (kvs : list kv) : m2m :=
  fold_left (fun m p => m_add m (fst p) (snd p)) kvs m.

(* update(other ManyToMany) after fix 80f61d0: both sides merged separately *)
Definition sd_merge (d od : sdict) : sdict :=
  fold_left (fun d p => match d_get d (fst p) with
                        | None => d_set d (fst p) (s_union [] (snd p))
                        | Some s0 => d_set d (fst p) (s_union s0 (snd p))
                        end) od d.
Definition m_update_from (m o : m2m) : m2m :=
  mkM (sd_merge (m_data m) (m_data o)) (sd_merge (m_inv m) (m_inv o)).

(* canonical views: keys sorted, members sorted *)
Fixpoint ins_nat (x : nat) (l : list nat) : list nat :=
  match l with
  | [] => [x]
  | y :: r => if Nat.leb x y then x :: y :: r else y :: ins_nat x r
  end.
Definition sort_nat (l : list nat) : list nat := fold_right ins_nat [] l.
Fixpoint ins_key (x : nat * list nat) (l : sdict) : sdict :=
  match l with
  | [] => [x]
  | y :: r => if Nat.leb (fst x) (fst y) then x :: y :: r else y :: ins_key x r
  end.
Definition canon (d : sdict) : sdict :=
  fold_right ins_key [] (map (fun p => (fst p, sort_nat (snd p))) d).

Inductive m2m_op :=
| MAdd (k v : nat) | MRemove (k v : nat) | MSetitem (k : nat) (vals : list nat) | MDelitem (k : nat)
| MReplace (k nk : nat) | MUpdPairs (kvs : list kv) | MGet (k : nat) | MGetD (k : nat)
| MContains (k : nat).

Definition m2m_step (m : m2m) (op : m2m_op) : m2m * res val :=
  match op with
  | MAdd k v => (m_add m k v, Ok VNone)
  | MRemove k v => match m_remove m k v with Ok m' => (m', Ok VNone) | Raise e => (m, Raise e) end
  | MSetitem k vals => (m_setitem m k vals, Ok VNone)
  | MDelitem k => match m_delitem m k with Ok m' => (m', Ok VNone) | Raise e => (m, Raise e) end
  | MReplace k nk => (m_replace m k nk, Ok VNone)
  | MUpdPairs kvs => (m_update_pairs m kvs, Ok VNone)
  | MGet k => (m, match d_get (m_data m) k with Some s => Ok (VSet (sort_nat s)) | None => Raise KeyError end)
  | MGetD k => (m, match d_get (m_data m) k with Some s => Ok (VSet (sort_nat s)) | None => Ok (VSet []) end)
  | MContains k => (m, Ok (VBool (d_mem (m_data m) k)))
  end.

Definition m2m_step_side (s : bool) (m : m2m) (op : m2m_op) : m2m * res val :=
  if s then let '(m', r) := m2m_step (m2m_swap m) op in (m2m_swap m', r) else m2m_step m op.
Definition m2m_side (s : bool) (m : m2m) : m2m := if s then m2m_swap m else m.

Inductive m2m_hop :=
| MNew (kvs : list kv)                          (* ManyToMany(pairs | mapping) *)
| MNewFrom (i : nat) (s : bool)                 (* ManyToMany(x) *)
| MOp (i : nat) (s : bool) (op : m2m_op)
| MUpdFrom (i : nat) (s : bool) (j : nat) (t : bool)      (* x.update(y) *)
| MEq (i : nat) (s : bool) (j : nat) (t : bool).          (* x == y *)

(* __eq__: self.data == other.data, i.e. python's dict == over set values:
   same length and every key of one present in the other with an equal set *)
Definition set_eqb (s t : list nat) : bool :=
  Nat.eqb (length s) (length t) && forallb (fun x => s_mem x t) s.
Definition sd_eqb (d1 d2 : sdict) : bool :=
  Nat.eqb (length d1) (length d2) &&
  forallb (fun p => match d_get d2 (fst p) with Some t => set_eqb (snd p) t | None => false end) d1.

Definition m_empty : m2m := mkM [] [].

Definition m2m_hstep (h : list m2m) (hop : m2m_hop) : list m2m * res val :=
  match hop with
  | MNew kvs => (h ++ [m_update_pairs m_empty kvs], Ok VNone)
  | MNewFrom i s =>
      match nth_error h i with
      | Some o => (h ++ [m_update_from m_empty (m2m_side s o)], Ok VNone)
      | None => (h, Raise BadIndex)
      end
  | MOp i s op =>
      match nth_error h i with
      | Some m => let '(m', r) := m2m_step_side s m op in (set_nth h i m', r)
      | None => (h, Raise BadIndex)
      end
  | MUpdFrom i s j t =>
      match nth_error h i, nth_error h j with
      | Some m, Some o =>
          let m' := m2m_side s (m_update_from (m2m_side s m) (m2m_side t o)) in
          (set_nth h i m', Ok VNone)
      | _, _ => (h, Raise BadIndex)
      end
  | MEq i s j t =>
      match nth_error h i, nth_error h j with
      | Some m, Some o => (h, Ok (VBool (sd_eqb (m_data (m2m_side s m)) (m_data (m2m_side t o)))))
      | _, _ => (h, Raise BadIndex)
      end
  end.

(* view: sorted [(k, sorted m[k]) for k in m.keys()] for both sides, m.inv.inv is m *)
Definition m2m_view := (sdict * sdict * bool)%type.
Definition m2m_view_of (m : m2m) : m2m_view := (canon (m_data m), canon (m_inv m), true).
Definition m2m_obs := (res val * list m2m_view)%type.

(* ====================================================================== *)
(* FrozenDict                                                              *)
(* ====================================================================== *)
Definition FrozenHashError := OtherExn 1.

Open Scope Z_scope.
(* hash(frozenset(items)) as CPython 3.12 computes it (Objects/setobject.c
   frozenset_hash), from the hashes of the (key, value) tuples: xor of shuffled
   entry hashes, then the size is mixed in.  64-bit unsigned arithmetic. *)
Definition M64 : Z := 18446744073709551616.
Definition u64 (z : Z) : Z := z mod M64.
Definition shuffle_bits (h : Z) : Z :=
  u64 (Z.lxor (Z.lxor h 89869747) (u64 (Z.shiftl h 16)) * 3644798167).
Definition xor_entries (hs : list Z) : Z :=
  fold_right (fun x a => Z.lxor (shuffle_bits (u64 x)) a) 0 hs.
Definition fs_finish (h : Z) (n : nat) : Z :=
  let h := Z.lxor h (u64 ((Z.of_nat n + 1) * 1927868237)) in
  let h := Z.lxor h (Z.lxor (Z.shiftr h 11) (Z.shiftr h 25)) in
  let h := u64 (h * 69069 + 907133923) in
  let h := if h =? M64 - 1 then 590923713 else h in
  if h <? M64 / 2 then h else h - M64.
Definition fs_hash (hs : list Z) : Z := fs_finish (xor_entries hs) (length hs).
Close Scope Z_scope.

(* the frozen dict: items + the _hash slot (unset / cached value / cached error) *)
Inductive hslot := HUnset | HVal (h : Z) | HErr.
Record fdict := mkFD { f_items : dict; f_slot : hslot }.

(* outcome of hash() on a returned object: value, FrozenHashError, or not taken
   (a plain dict returned by dict.copy has no hash) *)
Inductive hout := HOk (h : Z) | HRaise | HNA.
Inductive fval :=
| FNone | FTok (n : nat) | FHashV (h : Z)
| FNew (items : dict) (same_obj equal : bool) (h : hout)    (* object returned by updated/copy/pickle/... *)
(* a pickle loaded in ANOTHER process (different PYTHONHASHSEED), compared there with a FrozenDict rebuilt
   from the same items: items seen there, hash outcomes agree, ==, `loaded in {rebuilt}` (None: hashing raised) *)
| FX (items : dict) (hash_same equal : bool) (member : option bool).

Inductive fd_op :=
| FSetitem (k v : nat) | FDelitem (k : nat) | FUpdate (kvs : list kv) | FIor (kvs : list kv)
| FSetdefault (k d : nat) | FPop (k : nat) (d : option nat) | FPopitem | FClear
| FHash | FGet (k : nat) | FUpdated (kvs : list kv) | FCopy
| FClone (plain : bool)       (* pickle round trip, deepcopy, FrozenDict(fd); plain: fd.copy() -> a plain dict *)
| FXProc.                     (* pickle.dumps here, pickle.loads in a fresh interpreter with another hash seed *)

(* dict.update on a plain copy *)
Definition d_update (d : dict) (kvs : list kv) : dict :=
  fold_left (fun d p => d_set d (fst p) (snd p)) kvs d.

Section FrozenDict.
  (* oracle: hash((k, v)) of the python tuple, supplied by the run *)
  Variable item_hash : kv -> Z.

  Definition fd_hash (f : fdict) : fdict * res fval :=
    match f_slot f with
    | HVal h => (f, Ok (FHashV h))
    | HErr => (f, Raise FrozenHashError)
    | HUnset =>
        if existsb (fun p => unhashable (snd p)) (f_items f)
        then (mkFD (f_items f) HErr, Raise FrozenHashError)
        else let h := fs_hash (map item_hash (f_items f)) in
             (mkFD (f_items f) (HVal h), Ok (FHashV h))
    end.

  Definition hash_out (items : dict) : hout :=
    if existsb (fun p => unhashable (snd p)) items then HRaise else HOk (fs_hash (map item_hash items)).

  Definition fd_step (f : fdict) (op : fd_op) : fdict * res fval :=
    match op with
    | FSetitem _ _ | FDelitem _ | FUpdate _ | FIor _ | FSetdefault _ _ | FPop _ _ | FPopitem | FClear =>
        (f, Raise TypeError)
    | FHash => fd_hash f
    | FGet k => (f, match d_get (f_items f) k with Some v => Ok (FTok v) | None => Raise KeyError end)
    | FUpdated kvs =>
        let items' := d_update (f_items f) kvs in
        (f, Ok (FNew items' false (dict_eqb_unordered items' (f_items f)) (hash_out items')))
    | FCopy =>    (* copy.copy returns the object itself; taking its hash fills the _hash slot *)
        (fst (fd_hash f), Ok (FNew (f_items f) true true (hash_out (f_items f))))
    | FClone plain =>
        (f, Ok (FNew (f_items f) false true (if plain then HNA else hash_out (f_items f))))
    | FXProc =>   (* the hash is a function of the content in the process where it is asked: nothing cached travels *)
        (f, Ok (FX (f_items f) true true
                   (if existsb (fun p => unhashable (snd p)) (f_items f) then None else Some true)))
    end.
End FrozenDict.

Definition fd_obs := (res fval * dict)%type.      (* result, list(fd.items()) afterwards *)
