(* Executable model of boltons.fileutils.AtomicSaver / atomic_save as written
   (after the fix: commits 86e7cf0 and e002f44), running on a small model of a
   POSIX directory.  Shared by C04 (crash points) and C05 (faults).
   Definitions only. *)
From Boltons Require Import Lib.Prelude.
Open Scope N_scope.

(* ------------------------------------------------------------------------ *)
(* File system                                                               *)
(* ------------------------------------------------------------------------ *)
Definition name := nat.            (* a directory entry of the destination's directory *)
Definition bytes := list N.

Record inode := mkI {
  i_vol  : bytes;                  (* what the kernel holds (page cache): survives kill -9 *)
  i_dur  : bytes;                  (* what is on stable storage: survives power loss      *)
  i_mode : N
}.

(* directory and inode table are total functions; [f_next] is the first unused
   inode number (fresh inodes are allocated there) *)
Record fs := mkFs {
  f_dir  : name -> option nat;
  f_ino  : nat -> inode;
  f_next : nat
}.

Definition upd {A} (f : nat -> A) (k : nat) (v : A) : nat -> A :=
  fun x => if Nat.eqb x k then v else f x.

Definition empty_fs : fs := mkFs (fun _ => None) (fun _ => mkI [] [] 0) 0.

Definition fs_create (s : fs) (n : name) (content : bytes) (durable : bool) (mode : N) : fs :=
  mkFs (upd (f_dir s) n (Some (f_next s)))
       (upd (f_ino s) (f_next s) (mkI content (if durable then content else []) mode))
       (S (f_next s)).

(* initial directory from a list of (name, (content, mode)); all of it durable *)
Fixpoint fs_of_list (l : list (name * (bytes * N))) : fs :=
  match l with
  | [] => empty_fs
  | (n, (c, m)) :: r => fs_create (fs_of_list r) n c true m
  end.

(* the python file object around the part file's descriptor *)
Inductive fstate :=
| FNone                                   (* no descriptor yet *)
| FOpen (ino : nat) (buf : bytes)         (* open; [buf] = bytes still in user space *)
| FClosed.

(* ------------------------------------------------------------------------ *)
(* Primitive, state-changing events and their semantics                      *)
(* ------------------------------------------------------------------------ *)
Inductive ev :=
| EUnlink (n : name)
| EOpen (n : name) (excl : bool) (perms : N)   (* os.open(n, O_RDWR|O_CREAT|O_EXCL.., perms) *)
| EFdopen
| EChmod (n : name) (perms : N)
| EWrite (data : bytes) (disk : N)  (* file.write(data); afterwards [disk] bytes have reached the kernel *)
| EFlush
| EFsync
| EClose
| ERename (src dst : name)
| ELink (src dst : name).

Definition ENOENT := 2%nat.
Definition EEXIST := 17%nat.
Definition EBADF := 9%nat.
Definition EINVAL := 22%nat.
Definition EBADORACLE := 998%nat.   (* the buffering oracle is out of range: not a behaviour *)

Definition set_vol (s : fs) (i : nat) (v : bytes) : fs :=
  let x := f_ino s i in mkFs (f_dir s) (upd (f_ino s) i (mkI v (i_dur x) (i_mode x))) (f_next s).
Definition set_dur (s : fs) (i : nat) : fs :=
  let x := f_ino s i in mkFs (f_dir s) (upd (f_ino s) i (mkI (i_vol x) (i_vol x) (i_mode x))) (f_next s).
Definition set_mode (s : fs) (i : nat) (m : N) : fs :=
  let x := f_ino s i in mkFs (f_dir s) (upd (f_ino s) i (mkI (i_vol x) (i_dur x) m)) (f_next s).
Definition set_name (s : fs) (n : name) (o : option nat) : fs :=
  mkFs (upd (f_dir s) n o) (f_ino s) (f_next s).

Definition blen (b : bytes) : N := N.of_nat (length b).

(* [sem umask e (s, f)] = (errno or success, new state).  A failing primitive
   has no effect. *)
Definition sem (umask : N) (e : ev) (s : fs) (f : fstate) : option nat * fs * fstate :=
  match e with
  | EUnlink n =>
      match f_dir s n with
      | None => (Some ENOENT, s, f)
      | Some _ => (None, set_name s n None, f)
      end
  | EOpen n excl perms =>
      match f_dir s n with
      | Some i => if excl then (Some EEXIST, s, f) else (None, s, FOpen i [])
      | None => (None, fs_create s n [] false (N.ldiff perms umask), FOpen (f_next s) [])
      end
  | EFdopen => (None, s, f)
  | EChmod n perms =>
      match f_dir s n with
      | None => (Some ENOENT, s, f)
      | Some i => (None, set_mode s i perms, f)
      end
  | EWrite data disk =>
      match f with
      | FOpen i buf =>
          let vol := i_vol (f_ino s i) in
          let all := vol ++ buf ++ data in
          if (blen vol <=? disk) && (disk <=? blen all)
          then (None, set_vol s i (firstn (N.to_nat disk) all), FOpen i (skipn (N.to_nat disk) all))
          else (Some EBADORACLE, s, f)
      | _ => (Some EBADF, s, f)
      end
  | EFlush =>
      match f with
      | FOpen i buf => (None, set_vol s i (i_vol (f_ino s i) ++ buf), FOpen i [])
      | _ => (Some EBADF, s, f)
      end
  | EFsync =>
      match f with
      | FOpen i buf => (None, set_dur s i, f)
      | _ => (Some EBADF, s, f)
      end
  | EClose =>
      match f with
      | FOpen i buf => (None, set_vol s i (i_vol (f_ino s i) ++ buf), FClosed)
      | _ => (None, s, f)                     (* closing twice is allowed *)
      end
  | ERename src dst =>
      match f_dir s src with
      | None => (Some ENOENT, s, f)
      | Some i => if Nat.eqb src dst then (None, s, f)
                  else (None, set_name (set_name s dst (Some i)) src None, f)
      end
  | ELink src dst =>
      match f_dir s src with
      | None => (Some ENOENT, s, f)
      | Some i => match f_dir s dst with
                  | Some _ => (Some EEXIST, s, f)
                  | None => (None, set_name s dst (Some i), f)
                  end
      end
  end.

(* ------------------------------------------------------------------------ *)
(* The world: file system + process + environment (crash point, faults)      *)
(* ------------------------------------------------------------------------ *)
Inductive action :=
| AFault (errno : nat)                       (* the k-th event fails with this errno *)
| AAppear (content : bytes) (mode : N).      (* another process creates the destination just before event k *)

Record world := mkW {
  w_fs    : fs;
  w_file  : fstate;
  w_umask : N;
  w_dest  : name;                            (* only used by AAppear *)
  w_tick  : nat;                             (* events started so far *)
  w_crash : option nat;                      (* the process dies immediately before event number k *)
  w_sched : list (nat * action);
  w_trace : list (ev * option nat);          (* most recent first *)
  w_intruded : bool                          (* a scheduled AAppear really created the destination *)
}.

Inductive outcome (A : Type) := Val (a : A) | Exc (e : exn) | Crashed.
Arguments Val {A} a.
Arguments Exc {A} e.
Arguments Crashed {A}.

Definition M (A : Type) := world -> outcome A * world.

Definition ret {A} (a : A) : M A := fun w => (Val a, w).
Definition raise {A} (e : exn) : M A := fun w => (Exc e, w).
Definition bind {A B} (m : M A) (k : A -> M B) : M B :=
  fun w => match m w with
           | (Val a, w') => k a w'
           | (Exc e, w') => (Exc e, w')
           | (Crashed, w') => (Crashed, w')
           end.
(* try: m except Exception as e: h e   -- a crash is not an exception *)
Definition catch {A} (m : M A) (h : exn -> M A) : M A :=
  fun w => match m w with
           | (Exc e, w') => h e w'
           | r => r
           end.
Notation "x <- m ;; k" := (bind m (fun x => k)) (at level 61, m at next level, right associativity).
Notation "m ;;; k" := (bind m (fun _ => k)) (at level 61, right associativity).

Fixpoint sched_fault (l : list (nat * action)) (k : nat) : option nat :=
  match l with
  | [] => None
  | (k', AFault e) :: r => if Nat.eqb k k' then Some e else sched_fault r k
  | _ :: r => sched_fault r k
  end.
Fixpoint sched_appear (l : list (nat * action)) (k : nat) : option (bytes * N) :=
  match l with
  | [] => None
  | (k', AAppear c m) :: r => if Nat.eqb k k' then Some (c, m) else sched_appear r k
  | _ :: r => sched_appear r k
  end.

Definition interfere (w : world) : fs :=
  match sched_appear (w_sched w) (w_tick w) with
  | Some (c, m) => match f_dir (w_fs w) (w_dest w) with
                   | None => fs_create (w_fs w) (w_dest w) c true m
                   | Some _ => w_fs w
                   end
  | None => w_fs w
  end.

Definition intrudes (w : world) : bool :=
  match sched_appear (w_sched w) (w_tick w) with
  | Some _ => match f_dir (w_fs w) (w_dest w) with None => true | Some _ => false end
  | None => false
  end.

Definition exn_of_fault (e : ev) (errno : nat) : exn :=
  match e with
  | EFdopen => if Nat.eqb errno EINVAL then ValueError else OSErr errno
  | _ => OSErr errno
  end.

(* one primitive event: crash point, interference, (scheduled or inherent)
   failure, semantics.  An injected failure has no effect, except that a failing
   close/fdopen still releases the descriptor. *)
Definition crash_now (w : world) : bool :=
  match w_crash w with Some k => Nat.eqb k (w_tick w) | None => false end.

Definition after_fault (umask : N) (e : ev) (s : fs) (f : fstate) : fs * fstate :=
  match e with
  | EClose => let '(_, s', f') := sem umask EClose s f in (s', f')
  | EFdopen => (s, FClosed)
  | _ => (s, f)
  end.

Definition next_world (w : world) (s : fs) (f : fstate) (e : ev) (r : option nat) : world :=
  mkW s f (w_umask w) (w_dest w) (S (w_tick w)) (w_crash w) (w_sched w) ((e, r) :: w_trace w)
      (w_intruded w || intrudes w).

Definition fault_of (forced : option nat) (w : world) : option nat :=
  match forced with Some x => Some x | None => sched_fault (w_sched w) (w_tick w) end.

(* a primitive that fails by itself: EBADF = "I/O operation on closed file", a ValueError in Python *)
Definition exn_of_sem (errno : nat) : exn := if Nat.eqb errno EBADF then ValueError else OSErr errno.

Definition step (e : ev) (forced : option nat) (w : world) : outcome unit * world :=
  let s := interfere w in
  match fault_of forced w with
  | Some errno =>
      let sf := after_fault (w_umask w) e s (w_file w) in
      (Exc (exn_of_fault e errno), next_world w (fst sf) (snd sf) e (Some errno))
  | None =>
      let rsf := sem (w_umask w) e s (w_file w) in
      (match fst (fst rsf) with None => Val tt | Some errno => Exc (exn_of_sem errno) end,
       next_world w (snd (fst rsf)) (snd rsf) e (fst (fst rsf)))
  end.

Definition prim_f (e : ev) (forced : option nat) : M unit := fun w =>
  if crash_now w then (Crashed, w) else step e forced w.
Definition prim (e : ev) : M unit := prim_f e None.

(* read-only probes: os.path.lexists, os.stat *)
Definition lexists (n : name) : M bool := fun w =>
  (Val (match f_dir (w_fs w) n with Some _ => true | None => false end), w).
Definition stat_mode (n : name) : M (option N) := fun w =>
  (Val (match f_dir (w_fs w) n with Some i => Some (i_mode (f_ino (w_fs w) i)) | None => None end), w).
Definition get_file : M fstate := fun w => (Val (w_file w), w).

(* ------------------------------------------------------------------------ *)
(* AtomicSaver                                                               *)
(* ------------------------------------------------------------------------ *)
Record cfg := mkCfg {
  c_overwrite : bool;
  c_overwrite_part : bool;
  c_rm_part_on_exc : bool;
  c_file_perms : option N;
  c_fdopen_invalid : bool;     (* text_mode with buffering=0: os.fdopen raises ValueError *)
  c_dest : name;
  c_part : name
}.

Definition RW_PERMS := 438.        (* 0o666 *)

(* _rm_part_file: if rm_part_on_exc: try unlink except Exception: pass *)
Definition rm_part_file (c : cfg) : M unit :=
  if c_rm_part_on_exc c then catch (prim (EUnlink (c_part c))) (fun _ => ret tt) else ret tt.

(* text_mode with buffering=0: the real call fails by itself (ValueError) *)
Definition fdopen (c : cfg) : M unit :=
  prim_f EFdopen (if c_fdopen_invalid c then Some EINVAL else None).

Definition open_part_file (c : cfg) : M unit :=
  pm <- match c_file_perms c with
        | Some p => ret (p, true)
        | None => st <- stat_mode (c_dest c) ;;
                  ret (match st with Some m => (m, true) | None => (RW_PERMS, false) end)
        end ;;
  let '(perms, do_chmod) := pm in
  prim (EOpen (c_part c) true perms) ;;;
  catch (fdopen c) (fun e => rm_part_file c ;;; raise e) ;;;
  if do_chmod
  then catch (prim (EChmod (c_part c) perms))
             (fun e => (* try: close() finally: _rm_part_file(); raise *)
                       catch (prim EClose) (fun e2 => rm_part_file c ;;; raise e2) ;;;
                       rm_part_file c ;;; raise e)
  else ret tt.

Definition setup (c : cfg) : M unit :=
  de <- lexists (c_dest c) ;;
  if de && negb (c_overwrite c) then raise (OSErr EEXIST) else
  pe <- lexists (c_part c) ;;
  (if c_overwrite_part c && pe then prim (EUnlink (c_part c)) else ret tt) ;;;
  open_part_file c.

Definition atomic_rename (c : cfg) : M unit :=
  if c_overwrite c then prim (ERename (c_part c) (c_dest c))
  else prim (ELink (c_part c) (c_dest c)) ;;; prim (EUnlink (c_part c)).

(* __exit__(exc): [exc] = the body raised *)
Definition exit_ (c : cfg) (exc : bool) : M unit :=
  f <- get_file ;;
  (match f with
   | FNone => ret tt
   | _ => catch (prim EFlush ;;; prim EFsync ;;; prim EClose)
                (fun e => catch (prim EClose) (fun _ => ret tt) ;;; rm_part_file c ;;; raise e)
   end) ;;;
  if exc then rm_part_file c
  else catch (atomic_rename c) (fun e => rm_part_file c ;;; raise e).

(* the with-block's body: writes and flushes on the part file, then maybe an exception *)
(* BClose: the body closes the file object it was given (a misuse the saver must survive) *)
Inductive bop := BWrite (data : bytes) (disk : N) | BFlush | BClose.

Fixpoint run_body (ops : list bop) : M unit :=
  match ops with
  | [] => ret tt
  | BWrite d k :: r => prim (EWrite d k) ;;; run_body r
  | BFlush :: r => prim EFlush ;;; run_body r
  | BClose :: r => prim EClose ;;; run_body r
  end.

(* the buffering oracle is in range at every write: vl = bytes in the kernel, bl = bytes still buffered *)
Fixpoint oracle_ok (vl bl : N) (ops : list bop) : bool :=
  match ops with
  | [] => true
  | BWrite d k :: r =>
      let all := (vl + bl + blen d)%N in
      (vl <=? k)%N && (k <=? all)%N && oracle_ok k (all - k)%N r
  | BFlush :: r => oracle_ok (vl + bl)%N 0%N r
  | BClose :: _ => false                  (* not a well-behaved body *)
  end.

Definition BODY_EXN := OtherExn 1.

Definition body (ops : list bop) (raises : bool) : M unit :=
  run_body ops ;;; if raises then raise BODY_EXN else ret tt.

(* with atomic_save(dest, **cfg) as f: body(f) *)
Definition save (c : cfg) (ops : list bop) (raises : bool) : M unit :=
  setup c ;;;
  fun w => match body ops raises w with
           | (Val _, w') => exit_ c false w'
           | (Exc e, w') => (exit_ c true ;;; raise e) w'
           | (Crashed, w') => (Crashed, w')
           end.

(* ------------------------------------------------------------------------ *)
(* Views                                                                     *)
(* ------------------------------------------------------------------------ *)
Definition new_content (ops : list bop) : bytes :=
  flat_map (fun o => match o with BWrite d _ => d | BFlush | BClose => [] end) ops.

(* what a reader of [n] sees after the process was killed (kernel state survives) *)
Definition content_kill (s : fs) (n : name) : option bytes :=
  match f_dir s n with Some i => Some (i_vol (f_ino s i)) | None => None end.
(* ... after power loss (only synced data survives; completed directory operations are journaled) *)
Definition content_power (s : fs) (n : name) : option bytes :=
  match f_dir s n with Some i => Some (i_dur (f_ino s i)) | None => None end.
Definition mode_of (s : fs) (n : name) : option N :=
  match f_dir s n with Some i => Some (i_mode (f_ino s i)) | None => None end.

(* ------------------------------------------------------------------------ *)
(* Replaying a recorded sequence of calls on the file-system model, whoever    *)
(* issued it (used to evaluate the power-loss view on the implementation's own *)
(* calls).  A failed call has the effect of [after_fault].                     *)
(* ------------------------------------------------------------------------ *)
Definition replay_step (um : N) (st : fs * fstate) (x : ev * option nat) : fs * fstate :=
  match x with
  | (e, None) => let rsf := sem um e (fst st) (snd st) in (snd (fst rsf), snd rsf)
  | (e, Some _) => after_fault um e (fst st) (snd st)
  end.
Definition replay (um : N) (t : list (ev * option nat)) (st : fs * fstate) : fs * fstate :=
  fold_left (replay_step um) t st.

Definition no_appear (sched : list (nat * action)) : bool :=
  forallb (fun ka => match snd ka with AAppear _ _ => false | AFault _ => true end) sched.

Definition init_world (s : fs) (umask : N) (dest : name) (crash : option nat) (sched : list (nat * action)) : world :=
  mkW s FNone umask dest 0 crash sched [] false.

Definition run_save (c : cfg) (ops : list bop) (raises : bool) (s : fs) (umask : N)
           (crash : option nat) (sched : list (nat * action)) : outcome unit * world :=
  save c ops raises (init_world s umask (c_dest c) crash sched).
