(* C08 model of boltons.iterutils.remap / research / get_path AS WRITTEN:
   an explicit work stack holding pending (key, value) items and _REMAP_EXIT
   sentinels, an id()-keyed registry, new_items_stack, the current path.
   Definitions only.

   Objects are terms with identities (Lib.C08_Py.obj); the new object built for
   the old container [id] is named [id] as well.  registry[id(old)] is
     - at enter: the blank new parent.  For list/dict/set it is the very object
       that exit fills in place, i.e. already "the new object id": [ORef id k].
       For tuple/frozenset it is a throw-away empty [k()] : [OBlank k] - exit
       builds a different object (default_exit: `new_parent.__class__(vals)`);
     - after exit: the finished value [ONode id k items]. *)
From Boltons Require Import Lib.Prelude Lib.C08_Py Spec.C08_Spec.

Definition impl_blank (id : nat) (k : kind) : obj := if mutable k then ORef id k else OBlank k.

Inductive sitem :=
| SItem (rt : bool) (ky : key) (o : obj)        (* (key, value); rt: `value is root` *)
| SExit (ky : key) (id : nat) (k : kind).       (* (_REMAP_EXIT, (key, new_parent, old_parent)) *)

Record mstate := mkSt {
  stk : list sitem;                             (* stack, top first *)
  reg : table obj;                              (* registry *)
  nis : list (path * list (key * obj));         (* new_items_stack, top first *)
  pth : path;
  lg : list event;                              (* calls made to enter / visit so far *)
  cur : obj                                     (* the variable `value` (returned at the end) *)
}.

(* a visit callback as the machine meets it: it may also raise (None) *)
Definition mvisit_fn := path -> key -> val -> option action.
Definition lift (v : option visit_fn) : option mvisit_fn :=
  match v with Some f => Some (fun p k x => Some (f p k x)) | None => None end.
Definition VisitError : exn := OtherExn 7.

Section Machine.
  Variable visit : option mvisit_fn.            (* None: visit is _orig_default_visit (inlined) *)
  Variable reraise : bool.                      (* the reraise_visit keyword *)
  Variable defs : table obj.

  (* try: visited_item = visit(path, key, value)
     except Exception: if reraise_visit: raise; visited_item = True *)
  Definition call_visit (p : path) (ky : key) (v : obj) (lg : list event)
    : (option (key * obj) * list event) + list event :=
    match visit with
    | None => inl (Some (ky, v), lg)
    | Some f =>
        let lg' := lg ++ [EVisit p ky (oref_of v) (erase v)] in
        match f p ky (erase v) with
        | Some a => inl (apply_action oval a ky v, lg')
        | None => if reraise then inr lg' else inl (Some (ky, v), lg')
        end
    end.

  (* the tail of the loop body: visit, then append to the current new_items *)
  Definition visit_phase (st : mstate) (ky : key) (v : obj) : mstate + outcome :=
    match call_visit (pth st) ky v (lg st) with
    | inr lg' => inr (Fail VisitError lg')                                       (* the exception propagates *)
    | inl (it, lg') =>
        match it with
        | None => inl (mkSt (stk st) (reg st) (nis st) (pth st) lg' v)          (* continue  # drop *)
        | Some item =>
            match nis st with
            | [] => inr (Fail TypeError lg')                                      (* expected remappable root *)
            | (p0, acc) :: r => inl (mkSt (stk st) (reg st) ((p0, acc ++ [item]) :: r) (pth st) lg' v)
            end
        end
    end.

  Definition step (it : sitem) (rest : list sitem) (st : mstate) : mstate + outcome :=
    match it with
    | SExit ky id k =>
        match nis st with
        | [] => inr (Fail IndexError (lg st))
        | (p0, new_items) :: nr =>
            let v := ONode id k (build erase k new_items) in                      (* exit(...) *)
            let st' := mkSt rest (t_set (reg st) id v) nr p0
                            (lg st ++ [EExit p0 ky id (shallow_items new_items)]) v in
            match nr with
            | [] => inl st'                                                       (* if not new_items_stack: continue *)
            | _ => visit_phase st' ky v
            end
        end
    | SItem rt ky o =>
        let st0 := mkSt rest (reg st) (nis st) (pth st) (lg st) (cur st) in
        match match obj_id o with Some id => t_get (reg st) id | None => None end with
        | Some v => visit_phase st0 ky v                                          (* id_value in registry *)
        | None =>
            let lg1 := lg st ++ [EEnter (pth st) ky (oref_of o) (in_view defs o)] in   (* enter(path, key, value) *)
            match o with
            | ONode id k items =>                                                 (* new_items is not False *)
                inl (mkSt (map (fun kv => SItem false (fst kv) (snd kv)) items ++ SExit ky id k :: rest)
                          (t_set (reg st) id (impl_blank id k))
                          ((pth st, []) :: nis st)
                          (if rt then pth st else pth st ++ [ky])
                          lg1 (cur st))
            | _ => visit_phase (mkSt rest (reg st) (nis st) (pth st) lg1 (cur st)) ky o
            end
        end
    end.

  Fixpoint run (fuel : nat) (st : mstate) : outcome :=
    match fuel with
    | 0 => OutOfFuel
    | S f =>
        match stk st with
        | [] => Done (cur st) (reg st) (lg st)                                    (* return value *)
        | it :: rest =>
            match step it rest st with
            | inl st' => run f st'
            | inr out => out
            end
        end
    end.

  Definition init (root : obj) : mstate := mkSt [SItem true KNone root] [] [] [] [] root.
  Definition remap (root : obj) : outcome := run (2 * osize root + 1) (init root).
End Machine.

(* research(root, query): remap with the default visit and an enter wrapper
   that records (path + (key,), value) when query(path, key, value) is true *)
Definition research (q : query_fn) (root : obj) : res (list (path * oref)) :=
  match remap None true (collect_defs root) root with
  | Done _ _ lg => Ok (reported q lg)
  | Fail e _ => Raise e
  | OutOfFuel => Raise (OtherExn 2)
  end.

(* the same with a query that may raise (None) and research's `reraise` flag:
   the exception leaves research at that enter call, or the entry is skipped *)
Definition mquery_fn := path -> key -> sview -> option bool.
Definition QueryError : exn := OtherExn 8.

Fixpoint reported_x (q : mquery_fn) (reraise : bool) (lg : list event) : res (list (path * oref)) :=
  match lg with
  | [] => Ok []
  | EEnter p k r s :: rest =>
      match q p k s with
      | Some true => match reported_x q reraise rest with Ok l => Ok ((p ++ [k], r) :: l) | Raise e => Raise e end
      | Some false => reported_x q reraise rest
      | None => if reraise then Raise QueryError else reported_x q reraise rest
      end
  | _ :: rest => reported_x q reraise rest
  end.

Definition research_x (q : mquery_fn) (reraise : bool) (root : obj) : res (list (path * oref)) :=
  match remap None true (collect_defs root) root with
  | Done _ _ lg => reported_x q reraise lg
  | Fail e lg => match reported_x q reraise lg with Ok _ => Raise e | Raise e' => Raise e' end
  | OutOfFuel => Raise (OtherExn 2)
  end.

(* get_path(root, path): the loop `for seg in path: cur = cur[seg]`; every
   failure is re-raised as PathAccessError (KeyError here) *)
Definition getitem (defs : table obj) (cur : obj) (seg : key) : res obj :=
  match resolve defs cur with
  | ONode _ KList items | ONode _ KTuple items =>
      match seg_index seg with              (* cur[seg]; on TypeError: cur[int(seg)] *)
      | Some i => match nth_error items i with Some (_, c) => Ok c | None => Raise IndexError end
      | None => Raise TypeError
      end
  | ONode _ KDict items => match kd_get items seg with Some c => Ok c | None => Raise KeyError end
  | _ => Raise TypeError
  end.

Fixpoint get_path_from (defs : table obj) (cur : obj) (p : path) : res oref :=
  match p with
  | [] => Ok (oref_of cur)
  | seg :: rest =>
      match getitem defs cur seg with
      | Ok c => get_path_from defs c rest
      | Raise _ => Raise KeyError                (* PathAccessError *)
      end
  end.
Definition get_path (root : obj) (p : path) : res oref := get_path_from (collect_defs root) root p.

(* ---- default_enter / default_exit / default_visit as data ----------------------
   The three default callbacks are if-chains over isinstance tests.  Their
   decision structure is what the loop above relies on; it is stated here as
   functions over Python types, and Gen/C08_Src.v (regenerated from the source on
   every run) is proved equal to them in Proofs/C08_Source.v. *)
Inductive pyty := TyList | TyTuple | TyDict | TySet | TyFrozen | TyStr | TyBytes | TyOther.
Inductive abc := AStr | ABytes | AMapping | ASequence | ASet.
Inductive meth := MExtend | MUpdate.
Inductive iter_kind := ItItems | ItEnumerate.            (* ItemsView(value) | enumerate(value) *)

(* enter: (value, False)  |  (value.__class__(), iterator) *)
Inductive enter_res := NoTraverse | Traverse (it : iter_kind).
(* exit: new_parent.update(new_items) | try new_parent.m(vals) except AttributeError:
   new_parent.__class__(vals) | raise RuntimeError *)
Inductive exit_res := ExUpdateItems | ExTryMethod (m : meth) | ExRaise.
Inductive build_mode := BDictUpdate | BInPlace (m : meth) | BCtor.

Definition ty_of_kind (k : kind) : pyty :=
  match k with KList => TyList | KTuple => TyTuple | KDict => TyDict | KSet => TySet | KFrozen => TyFrozen end.

(* what the machine assumes about enter: containers of the five kinds are
   traversed (dict by items, the others by enumerate), str/bytes/anything else not *)
Definition model_enter (t : pyty) : enter_res :=
  match t with
  | TyDict => Traverse ItItems
  | TyList | TyTuple | TySet | TyFrozen => Traverse ItEnumerate
  | TyStr | TyBytes | TyOther => NoTraverse
  end.

(* what [build] / [impl_blank] assume about exit, per kind *)
Definition model_exit (k : kind) : build_mode :=
  match k with
  | KList => BInPlace MExtend
  | KSet => BInPlace MUpdate
  | KDict => BDictUpdate
  | KTuple | KFrozen => BCtor
  end.
Definition in_place (b : build_mode) : bool := match b with BCtor => false | _ => true end.

(* an exit decision resolved against the attributes the type has *)
Definition resolve_exit (hasattr : pyty -> meth -> bool) (t : pyty) (r : exit_res) : option build_mode :=
  match r with
  | ExUpdateItems => Some BDictUpdate
  | ExTryMethod m => Some (if hasattr t m then BInPlace m else BCtor)
  | ExRaise => None
  end.

(* ---- the pieces get_path's lookup step and research's enter wrapper are made of --
   (Gen/C08_Src.v composes them as the source does; Proofs/C08_Source.v proves the
   composition equal to [getitem] / [reported_x]) *)
Definition PathAccessError : exn := OtherExn 10.
Fixpoint exn_in (e : exn) (l : list exn) : bool :=
  match l with [] => false | x :: r => exn_eqb e x || exn_in e r end.

(* Python's cur[seg] itself: list/tuple need an int (IndexError when out of range,
   TypeError for anything else), dict looks the key up (KeyError), nothing else is
   subscriptable (TypeError) *)
Definition raw_getitem (defs : table obj) (cur : obj) (seg : key) : res obj :=
  match resolve defs cur with
  | ONode _ KList items | ONode _ KTuple items =>
      match seg with
      | KI i => match nth_error items i with Some (_, c) => Ok c | None => Raise IndexError end
      | _ => Raise TypeError
      end
  | ONode _ KDict items => match kd_get items seg with Some c => Ok c | None => Raise KeyError end
  | _ => Raise TypeError
  end.

(* int(seg): an int or a string of digits converts; other strings/bytes give
   ValueError, None and tuples TypeError (all KT keys are rendered as ValueError: both
   are caught by the same clause) *)
Definition py_int (seg : key) : res nat :=
  match seg with
  | KI i | KS i => Ok i
  | KT _ => Raise ValueError
  | KNone => Raise TypeError
  end.

(* what research's enter wrapper does with one enter call, given the query's answer *)
Inductive research_step := RReport (p : path) (r : oref) | RSkip | RRaise.
