(* Executable model of the code as written (definitions only):
     boltons/strutils.py   _line_ending_re, iter_splitlines, indent (default key)
     boltons/jsonutils.py  reverse_iter_lines, JSONLIterator.__init__/next
   Python primitives used by that code and not modelled further (trusted, DESIGN 2.6; each
   is compared with the real one on every run): re alternation of literals + finditer,
   bytes.splitlines, slicing, file seek/read/iteration, bytes/str.lstrip, UTF-8 and single-byte
   codecs, json.loads. *)
From Boltons Require Import Lib.Prelude Lib.C19_Utf8 Spec.C19_Spec.
Open Scope N_scope.

(* ===== strutils.iter_splitlines =============================================== *)
(* _line_ending_re = '(' alt1 | alt2 | ... ')' with literal alternatives: at a position the
   first alternative (in pattern order) that is a prefix of the rest of the text matches. *)
Fixpoint is_prefix (a t : text) : bool :=
  match a, t with
  | [], _ => true
  | x :: a', y :: t' => (x =? y) && is_prefix a' t'
  | _ :: _, [] => false
  end.

Fixpoint first_match (alts : list text) (t : text) : option nat :=
  match alts with
  | [] => None
  | a :: rest => if is_prefix a t then Some (length a) else first_match rest t
  end.

(* re.finditer: non-overlapping matches left to right, as (start, end) offsets.
   [skip] = characters still covered by the previous match. *)
Fixpoint finditer (alts : list text) (t : text) (pos skip : nat) : list (nat * nat) :=
  match t with
  | [] => []
  | _ :: t' =>
      match skip with
      | S k => finditer alts t' (S pos) k
      | O => match first_match alts t with
             | Some (S k) => (pos, pos + S k)%nat :: finditer alts t' (S pos) k
             | _ => finditer alts t' (S pos) O
             end
      end
  end.

Definition slice (t : text) (lo hi : nat) : text := firstn (hi - lo) (skipn lo t).   (* t[lo:hi], lo <= len *)

(* the body of the for loop; state = (prev_end, lines yielded so far) *)
Definition isl_step (t : text) (st : nat * list text) (m : nat * nat) : nat * list text :=
  let '(prev_end, out) := st in
  let '(start, end_) := m in
  let out1 := if (prev_end <=? start)%nat then out ++ [slice t prev_end start] else out in
  let out2 := if (end_ =? length t)%nat then out1 ++ [[]] else out1 in
  (end_, out2).

Definition iter_splitlines (alts : list text) (t : text) : list text :=
  let '(prev_end, out) := fold_left (isl_step t) (finditer alts t O O) (O, []) in
  let tail := skipn prev_end t in
  match tail with [] => out | _ => out ++ [tail] end.

(* strutils.indent with the default key=bool:
     newline.join([(margin + line if key(line) else line) for line in iter_splitlines(text)]) *)
Definition indent (alts : list text) (t margin newline : text) : text :=
  join_lines newline (map (fun line => match line with [] => line | _ => margin ++ line end)
                          (iter_splitlines alts t)).

(* ===== jsonutils.reverse_iter_lines ============================================ *)
Definition bytes_splitlines : text -> list text := splitlines is_nl_byte.     (* bytes.splitlines() *)
Definition ends_lf (b : text) : bool := last b 0 =? LF.                        (* buff[-1:] == b'\n' *)
Definition is_nil {A} (l : list A) : bool := match l with [] => true | _ => false end.

(* after the loop: `if buff:` split what is still buffered *)
Definition ril_tail (buff : text) : list text :=
  if is_nil buff then []
  else (if ends_lf buff then [[]] else []) ++ rev (bytes_splitlines buff).

(* the while loop; c = the file's bytes, reads are c[cur_pos' : cur_pos' + read_size].
   One unit of fuel per iteration; None = out of fuel (never with fuel >= cur_pos, bs >= 1). *)
Fixpoint ril_loop (fuel : nat) (c : text) (bs cur_pos : nat) (buff : text) : option (list text) :=
  if (cur_pos =? 0)%nat then Some (ril_tail buff)
  else match fuel with
       | O => None
       | S f =>
           let read_size := Nat.min bs cur_pos in
           let cur_pos' := (cur_pos - read_size)%nat in
           let cur := firstn read_size (skipn cur_pos' c) in
           let buff' := cur ++ buff in
           let lines := bytes_splitlines buff' in
           if (length lines <? 2)%nat || is_nil (hd [] lines)
           then ril_loop f c bs cur_pos' buff'
           else option_map (fun rest => (if ends_lf buff' then [[]] else []) ++ rev (tl lines) ++ rest)
                           (ril_loop f c bs cur_pos' (hd [] lines))
       end.

(* lines as bytes, in the order yielded; pos = file_obj.tell() after the optional preseek *)
Definition reverse_iter_lines_bytes (c : text) (bs pos : nat) : option (list text) :=
  ril_loop pos c bs pos [].

Fixpoint decode_all (ls : list text) : option (list text) :=
  match ls with
  | [] => Some []
  | l :: r => match utf8_decode l, decode_all r with
              | Some t, Some ts => Some (t :: ts)
              | _, _ => None
              end
  end.

(* single-byte encodings (cp1252, iso8859-x, koi8-r, ...): 256 entries byte -> code point, None = undefined *)
Definition sb_table := list (option N).
Definition sb_decode1 (tbl : sb_table) (b : N) : option N := nth (N.to_nat b) tbl None.
Fixpoint sb_decode (tbl : sb_table) (bs : text) : option text :=
  match bs with
  | [] => Some []
  | b :: r => match sb_decode1 tbl b, sb_decode tbl r with
              | Some c, Some t => Some (c :: t)
              | _, _ => None
              end
  end.
Fixpoint sb_decode_all (tbl : sb_table) (ls : list text) : option (list text) :=
  match ls with
  | [] => Some []
  | l :: r => match sb_decode tbl l, sb_decode_all tbl r with
              | Some t, Some ts => Some (t :: ts)
              | _, _ => None
              end
  end.

(* BytesIO / open(..., 'rb')  |  open(..., 'r', encoding='utf-8') or encoding='utf-8' given  |
   open(..., 'r', encoding='latin-1') or encoding='latin-1' given (code point = byte value)  |
   open(..., 'r', encoding=<a single-byte codec with the given table>) *)
Inductive fmode := Binary | TextUtf8 | TextLatin1 | TextTable (tbl : sb_table).

(* try: encoding = encoding or file_obj.encoding / except AttributeError: encoding = None
   (arg = the encoding argument, own = the handle's .encoding; binary handles have none) *)
Definition pick_encoding (arg own : option fmode) : option fmode :=
  match arg with
  | Some e => Some e                         (* truthy argument: `or` never looks at the handle *)
  | None => match own with Some e => Some e | None => None end
  end.
Definition mode_of (e : option fmode) : fmode := match e with Some m => m | None => Binary end.

(* list(reverse_iter_lines(f, blocksize)): Ok lines | Raise ValueError (UnicodeDecodeError)
   | Raise RuntimeError = model out of fuel *)
Definition reverse_iter_lines (m : fmode) (c : text) (bs pos : nat) : res (list text) :=
  match reverse_iter_lines_bytes c bs pos with
  | None => Raise RuntimeError
  | Some ls => match m with
               | Binary => Ok ls
               | TextUtf8 => match decode_all ls with Some ts => Ok ts | None => Raise ValueError end
               | TextLatin1 => Ok ls
               | TextTable tbl => match sb_decode_all tbl ls with Some ts => Ok ts | None => Raise ValueError end
               end
  end.

(* ===== jsonutils.JSONLIterator ================================================= *)
(* iter(binary file): lines end after each \n and keep it *)
Fixpoint file_iter_bin (c : text) : list text :=
  match c with
  | [] => []
  | x :: c' => if x =? LF then [x] :: file_iter_bin c' else cons_head x (file_iter_bin c')
  end.

(* iter(text file), newline=None: \n, \r, \r\n end a line and are translated to \n *)
Fixpoint file_iter_text (t : text) : list text :=
  match t with
  | [] => []
  | x :: t' =>
      if x =? LF then [LF] :: file_iter_text t'
      else if x =? CR then
        [LF] :: match t' with
                | d :: t'' => if d =? LF then file_iter_text t'' else file_iter_text t'
                | [] => []
                end
      else cons_head x (file_iter_text t')
  end.

(* bytes.lstrip() / str.lstrip() *)
Definition is_ws_bytes (c : N) : bool := (c =? 32) || ((9 <=? c) && (c <=? 13)).
Definition is_ws_str (c : N) : bool :=
  (c =? 32) || ((9 <=? c) && (c <=? 13)) || ((28 <=? c) && (c <=? 31)) || (c =? 133) || (c =? 160)
  || (c =? 5760) || ((8192 <=? c) && (c <=? 8202)) || (c =? 8232) || (c =? 8233) || (c =? 8239)
  || (c =? 8287) || (c =? 12288).

Definition jsonl_blocksize : nat := 4096.     (* self._blocksize *)

Section JSONL.
  Context {obj : Type}.
  Variable loads_text : text -> option obj.      (* json.loads on a str, None = raises *)

  (* json.loads on bytes decodes them first (UnicodeDecodeError is a ValueError) *)
  Definition loads_bytes (b : text) : option obj :=
    match utf8_decode b with Some t => loads_text t | None => None end.

  (* next() called until StopIteration (false) or until an exception escapes (true):
       while 1:
           line = next(self._line_iter).lstrip()
           if not line: continue
           try: obj = json.loads(line)
           except Exception:
               if not self.ignore_errors: raise
               continue
           return obj                                                              *)
  Fixpoint py_lstrip (ws : N -> bool) (l : text) : text :=
    match l with c :: r => if ws c then py_lstrip ws r else l | [] => [] end.

  Fixpoint jsonl_next_all (loads : text -> option obj) (ws : N -> bool) (ie : bool) (lines : list text)
    : list obj * bool :=
    match lines with
    | [] => ([], false)                                   (* StopIteration from the line iterator *)
    | raw :: rest =>
        let line := py_lstrip ws raw in
        if is_nil line then jsonl_next_all loads ws ie rest
        else match loads line with
             | None => if ie then jsonl_next_all loads ws ie rest else ([], true)
             | Some o => let r := jsonl_next_all loads ws ie rest in (o :: fst r, snd r)
             end
    end.

  Definition jsonl_iter (m : fmode) (ie reverse : bool) (c : text) : res (list obj * bool) :=
    match m, reverse with
    | Binary, false => Ok (jsonl_next_all loads_bytes is_ws_bytes ie (file_iter_bin c))
    | Binary, true =>
        match reverse_iter_lines Binary c jsonl_blocksize (length c) with
        | Ok ls => Ok (jsonl_next_all loads_bytes is_ws_bytes ie ls)
        | Raise e => Raise e
        end
    | TextUtf8, false =>
        match utf8_decode c with
        | Some t => Ok (jsonl_next_all loads_text is_ws_str ie (file_iter_text t))
        | None => Raise ValueError
        end
    | TextUtf8, true =>
        match reverse_iter_lines TextUtf8 c jsonl_blocksize (length c) with
        | Ok ls => Ok (jsonl_next_all loads_text is_ws_str ie ls)
        | Raise e => Raise e
        end
    | TextTable tbl, false =>
        match sb_decode tbl c with
        | Some t => Ok (jsonl_next_all loads_text is_ws_str ie (file_iter_text t))
        | None => Raise ValueError
        end
    | TextTable tbl, true =>
        match reverse_iter_lines (TextTable tbl) c jsonl_blocksize (length c) with
        | Ok ls => Ok (jsonl_next_all loads_text is_ws_str ie ls)
        | Raise e => Raise e
        end
    | TextLatin1, false => Ok (jsonl_next_all loads_text is_ws_str ie (file_iter_text c))
    | TextLatin1, true =>
        match reverse_iter_lines TextLatin1 c jsonl_blocksize (length c) with
        | Ok ls => Ok (jsonl_next_all loads_text is_ws_str ie ls)
        | Raise e => Raise e
        end
    end.
End JSONL.
