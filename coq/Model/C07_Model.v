(* C07 executable model of the code as written (boltons/urlutils.py):
     resolve_path_parts, URL.normalize, URL.navigate, URL.from_parts,
     URL.path, URL.to_text/get_authority (full_quote=False),
     URL.__init__/parse_url/parse_qsl restricted to the text domain below.
   Definitions only.

   Domain of the text-level functions (outside it they return None =
   "not modelled", never a normal-looking result; the generator stays inside):
   '%' only in path, query and fragment and only escapes of ASCII bytes
   (url_of_text_pct; without '%' unquote is the identity), no ';' '+' in a query, no "k=" pair
   with an empty value, no '[' ']' in an authority (IPv6), ASCII scheme/host/
   userinfo, host made of non-empty labels over [A-Za-z0-9-] not starting with
   "xn--", a password only together with a user name, port = ASCII digits.
   These are the parts of urlutils owned by property C06. *)
From Boltons Require Import Lib.Prelude Lib.C07_Str Spec.C07_Spec Gen.C07_Gen.
From Coq Require Import DecimalN.
Open Scope N_scope.

(* ------------------------------------------------------------------------- *)
(* resolve_path_parts                                                         *)
(* ------------------------------------------------------------------------- *)
Definition is_dot (p : str) : bool := str_eqb p [DOT].
Definition is_dotdot (p : str) : bool := str_eqb p [DOT; DOT].

(*  for part in path_parts:
        if part == '.': pass
        elif part == '..':
            if ret and (len(ret) > 1 or ret[0]): ret.pop()
        else: ret.append(part)                                                  *)
Fixpoint rpp_loop (parts ret : list str) : list str :=
  match parts with
  | [] => ret
  | part :: rest =>
      if is_dot part then rpp_loop rest ret
      else if is_dotdot part then
        if nonempty ret && ((1 <? N.of_nat (length ret)) || nonempty (hd [] ret))
        then rpp_loop rest (removelast ret)
        else rpp_loop rest ret
      else rpp_loop rest (ret ++ [part])
  end.

(*  if list(path_parts[-1:]) in (['.'], ['..']): ret.append('')                 *)
Definition ends_with_dots (parts : list str) : bool :=
  match rev parts with
  | l :: _ => is_dot l || is_dotdot l
  | [] => false
  end.

Definition resolve_path_parts (parts : list str) : list str :=
  let ret := rpp_loop parts [] in
  if ends_with_dots parts then ret ++ [[]] else ret.

(* ------------------------------------------------------------------------- *)
(* the URL object                                                             *)
(* ------------------------------------------------------------------------- *)
Record url := mkUrl {
  u_scheme : str;
  u_sep : bool;                       (* _netloc_sep == '//' *)
  u_user : str;
  u_pass : str;
  u_host : str;
  u_port : option N;
  u_path : list str;                  (* path_parts *)
  u_query : list (str * option str);  (* query_params, items(multi=True) order *)
  u_frag : str }.

Fixpoint assoc {B} (k : str) (l : list (str * B)) : option B :=
  match l with
  | [] => None
  | (k', v) :: r => if str_eqb k k' then Some v else assoc k r
  end.

Definition plus_tail (s : str) : str := last (split 43 s) [].      (* scheme.split('+')[-1] *)

(*  try: return SCHEME_PORT_MAP[self.scheme]
    except KeyError: return SCHEME_PORT_MAP.get(self.scheme.split('+')[-1])     *)
Definition default_port (sch : str) : option N :=
  match assoc sch gen_scheme_ports with
  | Some v => v
  | None => match assoc (plus_tail sch) gen_scheme_ports with Some v => v | None => None end
  end.

Definition in_port_map (sch : str) : bool :=
  match assoc sch gen_scheme_ports with Some _ => true | None => false end.

Definition uses_netloc (u : url) : bool :=
  if in_port_map (u_scheme u) then true
  else if existsb (str_eqb (u_scheme u)) gen_no_netloc then false
  else if in_port_map (plus_tail (u_scheme u)) then true
  else u_sep u.

(* quote_*_part(text, full_quote=False): delimiters of the component -> %XX *)
Definition quote_with (delims : str) (s : str) : str :=
  flat_map (fun c => if mem c delims then pct_encode c else [c]) s.
Definition quote_path_part := quote_with gen_path_delims.
Definition quote_query_part := quote_with gen_query_delims.
Definition quote_fragment_part := quote_with gen_fragment_delims.
(* quote_userinfo_part(text) is always called with full_quote=True: on ASCII
   text that is "safe stays, everything else %XX" *)
Definition quote_userinfo_part (s : str) : str :=
  flat_map (fun c => if mem c gen_userinfo_safe then [c] else pct_encode c) s.

(* str(port) *)
Fixpoint digits_of_uint (u : Decimal.uint) : str :=
  match u with
  | Decimal.Nil => []
  | Decimal.D0 r => 48 :: digits_of_uint r | Decimal.D1 r => 49 :: digits_of_uint r
  | Decimal.D2 r => 50 :: digits_of_uint r | Decimal.D3 r => 51 :: digits_of_uint r
  | Decimal.D4 r => 52 :: digits_of_uint r | Decimal.D5 r => 53 :: digits_of_uint r
  | Decimal.D6 r => 54 :: digits_of_uint r | Decimal.D7 r => 55 :: digits_of_uint r
  | Decimal.D8 r => 56 :: digits_of_uint r | Decimal.D9 r => 57 :: digits_of_uint r
  end.
Definition dec (n : N) : str := digits_of_uint (N.to_uint n).

(* int(port_str) for a string of ASCII digits *)
Fixpoint uint_of_digits (s : str) : option Decimal.uint :=
  match s with
  | [] => Some Decimal.Nil
  | c :: r =>
      match uint_of_digits r with
      | None => None
      | Some u =>
          if c =? 48 then Some (Decimal.D0 u) else if c =? 49 then Some (Decimal.D1 u)
          else if c =? 50 then Some (Decimal.D2 u) else if c =? 51 then Some (Decimal.D3 u)
          else if c =? 52 then Some (Decimal.D4 u) else if c =? 53 then Some (Decimal.D5 u)
          else if c =? 54 then Some (Decimal.D6 u) else if c =? 55 then Some (Decimal.D7 u)
          else if c =? 56 then Some (Decimal.D8 u) else if c =? 57 then Some (Decimal.D9 u)
          else None
      end
  end.

(* get_authority(full_quote=False, with_userinfo=True) *)
Definition authority_text (u : url) : str :=
  (if nonempty (u_user u) || nonempty (u_pass u)
   then quote_userinfo_part (u_user u)
        ++ (if nonempty (u_pass u) then COLON :: quote_userinfo_part (u_pass u) else [])
        ++ [AT]
   else []) ++
  (if nonempty (u_host u)
   then (if mem COLON (u_host u) then [91] ++ u_host u ++ [93] else u_host u)
        ++ match u_port u with
           | Some p => if (p =? 0) || option_eqb N.eqb (Some p) (default_port (u_scheme u))
                       then [] else COLON :: dec p
           | None => []
           end
   else []).

(* URL.path *)
Definition path_text (u : url) : str := join [SL] (map quote_path_part (u_path u)).

(* QueryParamDict.to_text(full_quote=False) *)
Definition query_text (q : list (str * option str)) : str :=
  join [AMP] (map (fun kv => match snd kv with
                             | None => quote_query_part (fst kv)
                             | Some v => quote_query_part (fst kv) ++ EQS :: quote_query_part v
                             end) q).

(* URL.to_text(full_quote=False) *)
Definition to_text (u : url) : str :=
  let scheme := u_scheme u in
  let pth := path_text u in
  let auth := authority_text u in
  let qs := query_text (u_query u) in
  let frag := quote_fragment_part (u_frag u) in
  (if nonempty scheme then scheme ++ [COLON] else []) ++
  (if nonempty auth then [SL; SL] ++ auth
   else if starts_with [SL; SL] pth
           || (nonempty scheme && (is_nil pth || starts_with [SL] pth) && uses_netloc u)
        then [SL; SL] else []) ++
  (if nonempty pth
   then (if nonempty scheme && nonempty auth && negb (starts_with [SL] pth) then [SL] else []) ++ pth
   else []) ++
  (if nonempty qs then QM :: qs else []) ++
  (if nonempty frag then HASH :: frag else []).

(* ------------------------------------------------------------------------- *)
(* URL.normalize(with_case=True)                                              *)
(* ------------------------------------------------------------------------- *)
Definition normalize (u : url) : url :=
  mkUrl (lower (u_scheme u)) (u_sep u) (u_user u) (u_pass u) (lower (u_host u)) (u_port u)
        (resolve_path_parts (u_path u)) (u_query u) (u_frag u).

(* ------------------------------------------------------------------------- *)
(* URL.from_parts  (cls() then attribute assignment: _netloc_sep stays '')     *)
(* ------------------------------------------------------------------------- *)
Definition from_parts (scheme host : str) (parts : list str) (q : list (str * option str))
           (frag : str) (port : option N) (user pass : str) : url :=
  mkUrl scheme false user pass host port
        (match parts with [] => [[]] | _ => parts end)    (* tuple(path_parts) or ('',) *)
        q frag.

(* ------------------------------------------------------------------------- *)
(* URL.navigate: the part after `dest` has been made a URL                    *)
(* ------------------------------------------------------------------------- *)
Definition or_str (a b : str) : str := if nonempty a then a else b.          (* a or b *)
Definition or_port (a b : option N) : option N :=
  match a with Some p => if p =? 0 then b else a | None => b end.

Definition is_absolute_dest (dest : url) : bool :=
  nonempty (u_scheme dest) && nonempty (u_host dest).        (* dest.scheme and dest.host *)

(*  if (dest.host or self.host) and new_path_parts[:1] != ['']:
        new_path_parts.insert(0, '')                                           *)
Definition first_is_empty (parts : list str) : bool :=
  match parts with p :: _ => is_nil p | [] => false end.

Definition navigate_rel (self dest : url) : url :=
  let query_params := u_query dest in
  let dpath := path_text dest in
  let '(new_path_parts, query_params) :=
    if nonempty dpath then
      if starts_with [SL] dpath then (u_path dest, query_params)
      else (removelast (u_path self) ++ u_path dest, query_params)     (* self.path_parts[:-1] + ... *)
    else (u_path self, if is_nil query_params then u_query self else query_params) in
  let new_path_parts :=
    if (nonempty (u_host dest) || nonempty (u_host self)) && negb (first_is_empty new_path_parts)
    then [] :: new_path_parts else new_path_parts in
  normalize (from_parts (or_str (u_scheme dest) (u_scheme self))
                        (or_str (u_host dest) (u_host self))
                        new_path_parts query_params (u_frag dest)
                        (or_port (u_port dest) (u_port self))
                        (or_str (u_user dest) (u_user self))
                        (or_str (u_pass dest) (u_pass self))).

(* ------------------------------------------------------------------------- *)
(* URL(text): parse_url + __init__, on the domain described at the top         *)
(* ------------------------------------------------------------------------- *)
(* the regular expression the code matches with, group names removed; the
   translator regenerates gen_url_re from the source and Props/C07.v checks
   that it is this text, whose language and groups are those of RFC 3986
   Appendix B (one extra group around "//"), i.e. Spec.parse *)
Definition modelled_url_re : str :=
  [94; 40; 40; 91; 94; 58; 47; 63; 35; 93; 43; 41; 58; 41; 63;
   40; 40; 47; 47; 41; 40; 91; 94; 47; 63; 35; 93; 42; 41; 41; 63;
   40; 91; 94; 63; 35; 93; 42; 41;
   40; 92; 63; 40; 91; 94; 35; 93; 42; 41; 41; 63;
   40; 35; 40; 46; 42; 41; 41; 63].

Definition or_empty (o : option str) : str := match o with Some s => s | None => [] end.

(* parse_qsl(keep_blank_values=True) *)
Definition parse_qsl (qs : str) : option (list (str * option str)) :=
  if existsb (fun c => (c =? 59) || (c =? 43) || (c =? PCT)) qs then None else
  let pairs := filter nonempty (split AMP qs) in
  let kvs := map (fun pair => partition_at EQS pair) pairs in
  if existsb (fun kv : str * bool * str => snd (fst kv) && is_nil (snd kv)) kvs then None else
  Some (map (fun kv : str * bool * str =>
               (fst (fst kv), if snd (fst kv) then Some (snd kv) else None)) kvs).

Definition label_ok (l : str) : bool :=
  nonempty l && (N.of_nat (length l) <=? 63) &&
  forallb (fun c => is_alpha c || is_digit c || (c =? 45)) l &&
  negb (starts_with [120; 110; 45; 45] (lower l)).
Definition host_ok (h : str) : bool := is_nil h || forallb label_ok (split DOT h).

Definition scheme_ok (s : str) : bool :=
  forallb (fun c => is_alpha c || is_digit c || (c =? 43) || (c =? 45) || (c =? DOT)) s.

(* ---- percent escapes (wave 5): texts with '%' in path, query or fragment ----------
   unquote(): each %XX with two hex digits becomes the byte XX, anything else stays; the bytes
   are then decoded as UTF-8, which is modelled for ASCII bytes only (a byte >= 0x80 = None) *)
Definition hexval (c : N) : option N :=
  if is_digit c then Some (c - 48)
  else if (65 <=? c) && (c <=? 70) then Some (c - 55)
  else if (97 <=? c) && (c <=? 102) then Some (c - 87)
  else None.

Fixpoint unq (s : str) : option str :=
  match s with
  | [] => Some []
  | c :: r =>
      if c =? PCT then
        match r with
        | a :: b :: r' =>
            match hexval a, hexval b with
            | Some x, Some y =>
                let v := 16 * x + y in
                if 127 <? v then None else option_map (cons v) (unq r')
            | _, _ => option_map (cons PCT) (unq r)
            end
        | _ => option_map (cons PCT) (unq r)
        end
      else option_map (cons c) (unq r)
  end.

Fixpoint all_some {A} (l : list (option A)) : option (list A) :=
  match l with
  | [] => Some []
  | Some x :: r => option_map (cons x) (all_some r)
  | None :: _ => None
  end.

Definition parse_qsl_pct (qs : str) : option (list (str * option str)) :=
  if existsb (fun c => (c =? 59) || (c =? 43)) qs then None else
  let pairs := filter nonempty (split AMP qs) in
  let kvs := map (fun pair => partition_at EQS pair) pairs in
  if existsb (fun kv : str * bool * str => snd (fst kv) && is_nil (snd kv)) kvs then None else
  all_some (map (fun kv : str * bool * str =>
                   match unq (fst (fst kv)), unq (snd kv) with
                   | Some k, Some v => Some (k, if snd (fst kv) then Some v else None)
                   | _, _ => None
                   end) kvs).

(* URL(text) for a text that contains '%' (none in scheme or authority) *)
Definition url_of_text_pct (t : str) : option url :=
  if existsb (fun c => (c =? 10) || (c =? 13)) t then None else
  let g := parse t in
  let sch := or_empty (scheme g) in
  let au := or_empty (authority g) in
  if negb (scheme_ok sch) || mem PCT au || mem 91 au || mem 93 au || existsb (fun c => 127 <? c) au then None else
  let '(userinfo, sep, hostinfo) := rpartition_at AT au in
  let '(user, _, pw) := if sep then partition_at COLON userinfo else ([], false, []) in
  let '(host, hsep, port_str) := partition_at COLON hostinfo in
  if negb (host_ok host) || (is_nil user && nonempty pw) then None else
  match (if hsep then
           (if is_nil port_str then Some None
            else match uint_of_digits port_str with
                 | Some d => Some (Some (N.of_uint d))
                 | None => None
                 end)
         else Some None),
        parse_qsl_pct (or_empty (query g)),
        all_some (map unq (split SL (path g))),          (* unquote(p) for p in path.split('/') *)
        unq (or_empty (fragment g)) with
  | Some port, Some q, Some parts, Some frag =>
      Some (mkUrl sch (match authority g with Some _ => true | None => false end)
                  user pw host port parts q frag)
  | _, _, _, _ => None
  end.

Definition url_of_text (t : str) : option url :=
  if existsb (fun c => (c =? PCT) || (c =? 10) || (c =? 13)) t then url_of_text_pct t else
  let g := parse t in                                    (* _URL_RE.match(t).groupdict() *)
  let sch := or_empty (scheme g) in
  let au := or_empty (authority g) in
  if negb (scheme_ok sch) || mem 91 au || mem 93 au || existsb (fun c => 127 <? c) au then None else
  let '(userinfo, sep, hostinfo) := rpartition_at AT au in
  let '(user, _, pw) := if sep then partition_at COLON userinfo else ([], false, []) in
  let '(host, hsep, port_str) := partition_at COLON hostinfo in
  if negb (host_ok host) || (is_nil user && nonempty pw) then None else
  match (if hsep then
           (if is_nil port_str then Some None     (* empty port is fine: RFC 3986 6.2.3 *)
            else match uint_of_digits port_str with
                 | Some d => Some (Some (N.of_uint d))
                 | None => None
                 end)
         else Some None),
        parse_qsl (or_empty (query g)) with
  | Some port, Some q =>
      Some (mkUrl sch (match authority g with Some _ => true | None => false end)
                  user pw host port (split SL (path g)) q (or_empty (fragment g)))
  | _, _ => None
  end.

(* ------------------------------------------------------------------------- *)
(* navigate(dest) with dest given as text, or as a URL object built from text *)
(* ------------------------------------------------------------------------- *)
Definition navigate (self : url) (dest_text : str) (as_url : bool) : option url :=
  match url_of_text dest_text with
  | None => None
  | Some dest =>
      if is_absolute_dest dest then
        (* ret = URL(dest.to_text(full_quote=True)) if orig_dest is None else dest; ret.normalize()
           The copy through the FULLY quoted text is modelled as the identity (it re-parses to the same
           components: quoting is C06's property; here it is checked by `agree` on every absolute
           destination passed as a URL object, percent escapes of every depth included). *)
        Some (normalize dest)
      else Some (navigate_rel self dest)
  end.
