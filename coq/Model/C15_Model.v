(* Executable model of boltons.iterutils.backoff / backoff_iter AS WRITTEN
   (tree after the two "fix:" commits 19123ca, fcb2411), over the float
   interface of Lib/C15_Float.v.  Definitions only.

     start = float(start); stop = float(stop); factor = float(factor)
     if not start >= 0.0: raise ValueError
     if not factor >= 1.0: raise ValueError
     if stop == 0.0: raise ValueError
     if not stop >= start: raise ValueError
     if count is None:
         count, cur = 1, start
         while cur < stop:
             nxt = cur * factor if cur else 1.0
             if not nxt > cur: raise ValueError
             count, cur = count + 1, nxt
     if count != 'repeat' and count < 0: raise ValueError
     if jitter:
         jitter = float(jitter)
         if not (-1.0 <= jitter <= 1.0): raise ValueError
     cur, i = start, 0
     while count == 'repeat' or i < count:
         if not jitter: cur_ret = cur
         elif jitter:   cur_ret = cur - (cur * jitter * random.random())
         yield cur_ret
         i += 1
         if cur == 0: cur = 1
         elif cur < stop: cur *= factor
         if cur > stop: cur = stop

   backoff() first rejects count == 'repeat' and then builds list(backoff_iter(...)).
   A generator body runs only when the consumer pulls: all exceptions surface at
   the first next().  The consumer is part of the model: it pulls p_take values
   (backoff_iter) or everything (backoff).  random.random() is an argument: the
   list of draws, one per yielded value. *)
From Boltons Require Import Lib.Prelude Lib.C15_Float Spec.C15_Spec.

Inductive dc_res := DCOk (n : Z) | DCStall | DCFuel.
Inductive cnt := NInf | NFin (c : Z).                 (* count after defaulting *)
Inductive pre := PreRaise (e : exn) | PreFuel | PreOk (c : cnt) (jit : bool).

Section Model.
  Context {F : Type} (fo : fops F).
  Local Notation "x <=? y" := (fleb fo x y).
  Local Notation "x <? y" := (fltb fo x y).
  Local Notation "x == y" := (feqb fo x y) (at level 70).
  Local Notation zero := (f0 fo).
  Local Notation one := (f1 fo).

  (* the "count is None" loop; [fuel] bounds the number of iterations *)
  Fixpoint default_count (fuel : nat) (stop factor cur : F) (n : Z) : dc_res :=
    match fuel with
    | O => DCFuel
    | S k =>
        if cur <? stop then
          let nxt := if negb (cur == zero) then fmul fo cur factor else one in
          if negb (cur <? nxt) then DCStall
          else default_count k stop factor nxt (n + 1)
        else DCOk n
    end.

  (* everything before the main loop *)
  Definition prepare (fuel : nat) (start stop factor : F) (c : count) (jitter : F) : pre :=
    if negb (zero <=? start) then PreRaise ValueError else
    if negb (one <=? factor) then PreRaise ValueError else
    if stop == zero then PreRaise ValueError else
    if negb (start <=? stop) then PreRaise ValueError else
    let after_count (n : cnt) : pre :=
      if (match n with NFin z => Z.ltb z 0 | NInf => false end) then PreRaise ValueError else
      if negb (jitter == zero) then
        if negb ((fm1 fo <=? jitter) && (jitter <=? one)) then PreRaise ValueError
        else PreOk n true
      else PreOk n false in
    match c with
    | CNone => match default_count fuel stop factor start 1 with
               | DCOk n => after_count (NFin n)
               | DCStall => PreRaise ValueError
               | DCFuel => PreFuel
               end
    | CNum z => after_count (NFin z)
    | CRepeat => after_count NInf
    end.

  (* the three statements after the yield *)
  Definition step (stop factor cur : F) : F :=
    let c1 := if cur == zero then one
              else if cur <? stop then fmul fo cur factor else cur in
    if stop <? c1 then stop else c1.

  (* what is yielded for the current un-jittered value *)
  Definition emit (jit : bool) (j cur r : F) : F :=
    if jit then fsub fo cur (fmul fo (fmul fo cur j) r) else cur.

  (* n turns of the main loop; None = ran out of random draws *)
  Fixpoint gen_loop (n : nat) (jit : bool) (j stop factor cur : F) (draws : list F)
    : option (list F) :=
    match n with
    | O => Some []
    | S k =>
        if jit then
          match draws with
          | [] => None
          | r :: ds => option_map (cons (emit jit j cur r))
                                  (gen_loop k jit j stop factor (step stop factor cur) ds)
          end
        else option_map (cons cur) (gen_loop k jit j stop factor (step stop factor cur) draws)
    end.

  Definition produce (n : nat) (e : ending) (jit : bool) (p : params F) (draws : list F) : obs F :=
    match gen_loop n jit (p_jitter p) (p_stop p) (p_factor p) (p_start p) draws with
    | Some vs => mkObs vs e
    | None => mkObs [] EFuel
    end.

  Definition run (p : params F) (fuel : nat) (draws : list F) : obs F :=
    match p_api p with
    | ApiList =>
        match p_count p with
        | CRepeat => mkObs [] (ERaise ValueError)
        | _ =>
          match prepare fuel (p_start p) (p_stop p) (p_factor p) (p_count p) (p_jitter p) with
          | PreRaise e => mkObs [] (ERaise e)
          | PreFuel => mkObs [] EFuel
          | PreOk NInf _ => mkObs [] EFuel            (* unreachable: 'repeat' was rejected *)
          | PreOk (NFin z) jit => produce (Z.to_nat z) EStop jit p draws
          end
        end
    | ApiIter =>
        match p_take p with
        | O => mkObs [] EMore                         (* never advanced: no code runs *)
        | take =>
          match prepare fuel (p_start p) (p_stop p) (p_factor p) (p_count p) (p_jitter p) with
          | PreRaise e => mkObs [] (ERaise e)
          | PreFuel => mkObs [] EFuel
          | PreOk NInf jit => produce take EMore jit p draws
          | PreOk (NFin z) jit =>
              if Z.leb (Z.of_nat take) z then produce take EMore jit p draws
              else produce (Z.to_nat z) EStop jit p draws
          end
        end
    end.
End Model.
