(* Executable model of boltons.cacheutils.ThresholdCounter as written
   (after the two fix: commits for update(mapping) and most_common(None)).
   Definitions only. *)
From Boltons Require Import Lib.Prelude.
Open Scope N_scope.

Record tc := mkTC {
  tc_total  : N;
  tc_bucket : N;                    (* _cur_bucket *)
  tc_w      : N;                    (* _thresh_count = int(1/threshold) >= 1 *)
  tc_map    : pydict (N * N)        (* key -> [count, bucket-1 at insertion] *)
}.

Definition tc_init (w : N) : tc := mkTC 0 1 w [].

(* self._count_map[key][0] += 1  /  except KeyError: = [1, cur_bucket - 1] *)
Fixpoint bump (d : pydict (N * N)) (k : K) (b : N) : pydict (N * N) :=
  match d with
  | [] => [(k, (1, b - 1))]
  | (k', (c, dl)) :: r =>
      if Nat.eqb k k' then (k', (c + 1, dl)) :: r else (k', (c, dl)) :: bump r k b
  end.

Definition keep (b : N) (e : K * (N * N)) : bool :=
  let '(_, (c, dl)) := e in b <? c + dl.

Definition tc_add (s : tc) (k : K) : tc :=
  let total := tc_total s + 1 in
  let m := bump (tc_map s) k (tc_bucket s) in
  if total mod tc_w s =? 0
  then mkTC total (tc_bucket s + 1) (tc_w s) (filter (keep (tc_bucket s)) m)
  else mkTC total (tc_bucket s) (tc_w s) m.

Definition tc_adds (s : tc) (ks : list K) : tc := fold_left tc_add ks s.

(* public operations.  Update arguments: an iterable of keys, or a mapping /
   kwargs of key -> count (each key added count times, in mapping order). *)
Inductive tc_op :=
| Add (k : K)
| UpdateIter (ks : list K)
| UpdateMap (kcs : list (K * nat))
| UpdateBoth (first : tc_op) (kw : list (K * nat)).   (* update(source, **kw): the source, then the keywords *)

Definition expand (kcs : list (K * nat)) : list K :=
  flat_map (fun kc => repeat (fst kc) (snd kc)) kcs.

Fixpoint op_keys (o : tc_op) : list K :=
  match o with
  | Add k => [k]
  | UpdateIter ks => ks
  | UpdateMap kcs => expand kcs
  | UpdateBoth first kw => op_keys first ++ expand kw
  end.

Definition tc_step (s : tc) (o : tc_op) : tc := tc_adds s (op_keys o).

(* views *)
Definition tc_items (s : tc) : list (K * N) := map (fun e => (fst e, fst (snd e))) (tc_map s).
Definition tc_len (s : tc) : N := N.of_nat (length (tc_map s)).
Definition tc_common (s : tc) : N := sumN (map snd (tc_items s)).
Definition tc_uncommon (s : tc) : N := tc_total s - tc_common s.
Definition tc_get (s : tc) (k : K) : N :=
  match d_get (tc_map s) k with Some (c, _) => c | None => 0 end.

(* sorted(items, key=count, reverse=True): a stable sort, descending; equal
   counts keep dict order.  Insertion sort from the right is stable. *)
Fixpoint ins_desc (x : K * N) (l : list (K * N)) : list (K * N) :=
  match l with
  | [] => [x]
  | y :: r => if snd x <? snd y then y :: ins_desc x r else x :: y :: r
  end.
Definition sort_desc (l : list (K * N)) : list (K * N) := fold_right ins_desc [] l.

Definition tc_most_common (s : tc) (n : option nat) : list (K * N) :=
  match n with
  | None => sort_desc (tc_items s)
  | Some n => firstn n (sort_desc (tc_items s))
  end.

(* the public view compared with the implementation after every operation *)
Record tc_obs := mkObs {
  o_total : N; o_items : list (K * N); o_common : N; o_uncommon : N;
  o_mc_all : list (K * N); o_mc_n : list (K * N); o_len : N;
  o_probe : N;                                 (* get(probe key) *)
  o_keys : list K; o_values : list N; o_elems : list K
}.

Definition observe (s : tc) (n : nat) (probe : K) : tc_obs :=
  mkObs (tc_total s) (tc_items s) (tc_common s) (tc_uncommon s)
        (tc_most_common s None) (tc_most_common s (Some n)) (tc_len s) (tc_get s probe)
        (map fst (tc_items s)) (map snd (tc_items s))
        (flat_map (fun e => repeat (fst e) (N.to_nat (snd e))) (tc_items s)).

Definition kn_eqb : K * N -> K * N -> bool := pair_eqb Nat.eqb N.eqb.

Definition obs_eqb (a b : tc_obs) : bool :=
  (o_total a =? o_total b) && list_eqb kn_eqb (o_items a) (o_items b) &&
  (o_common a =? o_common b) && (o_uncommon a =? o_uncommon b) &&
  list_eqb kn_eqb (o_mc_all a) (o_mc_all b) && list_eqb kn_eqb (o_mc_n a) (o_mc_n b) &&
  (o_len a =? o_len b) && (o_probe a =? o_probe b) &&
  list_eqb Nat.eqb (o_keys a) (o_keys b) && list_eqb N.eqb (o_values a) (o_values b) &&
  list_eqb Nat.eqb (o_elems a) (o_elems b).
