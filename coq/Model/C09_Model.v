(* Executable model of the C09 helpers of boltons/iterutils.py AS WRITTEN
   (after the two fix: commits to split_iter).  Same control flow and the same
   local state as the generators: islice-based chunk loop, tee'd iterators
   advanced i times then zip / zip_longest, the separator scanner with
   cur_group / split_count, the rstrip cache, the seen set, the seen /
   redundant_order / redundant_groups dicts, setdefault-append buckets, the
   range loop of chunk_ranges.  Definitions only - no proofs here.

   An iterable argument is the list of items it yields; "yield x" is consing x
   onto the output.  [None] as a result of a loop = out of fuel (never happens
   with the fuel the entry points give; the theorems exclude it). *)
From Boltons Require Import Lib.Prelude Spec.C09_Spec.

(* ---------------------------------------------------------------------- *)
(* chunked_iter / chunked                                                  *)
(* ---------------------------------------------------------------------- *)
(*  while True:
        cur_chunk = list(itertools.islice(src_iter, size))
        if not cur_chunk: break
        lc = len(cur_chunk)
        if lc < size and do_fill: cur_chunk[lc:] = [fill_val] * (size - lc)
        yield postprocess(cur_chunk)                                        *)
Fixpoint chunk_loop (fuel : nat) (size : nat) (fill : option K) (it : list K)
  : option (list (list K)) :=
  match fuel with
  | 0 => None
  | S fuel' =>
      let cur := firstn size it in
      match cur with
      | [] => Some []
      | _ =>
          let lc := length cur in
          let cur' := match fill with
                      | Some f => if lc <? size then cur ++ repeat f (size - lc) else cur
                      | None => cur
                      end in
          match chunk_loop fuel' size fill (skipn size it) with
          | Some rest => Some (cur' :: rest)
          | None => None
          end
      end
  end.

(* size = int(size) is validated first: ValueError unless > 0.  `if not src:
   return` for an empty sized container is subsumed by the loop. *)
Definition m_chunked_iter (src : list K) (size : Z) (fill : option K) : res (list (list K)) :=
  if (size <=? 0)%Z then Raise ValueError
  else match chunk_loop (S (length src)) (Z.to_nat size) fill src with
       | Some out => Ok out
       | None => Raise RuntimeError        (* out of fuel: excluded by C09_chunked_total *)
       end.

(* chunked: list(chunk_iter) or list(islice(chunk_iter, count)) *)
Definition m_chunked (src : list K) (size : Z) (count : option nat) (fill : option K)
  : res (list (list K)) :=
  match count with
  | Some 0 => Ok []    (* islice(chunk_iter, 0) never starts the generator: not even the size check runs *)
  | _ =>
      match m_chunked_iter src size fill with
      | Ok out => Ok (match count with None => out | Some c => firstn c out end)
      | Raise e => Raise e
      end
  end.

(* ---------------------------------------------------------------------- *)
(* windowed_iter / pairwise_iter                                           *)
(* ---------------------------------------------------------------------- *)
(* tees = itertools.tee(src, size); tee i is advanced i times with next().  *)
Definition tees (src : list K) (size : nat) : list (nat * list K) :=
  map (fun i => (i, src)) (seq 0 size).

(* `for _ in range(i): next(t)` : None = StopIteration escaped *)
Fixpoint advance (i : nat) (t : list K) : option (list K) :=
  match i with
  | 0 => Some t
  | S i' => match t with [] => None | _ :: t' => advance i' t' end
  end.

(* same loop with `except StopIteration: continue` inside *)
Fixpoint advance_lenient (i : nat) (t : list K) : list K :=
  match i with
  | 0 => t
  | S i' => match t with [] => [] | _ :: t' => advance_lenient i' t' end
  end.

Fixpoint advance_all (ts : list (nat * list K)) : option (list (list K)) :=
  match ts with
  | [] => Some []
  | (i, t) :: r =>
      match advance i t with
      | None => None
      | Some t' => match advance_all r with Some r' => Some (t' :: r') | None => None end
      end
  end.

(* next() on every iterator: None as soon as one is exhausted *)
Fixpoint heads (ts : list (list K)) : option (list K) :=
  match ts with
  | [] => Some []
  | [] :: _ => None
  | (x :: _) :: r => match heads r with Some hs => Some (x :: hs) | None => None end
  end.

Definition tails (ts : list (list K)) : list (list K) := map (@tl K) ts.

(* zip of the iterators ts: stops at the shortest; zip() of no iterables yields nothing *)
Fixpoint zip_loop (fuel : nat) (ts : list (list K)) : list (list K) :=
  match fuel with
  | 0 => []
  | S fuel' =>
      match ts with
      | [] => []
      | _ => match heads ts with
             | None => []
             | Some hs => hs :: zip_loop fuel' (tails ts)
             end
      end
  end.

(* zip_longest of ts with fillvalue f: goes on while some iterator still yields *)
Definition heads_fill (f : K) (ts : list (list K)) : list K :=
  map (fun t => match t with [] => f | x :: _ => x end) ts.
Definition all_empty (ts : list (list K)) : bool :=
  forallb (fun t => match t with [] => true | _ => false end) ts.

Fixpoint zip_longest_loop (fuel : nat) (f : K) (ts : list (list K)) : list (list K) :=
  match fuel with
  | 0 => []
  | S fuel' =>
      if all_empty ts then []
      else heads_fill f ts :: zip_longest_loop fuel' f (tails ts)
  end.

(* fuel: zip stops after at most len(src) rounds (every tee has at most that
   many items); one more round detects exhaustion *)
Definition m_windowed (src : list K) (size : nat) (fill : option K) : list (list K) :=
  match fill with
  | None =>
      match advance_all (tees src size) with
      | None => []                                   (* except StopIteration: return zip([]) *)
      | Some ts => zip_loop (S (length src)) ts
      end
  | Some f =>
      zip_longest_loop (S (length src)) f
                       (map (fun it => advance_lenient (fst it) (snd it)) (tees src size))
  end.

Definition m_pairwise (src : list K) (fill : option K) : list (list K) := m_windowed src 2 fill.

(* ---------------------------------------------------------------------- *)
(* split_iter                                                              *)
(* ---------------------------------------------------------------------- *)
(*  for s in src:
        if maxsplit is not None and split_count >= maxsplit:
            if cur_group or sep is not None:
                def sep_func(x): return False
        if sep_func(s):
            if sep is None and not cur_group: continue
            split_count += 1; yield cur_group; cur_group = []
        else:
            cur_group.append(s)
    if cur_group or sep is not None: yield cur_group
   [active] = sep_func has not been replaced by the constant-False function. *)
Definition limit_reached (maxsplit : option nat) (split_count : nat) : bool :=
  match maxsplit with None => false | Some m => m <=? split_count end.

Definition is_nil {A} (l : list A) : bool := match l with [] => true | _ => false end.

Fixpoint split_loop (sepf : K -> bool) (sep_is_none : bool) (maxsplit : option nat)
         (active : bool) (cur_group : list K) (split_count : nat) (src : list K)
  : list (list K) :=
  match src with
  | [] => if negb (is_nil cur_group) || negb sep_is_none then [cur_group] else []
  | s :: r =>
      let active :=
          if limit_reached maxsplit split_count && (negb (is_nil cur_group) || negb sep_is_none)
          then false else active in
      if active && sepf s then
        if sep_is_none && is_nil cur_group
        then split_loop sepf sep_is_none maxsplit active cur_group split_count r
        else cur_group :: split_loop sepf sep_is_none maxsplit active [] (S split_count) r
      else split_loop sepf sep_is_none maxsplit active (cur_group ++ [s]) split_count r
  end.

Definition m_split (sep : sepk) (maxsplit : option nat) (src : list K) : list (list K) :=
  split_loop (sep_pred sep) (match sep with SepNone => true | _ => false end)
             maxsplit true [] 0 src.

(* ---------------------------------------------------------------------- *)
(* lstrip_iter / rstrip_iter / strip_iter                                  *)
(* ---------------------------------------------------------------------- *)
(*  for i in iterator:
        if i != strip_value: yield i; break
    for i in iterator: yield i                                              *)
Fixpoint m_lstrip (v : K) (it : list K) : list K :=
  match it with
  | [] => []
  | i :: r => if negb (Nat.eqb i v) then i :: r else m_lstrip v r
  end.

(*  for i in iterator:
        if i == strip_value:
            cache = [i]; broken = False
            for i in iterator:
                if i == strip_value: cache.append(i)
                else: broken = True; break
            if not broken: return
            yield from cache
        yield i
   [cache] non-empty = we are in the inner loop. *)
Fixpoint rstrip_loop (v : K) (cache : list K) (it : list K) : list K :=
  match it with
  | [] => []                       (* iterator exhausted: a pending cache is dropped *)
  | i :: r =>
      if Nat.eqb i v then rstrip_loop v (cache ++ [i]) r
      else cache ++ i :: rstrip_loop v [] r
  end.

Definition m_rstrip (v : K) (it : list K) : list K := rstrip_loop v [] it.
Definition m_strip (v : K) (it : list K) : list K := m_rstrip v (m_lstrip v it).

(* ---------------------------------------------------------------------- *)
(* unique_iter                                                             *)
(* ---------------------------------------------------------------------- *)
(*  seen = set()
    for i in src:
        k = key_func(i)
        if k not in seen: seen.add(k); yield i                              *)
Fixpoint unique_loop (key : K -> K) (seen : list K) (src : list K) : list K :=
  match src with
  | [] => []
  | i :: r =>
      let k := key i in
      if memb k seen then unique_loop key seen r
      else i :: unique_loop key (k :: seen) r
  end.

Definition m_unique (key : K -> K) (src : list K) : list K := unique_loop key [] src.

(* ---------------------------------------------------------------------- *)
(* redundant                                                               *)
(* ---------------------------------------------------------------------- *)
(*  seen = {}; redundant_order = []; redundant_groups = {}
    for i in src:
        k = key_func(i) if key else i
        if k not in seen: seen[k] = i
        else:
            if k in redundant_groups:
                if groups: redundant_groups[k].append(i)
            else:
                redundant_order.append(k); redundant_groups[k] = [seen[k], i]   *)
Record red_state := mkRed {
  r_seen : pydict K;
  r_order : list K;
  r_groups : pydict (list K)
}.

Definition red_step (key : K -> K) (groups : bool) (s : red_state) (i : K) : red_state :=
  let k := key i in
  match d_get (r_seen s) k with
  | None => mkRed (d_set (r_seen s) k i) (r_order s) (r_groups s)
  | Some first =>
      match d_get (r_groups s) k with
      | Some g => if groups then mkRed (r_seen s) (r_order s) (d_set (r_groups s) k (g ++ [i]))
                  else s
      | None => mkRed (r_seen s) (r_order s ++ [k]) (d_set (r_groups s) k [first; i])
      end
  end.

Definition red_run (key : K -> K) (groups : bool) (src : list K) : red_state :=
  fold_left (red_step key groups) src (mkRed [] [] []).

Definition group_of (s : red_state) (k : K) : list K :=
  match d_get (r_groups s) k with Some g => g | None => [] end.

(* total dict reads used by the translated source (Gen/C09_Src.v): d[k] with a
   default for a missing key (the KeyError path is not represented) *)
Definition d_at (d : pydict K) (k : K) : K :=
  match d_get d k with Some v => v | None => 0 end.
Definition group_at (d : pydict (list K)) (k : K) : list K :=
  match d_get d k with Some g => g | None => [] end.

(* ret = [redundant_groups[k][1] for k in redundant_order] *)
Definition m_redundant (key : K -> K) (src : list K) : list K :=
  let s := red_run key false src in
  map (fun k => nth 1 (group_of s k) 0) (r_order s).

(* ret = [redundant_groups[k] for k in redundant_order] *)
Definition m_redundant_groups (key : K -> K) (src : list K) : list (list K) :=
  let s := red_run key true src in
  map (group_of s) (r_order s).

(* ---------------------------------------------------------------------- *)
(* bucketize / partition                                                   *)
(* ---------------------------------------------------------------------- *)
(*  ret = {}
    for val in src:
        key_of_val = key_func(val)
        if key_filter is None or key_filter(key_of_val):
            ret.setdefault(key_of_val, []).append(value_transform(val))      *)
Definition setdefault_append (d : pydict (list K)) (k : K) (v : K) : pydict (list K) :=
  match d_get d k with
  | Some vs => d_set d k (vs ++ [v])
  | None => d_set d k [v]
  end.

Definition bucket_step (key vt : K -> K) (kf : K -> bool) (d : pydict (list K)) (val : K)
  : pydict (list K) :=
  let k := key val in
  if kf k then setdefault_append d k (vt val) else d.

Definition m_bucketize (key vt : K -> K) (kf : K -> bool) (src : list K) : pydict (list K) :=
  fold_left (bucket_step key vt kf) src [].

(* key given as a list: src = zip(key, src); key_func = x[0]; value = f(x[1]).
   len(key) != len(src) -> ValueError *)
Definition bucket_step_pair (vt : K -> K) (kf : K -> bool) (d : pydict (list K)) (kv : K * K)
  : pydict (list K) :=
  if kf (fst kv) then setdefault_append d (fst kv) (vt (snd kv)) else d.

Definition m_bucketize_keylist (keys : list K) (vt : K -> K) (kf : K -> bool) (src : list K)
  : res (pydict (list K)) :=
  if negb (length keys =? length src) then Raise ValueError
  else Ok (fold_left (bucket_step_pair vt kf) (combine keys src) []).

(* partition: bucketized = bucketize(src, key);
   return bucketized.get(True, []), bucketized.get(False, [])
   The key function is boolean-valued; True/False are the key tokens 1/0. *)
Definition bool_tok (b : bool) : K := if b then 1 else 0.

Definition get_default (d : pydict (list K)) (k : K) : list K :=
  match d_get d k with Some v => v | None => [] end.

Definition m_partition (p : K -> bool) (src : list K) : list K * list K :=
  let d := m_bucketize (fun x => bool_tok (p x)) (fun x => x) (fun _ => true) src in
  (get_default d (bool_tok true), get_default d (bool_tok false)).

(* ---------------------------------------------------------------------- *)
(* chunk_ranges                                                            *)
(* ---------------------------------------------------------------------- *)
Local Open Scope Z_scope.

(*  for i in range(input_offset, input_stop, step):
        yield (i, min(i + chunk_size, input_stop))
        if i + chunk_size >= input_stop: return                             *)
Fixpoint range_loop (fuel : nat) (i stop step chunk : Z) : option (list (Z * Z)) :=
  match fuel with
  | O => None
  | S fuel' =>
      if i <? stop then
        if i + chunk >=? stop then Some [(i, Z.min (i + chunk) stop)]
        else match range_loop fuel' (i + step) stop step chunk with
             | Some rest => Some ((i, Z.min (i + chunk) stop) :: rest)
             | None => None
             end
      else Some []
  end.

(* Python's % on a positive modulus is Z.modulo.  Parameters are validated
   first (ValueError when negative / chunk_size not positive).  step = 0 makes
   `%` raise ZeroDivisionError (align) or range() raise ValueError; a negative
   step gives an empty range.  These are outside "valid parameters" but are
   modelled so that the tie covers them. *)
Definition ZeroDivisionError := OtherExn 1.

Definition m_chunk_ranges (size chunk offset overlap : Z) (align : bool) : res (list (Z * Z)) :=
  if (size <? 0) || (chunk <=? 0) || (offset <? 0) || (overlap <? 0) then Raise ValueError
  else
    let stop := offset + size in
    let step := chunk - overlap in
    let fuel := S (Z.to_nat size) in
    let loop (start : Z) (pre : list (Z * Z)) :=
        if step =? 0 then Raise ValueError
        else if step <? 0 then Ok pre
        else match range_loop fuel start stop step chunk with
             | Some rs => Ok (pre ++ rs)
             | None => Raise RuntimeError      (* out of fuel: excluded by the theorems *)
             end in
    if align then
      if step =? 0 then Raise ZeroDivisionError
      else
        let initial := chunk - offset mod step in
        if negb (initial =? overlap) then
          let first := (offset, Z.min (offset + initial) stop) in
          if offset + initial >=? stop then Ok [first]
          else loop (offset + initial - overlap) [first]
        else loop offset []
    else loop offset [].
