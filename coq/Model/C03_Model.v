(* C03: executable model of boltons.cacheutils.LRI / LRU AS WRITTEN, at the
   granularity of single accesses to the shared structures (the dict storage
   reached through super(), self._link_lookup, self._anchor and the fields of
   the list cells of the recency ring).  Every public method is transcribed
   statement by statement into a tree of such accesses (Lib/C03_Conc.prog); whether
   a method's body is wrapped in Acquire/Release is NOT hard-wired: it is read
   from the lock table regenerated from the source (Gen/C03_Gen.v).
   Definitions only.  The statistics counters (hit/miss/soft_miss) are a separate component
   (not among C03's observables): every `self.x_count += 1` is a read and a write, each its own
   micro-step, at the place where the code has it -- LRI.get's one is OUTSIDE the lock. *)
From Boltons Require Import Lib.Prelude Lib.C03_Syntax Lib.C03_Conc.

(* ---- shared state ----------------------------------------------------------- *)
Definition addr := nat.
Inductive field := PREV | NEXT | KEY | VALUE.
Inductive fval := FAddr (a : addr) | FKey (k : K) | FVal (v : V) | FMissing.

Record cell := mkCell { c_prev : fval; c_next : fval; c_key : fval; c_val : fval }.

Definition cell_get (c : cell) (f : field) : fval :=
  match f with PREV => c_prev c | NEXT => c_next c | KEY => c_key c | VALUE => c_val c end.

Definition cell_set (c : cell) (f : field) (x : fval) : cell :=
  match f with
  | PREV => mkCell x (c_next c) (c_key c) (c_val c)
  | NEXT => mkCell (c_prev c) x (c_key c) (c_val c)
  | KEY => mkCell (c_prev c) (c_next c) x (c_val c)
  | VALUE => mkCell (c_prev c) (c_next c) (c_key c) x
  end.

Record shared := mkShared {
  heap : list cell;          (* list objects used as links; address = index; never freed *)
  anchor : addr;             (* self._anchor *)
  lookup : pydict addr;      (* self._link_lookup *)
  store : pydict V           (* the dict storage of the cache object itself *)
}.

Fixpoint list_set {X} (l : list X) (i : nat) (x : X) : list X :=
  match l, i with
  | [], _ => []
  | _ :: r, 0 => x :: r
  | y :: r, S j => y :: list_set r j x
  end.

(* a fresh cache: _init_ll has run once *)
Definition shared_init : shared :=
  mkShared [mkCell (FAddr 0) (FAddr 0) FMissing FMissing] 0 [] [].

(* items sorted by key token (how the harness presents sets of items) *)
Fixpoint insert_sorted (p : K * V) (l : list (K * V)) : list (K * V) :=
  match l with
  | [] => [p]
  | q :: r => if Nat.leb (fst p) (fst q) then p :: l else q :: insert_sorted p r
  end.
Definition sort_items (l : list (K * V)) : list (K * V) := fold_right insert_sorted [] l.


(* ---- atomic actions ------------------------------------------------------------ *)
Inductive act :=
| AAnchorGet                               (* self._anchor *)
| AAnchorSet (a : addr)                    (* self._anchor = a *)
| ARead (a : addr) (f : field)             (* link[f] *)
| AWrite (a : addr) (f : field) (x : fval) (* link[f] = x *)
| ANew (p n k v : fval)                    (* [p, n, k, v] : a new link *)
| ANewAnchor                               (* anchor = []; anchor[:] = [anchor, anchor, _MISSING, _MISSING] *)
| ALkReset                                 (* self._link_lookup = {} *)
| ALkGet (k : K)                           (* self._link_lookup[k] *)
| ALkSet (k : K) (a : addr)                (* self._link_lookup[k] = a *)
| ALkDel (k : fval)                        (* del self._link_lookup[k] *)
| ALkPop (k : K)                           (* self._link_lookup.pop(k) *)
| ADSet (k : K) (v : V)                    (* super().__setitem__(k, v) *)
| ADDel (k : fval)                         (* super().__delitem__(k) *)
| ADPop (k : K)                            (* super().pop(k) *)
| ADPopItem                                (* super().popitem() *)
| ADClear                                  (* super().clear() *)
| ADLen                                    (* len(self) *)
| ADHas (k : K)                            (* dict.__contains__(self, k) *)
| ADEq (l : list (K * V))                  (* super().__eq__(other) for a plain dict *)
| ADItems.                                 (* super().__or__ / __ror__ / __repr__: every item, in one C call *)

Inductive ares :=
| XUnit | XAddr (a : addr) | XF (x : fval) | XNat (n : nat) | XBool (b : bool)
| XVal (v : V) | XItem (k : K) (v : V) | XItems (l : list (K * V)) | XKeyError | XCrash.

(* dict.__eq__(self, other): same size, and every item of self is found in other *)
Definition dict_eq_items (d : pydict V) (l : list (K * V)) : bool :=
  Nat.eqb (length d) (length l) &&
  forallb (fun p => match d_get l (fst p) with Some v => Nat.eqb v (snd p) | None => false end) d.

Definition sem (a : act) (s : shared) : shared * ares :=
  match a with
  | AAnchorGet => (s, XAddr (anchor s))
  | AAnchorSet x => (mkShared (heap s) x (lookup s) (store s), XUnit)
  | ARead x f =>
      match nth_error (heap s) x with
      | Some c => (s, XF (cell_get c f))
      | None => (s, XCrash)
      end
  | AWrite x f v =>
      match nth_error (heap s) x with
      | Some c => (mkShared (list_set (heap s) x (cell_set c f v)) (anchor s) (lookup s) (store s), XUnit)
      | None => (s, XCrash)
      end
  | ANew p n k v =>
      (mkShared (heap s ++ [mkCell p n k v]) (anchor s) (lookup s) (store s), XAddr (length (heap s)))
  | ANewAnchor =>
      let x := length (heap s) in
      (mkShared (heap s ++ [mkCell (FAddr x) (FAddr x) FMissing FMissing]) (anchor s) (lookup s) (store s),
       XAddr x)
  | ALkReset => (mkShared (heap s) (anchor s) [] (store s), XUnit)
  | ALkGet k =>
      match d_get (lookup s) k with Some x => (s, XAddr x) | None => (s, XKeyError) end
  | ALkSet k x => (mkShared (heap s) (anchor s) (d_set (lookup s) k x) (store s), XUnit)
  | ALkDel (FKey k) =>
      match d_get (lookup s) k with
      | Some _ => (mkShared (heap s) (anchor s) (d_del (lookup s) k) (store s), XUnit)
      | None => (s, XKeyError)
      end
  | ALkDel _ => (s, XKeyError)            (* del self._link_lookup[_MISSING] *)
  | ALkPop k =>
      match d_get (lookup s) k with
      | Some x => (mkShared (heap s) (anchor s) (d_del (lookup s) k) (store s), XAddr x)
      | None => (s, XKeyError)
      end
  | ADSet k v => (mkShared (heap s) (anchor s) (lookup s) (d_set (store s) k v), XUnit)
  | ADDel (FKey k) =>
      match d_get (store s) k with
      | Some _ => (mkShared (heap s) (anchor s) (lookup s) (d_del (store s) k), XUnit)
      | None => (s, XKeyError)
      end
  | ADDel _ => (s, XKeyError)
  | ADPop k =>
      match d_get (store s) k with
      | Some v => (mkShared (heap s) (anchor s) (lookup s) (d_del (store s) k), XVal v)
      | None => (s, XKeyError)
      end
  | ADPopItem =>
      match rev (store s) with
      | (k, v) :: r => (mkShared (heap s) (anchor s) (lookup s) (rev r), XItem k v)   (* dict LIFO *)
      | [] => (s, XKeyError)
      end
  | ADClear => (mkShared (heap s) (anchor s) (lookup s) [], XUnit)
  | ADLen => (s, XNat (length (store s)))
  | ADHas k => (s, XBool (d_mem (store s) k))
  | ADEq l => (s, XBool (dict_eq_items (store s) l))
  | ADItems => (s, XItems (store s))
  end.

(* ---- the statistics counters --------------------------------------------------------------------- *)
Inductive cname := CHit | CMiss | CSoft.
Record counters := mkCounters { n_hit : nat; n_miss : nat; n_soft : nat }.
Definition counters0 : counters := mkCounters 0 0 0.
Inductive sact := SGet (c : cname) | SSet (c : cname) (v : nat).

Definition ssem (a : sact) (st : counters) : counters * nat :=
  match a with
  | SGet CHit => (st, n_hit st) | SGet CMiss => (st, n_miss st) | SGet CSoft => (st, n_soft st)
  | SSet CHit v => (mkCounters v (n_miss st) (n_soft st), 0)
  | SSet CMiss v => (mkCounters (n_hit st) v (n_soft st), 0)
  | SSet CSoft v => (mkCounters (n_hit st) (n_miss st) v, 0)
  end.

(* self.x_count += 1 : load, add, store *)
Definition incr (c : cname) : @sprog sact nat :=
  SAct (SGet c) (fun n => SAct (SSet c (S n)) (fun _ => SDone)).

(* ---- method bodies ----------------------------------------------------------------- *)
Notation P := (@prog act ares sact nat).
Definition crash : exn := OtherExn 99.       (* ill-typed access: only reachable from a corrupted ring *)
Definition hang : exn := OtherExn 98.        (* a ring walk that does not come back to the anchor *)

(* typed reads; e is the result type of the enclosing (exception-valued) computation *)
Definition rd_addr {A} (x : addr) (f : field) (k : addr -> P (res A)) : P (res A) :=
  Act (ARead x f) (fun r => match r with XF (FAddr y) => k y | _ => Ret (Raise crash) end).
Definition rd {A} (x : addr) (f : field) (k : fval -> P (res A)) : P (res A) :=
  Act (ARead x f) (fun r => match r with XF y => k y | _ => Ret (Raise crash) end).
Definition wr {A} (x : addr) (f : field) (v : fval) (k : P (res A)) : P (res A) :=
  Act (AWrite x f v) (fun r => match r with XUnit => k | _ => Ret (Raise crash) end).
Definition anchor_get {A} (k : addr -> P (res A)) : P (res A) :=
  Act AAnchorGet (fun r => match r with XAddr y => k y | _ => Ret (Raise crash) end).
Definition do_ {A} (a : act) (k : P (res A)) : P (res A) :=
  Act a (fun r => match r with XUnit => k | XKeyError => Ret (Raise KeyError) | _ => Ret (Raise crash) end).

(* try/bind on exception-valued computations *)
Definition bindr {A B} (p : P (res A)) (f : A -> P (res B)) : P (res B) :=
  bind p (fun r => match r with Ok a => f a | Raise e => Ret (Raise e) end).

(*  link[PREV][NEXT] = link[NEXT] ; link[NEXT][PREV] = link[PREV]
    (right-hand side is evaluated first, then the container, then the store) *)
Definition splice_out {A} (link : addr) (k : P (res A)) : P (res A) :=
  rd_addr link NEXT (fun n =>
  rd_addr link PREV (fun p =>
  wr p NEXT (FAddr n) (
  rd_addr link PREV (fun p' =>
  rd_addr link NEXT (fun n' =>
  wr n' PREV (FAddr p') k))))).

Definition get_link_and_move_to_front (key : K) : P (res addr) :=
  Act (ALkGet key) (fun r =>
    match r with
    | XAddr newest =>
        splice_out newest (
        anchor_get (fun anc =>
        rd_addr anc PREV (fun second =>
        wr second NEXT (FAddr newest) (
        wr anc PREV (FAddr newest) (
        wr newest PREV (FAddr second) (
        wr newest NEXT (FAddr anc) (
        Ret (Ok newest))))))))
    | XKeyError => Ret (Raise KeyError)
    | _ => Ret (Raise crash)
    end).

Definition set_key_and_add_to_front (key : K) (value : V) : P (res unit) :=
  anchor_get (fun anc =>
  rd_addr anc PREV (fun second =>
  Act (ANew (FAddr second) (FAddr anc) (FKey key) (FVal value)) (fun r =>
    match r with
    | XAddr newest =>
        wr second NEXT (FAddr newest) (
        wr anc PREV (FAddr newest) (
        do_ (ALkSet key newest) (Ret (Ok tt))))
    | _ => Ret (Raise crash)
    end))).

Definition set_key_and_evict_last (key : K) (value : V) : P (res fval) :=
  anchor_get (fun oldanchor =>
  wr oldanchor KEY (FKey key) (
  wr oldanchor VALUE (FVal value) (
  rd_addr oldanchor NEXT (fun anc =>
  do_ (AAnchorSet anc) (
  rd anc KEY (fun evicted =>
  wr anc KEY FMissing (
  wr anc VALUE FMissing (
  do_ (ALkDel evicted) (
  do_ (ALkSet key oldanchor) (
  Ret (Ok evicted))))))))))).

Definition remove_from_ll (key : K) : P (res unit) :=
  Act (ALkPop key) (fun r =>
    match r with
    | XAddr link => splice_out link (Ret (Ok tt))
    | XKeyError => Ret (Raise KeyError)
    | _ => Ret (Raise crash)
    end).

Definition init_ll : P (res unit) :=
  Act ANewAnchor (fun r =>
    match r with
    | XAddr a => do_ ALkReset (do_ (AAnchorSet a) (Ret (Ok tt)))
    | _ => Ret (Raise crash)
    end).

Section Methods.
  Variable tb : lock_table.
  Variable cls : kind.
  Variable max_size : nat.
  Variable on_miss : option (K -> V).

  Definition locked (m : meth) {A} (body : P A) : P A := with_lock (wraps tb cls m) body.

  Definition m_setitem (key : K) (value : V) : P (res unit) :=
    locked MSetItem (
      bind (get_link_and_move_to_front key) (fun r =>
        bindr
          (match r with
           | Ok link => wr link VALUE (FVal value) (Ret (Ok tt))
           | Raise KeyError =>
               Act ADLen (fun n =>
                 match n with
                 | XNat n =>
                     if Nat.ltb n max_size then set_key_and_add_to_front key value
                     else bindr (set_key_and_evict_last key value)
                                (fun evicted => do_ (ADDel evicted) (Ret (Ok tt)))
                 | _ => Ret (Raise crash)
                 end)
           | Raise e => Ret (Raise e)
           end)
          (fun _ => do_ (ADSet key value) (Ret (Ok tt))))).

  (* the miss path shared by LRI.__getitem__ and LRU.__getitem__ *)
  Definition on_miss_path (key : K) : P (res V) :=
    match on_miss with
    | None => Ret (Raise KeyError)
    | Some f => bindr (m_setitem key (f key)) (fun _ => Ret (Ok (f key)))
    end.

  Definition read_value (link : addr) : P (res V) :=
    rd link VALUE (fun x => match x with FVal v => Ret (Ok v) | _ => Ret (Raise crash) end).

  Definition m_getitem (key : K) : P (res V) :=
    locked MGetItem (
      match cls with
      | LRI =>
          Act (ALkGet key) (fun r =>
            match r with
            | XAddr link => Stat (incr CHit) (read_value link)          (* self.hit_count += 1 *)
            | XKeyError => Stat (incr CMiss) (on_miss_path key)         (* self.miss_count += 1 *)
            | _ => Ret (Raise crash)
            end)
      | LRU =>
          bind (get_link_and_move_to_front key) (fun r =>
            match r with
            | Ok link => Stat (incr CHit) (read_value link)
            | Raise KeyError => Stat (incr CMiss) (on_miss_path key)
            | Raise e => Ret (Raise e)
            end)
      end).

  Definition m_get (key : K) (default : V) : P (res V) :=
    locked MGet (
      bind (m_getitem key) (fun r =>
        match r with
        | Raise KeyError => Stat (incr CSoft) (Ret (Ok default))   (* self.soft_miss_count += 1 *)
        | r => Ret r
        end)).

  Definition m_delitem (key : K) : P (res unit) :=
    locked MDelItem (do_ (ADDel (FKey key)) (remove_from_ll key)).

  Definition m_pop (key : K) (default : option V) : P (res V) :=
    locked MPop (
      Act (ADPop key) (fun r =>
        match r with
        | XVal v => bindr (remove_from_ll key) (fun _ => Ret (Ok v))
        | XKeyError => match default with Some d => Ret (Ok d) | None => Ret (Raise KeyError) end
        | _ => Ret (Raise crash)
        end)).

  Definition m_popitem : P (res (K * V)) :=
    locked MPopItem (
      Act ADPopItem (fun r =>
        match r with
        | XItem k v => bindr (remove_from_ll k) (fun _ => Ret (Ok (k, v)))
        | XKeyError => Ret (Raise KeyError)
        | _ => Ret (Raise crash)
        end)).

  Definition m_clear : P (res unit) :=
    locked MClear (do_ ADClear init_ll).

  Definition m_setdefault (key : K) (default : V) : P (res V) :=
    locked MSetDefault (
      bind (m_getitem key) (fun r =>
        match r with
        | Raise KeyError => Stat (incr CSoft) (bindr (m_setitem key default) (fun _ => Ret (Ok default)))
        | r => Ret r
        end)).

  Fixpoint setitems (l : list (K * V)) : P (res unit) :=
    match l with
    | [] => Ret (Ok tt)
    | (k, v) :: r => bindr (m_setitem k v) (fun _ => setitems r)
    end.

  Definition m_update (l : list (K * V)) : P (res unit) := locked MUpdate (setitems l).

  Definition m_ior (l : list (K * V)) : P (res unit) := locked MIor (m_update l).

  (* `if self is other: return True` (not the case for a plain dict); `return super().__eq__(other)` *)
  Definition m_eq_dict (l : list (K * V)) : P (res bool) :=
    locked MEq (
      Act (ADEq l) (fun b => match b with XBool b => Ret (Ok b) | _ => Ret (Raise crash) end)).

  Definition m_eq_self : P (res bool) := locked MEq (Ret (Ok true)).

  (* _get_flattened_ll(): walk from the anchor, collecting (link[KEY], link[VALUE]) of every link
     -- the anchor's own pair first -- until the anchor comes back *)
  Fixpoint walk_ll (fuel : nat) (link : addr) (acc : list (fval * fval)) : P (res (list (fval * fval))) :=
    match fuel with
    | 0 => Ret (Raise hang)
    | S fuel' =>
        rd link KEY (fun k =>
        rd link VALUE (fun v =>
        rd_addr link NEXT (fun nxt =>
        anchor_get (fun anc =>
        if Nat.eqb nxt anc then Ret (Ok (acc ++ [(k, v)])) else walk_ll fuel' nxt (acc ++ [(k, v)])))))
    end.

  (* the pairs re-inserted into the copy must be real keys and values *)
  Fixpoint real_items (l : list (fval * fval)) : option (list (K * V)) :=
    match l with
    | [] => Some []
    | (FKey k, FVal v) :: r => match real_items r with Some t => Some ((k, v) :: t) | None => None end
    | _ :: _ => None
    end.

  (* copy(): `for key, value in self._get_flattened_ll()[1:]: ret[key] = value`.  The copy is a
     private object: re-inserting <= max_size items oldest first gives the same items in the
     same order *)
  Definition m_copy : P (res (list (K * V))) :=
    locked MCopy (
      anchor_get (fun anc =>
      bindr (walk_ll (max_size + 2) anc [])
            (fun l => match real_items (tl l) with
                      | Some items => Ret (Ok items)
                      | None => Ret (Raise crash)
                      end))).

  Definition m_len : P (res nat) :=
    locked MLen (Act ADLen (fun n => match n with XNat n => Ret (Ok n) | _ => Ret (Raise crash) end)).

  Definition m_contains (key : K) : P (res bool) :=
    locked MContains (Act (ADHas key) (fun b => match b with XBool b => Ret (Ok b) | _ => Ret (Raise crash) end)).

  (* c | {}, {} | c, repr(c): one call of the dict's own method under the lock *)
  Definition m_snapshot (w : snap) : P (res (list (K * V))) :=
    locked (meth_of (Snapshot w)) (
      Act ADItems (fun r => match r with XItems l => Ret (Ok (sort_items l)) | _ => Ret (Raise crash) end)).

  (* __ne__: `return not (self == other)` *)
  Definition m_ne (l : list (K * V)) : P (res bool) :=
    locked MNe (
      bind (m_eq_dict l) (fun r => match r with Ok b => Ret (Ok (negb b)) | Raise e => Ret (Raise e) end)).

  (* __copy__: `with self._lock: return self.copy()` *)
  Definition m_copy2 : P (res (list (K * V))) := locked MCopy2 m_copy.

  Definition ret_of {A} (f : A -> rv) (p : P (res A)) : P rv :=
    bind p (fun r => Ret (match r with Ok a => f a | Raise e => RExn e end)).

  Definition compile (o : op) : P rv :=
    match o with
    | SetItem k v => ret_of (fun _ => RNone) (m_setitem k v)
    | GetItem k => ret_of RVal (m_getitem k)
    | Get k d => ret_of RVal (m_get k d)
    | DelItem k => ret_of (fun _ => RNone) (m_delitem k)
    | Pop k d => ret_of RVal (m_pop k d)
    | PopItem => ret_of (fun p => RItem (fst p) (snd p)) m_popitem
    | Clear => ret_of (fun _ => RNone) m_clear
    | SetDefault k d => ret_of RVal (m_setdefault k d)
    | Update l => ret_of (fun _ => RNone) (m_update l)
    | Ior l => ret_of (fun _ => RNone) (m_ior l)
    | EqDict l => ret_of RBool (m_eq_dict l)
    | EqSelf => ret_of RBool m_eq_self
    | Copy => ret_of RItems m_copy
    | Len => ret_of RNat m_len
    | Contains k => ret_of RBool (m_contains k)
    | Snapshot w => ret_of RItems (m_snapshot w)
    | NeDict l => ret_of RBool (m_ne l)
    | CopyCopy => ret_of RItems m_copy2
    end.
End Methods.

(* ---- views of the shared state (what the public API shows) ------------------------- *)
Definition view_items (s : shared) : list (K * V) := sort_items (store s).
Definition view_len (s : shared) : nat := length (store s).

(* the cache configuration of a run *)
Record config := mkConfig { cf_kind : kind; cf_max : nat; cf_miss : option (K -> V) }.

Definition compile_cfg (tb : lock_table) (c : config) : op -> P rv :=
  compile tb (cf_kind c) (cf_max c) (cf_miss c).

(* sequential execution of one operation / a list of operations *)
Definition run_op (tb : lock_table) (c : config) (s : shared) (o : op) : shared * rv :=
  arun sem (compile_cfg tb c o) s.

Definition run_ops (tb : lock_table) (c : config) (s : shared) (l : list op) : shared :=
  fold_left (fun s o => fst (run_op tb c s o)) l s.

(* The eviction-order probe, exactly as the harness does it on the real cache:
   insert max_size fresh keys one by one; after each, which of the old keys are
   gone (ascending)?  Afterwards: len. *)
Definition keys_gone (before after : list K) : list K :=
  filter (fun k => negb (existsb (Nat.eqb k) after)) before.

Fixpoint probe_from (tb : lock_table) (c : config) (s : shared) (old : list K) (fresh : list K)
  : list (list K) * shared :=
  match fresh with
  | [] => ([], s)
  | f :: r =>
      let s' := fst (run_op tb c s (SetItem f 0)) in
      let now := filter (fun k => existsb (Nat.eqb k) old) (map fst (view_items s')) in
      let '(rest, s'') := probe_from tb c s' now r in
      (keys_gone old now :: rest, s'')
  end.

Definition fresh_keys (n : nat) : list K := map (fun i => 100 + i) (seq 0 n).

Definition probe (tb : lock_table) (c : config) (s : shared) : list (list K) * nat :=
  let '(steps, s') := probe_from tb c s (map fst (view_items s)) (fresh_keys (cf_max c)) in
  (steps, view_len s').
