(* The list-level model of LRI / LRU (Model/C02_Model.v) with an on_miss that may
   raise and may re-enter the cache: __getitem__ as written -- miss_count += 1, the
   call of on_miss (its re-entrant operations are ordinary method calls on the same
   object; the RLock is re-entrant), then `ret = self[key] = <result>` through
   __setitem__, or the exception.  Everything else is Model/C02_Model.v.  Definitions only. *)
From Boltons Require Import Lib.Prelude Lib.C02_Syntax Spec.C02_Spec Spec.C02_SpecImpure Model.C02_Model.
Open Scope N_scope.

(* one public method call, given how __getitem__ behaves *)
Definition xstep1_with (gi : cache -> K -> cache * res V) (c : cfg) (m : cache) (o : op1) : cache * res outv :=
  match o with
  | GetItem k => lift OVal (gi m k)
  | Get k d =>
      match gi m k with
      | (m', Ok v) => (m', Ok (OVal v))
      | (m', Raise KeyError) => (bump_soft m', Ok (OVal d))
      | (m', Raise e) => (m', Raise e)
      end
  | SetDefault k d =>
      match gi m k with
      | (m', Ok v) => (m', Ok (OVal v))
      | (m', Raise KeyError) => lift (fun _ => OVal d) (setitem c (bump_soft m') k d)
      | (m', Raise e) => (m', Raise e)
      end
  | _ => step1 c m o
  end.

(* the body of on_miss: each operation in a `try: ... except KeyError: pass`; another
   exception ends it *)
Fixpoint run_script (stepf : cache -> op1 -> cache * res outv) (m : cache) (ops : list op1) : cache * option exn :=
  match ops with
  | [] => (m, None)
  | o :: rest =>
      match stepf m o with
      | (m', Ok _) | (m', Raise KeyError) => run_script stepf m' rest
      | (m', Raise e) => (m', Some e)
      end
  end.

Fixpoint xgetitem_n (n : nat) (c : cfg) (beh : K -> om_beh) (m : cache) (k : K) : cache * res V :=
  match d_get (ring m) k with
  | Some v =>
      let r' := match c_cls c with
                | LRI => ring m
                | LRU => d_del (ring m) k ++ [(k, v)]
                end in
      (mkC (store m) r' (hit m + 1) (miss m) (soft m) (calls m), Ok v)
  | None =>
      let m1 := mkC (store m) (ring m) (hit m) (miss m + 1) (soft m) (calls m) in
      match c_on_miss c with
      | None => (m1, Raise KeyError)
      | Some f =>
          let m2 := mkC (store m1) (ring m1) (hit m1) (miss m1) (soft m1) (k :: calls m1) in
          match n with
          | O => (m2, Raise (OtherExn 9))
          | S n' =>
              (* what on_miss does to the cache; its lookups are nested __getitem__ calls *)
              match run_script (xstep1_with (xgetitem_n n' c beh) c) m2 (ob_script (beh k)) with
              | (m3, Some e) => (m3, Raise e)
              | (m3, None) =>
                  match ob_raise (beh k) with
                  | Some e => (m3, Raise e)                          (* on_miss raises: nothing is assigned *)
                  | None =>
                      let v := f k in
                      match setitem c m3 k v with
                      | (m4, Ok _) => (m4, Ok v)
                      | (m4, Raise e) => (m4, Raise e)
                      end
                  end
              end
          end
      end
  end.

Definition xgetitem (c : cfg) (beh : K -> om_beh) : cache -> K -> cache * res V := xgetitem_n NEST c beh.

Definition xstep1 (c : cfg) (beh : K -> om_beh) (m : cache) (o : op1) : cache * res outv :=
  xstep1_with (xgetitem c beh) c m o.

Definition xhstep (c : cfg) (beh : K -> om_beh) (h : list cache) (o : hop) : list cache * nat * res outv :=
  match o with
  | On i o1 =>
      match nth_error h i with
      | None => (h, i, Raise (OtherExn 1))
      | Some m => let '(m', out) := xstep1 c beh m o1 in (upd_nth i m' h, i, out)
      end
  | _ => hstep c h o
  end.

Definition xhobserve (c : cfg) (beh : K -> om_beh) (h : list cache) (o : hop) : list cache * obs :=
  let '(h', i, out) := xhstep c beh h o in
  (h', observe (calls_before_of h o) (nth i h' empty_cache) out).

Fixpoint xagree_walk (c : cfg) (beh : K -> om_beh) (h : list cache) (steps : list (hop * obs)) : bool :=
  match steps with
  | [] => true
  | (o, ob) :: rest =>
      let '(h', mo) := xhobserve c beh h o in
      valid_hop (length h) o && obs_agree mo ob && xagree_walk c beh h' rest
  end.

Definition xagree_check (c : cfg) (beh : K -> om_beh) (init : list (K * V)) (steps : list (hop * obs)) : bool :=
  match init_cache c init with
  | (m, Ok _) => xagree_walk c beh [m] steps
  | (_, Raise _) => false
  end.
