(* Executable model of boltons.ioutils SpooledBytesIO / SpooledStringIO /
   MultiFileReader AS WRITTEN (after the fix: commits 2ebe104 SpooledStringIO.len,
   58e1fc2 MultiFileReader.seek, 3166b79 __next__ at/past the end, 7904e8d
   SpooledBytesIO.readlines(sizehint), b866c21 SpooledStringIO.rollover, 9c350bf read(None),
   bb0f4f6 SpooledBytesIO.readline(0), 3d28150 text readline/readlines at "\n" only,
   6d704f0 negative seek, 78e0b96 MultiFileReader.read(0), 29482f0 write() returns the count).  Definitions only.

   What is modelled and trusted (not verified):
   * the backing object - io.BytesIO before rollover, tempfile.TemporaryFile
     after it - is ONE abstract byte file (content, position) whose methods are
     those of the reference file of Spec.C18_Spec ([call]); that the two stdlib
     objects both behave like this is trusted, and exercised by every run;
   * codecs.EncodedFile(stream, 'utf-8') = StreamRecoder: reads go through a
     codecs.StreamReader (bytebuffer / charbuffer / linebuffer, transcribed from
     Lib/codecs.py of CPython 3.12: read(size, chars), readline(), reset(),
     seek()), writes go straight to the stream; UTF-8 is [utf8_enc]/[utf8_dec]
     below (incremental decoding keeps an incomplete trailing sequence);
   * since the repair 3d28150 SpooledStringIO.readline no longer calls
     StreamReader.readline: the reader's linebuffer therefore stays None and
     only read(size, chars) is transcribed. *)
From Boltons Require Import Lib.Prelude Spec.C18_Spec.

(* a method call on the backing file object *)
Definition call (f : rfile) (op : fop) : rfile * fobs := ref_step f op.
Definition call_data (f : rfile) (op : fop) : rfile * list N :=
  let '(f', o) := call f op in (f', match o with OData d => d | _ => [] end).
Definition f_tell (f : rfile) : nat := rf_pos f.
Definition f_seek (f : rfile) (off : Z) (wh : nat) : rfile := fst (call f (Seek off wh)).
Definition f_seek0 (f : rfile) (pos : nat) : rfile := f_seek f (Z.of_nat pos) 0.
Definition f_write (f : rfile) (d : list N) : rfile := fst (call f (Write d)).

Definition fuel_err : exn := OtherExn 99.      (* a model loop ran out of fuel *)
Definition model_err : exn := OtherExn 97.     (* undecodable bytes / call outside the modelled domain *)

Definition nonempty {A} (l : list A) : bool := match l with [] => false | _ => true end.

(* =========================================================================
   SpooledBytesIO
   ========================================================================= *)
(* sb_synced: the size os.fstat would report for the temporary file.  Bytes written
   sit in the BufferedRandom write buffer until something flushes it; of the calls
   used here only seek() is relied upon to flush (CPython flushes the write buffer
   in seek unless the target lies inside valid read-ahead, which a preceding write
   invalidates).  Meaningless before rollover. *)
Record sbytes := mkSB { sb_buf : rfile; sb_rolled : bool; sb_max : nat; sb_synced : nat }.
Definition sb_init (max : nat) : sbytes := mkSB rf_empty false max 0.
Definition sb_with (s : sbytes) (f : rfile) : sbytes := mkSB f (sb_rolled s) (sb_max s) (sb_synced s).
(* buffer.seek(...): moves the position and flushes *)
(* seek(pos, mode): if mode == SEEK_SET and pos < 0: raise ValueError; return buffer.seek(pos, mode) *)
Definition sb_seek (s : sbytes) (off : Z) (wh : nat) : sbytes * fobs :=
  if Nat.eqb wh 0 && (off <? 0)%Z then (s, OErr ValueError)
  else
    let '(b, o) := call (sb_buf s) (Seek off wh) in
    (mkSB b (sb_rolled s) (sb_max s) (length (rf_data b)), o).
Definition sb_seek0 (s : sbytes) (pos : nat) : sbytes := fst (sb_seek s (Z.of_nat pos) 0).

(* rollover(): tmp = TemporaryFile(); pos = buffer.tell(); tmp.write(buffer.getvalue());
   tmp.seek(pos); self._buffer = tmp *)
Definition sb_rollover (s : sbytes) : sbytes :=
  if sb_rolled s then s
  else
    let pos := f_tell (sb_buf s) in
    let tmp := mkSB (f_write rf_empty (rf_data (sb_buf s))) true (sb_max s) 0 in
    sb_seek0 tmp pos.

(* len: pos = tell(); rolled: seek(0); fstat(fileno()).st_size | else: seek(0, END); tell();
   then seek(pos) *)
Definition sb_len (s : sbytes) : sbytes * nat :=
  let pos := f_tell (sb_buf s) in
  if sb_rolled s then
    let s1 := sb_seek0 s 0 in
    let val := sb_synced s1 in
    (sb_seek0 s1 pos, val)
  else
    let s1 := fst (sb_seek s 0 2) in
    let val := f_tell (sb_buf s1) in
    (sb_seek0 s1 pos, val).

(* getvalue: pos = tell(); seek(0); val = read(); seek(pos) *)
Definition sb_getvalue (s : sbytes) : sbytes * list N :=
  let pos := f_tell (sb_buf s) in
  let s1 := sb_seek0 s 0 in
  let '(b, val) := call_data (sb_buf s1) (Read None) in
  (sb_seek0 (sb_with s1 b) pos, val).

(* readline(length): buffer.readline() if length is None else buffer.readline(length) *)
Definition sb_readline (s : sbytes) (lim : option nat) : sbytes * list N :=
  let '(b, d) := call_data (sb_buf s) (ReadLine lim) in (sb_with s b, d).

(* __next__ (after fix 3166b79): line = readline(); if not line: pos = buffer.tell();
   buffer.seek(0, END); end = buffer.tell(); buffer.seek(pos); if pos >= end: raise StopIteration *)
Definition sb_next (s : sbytes) : sbytes * res (list N) :=
  let '(s1, line) := sb_readline s None in
  if nonempty line then (s1, Ok line)
  else
    let pos := f_tell (sb_buf s1) in
    let s2 := fst (sb_seek s1 0 2) in
    let end_ := f_tell (sb_buf s2) in
    let s3 := sb_seek0 s2 pos in
    if end_ <=? pos then (s3, Raise StopIteration) else (s3, Ok line).

Fixpoint sb_iter (fuel : nat) (s : sbytes) (acc : list (list N)) : sbytes * fobs :=
  match fuel with
  | 0 => (s, OErr fuel_err)
  | S fuel' =>
      match sb_next s with
      | (s', Ok line) => sb_iter fuel' s' (acc ++ [line])
      | (s', Raise _) => (s', OLines acc)
      end
  end.

(* readlines(sizehint) (after fix 7904e8d): for line in iter(buffer.readline, b''):
   lines.append(line); total += len(line); if sizehint and 0 < sizehint <= total: break *)
Fixpoint sb_readlines (fuel : nat) (s : sbytes) (hint total : nat) (acc : list (list N)) : sbytes * fobs :=
  match fuel with
  | 0 => (s, OErr fuel_err)
  | S fuel' =>
      let '(s1, line) := sb_readline s None in
      if nonempty line then
        let total' := total + length line in
        if (0 <? hint) && (hint <=? total') then (s1, OLines (acc ++ [line]))
        else sb_readlines fuel' s1 hint total' (acc ++ [line])
      else (s1, OLines acc)
  end.

(* write(s): if self.tell() + len(s) >= self._max_size: self.rollover(); self.buffer.write(s) *)
Definition sb_write (s : sbytes) (d : list N) : sbytes :=
  let s1 := if sb_max s <=? f_tell (sb_buf s) + length d then sb_rollover s else s in
  sb_with s1 (f_write (sb_buf s1) d).

Definition sb_step (s : sbytes) (op : fop) : sbytes * fobs :=
  match op with
  | Write d => (sb_write s d, ONat (length d))              (* return self.buffer.write(s) *)
  | WriteLines ds => (fold_left sb_write ds s, ONone)       (* for line in lines: self.write(line) *)
  | Rollover => (sb_rollover s, ONone)
  | WriteBad => (s, OErr TypeError)
  | Read n => let '(b, o) := call (sb_buf s) (Read n) in (sb_with s b, o)
  | ReadLine lim => let '(s', d) := sb_readline s lim in (s', OData d)
  | ReadLines hint => sb_readlines (S (length (rf_data (sb_buf s)))) s hint 0 []
  | Next => match sb_next s with (s', Ok d) => (s', OData d) | (s', Raise e) => (s', OErr e) end
  | IterAll => sb_iter (S (length (rf_data (sb_buf s)))) s []
  | ListAll =>                                   (* list(f) asks len(f) first *)
      let '(s1, _) := sb_len s in sb_iter (S (length (rf_data (sb_buf s1)))) s1 []
  | Seek off wh => sb_seek s off wh
  | Tell => (s, ONat (f_tell (sb_buf s)))
  | GetValue => let '(s', v) := sb_getvalue s in (s', OData v)
  | Len => let '(s', n) := sb_len s in (s', ONat n)
  end.

Fixpoint sb_run (s : sbytes) (ops : list fop) : list step_obs :=
  match ops with
  | [] => []
  | op :: r => let '(s', o) := sb_step s op in (o, f_tell (sb_buf s')) :: sb_run s' r
  end.

(* =========================================================================
   UTF-8
   ========================================================================= *)
Open Scope N_scope.

Definition utf8_enc1 (c : N) : list N :=
  if c <? 128 then [c]
  else if c <? 2048 then [192 + c / 64; 128 + c mod 64]
  else if c <? 65536 then [224 + c / 4096; 128 + (c / 64) mod 64; 128 + c mod 64]
  else [240 + c / 262144; 128 + (c / 4096) mod 64; 128 + (c / 64) mod 64; 128 + c mod 64].

Definition utf8_enc (cs : list N) : list N := flat_map utf8_enc1 cs.

(* incremental decoding: (characters, undecoded tail, ok).  An incomplete
   trailing sequence is kept; an impossible lead byte clears ok. *)
Fixpoint utf8_dec (p : list N) : list N * list N * bool :=
  match p with
  | [] => ([], [], true)
  | b0 :: p1 =>
      if b0 <? 128 then let '(cs, r, ok) := utf8_dec p1 in (b0 :: cs, r, ok)
      else if b0 <? 192 then ([], p, false)
      else if b0 <? 224 then
        match p1 with
        | b1 :: p2 => let '(cs, r, ok) := utf8_dec p2 in
                      (((b0 - 192) * 64 + (b1 - 128)) :: cs, r, ok)
        | _ => ([], p, true)
        end
      else if b0 <? 240 then
        match p1 with
        | b1 :: b2 :: p3 => let '(cs, r, ok) := utf8_dec p3 in
                      (((b0 - 224) * 4096 + (b1 - 128) * 64 + (b2 - 128)) :: cs, r, ok)
        | _ => ([], p, true)
        end
      else if b0 <? 248 then
        match p1 with
        | b1 :: b2 :: b3 :: p4 => let '(cs, r, ok) := utf8_dec p4 in
                      (((b0 - 240) * 262144 + (b1 - 128) * 4096 + (b2 - 128) * 64 + (b3 - 128)) :: cs, r, ok)
        | _ => ([], p, true)
        end
      else ([], p, false)
  end.

Close Scope N_scope.

(* does the piece end with "\n"? *)
Definition ends_nl (l : list N) : bool :=
  match rev l with x :: _ => N.eqb x 10 | [] => false end.

(* =========================================================================
   codecs.StreamReader over the stream (the EncodedFile)
   ========================================================================= *)
Record sreader := mkRd {
  rd_bytes : list N;                      (* bytebuffer *)
  rd_chars : list N;                      (* charbuffer *)
  rd_lines : option (list (list N));      (* linebuffer: only StreamReader.readline sets it, which is never called *)
  rd_ok : bool                            (* false after a UnicodeDecodeError / out of fuel *)
}.
Definition rd_fresh : sreader := mkRd [] [] None true.
Definition rd_reset (r : sreader) : sreader := mkRd [] [] None (rd_ok r).

Record encfile := mkEF { ef_stream : rfile; ef_rd : sreader }.

(* the while-loop of StreamReader.read *)
Fixpoint rd_loop (fuel : nat) (stream : rfile) (bb cb : list N) (ok : bool)
         (size chars : option nat) : rfile * list N * list N * bool :=
  match fuel with
  | 0 => (stream, bb, cb, false)
  | S fuel' =>
      if match chars with Some c => c <=? length cb | None => false end
      then (stream, bb, cb, ok)
      else
        let '(stream', newdata) := call_data stream (Read size) in
        let data := bb ++ newdata in
        if nonempty data then
          let '(newchars, tail, dok) := utf8_dec data in
          if nonempty newdata
          then rd_loop fuel' stream' tail (cb ++ newchars) (ok && dok) size chars
          else (stream', tail, cb ++ newchars, ok && dok)
        else (stream', bb, cb, ok)
  end.

(* StreamReader.read(size, chars); None stands for -1 *)
Definition rd_read (e : encfile) (size chars : option nat) : encfile * list N :=
  let rd := ef_rd e in
  let cb0 := match rd_lines rd with Some ls => concat ls | None => rd_chars rd end in
  let chars := match chars with None => size | c => c end in
  let fuel := S (S (length (rest (ef_stream e)))) in
  let '(stream, bb, cb, ok) := rd_loop fuel (ef_stream e) (rd_bytes rd) cb0 (rd_ok rd) size chars in
  match chars with
  | None => (mkEF stream (mkRd bb [] None ok), cb)
  | Some c => (mkEF stream (mkRd bb (skipn c cb) None ok), firstn c cb)
  end.

(* StreamRecoder.seek: reader.seek (stream.seek + reset) then writer.seek (stream.seek) *)
Definition ef_seek (e : encfile) (off : Z) (wh : nat) : encfile :=
  mkEF (f_seek (f_seek (ef_stream e) off wh) off wh) (rd_reset (ef_rd e)).
(* StreamRecoder.write(bytes): decoded then re-encoded by the writer, lands on the stream *)
Definition ef_write (e : encfile) (bytes : list N) : encfile :=
  mkEF (f_write (ef_stream e) bytes) (ef_rd e).
Definition ef_tell (e : encfile) : nat := f_tell (ef_stream e).     (* via __getattr__ *)

(* =========================================================================
   SpooledStringIO
   ========================================================================= *)
Record sstring := mkSS {
  ss_buf : encfile; ss_rolled : bool; ss_max : nat;
  ss_chunk : nat;                         (* READ_CHUNK_SIZE *)
  ss_tell : nat                           (* self._tell, in code points *)
}.
Definition ss_init (max chunk : nat) : sstring := mkSS (mkEF rf_empty rd_fresh) false max chunk 0.
Definition ss_with (s : sstring) (e : encfile) (t : nat) : sstring :=
  mkSS e (ss_rolled s) (ss_max s) (ss_chunk s) t.

(* read(n): ret = buffer.reader.read(n, n); _tell = tell() + len(ret) *)
Definition ss_read (s : sstring) (n : option nat) : sstring * list N :=
  let '(e, ret) := rd_read (ss_buf s) n n in
  (ss_with s e (ss_tell s + length ret), ret).

(* _traverse_codepoints(current_position, n) *)
Fixpoint ss_traverse (fuel : nat) (s : sstring) (cur dest : nat) : sstring :=
  match fuel with
  | 0 => ss_with s (mkEF (ef_stream (ss_buf s)) (mkRd [] [] None false)) (ss_tell s)
  | S fuel' =>
      if Nat.eqb cur dest then s
      else if dest <? cur + ss_chunk s then fst (ss_read s (Some (dest - cur)))
      else
        let '(s1, ret) := ss_read s (Some (ss_chunk s)) in
        if nonempty ret then ss_traverse fuel' s1 (cur + ss_chunk s) dest else s1
  end.

(* seek(pos, 0): buffer.seek(0); _traverse_codepoints(0, pos); _tell = pos *)
Definition ss_seek_set (s : sstring) (pos : nat) : sstring :=
  let s1 := ss_with s (ef_seek (ss_buf s) 0 0) (ss_tell s) in
  let s2 := ss_traverse (S (S pos)) s1 0 pos in
  ss_with s2 (ss_buf s2) pos.

(* rollover() (after fix b866c21): tmp = EncodedFile(TemporaryFile()); pos = self.tell();
   tmp.write(buffer.getvalue()); self._buffer = tmp; self.seek(pos) - the code-point position is
   re-established on the new file with its fresh reader *)
Definition ss_rollover (s : sstring) : sstring :=
  if ss_rolled s then s
  else
    let pos := ss_tell s in
    let tmp := mkEF rf_empty (mkRd [] [] None (rd_ok (ef_rd (ss_buf s)))) in
    let tmp := ef_write tmp (rf_data (ef_stream (ss_buf s))) in
    ss_seek_set (mkSS tmp true (ss_max s) (ss_chunk s) (ss_tell s)) pos.

Definition ss_write (s : sstring) (d : list N) : sstring :=
  let current_pos := ss_tell s in
  let bytes := utf8_enc d in
  let s1 := if ss_max s <=? ef_tell (ss_buf s) + length bytes then ss_rollover s else s in
  ss_with s1 (ef_write (ss_buf s1) bytes) (current_pos + length d).

(* the loop of len: while True: ret = read(CHUNK); if not ret: break; total += len(ret) *)
Fixpoint ss_count (fuel : nat) (s : sstring) (total : nat) : sstring * nat :=
  match fuel with
  | 0 => (ss_with s (mkEF (ef_stream (ss_buf s)) (mkRd [] [] None false)) (ss_tell s), total)
  | S fuel' =>
      let '(s1, ret) := ss_read s (Some (ss_chunk s)) in
      if nonempty ret then ss_count fuel' s1 (total + length ret) else (s1, total)
  end.

(* len (after fix 2ebe104): pos = tell(); buffer.seek(0); count; seek(pos) *)
Definition ss_len (s : sstring) : sstring * nat :=
  let pos := ss_tell s in
  let s1 := ss_with s (ef_seek (ss_buf s) 0 0) (ss_tell s) in
  let '(s2, total) := ss_count (S (S (length (rf_data (ef_stream (ss_buf s)))))) s1 0 in
  (ss_seek_set s2 pos, total).

(* seek(pos, mode) -> tell() *)
Definition ss_seek (s : sstring) (off : Z) (mode : nat) : sstring * fobs :=
  match mode with
  | 0 => if (off <? 0)%Z then (s, OErr ValueError)        (* raise ValueError("Negative seek position") *)
         else let s' := ss_seek_set s (Z.to_nat off) in (s', ONat (ss_tell s'))
  | 1 => if (off <? 0)%Z then (s, OErr model_err)
         else
           let start_pos := ss_tell s in
           let n := Z.to_nat off in
           let s1 := ss_traverse (S (S n)) s start_pos (start_pos + n) in
           let s' := ss_with s1 (ss_buf s1) (start_pos + n) in (s', ONat (ss_tell s'))
  | 2 => let '(s1, total) := ss_len s in                (* dest_position = self.len - pos *)
         let dest := (Z.of_nat total - off)%Z in
         if (dest <? 0)%Z then (s1, OErr model_err)
         else
           let s2 := ss_with s1 (ef_seek (ss_buf s1) 0 0) (ss_tell s1) in
           let s3 := ss_traverse (S (S (Z.to_nat dest))) s2 0 (Z.to_nat dest) in
           let s' := ss_with s3 (ss_buf s3) (Z.to_nat dest) in (s', ONat (ss_tell s'))
  | _ => (s, OErr ValueError)
  end.

(* readline(length) (after the repair of C18-line-boundaries): read chunks through the code-point
   path and stop after the first "\n" - and at no other character, like io.StringIO -; what follows
   it in the chunk is handed back: reader.charbuffer = chunk[end:] + reader.charbuffer;
   self._tell -= len(chunk) - end *)
Definition ss_push_back (s : sstring) (back : list N) : sstring :=
  let rd := ef_rd (ss_buf s) in
  ss_with s (mkEF (ef_stream (ss_buf s)) (mkRd (rd_bytes rd) (back ++ rd_chars rd) (rd_lines rd) (rd_ok rd)))
          (ss_tell s - length back).

Fixpoint ss_readline_loop (fuel : nat) (s : sstring) (limit : option nat) (line : list N)
  : sstring * list N :=
  match fuel with
  | 0 => (ss_with s (mkEF (ef_stream (ss_buf s)) (mkRd [] [] None false)) (ss_tell s), line)
  | S fuel' =>
      if match limit with Some l => l <=? length line | None => false end then (s, line)
      else
        let n := match limit with
                 | None => ss_chunk s
                 | Some l => Nat.min (ss_chunk s) (l - length line)
                 end in
        let '(s1, chunk) := ss_read s (Some n) in
        if nonempty chunk then
          let l := take_line chunk in             (* chunk[:chunk.find('\n') + 1], or all of it *)
          if ends_nl l then (ss_push_back s1 (skipn (length l) chunk), line ++ l)
          else ss_readline_loop fuel' s1 limit (line ++ chunk)
        else (s1, line)
  end.

Definition ss_readline (s : sstring) (lim : option nat) : sstring * list N :=
  ss_readline_loop (S (S (length (rf_data (ef_stream (ss_buf s)))))) s lim [].

(* readlines(sizehint): for line in iter(self.readline, ''): lines.append(line); total += len(line);
   if sizehint and 0 < sizehint <= total: break *)
Fixpoint ss_readlines (fuel : nat) (s : sstring) (hint total : nat) (acc : list (list N)) : sstring * fobs :=
  match fuel with
  | 0 => (s, OErr fuel_err)
  | S fuel' =>
      let '(s1, line) := ss_readline s None in
      if nonempty line then
        let total' := total + length line in
        if (0 <? hint) && (hint <=? total') then (s1, OLines (acc ++ [line]))
        else ss_readlines fuel' s1 hint total' (acc ++ [line])
      else (s1, OLines acc)
  end.

Definition ss_getvalue (s : sstring) : sstring * list N :=
  let pos := ss_tell s in
  let s1 := ss_seek_set s 0 in
  let '(s2, val) := ss_read s1 None in
  (ss_seek_set s2 pos, val).

Definition ss_next (s : sstring) : sstring * res (list N) :=
  let '(s1, line) := ss_readline s None in
  if nonempty line then (s1, Ok line)
  else
    let pos := ef_tell (ss_buf s1) in
    let e := ef_seek (ss_buf s1) 0 2 in
    let end_ := ef_tell e in
    let e' := ef_seek e (Z.of_nat pos) 0 in
    if end_ <=? pos then (ss_with s1 e' (ss_tell s1), Raise StopIteration)
    else (ss_with s1 e' (ss_tell s1), Ok line).

Fixpoint ss_iter (fuel : nat) (s : sstring) (acc : list (list N)) : sstring * fobs :=
  match fuel with
  | 0 => (s, OErr fuel_err)
  | S fuel' =>
      match ss_next s with
      | (s', Ok line) => ss_iter fuel' s' (acc ++ [line])
      | (s', Raise _) => (s', OLines acc)
      end
  end.

Definition ss_ok (s : sstring) : bool := rd_ok (ef_rd (ss_buf s)).

Definition ss_step0 (s : sstring) (op : fop) : sstring * fobs :=
  match op with
  | Write d => (ss_write s d, ONat (length d))              (* return len(s) *)
  | WriteLines ds => (fold_left ss_write ds s, ONone)
  | Rollover => (ss_rollover s, ONone)
  | WriteBad => (s, OErr TypeError)
  | Read n => let '(s', d) := ss_read s n in (s', OData d)
  | ReadLine lim => let '(s', d) := ss_readline s lim in (s', OData d)
  | ReadLines hint => ss_readlines (S (length (rf_data (ef_stream (ss_buf s))))) s hint 0 []
  | Next => match ss_next s with (s', Ok d) => (s', OData d) | (s', Raise e) => (s', OErr e) end
  | IterAll => ss_iter (S (length (rf_data (ef_stream (ss_buf s))))) s []
  | ListAll =>
      let '(s1, _) := ss_len s in ss_iter (S (length (rf_data (ef_stream (ss_buf s1))))) s1 []
  | Seek off wh => ss_seek s off wh
  | Tell => (s, ONat (ss_tell s))
  | GetValue => let '(s', v) := ss_getvalue s in (s', OData v)
  | Len => let '(s', n) := ss_len s in (s', ONat n)
  end.

Definition ss_step (s : sstring) (op : fop) : sstring * fobs :=
  let '(s', o) := ss_step0 s op in
  if ss_ok s' then (s', o) else (s', OErr model_err).

Fixpoint ss_run (s : sstring) (ops : list fop) : list step_obs :=
  match ops with
  | [] => []
  | op :: r => let '(s', o) := ss_step s op in (o, ss_tell s') :: ss_run s' r
  end.

(* =========================================================================
   MultiFileReader over member files that are reference files (io.BytesIO /
   io.StringIO / open files)
   ========================================================================= *)
Record mfr := mkMFR { m_files : list rfile; m_index : nat }.
Definition mfr_init (contents : list (list N)) : mfr :=
  mkMFR (map (fun c => mkRF c 0) contents) 0.

Fixpoint set_nth {A} (l : list A) (i : nat) (x : A) : list A :=
  match l, i with
  | [], _ => []
  | _ :: r, 0 => x :: r
  | y :: r, S i' => y :: set_nth r i' x
  end.

(* while amt > 0 and self._index < len(self._fileobjs): ... *)
Fixpoint mfr_loop (fuel : nat) (m : mfr) (amt : nat) (parts : list N) : mfr * fobs :=
  match fuel with
  | 0 => (m, OErr fuel_err)
  | S fuel' =>
      if (0 <? amt) && (m_index m <? length (m_files m)) then
        match nth_error (m_files m) (m_index m) with
        | Some f =>
            let '(f', part) := call_data f (Read (Some amt)) in
            let got := length part in
            let files := set_nth (m_files m) (m_index m) f' in
            let idx := if got <? amt then S (m_index m) else m_index m in
            mfr_loop fuel' (mkMFR files idx) (amt - got) (parts ++ part)
        | None => (m, OErr model_err)
        end
      else (m, OData parts)
  end.

Definition mfr_step (m : mfr) (op : mop) : mfr * fobs :=
  match op with
  | MRead (Some amt) => mfr_loop (S (S (length (m_files m)))) m amt []
  | MRead None =>                               (* `if amt is None or amt < 0:` join(f.read() for f in files) *)
      let rs := map (fun f => call_data f (Read None)) (m_files m) in
      (mkMFR (map fst rs) (m_index m), OData (concat (map snd rs)))
  | MSeek0 => (mkMFR (map (fun f => f_seek0 f 0) (m_files m)) 0, ONone)
  end.

Fixpoint mfr_run (m : mfr) (ops : list mop) : list fobs :=
  match ops with
  | [] => []
  | op :: r => let '(m', o) := mfr_step m op in o :: mfr_run m' r
  end.
