(* C09 (T): a deep embedding of the small Python subset in which
   boltons.iterutils.chunk_ranges is written, with an interpreter.  The
   translator harness/translators/c09_ranges.py walks the function's ast in
   /repo and emits the program as a term of type [list stmt] (Gen/C09_Gen.v);
   Proofs/C09_PyRangesProof.v shows that running that program is the model
   m_chunk_ranges for ALL inputs.  Definitions only. *)
From Boltons Require Import Lib.Prelude.
Local Open Scope Z_scope.

Definition var := nat.

Inductive expr :=
| V (x : var)                     (* local variable / parameter *)
| C (z : Z)                       (* integer literal *)
| Add (a b : expr) | Sub (a b : expr)
| Mod (a b : expr)                (* Python %, floor modulo; ZeroDivisionError on 0 *)
| Min (a b : expr).               (* min(a, b) *)

Inductive cond :=
| Ge (a b : expr) | Ne (a b : expr)
| Truthy (x : var).               (* `if align:` *)

Inductive stmt :=
| Assign (x : var) (e : expr)
| Validate (x : var) (strict : bool)   (* x = _validate_positive_int(x, name, strictly_positive=strict) *)
| Yield (a b : expr)                   (* yield (a, b) *)
| Return
| If (c : cond) (body : list stmt)     (* no else branch occurs *)
| ForRange (x : var) (a b s : expr) (body : list stmt)   (* for x in range(a, b, s): body *)
| ForFrom (x : var) (i b s : Z) (body : list stmt).      (* internal: the loop at position i *)

Inductive status := SNormal | SReturn | SRaise (e : exn) | SFuel.

Definition env := list (var * Z).
Fixpoint get (rho : env) (x : var) : Z :=
  match rho with [] => 0 | (y, z) :: r => if Nat.eqb x y then z else get r x end.
Definition set (rho : env) (x : var) (z : Z) : env := (x, z) :: rho.

Definition ZeroDivisionErr := OtherExn 1.

Fixpoint eval (rho : env) (e : expr) : res Z :=
  match e with
  | V x => Ok (get rho x)
  | C z => Ok z
  | Add a b => match eval rho a, eval rho b with Ok x, Ok y => Ok (x + y) | Raise e, _ => Raise e | _, Raise e => Raise e end
  | Sub a b => match eval rho a, eval rho b with Ok x, Ok y => Ok (x - y) | Raise e, _ => Raise e | _, Raise e => Raise e end
  | Mod a b => match eval rho a, eval rho b with
               | Ok x, Ok y => if y =? 0 then Raise ZeroDivisionErr else Ok (x mod y)
               | Raise e, _ => Raise e | _, Raise e => Raise e end
  | Min a b => match eval rho a, eval rho b with Ok x, Ok y => Ok (Z.min x y) | Raise e, _ => Raise e | _, Raise e => Raise e end
  end.

Definition evalc (rho : env) (c : cond) : res bool :=
  match c with
  | Ge a b => match eval rho a, eval rho b with Ok x, Ok y => Ok (x >=? y) | Raise e, _ => Raise e | _, Raise e => Raise e end
  | Ne a b => match eval rho a, eval rho b with Ok x, Ok y => Ok (negb (x =? y)) | Raise e, _ => Raise e | _, Raise e => Raise e end
  | Truthy x => Ok (negb (get rho x =? 0))
  end.

Record state := mkSt { st_env : env; st_out : list (Z * Z); st_status : status }.

(* every step costs one unit of fuel; SFuel is the distinguished out-of-fuel
   outcome (excluded by the theorem) *)
Fixpoint exec (fuel : nat) (rho : env) (out : list (Z * Z)) (ss : list stmt) : state :=
  match fuel with
  | O => mkSt rho out SFuel
  | S f =>
      match ss with
      | [] => mkSt rho out SNormal
      | s :: rest =>
          match s with
          | Assign x e =>
              match eval rho e with
              | Ok z => exec f (set rho x z) out rest
              | Raise e => mkSt rho out (SRaise e)
              end
          | Validate x strict =>
              let z := get rho x in
              if (z <? 0) || (strict && (z =? 0)) then mkSt rho out (SRaise ValueError)
              else exec f rho out rest
          | Yield a b =>
              match eval rho a, eval rho b with
              | Ok x, Ok y => exec f rho (out ++ [(x, y)]) rest
              | Raise e, _ => mkSt rho out (SRaise e)
              | _, Raise e => mkSt rho out (SRaise e)
              end
          | Return => mkSt rho out SReturn
          | If c body =>
              match evalc rho c with
              | Ok true =>
                  let r := exec f rho out body in
                  match st_status r with
                  | SNormal => exec f (st_env r) (st_out r) rest
                  | _ => r
                  end
              | Ok false => exec f rho out rest
              | Raise e => mkSt rho out (SRaise e)
              end
          | ForRange x a b s body =>
              match eval rho a, eval rho b, eval rho s with
              | Ok i, Ok bb, Ok st =>
                  if st =? 0 then mkSt rho out (SRaise ValueError)     (* range() arg 3 must not be zero *)
                  else exec f rho out (ForFrom x i bb st body :: rest)
              | Raise e, _, _ => mkSt rho out (SRaise e)
              | _, Raise e, _ => mkSt rho out (SRaise e)
              | _, _, Raise e => mkSt rho out (SRaise e)
              end
          | ForFrom x i b st body =>
              if ((0 <? st) && (i <? b)) || ((st <? 0) && (b <? i)) then
                let r := exec f (set rho x i) out body in
                match st_status r with
                | SNormal => exec f (st_env r) (st_out r) (ForFrom x (i + st) b st body :: rest)
                | _ => r
                end
              else exec f rho out rest
          end
      end
  end.

(* a generator called with these arguments, observed through list(): the
   yielded pairs, or the exception that escapes *)
Definition to_res (r : state) : res (list (Z * Z)) :=
  match st_status r with
  | SNormal | SReturn => Ok (st_out r)
  | SRaise e => Raise e
  | SFuel => Raise RuntimeError
  end.

Definition run_generator (fuel : nat) (prog : list stmt) (rho : env) : res (list (Z * Z)) :=
  to_res (exec fuel rho [] prog).
