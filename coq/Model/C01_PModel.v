(* Pointer-level model of OrderedMultiDict: the SAME public methods as Model/C01_Model.v (this file is
   generated from it by harness/translators/c01_pmodel.py: identical text, names prefixed), but the
   linked list is the heap of [PREV, NEXT, KEY, VALUE] cells of Model/C01_Ptr.v: _insert / _remove /
   _remove_all do the pointer surgery, iteration follows NEXT from root, __reversed__ follows PREV,
   poplast()/popitem() read root[PREV].  Heap operations are made total (a dangling pointer leaves the
   heap unchanged / ends the walk); Proofs/C01_PSim.v shows that never happens and that this model
   computes exactly what the list-level model computes.  Definitions only.                              *)
From Boltons Require Import Lib.Prelude Spec.C01_Spec Model.C01_Model Model.C01_Ptr.

Record pomd := mkPomd {
  pstore : pydict (list V);
  pheap : heap;
  pcmap : pydict (list nat);
  pnxt : nat }.

Definition pm_empty : pomd := mkPomd [] h_clear [] 0.
Definition pset_store (s : pomd) (st : pydict (list V)) : pomd := mkPomd st (pheap s) (pcmap s) (pnxt s).

Definition h_insert_t (h : heap) (a : nat) (k : K) (v : V) : heap :=
  match h_insert h a k v with Ok h' => h' | Raise _ => h end.
Definition h_unlink_t (h : heap) (a : nat) : heap :=
  match h_unlink h a with Ok h' => h' | Raise _ => h end.

Definition triple_cell (t : nat * K * V) : cell := mkCell (pred (fst (fst t))) (snd (fst t)) (snd t).
(* curr = root[NEXT]; while curr is not root: ... curr = curr[NEXT]   (at most pnxt cells exist) *)
Definition p_cells (s : pomd) : list cell :=
  match h_forward (pheap s) (S (pnxt s)) with Ok l => map triple_cell l | Raise _ => [] end.
(* curr = root[PREV]; while curr is not root: ... curr = curr[PREV] *)
Definition p_cells_rev (s : pomd) : list cell :=
  match h_backward (pheap s) (S (pnxt s)) with Ok l => map triple_cell l | Raise _ => [] end.

(* ---- the three primitives, on the heap ------------------------------------------------------------ *)
Definition pl_insert (s : pomd) (k : K) (v : V) : pomd :=
  let id := pnxt s in
  mkPomd (pstore s) (h_insert_t (pheap s) (S id) k v)
         (d_set (pcmap s) k (d_getd (pcmap s) k ++ [id])) (S id).

Definition pl_remove (s : pomd) (k : K) : res pomd :=
  match d_get (pcmap s) k with
  | None => Raise KeyError
  | Some cells =>
      match rev cells with
      | [] => Raise IndexError
      | id :: rrest =>
          let rest := rev rrest in
          Ok (mkPomd (pstore s) (h_unlink_t (pheap s) (S id))
                     (match rest with [] => d_del (pcmap s) k | _ => d_set (pcmap s) k rest end)
                     (pnxt s))
      end
  end.

Definition pl_remove_all (s : pomd) (k : K) : res pomd :=
  match d_get (pcmap s) k with
  | None => Raise KeyError
  | Some cells =>
      Ok (mkPomd (pstore s) (fold_left (fun h id => h_unlink_t h (S id)) (rev cells) (pheap s))
                 (d_del (pcmap s) k) (pnxt s))
  end.

Definition pm_items (s : pomd) : pairs := map ckv (p_cells s).           (* iteritems(multi=True) *)

Definition pm_iterkeys (s : pomd) : list K := walk_keys [] (p_cells s).

Definition pm_getitem (s : pomd) (k : K) : res V :=          (* super().__getitem__(k)[-1] *)
  match d_get (pstore s) k with
  | None => Raise KeyError
  | Some vs => last_res vs
  end.

Definition pm_items1 (s : pomd) : res pairs :=              (* iteritems(multi=False) *)
  map_res (fun k => do v <- pm_getitem s k; Ok (k, v)) (pm_iterkeys s).

Definition pm_getlist (s : pomd) (k : K) : list V := d_getd (pstore s) k.

(* ---- mutators ---------------------------------------------------------------------- *)
(* values = super().setdefault(k, []); self._insert(k, v); values.append(v) *)
Definition pm_add (s : pomd) (k : K) (v : V) : pomd :=
  let vals := d_getd (pstore s) k in
  let s1 := pl_insert s k v in
  pset_store s1 (d_set (pstore s1) k (vals ++ [v])).

Definition pm_addlist (s : pomd) (k : K) (vs : list V) : pomd :=
  match vs with
  | [] => s
  | _ => let vals := d_getd (pstore s) k in
         let s1 := fold_left (fun s v => pl_insert s k v) vs s in
         pset_store s1 (d_set (pstore s1) k (vals ++ vs))
  end.

Definition pm_setitem (s : pomd) (k : K) (v : V) : res pomd :=
  do s1 <- (if d_mem (pstore s) k then pl_remove_all s k else Ok s);
  let s2 := pl_insert s1 k v in
  Ok (pset_store s2 (d_set (pstore s2) k [v])).

Definition pm_delitem (s : pomd) (k : K) : res pomd :=
  if d_mem (pstore s) k then pl_remove_all (pset_store s (d_del (pstore s) k)) k
  else Raise KeyError.

Definition p_add_all (s : pomd) (l : pairs) : pomd :=
  fold_left (fun s p => pm_add s (fst p) (snd p)) l s.

(* the else-branch of update(): pairs from any iterable, with the [seen] set *)
Fixpoint p_upd_pairs (s : pomd) (seen : list K) (l : pairs) : res pomd :=
  match l with
  | [] => Ok s
  | (k, v) :: r =>
      if mem_nat k seen then p_upd_pairs (pm_add s k v) seen r
      else do s1 <- (if d_mem (pstore s) k then pm_delitem s k else Ok s);
           p_upd_pairs (pm_add s1 k v) (k :: seen) r
  end.

(* for k in E.keys(): self[k] = E[k]     (also: for k in F: self[k] = F[k]) *)
Fixpoint p_upd_map (s : pomd) (m : pairs) : res pomd :=
  match m with
  | [] => Ok s
  | (k, v) :: r => do s1 <- pm_setitem s k v; p_upd_map s1 r
  end.

(* for k in E: if k in self: del self[k] *)
Fixpoint p_del_present (s : pomd) (ks : list K) : res pomd :=
  match ks with
  | [] => Ok s
  | k :: r => do s1 <- (if d_mem (pstore s) k then pm_delitem s k else Ok s); p_del_present s1 r
  end.

Definition pm_update (s o : pomd) (a : arg) (kw : pairs) : res pomd :=
  match a with
  | ASelf => p_upd_map s kw                                (* if E is self: E = () *)
  | AOther => do s1 <- p_del_present s (pm_iterkeys o); p_upd_map (p_add_all s1 (pm_items o)) kw
  | AMap m => do s1 <- p_upd_map s m; p_upd_map s1 kw
  | APairs l => do s1 <- p_upd_pairs s [] l; p_upd_map s1 kw
  end.

Definition pm_update_extend (s o : pomd) (a : arg) (kw : pairs) : res pomd :=
  do l <- match a with
          | ASelf => pm_items1 s                          (* iter(E.items()) *)
          | AOther => Ok (pm_items o)
          | AMap m => Ok m
          | APairs l => Ok l
          end;
  Ok (p_add_all (p_add_all s l) kw).

Definition pm_from_pairs (l : pairs) : pomd := p_add_all pm_empty l.

(* OMD(arg, **kw): update_extend(arg) then update(kwargs) on a fresh object *)
Definition pm_new (s o : pomd) (a : option arg) (kw : pairs) : res pomd :=
  let base := match a with
              | None => pm_empty
              | Some ASelf => pm_from_pairs (pm_items s)
              | Some AOther => pm_from_pairs (pm_items o)
              | Some (AMap m) => pm_from_pairs m
              | Some (APairs l) => pm_from_pairs l
              end in
  p_upd_map base kw.


(* popall: if k in pstore: _remove_all(k); return pstore.pop(k[, default]) *)
Definition pm_popall (s : pomd) (k : K) : res (pomd * list V) :=
  do s1 <- (if d_mem (pstore s) k then pl_remove_all s k else Ok s);
  match d_get (pstore s1) k with
  | None => Raise KeyError
  | Some vs => Ok (pset_store s1 (d_del (pstore s1) k), vs)
  end.

Definition p_last_key (s : pomd) : res K :=                 (* self.root[PREV][KEY] *)
  match h_last (pheap s) with
  | Raise e => Raise e
  | Ok a => if Nat.eqb a root then Raise (OtherExn 1)
            else match d_get (pheap s) a with None => Raise dangling | Some c => Ok (p_key c) end
  end.

(* ---- equality ------------------------------------------------------------------------ *)
Definition pm_eq_omd (s o : pomd) : bool :=
  if negb (Nat.eqb (length (pstore o)) (length (pstore s))) then false
  else zip_eq (pm_items s) (pm_items o).

Fixpoint p_eq_map_loop (s : pomd) (m : pairs) (ks : list K) : res bool :=
  match ks with
  | [] => Ok true
  | k :: r =>
      match d_get m k with
      | None => Ok false                               (* KeyError from other[k] *)
      | Some ov => do v <- pm_getitem s k;
                   if Nat.eqb ov v then p_eq_map_loop s m r else Ok false
      end
  end.
Definition pm_eq_map (s : pomd) (m : pairs) : res bool :=
  if negb (Nat.eqb (length m) (length (pstore s))) then Ok false
  else p_eq_map_loop s m (pm_iterkeys s).

(* ---- __reversed__: walk backwards counting, per key, the cells seen so far ---------- *)
Fixpoint p_rev_walk (s : pomd) (lengths : pydict nat) (l : list cell) : res (list K) :=
  match l with
  | [] => Ok []
  | c :: r =>
      let k := c_key c in
      match d_get (pstore s) k with
      | None => Raise KeyError
      | Some vals =>
          let cnt := match d_get lengths k with Some n => n | None => 1 end in
          do rest <- p_rev_walk s (d_set lengths k (S cnt)) r;
          Ok (if Nat.eqb cnt (length vals) then k :: rest else rest)
      end
  end.

(* ---- sortedvalues ---------------------------------------------------------------------- *)
Fixpoint p_sv_loop (svm : pydict (list V)) (ret : pomd) (ks : list K) : res pomd :=
  match ks with
  | [] => Ok ret
  | k :: r =>
      match d_get svm k with
      | None => Raise KeyError
      | Some vs =>
          match rev vs with
          | [] => Raise IndexError
          | v :: rrest => p_sv_loop (d_set svm k (rev rrest)) (pm_add ret k v) r
          end
      end
  end.
Definition pm_sortedvalues (s : pomd) (f : keyfn) (rv : bool) : res pomd :=
  let svm := map (fun kv => (fst kv, rev (py_sorted (kf_val f) rv (snd kv)))) (pstore s) in
  p_sv_loop svm pm_empty (map c_key (p_cells s)).


Definition pm_op (s o : pomd) (op_ : op) : res (pomd * out) :=
  match op_ with
  | Add k v => Ok (pm_add s k v, none_out)
  | AddList k vs => Ok (pm_addlist s k vs, none_out)
  | SetItem k v => do s1 <- pm_setitem s k v; Ok (s1, none_out)
  | DelItem k => do s1 <- pm_delitem s k; Ok (s1, none_out)
  | Update a kw => do s1 <- pm_update s o a kw; Ok (s1, none_out)
  | UpdateExtend a kw => do s1 <- pm_update_extend s o a kw; Ok (s1, none_out)
  | IOr a => do s1 <- pm_update s o a []; Ok (s1, none_out)
  | SetDefault k d =>
      do s1 <- (if d_mem (pstore s) k then Ok s else pm_setitem s k (dflt d));
      do v <- pm_getitem s1 k; Ok (s1, OVal v)
  | Pop k d =>
      match pm_popall s k with
      | Ok (s1, vs) => do v <- last_res vs; Ok (s1, OVal v)
      | Raise KeyError => do x <- dflt_res d; Ok (s, x)
      | Raise e => Raise e
      end
  | PopAll k d =>
      do s1 <- (if d_mem (pstore s) k then pl_remove_all s k else Ok s);
      match d_get (pstore s1) k with
      | None => do x <- dflt_res d; Ok (s1, x)
      | Some vs => Ok (pset_store s1 (d_del (pstore s1) k), OList vs)
      end
  | PopLast ko d =>
      match (match ko with
             | Some k => Ok (Some k)
             | None => match pstore s with
                       | [] => Ok None
                       | _ => do k <- p_last_key s; Ok (Some k)
                       end
             end) with
      | Raise e => Raise e
      | Ok None => do x <- dflt_res d; Ok (s, x)
      | Ok (Some k) =>
          match pl_remove s k with
          | Raise KeyError => do x <- dflt_res d; Ok (s, x)
          | Raise e => Raise e
          | Ok s1 =>
              match d_get (pstore s1) k with
              | None => Raise KeyError
              | Some values =>
                  match rev values with
                  | [] => Raise IndexError
                  | v :: rrest =>
                      let rest := rev rrest in
                      Ok (pset_store s1 (match rest with
                                        | [] => d_del (pstore s1) k
                                        | _ => d_set (pstore s1) k rest
                                        end), OVal v)
                  end
              end
          end
      end
  | PopItem =>
      match pstore s with
      | [] => Raise KeyError
      | _ => do k <- p_last_key s;
             do sv <- pm_popall s k;
             do v <- last_res (snd sv); Ok (fst sv, OItem k v)
      end
  | Clear => Ok (mkPomd [] h_clear [] (pnxt s), none_out)
  | New a kw => do s1 <- pm_new s o a kw; Ok (s1, none_out)
  | FromKeys ks d => Ok (pm_from_pairs (map (fun k => (k, dflt d)) ks), none_out)
  | CopyOther _ => let c := pm_from_pairs (pm_items o) in Ok (c, OBool (pm_eq_omd c o))
  | CopyCyc c dst =>      (* the copy machinery rebuilds the object from its pair list; deep kinds copy the
                             values with a memo, so references to the source become references to the copy *)
      let deep := match c with CkDeepCopy | CkPickle => true | _ => false end in
      Ok (pm_from_pairs (map (fun p => (fst p, remap_ref deep dst (snd p))) (pm_items o)), OBool true)
  | Items multi => if multi then Ok (s, OPairs (pm_items s))
                   else do l <- pm_items1 s; Ok (s, OPairs l)
  | Keys multi => Ok (s, OList (if multi then map c_key (p_cells s) else pm_iterkeys s))
  | Values multi => if multi then Ok (s, OList (map snd (pm_items s)))
                    else do l <- pm_items1 s; Ok (s, OList (map snd l))
  | Len => Ok (s, ONat (length (pstore s)))
  | Iter => Ok (s, OList (pm_iterkeys s))
  | Reversed => do l <- p_rev_walk s [] (p_cells_rev s); Ok (s, OList l)
  | Get k d =>
      do v <- last_res (match d_get (pstore s) k with Some vs => vs | None => [dflt d] end);
      Ok (s, OVal v)
  | GetList k d =>
      Ok (s, match d_get (pstore s) k with
             | Some vs => OList vs
             | None => match d with Some v => OVal v | None => OList [] end
             end)
  | GetItem k => do v <- pm_getitem s k; Ok (s, OVal v)
  | Contains k => Ok (s, OBool (d_mem (pstore s) k))
  | ToDict multi =>
      if multi then Ok (s, OMulti (map (fun k => (k, pm_getlist s k)) (pm_iterkeys s)))
      else do l <- map_res (fun k => do v <- pm_getitem s k; Ok (k, v)) (pm_iterkeys s);
           Ok (s, OPairs l)
  | Counts =>
      do l <- map_res (fun k => match d_get (pstore s) k with
                                | None => Raise KeyError
                                | Some vs => Ok (k, length vs)
                                end) (pm_iterkeys s);
      Ok (s, OPairs (pm_items (pm_from_pairs l)))
  | Inverted =>          (* cls((v, k) for k, v in ...): hashing an unhashable value raises *)
      if existsb unhashable (map snd (pm_items s)) then Raise TypeError
      else Ok (s, OPairs (pm_items (pm_from_pairs (map (fun p => (snd p, fst p)) (pm_items s)))))
  | Sorted f rv => Ok (s, OPairs (pm_items (pm_from_pairs (py_sorted (kf_item f) rv (pm_items s)))))
  | SortedValues f rv => do r <- pm_sortedvalues s f rv; Ok (s, OPairs (pm_items r))
  | Repr => Ok (s, OPairs (pm_items s))
  | EqOther ne => Ok (s, OBool (xorb_ne ne (pm_eq_omd s o)))
  | EqSelf ne => Ok (s, OBool (xorb_ne ne true))
  | EqPairs ne l => Ok (s, OBool (xorb_ne ne (pm_eq_omd s (pm_from_pairs l))))
  | EqMap ne m => do b <- pm_eq_map s m; Ok (s, OBool (xorb_ne ne b))
  | EqJunk ne => Ok (s, OBool (xorb_ne ne false))
  (* dict.__or__ / __ror__ on a subclass: merged through keys() and __getitem__ *)
  | OrMap m => do l <- pm_items1 s; Ok (s, OPairs (dict_merge l m))
  | ROrMap m => do l <- pm_items1 s; Ok (s, OPairs (dict_merge m l))
  (* KeysView / ValuesView / ItemsView iterate the mapping and index it; dict(d) goes through
     keys() and __getitem__; bool(d) is len(d) != 0 *)
  | ViewKeys => Ok (s, OList (pm_iterkeys s))
  | ViewValues => do l <- pm_items1 s; Ok (s, OList (map snd l))
  | ViewItems => do l <- pm_items1 s; Ok (s, OPairs l)
  | DictOf => do l <- pm_items1 s; Ok (s, OPairs l)
  | Truth => Ok (s, OBool (match pstore s with [] => false | _ => true end))
  (* the loop of update()/update_extend() runs over the well-formed prefix, then the malformed
     item raises (unpacking, or hashing the key in `k not in seen` / dict.setdefault) *)
  | UpdateBad l b => do s1 <- p_upd_pairs s [] l; Ok (s1, ORaised (bad_exn b))
  | UpdateExtendBad l b => Ok (p_add_all s l, ORaised (bad_exn b))
  | AddListBad _ => Ok (s, ORaised TypeError)         (* v = list(v) raises first *)
  | BadKey _ => Ok (s, ORaised TypeError)             (* hashing the key raises before any effect *)
  end.

(* all raising paths of the code that the property allows (KeyError on a missing
   key / empty dict) raise before any mutation, so the state left behind is the
   state before the call *)
Definition pm_step (s o : pomd) (op_ : op) : pomd * res out :=
  match pm_op s o op_ with
  | Ok (s1, x) => (s1, Ok x)
  | Raise e => (s, Raise e)
  end.

Definition pmstate := (pomd * pomd)%type.
Definition pm_step2 (st : pmstate) (reg : bool) (op_ : op) : pmstate * res out :=
  let '(s0, s1) := st in
  if reg then let '(s', r) := pm_step s1 s0 op_ in ((s0, s'), r)
  else let '(s', r) := pm_step s0 s1 op_ in ((s', s1), r).

(* snapshot views through the public API: items(multi=True), todict(multi=True) *)
Definition pm_view (s : pomd) : view :=
  (pm_items s, map (fun k => (k, pm_getlist s k)) (pm_iterkeys s)).

Fixpoint pm_run (st : pmstate) (ops : list (bool * op)) : list (res out * (view * view)) :=
  match ops with
  | [] => []
  | (reg, o) :: r =>
      let '(st', x) := pm_step2 st reg o in
      (x, (pm_view (fst st'), pm_view (snd st'))) :: pm_run st' r
  end.
