(* Executable model of boltons.cacheutils.LRI / LRU as written (after the fix:
   commits d5bfaf9, f6e660c, 6098ee5, 562d9dc, 9635692, 9569540, 6d02f80; __len__ and
   __contains__ read the storage under the lock since ae52c78).  Definitions only.
   This is the list-level model; Model/C02_PtrModel.v + C02_PtrCache.v give the same
   methods over cells and pointers and Proofs/C02_PtrSim.v proves the two equal.

   State of one cache, as in the code:
     store  the dict storage of the dict subclass (insertion order)
     ring   the circular doubly linked list anchored at self._anchor, read from
            anchor[NEXT] (oldest) to anchor[PREV] (newest); each link carries
            KEY and VALUE; self._link_lookup (key -> link) is the lookup of a
            key in this list (abstraction: cells and pointers are not modelled)
     hit miss soft   hit_count miss_count soft_miss_count
     calls  ghost: keys on_miss was called with, newest first *)
From Boltons Require Import Lib.Prelude Lib.C02_Syntax.
Open Scope N_scope.

Record cache := mkC {
  store : pydict V;
  ring  : list (K * V);
  hit : N; miss : N; soft : N;
  calls : list K
}.

Definition empty_cache : cache := mkC [] [] 0 0 0 [].

Definition set_sr (m : cache) (s : pydict V) (r : list (K * V)) : cache :=
  mkC s r (hit m) (miss m) (soft m) (calls m).

(* ---- linked-list helpers ------------------------------------------------- *)
(* _get_link_and_move_to_front_of_ll: KeyError (None) if the key has no link *)
Definition ll_move_to_front (r : list (K * V)) (k : K) : option (list (K * V)) :=
  match d_get r k with
  | None => None
  | Some v => Some (d_del r k ++ [(k, v)])
  end.

(* _set_key_and_add_to_front_of_ll *)
Definition ll_add_to_front (r : list (K * V)) (k : K) (v : V) : list (K * V) := r ++ [(k, v)].

(* _set_key_and_evict_last_in_ll: the anchor takes the new key, the oldest link
   becomes the anchor; returns the evicted key.  On an empty list the anchor is
   its own successor, the "evicted" key is the new key itself and
   `del self._link_lookup[evicted]` raises KeyError (None). *)
Definition ll_evict (r : list (K * V)) (k : K) (v : V) : option (list (K * V) * K) :=
  match r with
  | [] => None
  | (e, _) :: r' => Some (r' ++ [(k, v)], e)
  end.

(* _remove_from_ll: self._link_lookup.pop(key) raises KeyError (None) *)
Definition ll_remove (r : list (K * V)) (k : K) : option (list (K * V)) :=
  if d_mem r k then Some (d_del r k) else None.

(* ---- __setitem__ ----------------------------------------------------------- *)
Definition setitem (c : cfg) (m : cache) (k : K) (v : V) : cache * res unit :=
  match ll_move_to_front (ring m) k with
  | Some r' =>
      (* else: link[VALUE] = value ; super().__setitem__(key, value) *)
      (set_sr m (d_set (store m) k v) (d_set r' k v), Ok tt)
  | None =>
      if (length (store m) <? c_max c)%nat then
        (set_sr m (d_set (store m) k v) (ll_add_to_front (ring m) k v), Ok tt)
      else
        match ll_evict (ring m) k v with
        | None => (m, Raise KeyError)
        | Some (r', evicted) =>
            if d_mem (store m) evicted
            then (set_sr m (d_set (d_del (store m) evicted) k v) r', Ok tt)
            else (set_sr m (store m) r', Raise KeyError)    (* super().__delitem__(evicted) *)
        end
  end.

(* ---- __getitem__ (LRI: no reordering; LRU: move to front on a hit) ---------- *)
Definition getitem (c : cfg) (m : cache) (k : K) : cache * res V :=
  match d_get (ring m) k with
  | Some v =>
      let r' := match c_cls c with
                | LRI => ring m
                | LRU => d_del (ring m) k ++ [(k, v)]
                end in
      (mkC (store m) r' (hit m + 1) (miss m) (soft m) (calls m), Ok v)
  | None =>
      let m1 := mkC (store m) (ring m) (hit m) (miss m + 1) (soft m) (calls m) in
      match c_on_miss c with
      | None => (m1, Raise KeyError)
      | Some f =>
          (* ret = self[key] = self.on_miss(key) *)
          let v := f k in
          let m2 := mkC (store m1) (ring m1) (hit m1) (miss m1) (soft m1) (k :: calls m1) in
          match setitem c m2 k v with
          | (m3, Ok _) => (m3, Ok v)
          | (m3, Raise e) => (m3, Raise e)
          end
      end
  end.

Definition bump_soft (m : cache) : cache :=
  mkC (store m) (ring m) (hit m) (miss m) (soft m + 1) (calls m).

(* setitem over a sequence of pairs; stops at the first exception *)
Fixpoint setitems (c : cfg) (m : cache) (kvs : list (K * V)) : cache * res unit :=
  match kvs with
  | [] => (m, Ok tt)
  | (k, v) :: rest =>
      match setitem c m k v with
      | (m', Ok _) => setitems c m' rest
      | (m', Raise e) => (m', Raise e)
      end
  end.

(* dict.__eq__(self, other) for a dict `other` given by its items: same length and
   every item of self is in other *)
Definition dict_eq (s d : list (K * V)) : bool :=
  Nat.eqb (length s) (length d)
  && forallb (fun kv => option_eqb Nat.eqb (d_get d (fst kv)) (Some (snd kv))) s.

(* LRI.__eq__ (other is not self): length test, then dict.__eq__ *)
Definition cache_eq (m : cache) (d : list (K * V)) : bool :=
  if negb (Nat.eqb (length d) (length (store m))) then false else dict_eq (store m) d.

Definition lift {A} (f : A -> outv) (x : cache * res A) : cache * res outv :=
  match x with
  | (m, Ok a) => (m, Ok (f a))
  | (m, Raise e) => (m, Raise e)
  end.

(* ---- one public method call ------------------------------------------------ *)
Definition step1 (c : cfg) (m : cache) (o : op1) : cache * res outv :=
  match o with
  | SetItem k v => lift (fun _ => ONone) (setitem c m k v)
  | GetItem k => lift OVal (getitem c m k)
  | Get k d =>
      match getitem c m k with
      | (m', Ok v) => (m', Ok (OVal v))
      | (m', Raise KeyError) => (bump_soft m', Ok (OVal d))
      | (m', Raise e) => (m', Raise e)
      end
  | SetDefault k d =>
      match getitem c m k with
      | (m', Ok v) => (m', Ok (OVal v))
      | (m', Raise KeyError) =>
          lift (fun _ => OVal d) (setitem c (bump_soft m') k d)
      | (m', Raise e) => (m', Raise e)
      end
  | DelItem k =>
      (* super().__delitem__(key); self._remove_from_ll(key) *)
      if d_mem (store m) k then
        match ll_remove (ring m) k with
        | Some r' => (set_sr m (d_del (store m) k) r', Ok ONone)
        | None => (set_sr m (d_del (store m) k) (ring m), Raise KeyError)
        end
      else (m, Raise KeyError)
  | Pop k d =>
      match d_get (store m) k with
      | Some v =>
          match ll_remove (ring m) k with
          | Some r' => (set_sr m (d_del (store m) k) r', Ok (OVal v))
          | None => (set_sr m (d_del (store m) k) (ring m), Raise KeyError)
          end
      | None =>
          match d with
          | Some dv => (m, Ok (OVal dv))
          | None => (m, Raise KeyError)
          end
      end
  | PopItem =>
      (* dict.popitem(): the last item of the storage *)
      match rev (store m) with
      | [] => (m, Raise KeyError)
      | (k, v) :: _ =>
          match ll_remove (ring m) k with
          | Some r' => (set_sr m (d_del (store m) k) r', Ok (OItem k v))
          | None => (set_sr m (d_del (store m) k) (ring m), Raise KeyError)
          end
      end
  | Clear => (set_sr m [] [], Ok ONone)
  | Update e f => lift (fun _ => ONone) (setitems c m (e ++ f))
  | IOr e => lift (fun _ => OBool true) (setitems c m e)
  | Contains k => (m, Ok (OBool (d_mem (store m) k)))
  | Len => (m, Ok (ONat (length (store m))))
  | Iter => (m, Ok (OKeys (d_keys (store m))))
  | Items => (m, Ok (OItems (store m)))
  | EqDict d => (m, Ok (OBool (cache_eq m d)))
  | NeDict d => (m, Ok (OBool (negb (cache_eq m d))))
  | UpdateSelf f =>
      (* `if E is self: pass`, then `for k in F: setitem(k, F[k])` *)
      lift (fun _ => ONone) (setitems c m f)
  | EqOther =>
      (* not `self is other`; dict.__eq__ returns NotImplemented, so does the reflected
         comparison, and Python falls back to identity: False *)
      (m, Ok (OBool false))
  | NeOther => (m, Ok (OBool true))
  end.

(* LRI.copy() (and copy.copy(c), which __copy__ forwards to it): a new cache with
   the same max_size and on_miss, every link of the list re-inserted oldest first
   through __setitem__ *)
Definition copy_cache (c : cfg) (m : cache) : cache * res unit :=
  setitems c empty_cache (ring m).

(* __init__: `if max_size <= 0: raise ValueError`, then
   `if on_miss is not None and not callable(on_miss): raise TypeError` *)
Definition ctor_outcome (max : nat) (on_miss_ok : bool) : option exn :=
  if (max <=? 0)%nat then Some ValueError
  else if negb on_miss_ok then Some TypeError else None.

(* __init__(max_size, values, on_miss): `if values: self.update(values)` *)
Definition init_cache (c : cfg) (init : list (K * V)) : cache * res unit :=
  setitems c empty_cache init.

(* c_i.update(c_j), i <> j: `for k in E.keys(): setitem(k, E[k])` where E[k] is
   the other cache's __getitem__ *)
Fixpoint upd_from (c : cfg) (mi mj : cache) (ks : list K) : cache * cache * res unit :=
  match ks with
  | [] => (mi, mj, Ok tt)
  | k :: rest =>
      match getitem c mj k with
      | (mj', Ok v) =>
          match setitem c mi k v with
          | (mi', Ok _) => upd_from c mi' mj' rest
          | (mi', Raise e) => (mi', mj', Raise e)
          end
      | (mj', Raise e) => (mi, mj', Raise e)
      end
  end.

(* ---- the heap of caches of one history -------------------------------------- *)
(* returns the new heap, the index of the cache the observation is about, the outcome *)
Definition hstep (c : cfg) (h : list cache) (o : hop) : list cache * nat * res outv :=
  match o with
  | On i o1 =>
      match nth_error h i with
      | None => (h, i, Raise (OtherExn 1))
      | Some m => let '(m', out) := step1 c m o1 in (upd_nth i m' h, i, out)
      end
  | Copy i =>
      match nth_error h i with
      | None => (h, i, Raise (OtherExn 1))
      | Some m =>
          match copy_cache c m with
          | (m', Ok _) => (h ++ [m'], length h, Ok ONone)
          | (m', Raise e) => (h ++ [m'], length h, Raise e)
          end
      end
  | EqCache i j =>
      match nth_error h i, nth_error h j with
      | Some m, Some m2 =>
          (* `if self is other: return True` *)
          (h, i, Ok (OBool (if Nat.eqb i j then true else cache_eq m (store m2))))
      | _, _ => (h, i, Raise (OtherExn 1))
      end
  | UpdateFrom i j =>
      match nth_error h i, nth_error h j with
      | Some mi, Some mj =>
          let ks := d_keys (store mj) in                (* E.keys(): the storage order of the source *)
          if Nat.eqb i j then (h, i, Ok (OKeys ks))     (* `if E is self: pass` *)
          else match upd_from c mi mj ks with
               | (mi', mj', Ok _) => (upd_nth i mi' (upd_nth j mj' h), i, Ok (OKeys ks))
               | (mi', mj', Raise e) => (upd_nth i mi' (upd_nth j mj' h), i, Raise e)
               end
      | _, _ => (h, i, Raise (OtherExn 1))
      end
  end.

(* the model's observation of cache i after a step; calls_before = the call log
   of that cache before the step ([] for a new cache) *)
Definition observe (calls_before : list K) (m : cache) (out : res outv) : obs :=
  mkObs out (length (store m)) (hit m) (miss m) (soft m)
        (rev (firstn (length (calls m) - length calls_before)%nat (calls m)))
        (Some (store m)).

Definition calls_before_of (h : list cache) (o : hop) : list K :=
  match o with
  | On i _ | EqCache i _ | UpdateFrom i _ => match nth_error h i with Some m => calls m | None => [] end
  | Copy _ => []
  end.

Definition hobserve (c : cfg) (h : list cache) (o : hop) : list cache * obs :=
  let '(h', i, out) := hstep c h o in
  (h', observe (calls_before_of h o) (nth i h' empty_cache) out).

Fixpoint model_trace (c : cfg) (h : list cache) (ops : list hop) : list obs :=
  match ops with
  | [] => []
  | o :: rest => let '(h', ob) := hobserve c h o in ob :: model_trace c h' rest
  end.

Definition model_run (c : cfg) (init : list (K * V)) (ops : list hop) : list obs :=
  model_trace c [fst (init_cache c init)] ops.

(* the heap after a history (an operation on a cache that does not exist changes nothing) *)
Definition run_heap_from (c : cfg) (h : list cache) (ops : list hop) : list cache :=
  fold_left (fun h o => fst (fst (hstep c h o))) ops h.

Definition run_heap (c : cfg) (init : list (K * V)) (ops : list hop) : list cache :=
  run_heap_from c [fst (init_cache c init)] ops.

(* ---- comparing the model with observations of the implementation ------------- *)
Definition valid_hop (n : nat) (o : hop) : bool :=
  match o with
  | On i _ | Copy i => (i <? n)%nat
  | EqCache i j | UpdateFrom i j => (i <? n)%nat && (j <? n)%nat
  end.

(* a model observation against an implementation observation: everything equal;
   the full view only where the harness took one *)
Definition obs_agree (m i : obs) : bool :=
  res_eqb outv_eqb (o_out m) (o_out i)
  && Nat.eqb (o_len m) (o_len i)
  && N.eqb (o_hit m) (o_hit i) && N.eqb (o_miss m) (o_miss i) && N.eqb (o_soft m) (o_soft i)
  && list_eqb Nat.eqb (o_calls m) (o_calls i)
  && match o_items i with
     | None => true
     | Some l => option_eqb (list_eqb kv_eqb) (o_items m) (Some l)
     end.

Fixpoint agree_walk (c : cfg) (h : list cache) (steps : list (hop * obs)) : bool :=
  match steps with
  | [] => true
  | (o, ob) :: rest =>
      let '(h', mo) := hobserve c h o in
      valid_hop (length h) o && obs_agree mo ob && agree_walk c h' rest
  end.

Definition agree_check (c : cfg) (init : list (K * V)) (steps : list (hop * obs)) : bool :=
  match init_cache c init with
  | (m, Ok _) => agree_walk c [m] steps
  | (_, Raise _) => false
  end.
