(* Executable model of boltons.funcutils.update_wrapper / wraps and of the
   parts of FunctionBuilder they use, AS WRITTEN (after the fix: commits
   972310d add_arg, a93312c __doc__, b766f76 call name, 5af02af annotations,
   6831507 copied __signature__, ec9ad8a + d49e931 non-identifier __name__):
   same fields (args list, positional defaults tuple re-attached from the end,
   kwonlydefaults dict by name, annotations dict by name), same control flow.

   Modelled, not verified (structural stand-ins, exercised by the
   correspondence run): the source text produced by inspect_formatargspec /
   get_sig_str / get_invocation_str (see Model/C13_Text.v for the text level),
   compile()/exec(), inspect.signature and the interpreter's argument binding
   (Spec.bind).  Definitions only. *)
From Boltons Require Import Lib.Prelude Spec.C13_Spec.

Definition RET : name := 0.          (* the key 'return' of __annotations__ *)
Definition SyntaxErr : exn := OtherExn 1.
Definition OutOfDomain : exn := OtherExn 2.   (* never produced on well-formed input: theorem *)
Definition NameErr : exn := OtherExn 3.

(* ---- a Python function object, as far as wraps looks at it ------------------ *)
Record pyfunc := mkF {
  f_name : nat;                          (* __name__ (string token) *)
  f_doc : option nat;                    (* __doc__: None or a string token; 0 = '' *)
  f_module : option nat;                 (* __module__ *)
  f_args : list name;                    (* co_varnames[:co_argcount] *)
  f_varargs : option name;
  f_kwonly : list name;
  f_varkw : option name;
  f_defaults : option (list value);      (* __defaults__: None or a tuple *)
  f_kwdefaults : option (pydict value);  (* __kwdefaults__: None or a dict *)
  f_annotations : pydict ann;            (* __annotations__, 'return' under RET *)
  f_async : bool;
  f_id : nat;                            (* the identity of the function object *)
  f_dict : pydict nat                    (* __dict__: attribute name token -> object token *)
}.

(* attribute names in __dict__ that wraps itself writes or that inspect reads *)
Definition K_WRAPPED : nat := 0.       (* '__wrapped__': its value is the identity of a function *)
Definition K_SOURCE : nat := 1.        (* '__source__' *)
Definition K_SIGNATURE : nat := 2.     (* '__signature__' *)
Definition SRC : nat := 1.             (* stands for "some source text" (its value is not observed) *)

Definition odflt {A} (o : option (list A)) : list A := match o with Some l => l | None => [] end.
Definition olist {A} (o : option A) : list A := match o with Some a => [a] | None => [] end.

(* ---- inspect.signature(func) : _signature_from_function ---------------------- *)
(* positional parameters: the first [skip] have no default, the others take the
   defaults tuple in order *)
Fixpoint pos_params (an : name -> option ann) (args : list name) (skip : nat)
         (defaults : list value) : list param :=
  match args with
  | [] => []
  | a :: r =>
      match skip with
      | S k => mkP a PosOrKw None (an a) :: pos_params an r k defaults
      | O => match defaults with
             | d :: ds => mkP a PosOrKw (Some d) (an a) :: pos_params an r O ds
             | [] => mkP a PosOrKw None (an a) :: pos_params an r O []
             end
      end
  end.

Definition sig_of (f : pyfunc) : res signature :=
  let defaults := odflt (f_defaults f) in
  let na := length (f_args f) in
  let nd := length defaults in
  if Nat.ltb na nd then Raise OutOfDomain else
  let an := d_get (f_annotations f) in
  let kwd := odflt (f_kwdefaults f) in
  Ok (mkSig (pos_params an (f_args f) (na - nd) defaults
             ++ map (fun n => mkP n VarPos None (an n)) (olist (f_varargs f))
             ++ map (fun n => mkP n KwOnly (d_get kwd n) (an n)) (f_kwonly f)
             ++ map (fun n => mkP n VarKw None (an n)) (olist (f_varkw f)))
            (an RET)).

(* calling a function object: the interpreter binds against that signature *)
Definition call_func (f : pyfunc) (c : call) : res binding :=
  match sig_of f with
  | Ok s => bind (sg_params s) c
  | Raise e => Raise e
  end.

(* ---- FunctionBuilder ------------------------------------------------------------ *)
Record fbuilder := mkFB {
  fb_name : nat; fb_doc : nat; fb_module : option nat;
  fb_args : list name; fb_varargs : option name; fb_varkw : option name;
  fb_defaults : option (list value);
  fb_kwonly : list name; fb_kwdefaults : pydict value;
  fb_annotations : pydict ann;
  fb_async : bool;
  fb_dict : pydict nat                   (* the 'dict' argument: func.__dict__ *)
}.

(* dict(pairs) / d.update(pairs) *)
Definition d_update {B} (d : pydict B) (kvs : list (K * B)) : pydict B :=
  fold_left (fun d kv => d_set d (fst kv) (snd kv)) kvs d.

(* inspect.getfullargspec(f), read off the Signature object *)
Definition argspec_args (s : signature) : list name :=
  map p_name (filter (fun p => kind_eqb (p_kind p) PosOrKw) (sg_params s)).
Definition argspec_defaults (s : signature) : option (list value) :=
  match flat_map (fun p => if kind_eqb (p_kind p) PosOrKw then olist (p_default p) else [])
                 (sg_params s) with
  | [] => None
  | l => Some l
  end.
Definition argspec_var (k : kind) (s : signature) : option name :=
  match filter (fun p => kind_eqb (p_kind p) k) (sg_params s) with
  | [] => None
  | p :: _ => Some (p_name p)
  end.
Definition argspec_kwonly (s : signature) : list name :=
  map p_name (filter (fun p => kind_eqb (p_kind p) KwOnly) (sg_params s)).
Definition argspec_kwdefaults (s : signature) : pydict value :=
  d_update [] (flat_map (fun p => if kind_eqb (p_kind p) KwOnly
                                  then match p_default p with Some d => [(p_name p, d)] | None => [] end
                                  else []) (sg_params s)).
Definition argspec_annotations (s : signature) : pydict ann :=
  d_update (match sg_ret s with Some a => [(RET, a)] | None => [] end)
           (flat_map (fun p => match p_ann p with Some a => [(p_name p, a)] | None => [] end)
                     (sg_params s)).

(* FunctionBuilder.from_func: name/doc/module + getfullargspec; __init__ turns a
   None doc into '' (token 0), None kwonlydefaults into {} *)
Definition from_func (f : pyfunc) : res fbuilder :=
  match sig_of f with
  | Raise e => Raise e
  | Ok s =>
      Ok (mkFB (f_name f) (match f_doc f with Some d => d | None => 0 end) (f_module f)
               (argspec_args s) (argspec_var VarPos s) (argspec_var VarKw s)
               (argspec_defaults s)
               (argspec_kwonly s) (argspec_kwdefaults s)
               (argspec_annotations s)
               (f_async f) (f_dict f))
  end.

(* get_defaults_dict:
     ret = dict(reversed(list(zip(reversed(self.args), reversed(self.defaults or [])))))
     ret.update(kwonlydefaults) *)
Definition get_defaults_dict (b : fbuilder) : pydict value :=
  d_update (d_update [] (rev (combine (rev (fb_args b)) (rev (odflt (fb_defaults b))))))
           (fb_kwdefaults b).

(* list.remove(x): first occurrence *)
Fixpoint list_remove (x : nat) (l : list nat) : option (list nat) :=
  match l with
  | [] => None
  | y :: r => if Nat.eqb x y then Some r
              else match list_remove x r with Some r' => Some (y :: r') | None => None end
  end.

Definition mem (x : nat) (l : list nat) : bool := existsb (Nat.eqb x) l.

(* remove_arg: MissingArgument is a ValueError *)
Definition remove_arg (b : fbuilder) (n : name) : res fbuilder :=
  let d_dict := get_defaults_dict b in
  match list_remove n (fb_args b) with
  | Some args' =>
      let d_dict' := d_del d_dict n in
      let defaults' := flat_map (fun a => olist (d_get d_dict' a)) args' in
      Ok (mkFB (fb_name b) (fb_doc b) (fb_module b) args' (fb_varargs b) (fb_varkw b)
               (Some defaults') (fb_kwonly b) (fb_kwdefaults b)
               (d_del (fb_annotations b) n) (fb_async b) (fb_dict b))
  | None =>
      match list_remove n (fb_kwonly b) with
      | Some kwonly' =>
          Ok (mkFB (fb_name b) (fb_doc b) (fb_module b) (fb_args b) (fb_varargs b) (fb_varkw b)
                   (fb_defaults b) kwonly' (d_del (fb_kwdefaults b) n)
                   (d_del (fb_annotations b) n) (fb_async b) (fb_dict b))
      | None => Raise ValueError
      end
  end.

(* add_arg(arg_name, default) with kwonly=False: ExistingArgument and the new
   refusal are ValueErrors *)
Definition add_arg (b : fbuilder) (n : name) (d : option value) : res fbuilder :=
  if mem n (fb_args b) then Raise ValueError
  else if mem n (fb_kwonly b) then Raise ValueError
  else
    let has_defaults := match fb_defaults b with Some (_ :: _) => true | _ => false end in
    match d with
    | None =>
        if has_defaults then Raise ValueError
        else Ok (mkFB (fb_name b) (fb_doc b) (fb_module b) (fb_args b ++ [n]) (fb_varargs b)
                      (fb_varkw b) (fb_defaults b) (fb_kwonly b) (fb_kwdefaults b)
                      (fb_annotations b) (fb_async b) (fb_dict b))
    | Some v =>
        Ok (mkFB (fb_name b) (fb_doc b) (fb_module b) (fb_args b ++ [n]) (fb_varargs b)
                 (fb_varkw b) (Some (odflt (fb_defaults b) ++ [v])) (fb_kwonly b)
                 (fb_kwdefaults b) (fb_annotations b) (fb_async b) (fb_dict b))
    end.

(* ---- what the generated source denotes ------------------------------------------- *)
(* get_invocation_str, as a structure:  _call(a, b, *args, d=d, e=e, **kw) *)
Record invocation := mkInv {
  i_pos : list name; i_star : option name; i_kw : list (name * name); i_dstar : option name }.

Definition get_invocation (b : fbuilder) : invocation :=
  mkInv (fb_args b) (fb_varargs b) (map (fun k => (k, k)) (fb_kwonly b)) (fb_varkw b).

Definition all_names (b : fbuilder) : list name :=
  fb_args b ++ olist (fb_varargs b) ++ fb_kwonly b ++ olist (fb_varkw b).

(* get_func: compile "def name(sig without defaults/annotations): body" (a
   duplicate parameter name is a SyntaxError), then re-attach __defaults__
   positionally, __kwdefaults__ and __annotations__ by name, the metadata,
   func.__dict__.update(self.dict) if with_dict, and func.__source__ = src.
   [gid] is the identity of the new function object. *)
Definition get_func (b : fbuilder) (gid : nat) (with_dict : bool) : res pyfunc :=
  if nodup_b (all_names b)
  then Ok (mkF (fb_name b) (Some (fb_doc b)) (fb_module b)
               (fb_args b) (fb_varargs b) (fb_kwonly b) (fb_varkw b)
               (fb_defaults b) (Some (fb_kwdefaults b)) (fb_annotations b) (fb_async b)
               gid
               (d_set (if with_dict then d_update [] (fb_dict b) else []) K_SOURCE SRC))
  else Raise SyntaxErr.

(* ---- update_wrapper ------------------------------------------------------------------ *)
Record built := mkB {
  b_func : pyfunc;            (* the function object returned *)
  b_inv : invocation          (* its body: return [await] _call(<invocation>) *)
}.

Fixpoint remove_args (to_varkw : bool) (b : fbuilder) (injected : list name) : res fbuilder :=
  match injected with
  | [] => Ok b
  | n :: r =>
      match remove_arg b n with
      | Ok b' => remove_args to_varkw b' r
      | Raise e =>
          (* except MissingArgument: if inject_to_varkw and fb.varkw is not None: continue *)
          match to_varkw, fb_varkw b with
          | true, Some _ => remove_args to_varkw b r
          | _, _ => Raise e
          end
      end
  end.

Fixpoint add_args (b : fbuilder) (expected : list (name * option value)) : res fbuilder :=
  match expected with
  | [] => Ok b
  | (n, d) :: r => match add_arg b n d with Ok b' => add_args b' r | Raise e => Raise e end
  end.

Definition set_doc_dict (g : pyfunc) (doc : option nat) (d : pydict nat) : pyfunc :=
  mkF (f_name g) doc (f_module g) (f_args g) (f_varargs g) (f_kwonly g) (f_varkw g)
      (f_defaults g) (f_kwdefaults g) (f_annotations g) (f_async g) (f_id g) d.

(* keyword options of update_wrapper *)
Record options := mkOpt { o_update_dict : bool; o_hide_wrapped : bool; o_inject_to_varkw : bool }.
Definition default_options : options := mkOpt true false true.

(* the __dict__ of the result: what get_func left (the copy of func.__dict__ and
   __source__), minus a copied __signature__, then
     if hide_wrapped and hasattr(fully_wrapped, '__wrapped__'): del ...['__wrapped__']
     elif not hide_wrapped: fully_wrapped.__wrapped__ = func *)
Definition final_dict (o : options) (fid : nat) (d : pydict nat) : pydict nat :=
  let d1 := d_del d K_SIGNATURE in
  if o_hide_wrapped o then d_del d1 K_WRAPPED else d_set d1 K_WRAPPED fid.

Definition update_wrapper_opt (o : options) (gid : nat) (f : pyfunc) (injected : list name)
           (expected : list (name * option value)) : res built :=
  match from_func f with
  | Raise e => Raise e
  | Ok b0 =>
      match remove_args (o_inject_to_varkw o) b0 injected with
      | Raise e => Raise e
      | Ok b1 =>
          match add_args b1 expected with
          | Raise e => Raise e
          | Ok b2 =>
              match get_func b2 gid (o_update_dict o) with
              | Raise e => Raise e
              | Ok g =>
                  (* if func.__doc__ is None: fully_wrapped.__doc__ = None *)
                  let doc := match f_doc f with None => None | Some _ => f_doc g end in
                  Ok (mkB (set_doc_dict g doc (final_dict o (f_id f) (f_dict g))) (get_invocation b2))
              end
          end
      end
  end.

(* default options; the new function object gets identity 0 (irrelevant where not stacked) *)
Definition update_wrapper (f : pyfunc) (injected : list name)
           (expected : list (name * option value)) : res built :=
  update_wrapper_opt default_options 0 f injected expected.

(* ---- running the built function -------------------------------------------------------- *)
Definition env_get (env : binding) (n : name) : option bval :=
  match find (fun e => Nat.eqb n (fst e)) env with Some e => Some (snd e) | None => None end.

Fixpoint eval_names (env : binding) (ns : list name) : res (list value) :=
  match ns with
  | [] => Ok []
  | n :: r =>
      match env_get env n, eval_names env r with
      | Some (BV v), Ok vs => Ok (v :: vs)
      | Some _, Ok _ => Raise OutOfDomain
      | None, _ => Raise NameErr
      | _, Raise e => Raise e
      end
  end.

Fixpoint eval_kws (env : binding) (ks : list (name * name)) : res (list (name * value)) :=
  match ks with
  | [] => Ok []
  | (k, n) :: r =>
      match env_get env n, eval_kws env r with
      | Some (BV v), Ok kvs => Ok ((k, v) :: kvs)
      | Some _, Ok _ => Raise OutOfDomain
      | None, _ => Raise NameErr
      | _, Raise e => Raise e
      end
  end.

(* evaluate  _call(a, b, *args, d=d, **kw)  in the frame [env]: the call the
   wrapper receives.  A key of **kw that repeats an explicit keyword is a
   TypeError at the call site. *)
Definition eval_inv (inv : invocation) (env : binding) : res call :=
  match eval_names env (i_pos inv) with
  | Raise e => Raise e
  | Ok pos =>
      match (match i_star inv with
             | None => Ok []
             | Some n => match env_get env n with
                         | Some (BTuple vs) => Ok vs
                         | Some _ => Raise OutOfDomain
                         | None => Raise NameErr
                         end
             end) with
      | Raise e => Raise e
      | Ok star =>
          match eval_kws env (i_kw inv) with
          | Raise e => Raise e
          | Ok kws =>
              match (match i_dstar inv with
                     | None => Ok []
                     | Some n => match env_get env n with
                                 | Some (BDict kvs) => Ok kvs
                                 | Some _ => Raise OutOfDomain
                                 | None => Raise NameErr
                                 end
                     end) with
              | Raise e => Raise e
              | Ok dstar =>
                  if existsb (fun kv => kw_mem (fst kv) kws) dstar then Raise TypeError
                  else Ok (mkCall (pos ++ star) (kws ++ dstar))
              end
          end
      end
  end.

(* the invocation generated for a signature:  _call(p.., *va, k=k.., **vk) *)
Definition names_of_kind (k : kind) (ps : list param) : list name :=
  map p_name (filter (fun p => kind_eqb (p_kind p) k) ps).

Definition inv_of_params (ps : list param) : invocation :=
  mkInv (names_of_kind PosOrKw ps)
        (hd_error (names_of_kind VarPos ps))
        (map (fun n => (n, n)) (names_of_kind KwOnly ps))
        (hd_error (names_of_kind VarKw ps)).

(* the forwarding protocol, for any signature: the wrapper receives the bound
   positional-or-keyword parameters by position, then *args; the keyword-only ones
   by keyword, then **kwargs *)
Definition forwarded (ps : list param) (c : call) : option call :=
  match bind ps c with
  | Ok env => match eval_inv (inv_of_params ps) env with Ok c' => Some c' | Raise _ => None end
  | Raise _ => None
  end.

(* Calling g = update_wrapper(wrapper, f, ...) on a call shape: returns what the
   wrapper received (None if it was never reached) and the outcome.  The
   harness's wrapper either forwards its arguments unchanged to f and
   the outcome is what f saw, or returns at once (outcome Ok []). *)
Definition call_built (f : pyfunc) (g : built) (forward : bool) (c : call)
  : option call * res binding :=
  match call_func (b_func g) c with
  | Raise e => (None, Raise e)
  | Ok env =>
      match eval_inv (b_inv g) env with
      | Raise e => (None, Raise e)
      | Ok c' => (Some c', if forward then call_func f c' else Ok [])
      end
  end.

(* ---- stacked decorators ------------------------------------------------------------------------- *)
(* one wraps step applied on top of the previous result *)
Record step := mkStep {
  s_injected : list name; s_expected : list (name * option value);
  s_options : options; s_id : nat     (* identity token of the function this step creates *)
}.

(* apply the steps bottom-up; returns the built functions, innermost first, and
   the error that stopped the stack, if any *)
Fixpoint run_steps (f : pyfunc) (steps : list step) : list built * option exn :=
  match steps with
  | [] => ([], None)
  | s :: r =>
      match update_wrapper_opt (s_options s) (s_id s) f (s_injected s) (s_expected s) with
      | Raise e => ([], Some e)
      | Ok g => let '(gs, e) := run_steps (b_func g) r in (g :: gs, e)
      end
  end.

(* a call entering level [gs] (outermost first) with forwarding wrappers everywhere *)
Fixpoint call_chain (f : pyfunc) (gs : list built) (c : call) : res binding :=
  match gs with
  | [] => call_func f c
  | g :: below =>
      match call_func (b_func g) c with
      | Raise e => Raise e
      | Ok env => match eval_inv (b_inv g) env with
                  | Raise e => Raise e
                  | Ok c' => call_chain f below c'
                  end
      end
  end.

(* wrappers that forward only through the next [n] levels: those levels are entered
   (their generated bodies run), the wrapper of the last one returns at once *)
Fixpoint call_chain_n (gs : list built) (n : nat) (c : call) {struct n} : res binding :=
  match n with
  | O => Ok []
  | S n' =>
      match gs with
      | [] => Raise OutOfDomain
      | g :: below =>
          match call_func (b_func g) c with
          | Raise e => Raise e
          | Ok env => match eval_inv (b_inv g) env with
                      | Raise e => Raise e
                      | Ok c' => call_chain_n below n' c'
                      end
          end
      end
  end.

(* ... and what the wrappers of those entered levels received, outermost first *)
Fixpoint chain_saws (gs : list built) (n : nat) (c : call) {struct n} : list call :=
  match n with
  | O => []
  | S n' =>
      match gs with
      | [] => []
      | g :: below =>
          match call_func (b_func g) c with
          | Raise _ => []
          | Ok env => match eval_inv (b_inv g) env with
                      | Raise _ => []
                      | Ok c' => c' :: chain_saws below n' c'
                      end
          end
      end
  end.

Definition lower_saws (gs_outer_first : list built) (forward : bool) (partial : nat) (c : call) : list call :=
  match gs_outer_first with
  | [] => []
  | g :: below =>
      match call_func (b_func g) c with
      | Raise _ => []
      | Ok env => match eval_inv (b_inv g) env with
                  | Raise _ => []
                  | Ok c' => if forward then [] else chain_saws below partial c'
                  end
      end
  end.

(* the outermost function of a stack called on a call shape: what the outermost
   wrapper received and the outcome (see call_built).  [forward]: every wrapper
   forwards, down to f; otherwise the wrappers of the top [partial] levels forward
   (so [partial] further levels are entered) and the next one returns at once. *)
Definition call_top (f : pyfunc) (gs_outer_first : list built) (forward : bool) (partial : nat) (c : call)
  : option call * res binding :=
  match gs_outer_first with
  | [] => (None, call_func f c)
  | g :: below =>
      match call_func (b_func g) c with
      | Raise e => (None, Raise e)
      | Ok env =>
          match eval_inv (b_inv g) env with
          | Raise e => (None, Raise e)
          | Ok c' => (Some c', if forward then call_chain f below c' else call_chain_n below partial c')
          end
      end
  end.

(* ---- awaiting --------------------------------------------------------------------------------------- *)
(* The wrapper handed to wraps may be a plain def / lambda passing its arguments on, or an
   async def awaiting it.  Count the coroutine LAYERS around a result: calling an async
   function gives one layer around what its body returns; "await x" strips one layer and
   is a TypeError on a plain value.  The generated body is "return await _call(...)" when
   the wrapped function is async (fb.is_async), else "return _call(...)". *)
Inductive wkind := WSync | WAsync.

(* what calling the wrapper gives, if what it calls has [L] layers *)
Definition wrapper_layers (k : wkind) (L : nat) : option nat :=
  match k with
  | WSync => Some L                                   (* returns what the function below returned *)
  | WAsync => match L with 0 => None | S l => Some (S l) end   (* async def: return await below(..) *)
  end.

(* what calling the built function gives, if its wrapper call has [W] layers *)
Definition built_layers (is_async : bool) (W : option nat) : option nat :=
  match W with
  | None => None
  | Some w => if is_async then match w with 0 => None | S w' => Some (S w') end else Some w
  end.

Fixpoint stack_layers (L : nat) (gs : list built) (kinds : list wkind) : option nat :=
  match gs, kinds with
  | [], _ => Some L
  | g :: gs', k :: ks =>
      match built_layers (f_async (b_func g)) (wrapper_layers k L) with
      | Some L' => stack_layers L' gs' ks
      | None => None
      end
  | _ :: _, [] => None
  end.

Definition func_layers (f : pyfunc) : nat := if f_async f then 1 else 0.

(* how many awaits MORE than the original needs until the outermost call's value appears
   (99: an await on something that is no awaitable) *)
Definition extra_awaits (f : pyfunc) (gs_inner_first : list built) (kinds : list wkind) : nat :=
  match stack_layers (func_layers f) gs_inner_first kinds with
  | Some L => L - func_layers f
  | None => 99
  end.
