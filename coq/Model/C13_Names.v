(* The two places where update_wrapper / FunctionBuilder.get_func choose NAMES for
   the generated source (C13), AS WRITTEN after fixes b766f76, ec9ad8a, d49e931:

     call_name = '_call'
     while call_name in (fb.args + fb.kwonlyargs + [fb.varargs, fb.varkw, fb.name]):
         call_name += '_'
     ...
     name = ''.join([c if ('_' + c).isidentifier() else '_' for c in self.name])
     name = unicodedata.normalize('NFKC', name)
     if not name.isidentifier() or keyword.iskeyword(name):
         name = '_' + name
     while name in execdict:
         name += '_'

   Unicode's XID_Start / XID_Continue classes, NFKC and the keyword list are
   oracles: Section variables with the facts used as hypotheses (never axioms).
   Text is a list of code points.  Definitions only. *)
From Boltons Require Import Lib.Prelude Spec.C13_Spec Model.C13_Model Model.C13_Text.
Local Open Scope N_scope.

Definition UNDERSCORE : N := 95.
Definition CALL : text := [95; 99; 97; 108; 108].       (* "_call" *)
Definition FUNC : text := [95; 102; 117; 110; 99].      (* "_func" *)

Definition mem_text (t : text) (l : list text) : bool := existsb (text_eqb t) l.

(* while x in taken: x += '_'   -- with fuel; out of fuel the candidate is returned as
   it is, and the theorem shows that with fuel > |taken| that never is a taken name *)
Fixpoint fresh (fuel : nat) (cand : text) (taken : list text) : text :=
  match fuel with
  | O => cand
  | S k => if mem_text cand taken then fresh k (cand ++ [UNDERSCORE]) taken else cand
  end.

Definition pick_call_name (taken : list text) : text := fresh (S (length taken)) CALL taken.

Section DefName.
  Variable xid_start : N -> bool.            (* may begin an identifier *)
  Variable xid_continue : N -> bool.         (* may occur in an identifier: ('_' + c).isidentifier() *)
  Variable nfkc : text -> text.              (* unicodedata.normalize('NFKC', .) *)
  Variable iskeyword : text -> bool.         (* keyword.iskeyword *)

  Definition isidentifier (t : text) : bool :=
    match t with
    | [] => false
    | c :: r => xid_start c && forallb xid_continue r
    end.

  Definition sanitise (t : text) : text := map (fun c => if xid_continue c then c else UNDERSCORE) t.

  Definition def_name_base (fname : text) : text :=
    let n := nfkc (sanitise fname) in
    if isidentifier n && negb (iskeyword n) then n else UNDERSCORE :: n.

  (* execdict holds call_name and '_func' when get_func is called from update_wrapper *)
  Definition pick_def_name (fname : text) (execdict_keys : list text) : text :=
    fresh (S (length execdict_keys)) (def_name_base fname) execdict_keys.
End DefName.

(* ASCII instances of the oracles, for names made of ASCII characters (used to tie the
   model to the real code on a grid of names, see Gen/C13_Gen.v) *)
Definition ascii_xid_continue (c : N) : bool :=
  ((48 <=? c) && (c <=? 57)) || ((65 <=? c) && (c <=? 90)) || (c =? 95) || ((97 <=? c) && (c <=? 122)).
Definition ascii_xid_start (c : N) : bool :=
  ((65 <=? c) && (c <=? 90)) || (c =? 95) || ((97 <=? c) && (c <=? 122)).
