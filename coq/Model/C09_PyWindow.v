(* C09 (T): deep embedding of the statements boltons.iterutils.windowed_iter is
   written with, and a definitional interpreter (structural, no fuel).
   State = the tuple of tee'd iterators, each one the list of items it still has
   to yield (itertools.tee gives independent copies).  `i, t` of
   `for i, t in enumerate(tees)` are one position [pos]: i = pos, t = tees[pos];
   next(t) pops the head of tees[pos] or raises StopIteration.
   zip / zip_longest are read as Model.zip_loop / zip_longest_loop (trusted
   reading of the library, the same the hand-written model uses).
   Definitions only. *)
From Boltons Require Import Lib.Prelude Spec.C09_Spec Model.C09_Model.

Inductive wstmt :=
| WForEnum (body : list wstmt)        (* for i, t in enumerate(tees): body *)
| WForRangeI (body : list wstmt)      (* for _ in range(i): body *)
| WNext                               (* next(t) *)
| WTry (body handler : list wstmt)    (* try: body / except StopIteration: handler *)
| WContinue
| WIfFillUnset (body : list wstmt)    (* if fill is _UNSET: body   (no else) *)
| WReturnZipEmpty                     (* return zip([]) *)
| WReturnZip                          (* return zip( *tees ) *)
| WReturnZipLongest.                  (* return zip_longest( *tees, fillvalue=fill) *)

Definition tees_t := list (list K).

Inductive wout :=
| ONormal (ts : tees_t)        (* fell through *)
| OContinue (ts : tees_t)      (* `continue` on its way to the innermost loop *)
| OStop (ts : tees_t)          (* StopIteration on its way to a handler *)
| OReturn (r : list (list K)). (* the function returned this iterator (as the list it yields) *)

Fixpoint upd (p : nat) (t : list K) (ts : tees_t) : tees_t :=
  match ts, p with
  | [], _ => []
  | _ :: r, O => t :: r
  | x :: r, S p' => x :: upd p' t r
  end.

(* for _ in range(n): body *)
Definition rep_loop (body : tees_t -> wout) : nat -> tees_t -> wout :=
  fix rep (n : nat) (ts : tees_t) : wout :=
    match n with
    | O => ONormal ts
    | S n' => match body ts with
              | ONormal ts' | OContinue ts' => rep n' ts'
              | o => o
              end
    end.

(* for i, t in enumerate(tees): body   -- k positions left, the next one is p *)
Definition enum_loop (body : nat -> tees_t -> wout) : nat -> nat -> tees_t -> wout :=
  fix enum (k p : nat) (ts : tees_t) : wout :=
    match k with
    | O => ONormal ts
    | S k' => match body p ts with
              | ONormal ts' | OContinue ts' => enum k' (S p) ts'
              | o => o
              end
    end.

Section Exec.
  Variable zf : nat.            (* rounds granted to zip / zip_longest: S (len src) suffices *)
  Variable fill : option K.     (* None = _UNSET *)

  Fixpoint ws (s : wstmt) (pos : nat) (ts : tees_t) {struct s} : wout :=
    let wl := fix wl (ss : list wstmt) (pos : nat) (ts : tees_t) {struct ss} : wout :=
                match ss with
                | [] => ONormal ts
                | s' :: r => match ws s' pos ts with
                             | ONormal ts' => wl r pos ts'
                             | o => o
                             end
                end in
    match s with
    | WForEnum body => enum_loop (fun p t => wl body p t) (length ts) 0 ts
    | WForRangeI body => rep_loop (fun t => wl body pos t) pos ts
    | WNext => match nth_error ts pos with
               | Some (_ :: r) => ONormal (upd pos r ts)
               | _ => OStop ts
               end
    | WTry body handler =>
        match wl body pos ts with
        | OStop ts' => wl handler pos ts'
        | o => o
        end
    | WContinue => OContinue ts
    | WIfFillUnset body => match fill with None => wl body pos ts | Some _ => ONormal ts end
    | WReturnZipEmpty => OReturn []
    | WReturnZip => OReturn (zip_loop zf ts)
    | WReturnZipLongest => OReturn (match fill with
                                    | Some f => zip_longest_loop zf f ts
                                    | None => []       (* not reached: guarded by the if above *)
                                    end)
    end.

  Fixpoint wl (ss : list wstmt) (pos : nat) (ts : tees_t) : wout :=
    match ss with
    | [] => ONormal ts
    | s' :: r => match ws s' pos ts with
                 | ONormal ts' => wl r pos ts'
                 | o => o
                 end
    end.
End Exec.

(* tees = itertools.tee(src, size); <program>  -- observed through list() *)
Definition run_windowed (prog : list wstmt) (src : list K) (size : nat) (fill : option K) : option (list (list K)) :=
  match wl (S (length src)) fill prog 0 (repeat src size) with
  | OReturn r => Some r
  | _ => None
  end.
