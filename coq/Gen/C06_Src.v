(* GENERATED on every run by harness/translators/c06_src.py from boltons/urlutils.py; do not edit. *)
From Boltons Require Import Lib.Prelude Lib.PySrc Lib.C06_Text Model.C06_Model Lib.C06_PySrc.
Open Scope N_scope.

Section Src.
Variable T : tables.
Variable O : oracles.


(* _make_quote_map: for i, v in zip(range(256), range(256)): c = chr(v);
   ret[c] = ret[v] = (c if c in safe_chars else f'%{i:02X}') - the dict as the list of its 256 values *)
Definition src_make_quote_map (safe_chars : list N) : list (list N) :=
  let ret := [] in
  let ret :=
    fold_left (fun ret '(i, v) =>
        let c := v in
        let ret := if (memN c safe_chars) then ret ++ [[c]] else ret ++ [pct_encode i] in
        ret)
      (map (fun n => (n, n)) (map N.of_nat (seq 0 256))) ret in
  ret.

Definition src_quote_path_part (text : list N) (full_quote : bool) : list N :=
  let _ret := false in
  let _rv := (@nil N) in
  let '(_ret, _rv) :=
    let '(_ret, _rv) :=
      if full_quote
      then (
        let bytestr := (utf8_enc (o_nfc O text)) in
        let _rv := (concat (map (fun b => (map_get (t_path_map T) b)) bytestr)) in
        let _ret := true in
        (_ret, _rv)
)
      else (
        (_ret, _rv)
) in
    if _ret then (_ret, _rv) else (
    let _rv := (concat (map (fun t => (if (memN t (t_path_delims T)) then (map_get (t_path_map T) t) else [t])) text)) in
    let _ret := true in
    (_ret, _rv))
  in
  _rv.

Definition src_quote_query_part (text : list N) (full_quote : bool) : list N :=
  let _ret := false in
  let _rv := (@nil N) in
  let '(_ret, _rv) :=
    let '(_ret, _rv) :=
      if full_quote
      then (
        let bytestr := (utf8_enc (o_nfc O text)) in
        let _rv := (concat (map (fun b => (map_get (t_query_map T) b)) bytestr)) in
        let _ret := true in
        (_ret, _rv)
)
      else (
        (_ret, _rv)
) in
    if _ret then (_ret, _rv) else (
    let _rv := (concat (map (fun t => (if (memN t (t_query_delims T)) then (map_get (t_query_map T) t) else [t])) text)) in
    let _ret := true in
    (_ret, _rv))
  in
  _rv.

Definition src_quote_fragment_part (text : list N) (full_quote : bool) : list N :=
  let _ret := false in
  let _rv := (@nil N) in
  let '(_ret, _rv) :=
    let '(_ret, _rv) :=
      if full_quote
      then (
        let bytestr := (utf8_enc (o_nfc O text)) in
        let _rv := (concat (map (fun b => (map_get (t_frag_map T) b)) bytestr)) in
        let _ret := true in
        (_ret, _rv)
)
      else (
        (_ret, _rv)
) in
    if _ret then (_ret, _rv) else (
    let _rv := (concat (map (fun t => (if (memN t (t_frag_delims T)) then (map_get (t_frag_map T) t) else [t])) text)) in
    let _ret := true in
    (_ret, _rv))
  in
  _rv.

Definition src_quote_userinfo_part (text : list N) (full_quote : bool) : list N :=
  let _ret := false in
  let _rv := (@nil N) in
  let '(_ret, _rv) :=
    let '(_ret, _rv) :=
      if full_quote
      then (
        let bytestr := (utf8_enc (o_nfc O text)) in
        let _rv := (concat (map (fun b => (map_get (t_user_map T) b)) bytestr)) in
        let _ret := true in
        (_ret, _rv)
)
      else (
        (_ret, _rv)
) in
    if _ret then (_ret, _rv) else (
    let _rv := (concat (map (fun t => (if (memN t (t_user_delims T)) then (map_get (t_user_map T) t) else [t])) text)) in
    let _ret := true in
    (_ret, _rv))
  in
  _rv.

Definition src_unquote_to_bytes (string : list N) : list N :=
  let _ret := false in
  let _rv := (@nil N) in
  let '(_ret, _rv) :=
    let '(_ret, _rv) :=
      if (negb (nonempty string))
      then (
                let _rv := (@nil N) in
        let _ret := true in
        (_ret, _rv)
)
      else (
        (_ret, _rv)
) in
    if _ret then (_ret, _rv) else (
    let bits := (split_on 37 string) in
    let '(_ret, _rv) :=
      if ((zlen bits) =? 1%Z)%Z
      then (
        let _rv := string in
        let _ret := true in
        (_ret, _rv)
)
      else (
        (_ret, _rv)
) in
    if _ret then (_ret, _rv) else (
    let res := [(py_first bits)] in
        let res :=
      fold_left (fun res _x1_0 =>
          let item := _x1_0 in
          let res := match hex_key (t_hex T) item with
            | Some v => res ++ [[v]] ++ [skipn 2 item]
            | None => res ++ [[37]] ++ [item]
            end in
          res)
        ((@tl (list N)) bits) res in
    let _rv := (concat res) in
    let _ret := true in
    (_ret, _rv)))
  in
  _rv.

Definition src_unquote (string : list N) : list N :=
  let _ret := false in
  let _rv := (@nil N) in
  let '(_ret, _rv) :=
    let '(_ret, _rv) :=
      if (negb (memN 37 string))
      then (
                let _rv := string in
        let _ret := true in
        (_ret, _rv)
)
      else (
        (_ret, _rv)
) in
    if _ret then (_ret, _rv) else (
    let bits := (ascii_bits string) in
    let res := [(py_first bits)] in
        let res :=
      fold_left (fun res '(_x1_0, _x1_1) =>
          let _a := _x1_0 in
          let _b := _x1_1 in
          let res := res ++ [(utf8_dec (src_unquote_to_bytes _a))] in
          let res := res ++ [_b] in
          res)
        (py_pairs1 bits) res in
    let _rv := (concat res) in
    let _ret := true in
    (_ret, _rv))
  in
  _rv.

Definition src_parse_qsl (qs : list N) : list (list N * option (list N)) :=
  let pairs := (flat_map (fun s1 => (map (fun s2 => s2) (split_on 59 s1))) (split_on 38 qs)) in
  let ret := [] in
  let ret :=
    fold_left (fun ret _x1_0 =>
        let pair := _x1_0 in
        if (negb (nonempty pair)) then ret else (
          let '(key, sep, _v0) := (py_partition3 61 pair) in
let value := Some _v0 in
          let value :=
            if (negb (opt_nonempty value))
            then (
              let value :=
                if (negb (nonempty sep))
                then (
                  let value := None in
                  value
)
                else (
                  value
) in
              value
)
            else (
              value
) in
          let key := (unquote T (replace_char 43 32 key)) in
          let value :=
            if (opt_nonempty value)
            then (
              let value := Some (unquote T (replace_char 43 32 (opt_text value))) in
              value
)
            else (
              value
) in
          let ret := ret ++ [(key, value)] in
          ret))
      pairs ret in
  ret.

Definition src_query_to_text (self : list (list N * option (list N))) (full_quote : bool) : list N :=
  let ret_list := [] in
  let ret_list :=
    fold_left (fun ret_list '(_x1_0, _x1_1) =>
        let k := _x1_0 in
        let v := _x1_1 in
        let key := (src_quote_query_part k full_quote) in
        let ret_list :=
          if (opt_is_none v)
          then (
            let ret_list := ret_list ++ [key] in
            ret_list
)
          else (
            let val := (src_quote_query_part (opt_text v) full_quote) in
            let ret_list := ret_list ++ [(join [61] [key; val])] in
            ret_list
) in
        ret_list)
      self ret_list in
  (join [38] ret_list).

Definition src_split_userinfo (au_text : list N) : (list N * list N * list N) :=
  let user := (@nil N) in
  let pw := (@nil N) in
  let hostinfo := au_text in
  let '(hostinfo, user, pw) :=
    if (nonempty au_text)
    then (
      let '(userinfo, sep, hostinfo) := (py_rpartition3 64 au_text) in
      let '(user, pw) :=
        if (nonempty sep)
        then (
          let '(user, _, pw) := (py_partition3 58 userinfo) in
          (user, pw)
)
        else (
          (user, pw)
) in
      (hostinfo, user, pw)
)
    else (
      (hostinfo, user, pw)
) in
  (user, pw, hostinfo).

Definition src_split_hostport (hostinfo : list N) : (list N * mres (option Z)) :=
  let host := (@nil N) in
  let port := (MOk None) in
  let '(host, port) :=
    if (nonempty hostinfo)
    then (
      let '(host, sep, port_str) := (py_partition3 58 hostinfo) in
      let '(port_str, host, port) :=
        if (nonempty sep)
        then (
          let '(port_str, host) :=
            if ((nonempty host) && ((py_char0 host) =? 91) && (memN 93 port_str))
            then (
              let '(host_right, _, port_str) := (py_partition3 93 port_str) in
              let host := (((host ++ ([58] : list N)) ++ host_right) ++ ([93] : list N)) in
              let port_str :=
                if ((nonempty port_str) && ((py_char0 port_str) =? 58))
                then (
                  let port_str := ((@tl N) port_str) in
                  port_str
)
                else (
                  port_str
) in
              (port_str, host)
)
            else (
              (port_str, host)
) in
          let port := port_of O port_str in
          (port_str, host, port)
)
        else (
          (port_str, host, port)
) in
      (host, port)
)
    else (
      (host, port)
) in
  (host, port).

Definition src_parse_host (host : list N) : mres (N * list N) :=
  let _ret := false in
  let _rv := (MOk (0, (@nil N))) in
  let '(_ret, _rv) :=
    let '(_ret, _rv) :=
      if (negb (nonempty host))
      then (
        let _rv := (MOk (0, (@nil N))) in
        let _ret := true in
        (_ret, _rv)
)
      else (
        (_ret, _rv)
) in
    if _ret then (_ret, _rv) else (
    let '(host, _ret, _rv) :=
      if ((memN 58 host) && ((py_char0 host) =? 91) && ((py_char_last host) =? 93))
      then (
        let host := (py_strip1 host) in
        let '(_ret, _rv) := match o_inet6 O host with
            | MOk V6Ok => (true, MOk (6, host))
            | MOk V6OSError => (true, URLParseErr)
            | MOk V6UnicodeError => (_ret, _rv)
            | MRaise e => (true, MRaise e)
            | MOut w => (true, MOut w)
            end in
        (host, _ret, _rv)
)
      else (
        (host, _ret, _rv)
) in
    if _ret then (_ret, _rv) else (
    let family := (do b <- o_inet4 O host; MOk (if (b : bool) then 4 else 0)) in
    let _rv := (do f <- family; MOk (f, host)) in
    let _ret := true in
    (_ret, _rv)))
  in
  _rv.

(* the idna codec on the host, as a function (its UnicodeError is propagated by the callers) *)
Variable enc : list N -> list N.

Definition src_get_authority (self : url) (full_quote : bool) : list N :=
  let parts := [] in
    let parts :=
    if (((nonempty (u_user self)) || (nonempty (u_pass self))) && true)
    then (
      let parts := parts ++ [(src_quote_userinfo_part (if nonempty (u_user self) then (u_user self) else (@nil N)) true)] in
      let parts :=
        if (nonempty (u_pass self))
        then (
          let parts := parts ++ [([58] : list N)] in
          let parts := parts ++ [(src_quote_userinfo_part (u_pass self) true)] in
          parts
)
        else (
          parts
) in
      let parts := parts ++ [([64] : list N)] in
      parts
)
    else (
      parts
) in
  let parts :=
    if (nonempty (u_host self))
    then (
      let parts :=
        if ((u_family self =? 6) || (memN 58 (u_host self)))
        then (
          let parts := parts ++ [([91] : list N)] in
          let parts := parts ++ [(u_host self)] in
          let parts := parts ++ [([93] : list N)] in
          parts
)
        else (
          let parts :=
            if full_quote
            then (
              let parts := parts ++ [(enc (u_host self))] in
              parts
)
            else (
              let parts := parts ++ [(u_host self)] in
              parts
) in
          parts
) in
      let parts :=
        if ((oz_truthy (u_port self)) && (negb (optZ_eqb (u_port self) (default_port T self))))
        then (
          let parts := parts ++ [([58] : list N)] in
          let parts := parts ++ [(str_of_Z (oz_get (u_port self)))] in
          parts
)
        else (
          parts
) in
      parts
)
    else (
      parts
) in
  (concat parts).

Definition src_to_text (self : url) (full_quote : bool) : list N :=
  let scheme := (u_scheme self) in
  let path := (join [47] (map (fun p => (src_quote_path_part p full_quote)) (u_path self))) in
  let authority := (src_get_authority self full_quote) in
  let query_string := (src_query_to_text (u_query self) full_quote) in
  let fragment := (src_quote_fragment_part (u_frag self) full_quote) in
  let parts := [] in
    let parts :=
    if (nonempty scheme)
    then (
      let parts := parts ++ [scheme] in
      let parts := parts ++ [([58] : list N)] in
      parts
)
    else (
      parts
) in
  let parts :=
    if (nonempty authority)
    then (
      let parts := parts ++ [([47; 47] : list N)] in
      let parts := parts ++ [authority] in
      parts
)
    else (
      let parts :=
        if ((text_eqb ((firstn 2) path) ([47; 47] : list N)) || ((nonempty scheme) && (existsb (text_eqb ((firstn 1) path)) [(@nil N); ([47] : list N)]) && (uses_netloc T self)))
        then (
          let parts := parts ++ [([47; 47] : list N)] in
          parts
)
        else (
          parts
) in
      parts
) in
  let parts :=
    if (nonempty path)
    then (
      let parts :=
        if ((nonempty scheme) && (nonempty authority) && (negb (text_eqb ((firstn 1) path) ([47] : list N))))
        then (
          let parts := parts ++ [([47] : list N)] in
          parts
)
        else (
          parts
) in
      let parts := parts ++ [path] in
      parts
)
    else (
      parts
) in
  let parts :=
    if (nonempty query_string)
    then (
      let parts := parts ++ [([63] : list N)] in
      let parts := parts ++ [query_string] in
      parts
)
    else (
      parts
) in
  let parts :=
    if (nonempty fragment)
    then (
      let parts := parts ++ [([35] : list N)] in
      let parts := parts ++ [fragment] in
      parts
)
    else (
      parts
) in
  (concat parts).

End Src.
