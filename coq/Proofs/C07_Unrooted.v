(* Bases whose path_parts are not rooted - what the documentation of
   URL.from_parts suggests: from_parts(host='h', path_parts=('post', '123')).
   to_text() renders them with the "/" inserted, and navigate() (after the
   repair 6bc489d) treats them exactly like the rooted URL with the same text;
   so every theorem about rooted bases transfers. *)
From Boltons Require Import Lib.Prelude Lib.C07_Str Spec.C07_Spec Gen.C07_Gen Model.C07_Model
     Proofs.C07_StrLemmas Proofs.C07_Rds Proofs.C07_Resolve Proofs.C07_Parse Proofs.C07_Navigate.
Open Scope N_scope.

(* the same URL with the root marker '' put in front of its segments *)
Definition rootpath (u : url) : url :=
  if first_is_empty (u_path u) then u
  else mkUrl (u_scheme u) (u_sep u) (u_user u) (u_pass u) (u_host u) (u_port u)
             ([] :: u_path u) (u_query u) (u_frag u).

(* an unrooted base: non-empty first segment, and its rooted twin is well-formed *)
Definition wf_unrooted_base (u : url) : Prop :=
  wf_base (rootpath u) /\ exists c s rest, u_path u = (c :: s) :: rest.

Lemma unrooted_fields u : wf_unrooted_base u ->
  exists c s rest, u_path u = (c :: s) :: rest /\
    rootpath u = mkUrl (u_scheme u) (u_sep u) (u_user u) (u_pass u) (u_host u) (u_port u)
                       ([] :: (c :: s) :: rest) (u_query u) (u_frag u).
Proof.
  intros [_ (c & s & rest & Hp)]. exists c, s, rest. split; [exact Hp|].
  unfold rootpath. rewrite Hp. reflexivity.
Qed.

(* what rendering and merging need of a base: scheme, host, quotable segments *)
Definition base_shape (u : url) : Prop :=
  u_scheme u <> [] /\ u_host u <> [] /\ Forall seg_ok (u_path u).
Definition unrooted_shape (u : url) : Prop :=
  base_shape (rootpath u) /\ exists c s rest, u_path u = (c :: s) :: rest.

Lemma unrooted_fields_gen u : unrooted_shape u ->
  exists c s rest, u_path u = (c :: s) :: rest /\
    rootpath u = mkUrl (u_scheme u) (u_sep u) (u_user u) (u_pass u) (u_host u) (u_port u)
                       ([] :: (c :: s) :: rest) (u_query u) (u_frag u).
Proof.
  intros [_ (c & s & rest & Hp)]. exists c, s, rest. split; [exact Hp|].
  unfold rootpath. rewrite Hp. reflexivity.
Qed.

Lemma to_text_unrooted_gen u : unrooted_shape u -> to_text u = to_text (rootpath u).
Proof.
  intro W. destruct (unrooted_fields_gen u W) as (c & s & rest & Hp & ER). destruct W as [(Hs0 & Hh0 & Hsegs) _].
  rewrite ER in *. cbn [u_path] in Hsegs.
  inversion Hsegs as [|? ? _ Hs']; subst.
  pose proof Hs0 as Hs. cbn [u_scheme] in Hs.
  pose proof Hh0 as Hh. cbn [u_host] in Hh.
  pose proof (authority_nonempty u Hh) as Ha. unfold authority_text in Ha.
  assert (Hc : (SL =? c) = false).
  { inversion Hs' as [|? ? Hcs _]; subst. exact (seg_ok_first_not_slash c s Hcs). }
  unfold to_text, authority_text, path_text.
  cbn [u_scheme u_user u_pass u_host u_port u_path u_query u_frag]. cbv zeta.
  rewrite Hp, (nonempty_true _ Hs), Ha. cbn [andb].
  change (map quote_path_part ([] :: (c :: s) :: rest))
    with (quote_path_part [] :: map quote_path_part ((c :: s) :: rest)).
  rewrite !(map_quote_id _ Hs').
  change (join [SL] ((c :: s) :: rest)) with (c :: s ++ abs_path rest).
  change (join [SL] (quote_path_part [] :: (c :: s) :: rest)) with (SL :: c :: s ++ abs_path rest).
  unfold starts_with. cbn [strip_prefix nonempty negb app]. rewrite Hc. change (SL =? SL) with true.
  reflexivity.
Qed.

Lemma navigate_rel_unrooted_gen u r : unrooted_shape u -> wf_ref r ->
  navigate_rel u r = navigate_rel (rootpath u) r.
Proof.
  intros W Wr. destruct (unrooted_fields_gen u W) as (c & s & rest & Hp & ER). destruct W as [(_ & Hh0 & _) _].
  rewrite ER in *. unfold navigate_rel. cbn [u_scheme u_host u_path u_query u_user u_pass u_port].
  rewrite Hp. rewrite (path_text_join r (wr_segs r Wr)).
  pose proof Hh0 as Hh. cbn [u_host] in Hh. rewrite (nonempty_true _ Hh), orb_true_r. cbn [andb].
  pose proof (wr_segs r Wr) as Hsegs.
  destruct (u_path r) as [|x rrest] eqn:Hr.
  - reflexivity.
  - destruct x as [|c' x'].
    + destruct rrest as [|s' rrest']; reflexivity.
    + inversion Hsegs as [|? ? Hx _]; subst.
      change (join [SL] ((c' :: x') :: rrest)) with (c' :: x' ++ abs_path rrest).
      unfold starts_with. cbn [strip_prefix nonempty]. rewrite (seg_ok_first_not_slash c' x' Hx).
      destruct rest as [|s2 rest2]; reflexivity.
Qed.

Lemma wf_unrooted_shape u : wf_unrooted_base u -> unrooted_shape u.
Proof.
  intros [W E]. split; [|exact E].
  split; [exact (wb_scheme_ne _ W)|]. split; [exact (wb_host_ne _ W) | exact (wb_segs _ W)].
Qed.

Lemma to_text_unrooted u : wf_unrooted_base u -> to_text u = to_text (rootpath u).
Proof. intro W. apply to_text_unrooted_gen, wf_unrooted_shape, W. Qed.

Lemma navigate_rel_unrooted u r : wf_unrooted_base u -> wf_ref r ->
  navigate_rel u r = navigate_rel (rootpath u) r.
Proof. intros W Wr. apply navigate_rel_unrooted_gen; [apply wf_unrooted_shape, W | exact Wr]. Qed.

Theorem navigate_unrooted_refines_rfc u d : wf_unrooted_base u -> wf_ref d \/ wf_base d ->
  spec_navigate_strict (to_text u) (to_text d) (to_text (navigate_url u d)) = true /\
  navigate_url u d = navigate_url (rootpath u) d.
Proof.
  intros W Wd. assert (E : navigate_url u d = navigate_url (rootpath u) d).
  { unfold navigate_url. destruct Wd as [Wd|Wd].
    - rewrite (wf_ref_relative d Wd). apply navigate_rel_unrooted; assumption.
    - rewrite (wf_base_absolute d Wd). reflexivity. }
  split; [|exact E]. rewrite E, (to_text_unrooted u W).
  apply navigate_url_refines_rfc_strict; [exact (proj1 W) | exact Wd].
Qed.
