(* C11: slicing - iter_slice + islice over the live items equals the Python
   list slice l[a:b:k] (k > 0) transcribed in Spec.l_slice. *)
From Boltons Require Import Lib.Prelude Lib.C11_Iface Spec.C11_Spec Model.C11_Model
     Proofs.C11_Lists Proofs.C11_Dead Proofs.C11_Inv Proofs.C11_Sets Proofs.C11_Refine.

Definition cdiv (m k : nat) : nat := (m + k - 1) / k.

Lemma stride_skip k : forall l c, stride_aux k c l = stride_aux k 0 (skipn c l).
Proof.
  induction l as [|x r IH]; intros c.
  - rewrite skipn_nil. reflexivity.
  - destruct c as [|c]; [reflexivity|]. simpl. apply IH.
Qed.

Lemma nth_skipn_add {A} j : forall (l : list A) i d, nth i (skipn j l) d = nth (j + i) l d.
Proof.
  induction j; intros l i d; [reflexivity|]. destruct l as [|x l]; simpl.
  - destruct i; reflexivity.
  - apply IHj.
Qed.

Lemma cdiv_succ m k : 1 <= k -> cdiv (S m) k = S (m / k).
Proof.
  intros Hk. unfold cdiv. replace (S m + k - 1) with (m + 1 * k) by lia.
  rewrite Nat.div_add by lia. lia.
Qed.

Lemma cdiv_tail m k : 1 <= k -> cdiv (m - (k - 1)) k = m / k.
Proof.
  intros Hk. unfold cdiv. destruct (Nat.le_gt_cases (k - 1) m) as [L|L].
  - f_equal. lia.
  - replace (m - (k - 1)) with 0 by lia. rewrite !Nat.div_small by lia. reflexivity.
Qed.

Lemma stride_spec k : 1 <= k -> forall n l, length l <= n ->
  stride_aux k 0 l = map (fun t => nth (t * k) l 0%N) (seq 0 (cdiv (length l) k)).
Proof.
  intros Hk. induction n as [|n IH]; intros l Ln.
  - destruct l; [|simpl in Ln; lia]. unfold cdiv. simpl. rewrite Nat.div_small by lia. reflexivity.
  - destruct l as [|x r]; [unfold cdiv; simpl; rewrite Nat.div_small by lia; reflexivity|].
    simpl in Ln. cbn [stride_aux length]. rewrite stride_skip.
    rewrite (IH (skipn (k - 1) r)) by (rewrite skipn_length; lia).
    rewrite skipn_length, cdiv_tail, cdiv_succ by exact Hk.
    cbn [seq map]. f_equal. rewrite <- seq_shift, map_map.
    apply map_ext. intros t. rewrite nth_skipn_add.
    replace (S t * k) with (S (k - 1 + t * k)) by lia. reflexivity.
Qed.

Lemma nth_firstn_lt {A} : forall m (l : list A) i d, i < m -> nth i (firstn m l) d = nth i l d.
Proof.
  induction m; intros l i d H; [lia|]. destruct l as [|x l]; [reflexivity|].
  destruct i; [reflexivity|]. simpl. apply IHm. lia.
Qed.

Lemma cdiv_index t m k : 1 <= k -> t < cdiv m k -> t * k < m.
Proof.
  intros Hk H. unfold cdiv in H. destruct m as [|m]; [rewrite Nat.div_small in H by lia; lia|].
  replace (S m + k - 1) with (m + 1 * k) in H by lia. rewrite Nat.div_add in H by lia.
  assert (t <= m / k) by lia.
  pose proof (Nat.mul_div_le m k ltac:(lia)). nia.
Qed.

Lemma NoDup_map_inj_in {A B} (g : A -> B) l :
  NoDup l -> (forall x y, In x l -> In y l -> g x = g y -> x = y) -> NoDup (map g l).
Proof.
  induction 1 as [|x l N _ IH]; intros Hinj; simpl; constructor.
  - intros Hin. apply in_map_iff in Hin. destruct Hin as [y [E Hy]].
    assert (y = x) by (apply Hinj; [right; exact Hy|left; reflexivity|exact E]). subst. contradiction.
  - apply IH. intros a b Ha Hb. apply Hinj; right; assumption.
Qed.

(* the Python slice as positions start, start+k, ... below stop *)
Definition positions_slice (l : list K) (start stop k : nat) : list K :=
  map (fun t => nth (start + t * k) l 0%N) (seq 0 (cdiv (stop - start) k)).

Lemma positions_nodup l start stop k : NoDup l -> 1 <= k -> stop <= length l ->
  NoDup (positions_slice l start stop k).
Proof.
  intros ND Hk Hs. unfold positions_slice. apply NoDup_map_inj_in; [apply seq_NoDup|].
  intros t u Ht Hu E. apply in_seq in Ht. apply in_seq in Hu.
  assert (A : t * k < stop - start) by (apply cdiv_index; lia).
  assert (B : u * k < stop - start) by (apply cdiv_index; lia).
  rewrite NoDup_nth in ND. specialize (ND (start + t * k) (start + u * k) ltac:(lia) ltac:(lia) E). nia.
Qed.

Lemma islice_positions l start e k : 1 <= k ->
  islice l start e k =
  positions_slice l (Nat.min start (length l))
                  (match e with None => length l | Some e => Nat.max (Nat.min start (length l)) (Nat.min e (length l)) end) k.
Proof.
  intros Hk. unfold islice, positions_slice.
  set (l' := match e with None => skipn start l | Some e0 => firstn (e0 - start) (skipn start l) end).
  rewrite (stride_spec k Hk (length l') l' (le_n _)).
  assert (Ll : length l' = match e with None => length l | Some e0 => Nat.max (Nat.min start (length l)) (Nat.min e0 (length l)) end
                           - Nat.min start (length l)).
  { subst l'. destruct e as [e0|]; [rewrite firstn_length|]; rewrite skipn_length; lia. }
  rewrite Ll. apply map_ext_in. intros t Ht. apply in_seq in Ht.
  assert (T : t * k < length l') by (rewrite Ll; apply cdiv_index; lia).
  assert (S1 : start < length l).
  { destruct (Nat.lt_ge_cases start (length l)) as [L|L]; [exact L|]. rewrite Ll in T. destruct e; lia. }
  replace (Nat.min start (length l)) with start by lia.
  subst l'. destruct e as [e0|].
  - rewrite nth_firstn_lt by (rewrite firstn_length, skipn_length in T; lia). apply nth_skipn_add.
  - apply nth_skipn_add.
Qed.

Lemma l_slice_positions l a b k : 1 <= k ->
  l_slice l a b k =
  positions_slice l (Z.to_nat (clamp_bound (Z.of_nat (length l)) a 0%Z))
                    (Z.to_nat (clamp_bound (Z.of_nat (length l)) b (Z.of_nat (length l)))) k.
Proof.
  intros Hk. unfold l_slice, positions_slice.
  set (start := Z.to_nat (clamp_bound (Z.of_nat (length l)) a 0)).
  set (stop := Z.to_nat (clamp_bound (Z.of_nat (length l)) b (Z.of_nat (length l)))).
  f_equal. f_equal. unfold cdiv. destruct (start <? stop) eqn:C.
  - apply Nat.ltb_lt in C. replace (stop - start + k - 1) with (stop - start - 1 + 1 * k) by lia.
    rewrite Nat.div_add by lia. reflexivity.
  - apply Nat.ltb_ge in C. replace (stop - start) with 0 by lia. rewrite Nat.div_small by lia. reflexivity.
Qed.

Lemma clamp_bound_range n x d : (0 <= n)%Z -> (0 <= d <= n)%Z -> (0 <= clamp_bound n x d <= n)%Z.
Proof.
  intros Hn Hd. unfold clamp_bound. destruct x as [v|]; [|exact Hd].
  destruct (v <? 0)%Z eqn:A;
  [destruct (v + n <? 0)%Z eqn:B; [lia|destruct (n <? v + n)%Z eqn:C]
  |destruct (v <? 0)%Z eqn:B; [lia|destruct (n <? v)%Z eqn:C]]; lia.
Qed.

Lemma slice_bound_clamp s v : Inv0 s ->
  Nat.min (slice_bound s v) (length (m_live s)) =
  Z.to_nat (clamp_bound (Z.of_nat (length (m_live s))) (Some v) 0%Z).
Proof.
  intros H. unfold slice_bound, clamp_bound, m_len. rewrite (inv_len s H).
  set (n := length (m_live s)).
  destruct (v <? 0)%Z eqn:A.
  - destruct (v + Z.of_nat n <? 0)%Z eqn:B; [lia|]. destruct (Z.of_nat n <? v + Z.of_nat n)%Z eqn:C; lia.
  - rewrite A. destruct (Z.of_nat n <? v)%Z eqn:C; lia.
Qed.

Lemma slice_ok s a b k : Inv s -> valid_op (m_live s) (Slice a b k) = true ->
  m_slice s a b k = snd (spec_step1 (m_live s) (Slice a b k)).
Proof.
  intros [H _] V. pose proof (Inv0_nodup s H) as ND.
  assert (G : forall k', 1 <= k' ->
    m_live (m_from_list (islice (m_live s)
                   match a with None => 0 | Some v => slice_bound s v end
                   match b with None => None | Some v => Some (slice_bound s v) end k'))
    = l_slice (m_live s) a b k').
  { intros k' Hk. rewrite islice_positions, l_slice_positions by exact Hk.
    set (n := length (m_live s)).
    assert (E1 : Nat.min match a with None => 0 | Some v => slice_bound s v end n =
                 Z.to_nat (clamp_bound (Z.of_nat n) a 0%Z)).
    { destruct a as [v|]; [apply slice_bound_clamp; exact H|]. simpl. lia. }
    rewrite E1.
    pose proof (clamp_bound_range (Z.of_nat n) a 0%Z ltac:(lia) ltac:(lia)) as R1.
    pose proof (clamp_bound_range (Z.of_nat n) b (Z.of_nat n) ltac:(lia) ltac:(lia)) as R2.
    set (start := Z.to_nat (clamp_bound (Z.of_nat n) a 0)) in *.
    set (stop := Z.to_nat (clamp_bound (Z.of_nat n) b (Z.of_nat n))) in *.
    assert (E2 : match match b with None => None | Some v => Some (slice_bound s v) end with
                 | None => n | Some e => Nat.max start (Nat.min e n) end = Nat.max start stop).
    { destruct b as [v|].
      - f_equal. pose proof (slice_bound_clamp s v H) as Q. fold n in Q. rewrite Q.
        subst stop. unfold clamp_bound. reflexivity.
      - subst stop. simpl. lia. }
    rewrite E2.
    assert (P : positions_slice (m_live s) start (Nat.max start stop) k' = positions_slice (m_live s) start stop k').
    { unfold positions_slice. destruct (Nat.le_gt_cases start stop) as [L|L].
      - replace (Nat.max start stop) with stop by lia. reflexivity.
      - replace (Nat.max start stop - start) with 0 by lia. replace (stop - start) with 0 by lia. reflexivity. }
    rewrite P. apply from_list_nodup. apply positions_nodup; [exact ND|exact Hk|]. subst stop. fold n. lia. }
  unfold m_slice. destruct k as [[|k]|]; [discriminate| |]; cbn [spec_step1 snd].
  - rewrite (G (S k)) by lia. reflexivity.
  - rewrite (G 1) by lia. reflexivity.
Qed.
