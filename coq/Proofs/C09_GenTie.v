(* C09 (T): obligations over coq/Gen/C09_Gen.v, which harness/translators/
   c09_ranges.py regenerates from /repo's CURRENT source of chunk_ranges on
   every run.  If the source changes shape, [gen_is_expected] stops compiling
   and the property is no longer shown to hold (DESIGN 1.5). *)
From Boltons Require Import Lib.Prelude Spec.C09_Spec Model.C09_Model Model.C09_PyRanges.
From Boltons Require Import Proofs.C09_Ranges Proofs.C09_PyRangesProof Gen.C09_Gen.

Lemma gen_is_expected : gen_chunk_ranges_prog = expected_prog.
Proof. reflexivity. Qed.

(* the translated source, run by the interpreter, is the model - all integers *)
Lemma gen_source_is_model size chunk offset overlap align :
  run_generator (fuel_for size) gen_chunk_ranges_prog (env0 size chunk offset overlap align)
  = m_chunk_ranges size chunk offset overlap align.
Proof. rewrite gen_is_expected. apply py_chunk_ranges_is_model. Qed.

(* hence the translated source satisfies every clause of the property *)
Lemma gen_source_good size chunk offset overlap align :
  valid_ranges_params size chunk offset overlap = true ->
  exists rs,
    run_generator (fuel_for size) gen_chunk_ranges_prog (env0 size chunk offset overlap align) = Ok rs
    /\ ranges_good size chunk offset overlap align rs.
Proof. intro H. rewrite gen_source_is_model. apply m_chunk_ranges_good. exact H. Qed.
