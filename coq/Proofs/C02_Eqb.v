(* C02: boolean equalities used by the checker decide Leibniz equality. *)
From Boltons Require Import Lib.Prelude Lib.C02_Syntax.

Lemma exn_eqb_eq a b : exn_eqb a b = true <-> a = b.
Proof.
  destruct a, b; simpl; split; intro H; try discriminate; try reflexivity;
    try (apply Nat.eqb_eq in H; congruence);
    try (inversion H; subst; apply Nat.eqb_refl).
Qed.

Lemma kv_eqb_eq (a b : K * V) : kv_eqb a b = true <-> a = b.
Proof.
  destruct a as [k v], b as [k' v']. unfold kv_eqb, pair_eqb. simpl.
  rewrite andb_true_iff, !Nat.eqb_eq. split; [intros [-> ->]; reflexivity|intro H; inversion H; auto].
Qed.

Lemma outv_eqb_eq a b : outv_eqb a b = true <-> a = b.
Proof.
  destruct a, b; simpl; split; intro H; try discriminate; try reflexivity.
  - apply Nat.eqb_eq in H. congruence.
  - inversion H. apply Nat.eqb_refl.
  - apply Bool.eqb_prop in H. congruence.
  - inversion H. apply Bool.eqb_reflx.
  - apply Nat.eqb_eq in H. congruence.
  - inversion H. apply Nat.eqb_refl.
  - apply andb_true_iff in H as [H1 H2]. apply Nat.eqb_eq in H1, H2. congruence.
  - inversion H. now rewrite !Nat.eqb_refl.
  - apply (list_eqb_eq Nat.eqb Nat.eqb_eq) in H. congruence.
  - inversion H. now apply (list_eqb_eq Nat.eqb Nat.eqb_eq).
  - apply (list_eqb_eq kv_eqb kv_eqb_eq) in H. congruence.
  - inversion H. now apply (list_eqb_eq kv_eqb kv_eqb_eq).
Qed.

Lemma res_eqb_eq (a b : res outv) : res_eqb outv_eqb a b = true <-> a = b.
Proof.
  destruct a, b; simpl; split; intro H; try discriminate.
  - apply outv_eqb_eq in H. congruence.
  - inversion H. now apply outv_eqb_eq.
  - apply exn_eqb_eq in H. congruence.
  - inversion H. now apply exn_eqb_eq.
Qed.

Lemma res_eqb_refl (a : res outv) : res_eqb outv_eqb a a = true.
Proof. now apply res_eqb_eq. Qed.
