(* C06: facts about the str-method models (span, split_on, partition, rpartition, join). *)
From Boltons Require Import Lib.Prelude Lib.C06_Text.
Open Scope N_scope.

Definition stops (p : N -> bool) (rest : text) : bool :=
  match rest with [] => true | c :: _ => negb (p c) end.

Lemma span_stop p a rest :
  forallb p a = true -> stops p rest = true -> span p (a ++ rest) = (a, rest).
Proof.
  induction a as [|x r IH]; intros H S.
  - cbn [app]. destruct rest as [|c q]; [reflexivity|]. cbn [span]. cbn [stops] in S.
    apply negb_true_iff in S. rewrite S. reflexivity.
  - cbn [forallb] in H. apply andb_true_iff in H as [Hx Hr].
    cbn [app span]. rewrite Hx, (IH Hr S). reflexivity.
Qed.

Lemma memN_app x a b : memN x (a ++ b) = memN x a || memN x b.
Proof. induction a as [|y r IH]; [reflexivity|]. cbn [app memN]. rewrite IH, orb_assoc. reflexivity. Qed.

Lemma not_memN_forallb c s : memN c s = false <-> forallb (fun x => negb (x =? c)) s = true.
Proof.
  induction s as [|y r IH]; [split; reflexivity|]. cbn [memN forallb]. rewrite N.eqb_sym.
  destruct (y =? c); cbn [negb orb andb]; [split; discriminate|exact IH].
Qed.

(* ---- partition / rpartition --------------------------------------------------------- *)
Lemma partition_none c a : memN c a = false -> partition c a = (a, false, []).
Proof.
  induction a as [|x r IH]; intro H; [reflexivity|].
  cbn [memN] in H. apply orb_false_iff in H as [H1 H2].
  cbn [partition]. rewrite N.eqb_sym, H1, (IH H2). reflexivity.
Qed.

Lemma partition_app c a b : memN c a = false -> partition c (a ++ c :: b) = (a, true, b).
Proof.
  induction a as [|x r IH]; intro H.
  - cbn [app partition]. rewrite N.eqb_refl. reflexivity.
  - cbn [memN] in H. apply orb_false_iff in H as [H1 H2].
    cbn [app partition]. rewrite N.eqb_sym, H1, (IH H2). reflexivity.
Qed.

Lemma rpartition_none c b : memN c b = false -> rpartition c b = None.
Proof.
  induction b as [|x r IH]; intro H; [reflexivity|].
  cbn [memN] in H. apply orb_false_iff in H as [H1 H2].
  cbn [rpartition]. rewrite (IH H2), N.eqb_sym, H1. reflexivity.
Qed.

Lemma rpartition_app c a b : memN c b = false -> rpartition c (a ++ c :: b) = Some (a, b).
Proof.
  intro H. induction a as [|x r IH].
  - cbn [app rpartition]. rewrite (rpartition_none c b H), N.eqb_refl. reflexivity.
  - cbn [app rpartition]. rewrite IH. reflexivity.
Qed.

(* ---- split_on / join ------------------------------------------------------------------ *)
Lemma split_on_none c a : memN c a = false -> split_on c a = [a].
Proof.
  induction a as [|x r IH]; intro H; [reflexivity|].
  cbn [memN] in H. apply orb_false_iff in H as [H1 H2].
  cbn [split_on]. rewrite N.eqb_sym, H1, (IH H2). reflexivity.
Qed.

Lemma split_on_app c a b : memN c a = false -> split_on c (a ++ c :: b) = a :: split_on c b.
Proof.
  induction a as [|x r IH]; intro H.
  - cbn [app split_on]. rewrite N.eqb_refl. reflexivity.
  - cbn [memN] in H. apply orb_false_iff in H as [H1 H2].
    cbn [app split_on]. rewrite N.eqb_sym, H1, (IH H2). reflexivity.
Qed.

Lemma split_join c l :
  l <> [] -> Forall (fun x => memN c x = false) l -> split_on c (join [c] l) = l.
Proof.
  induction l as [|x r IH]; intros NE F; [contradiction|].
  inversion F as [|? ? Hx Hr]; subst.
  destruct r as [|y r'].
  - cbn [join]. apply split_on_none. exact Hx.
  - change (join [c] (x :: y :: r')) with (x ++ [c] ++ join [c] (y :: r')).
    cbn [app]. rewrite (split_on_app c x _ Hx). f_equal. apply IH; [discriminate|exact Hr].
Qed.

Lemma replace_char_none a b s : memN a s = false -> replace_char a b s = s.
Proof.
  induction s as [|x r IH]; intro H; [reflexivity|].
  cbn [memN] in H. apply orb_false_iff in H as [H1 H2].
  unfold replace_char in *. cbn [map]. rewrite N.eqb_sym, H1, (IH H2). reflexivity.
Qed.

Lemma join_nonempty_head c x y r : join [c] (x :: y :: r) = x ++ c :: join [c] (y :: r).
Proof. reflexivity. Qed.
