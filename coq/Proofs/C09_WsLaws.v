(* C09: laws of the whitespace-mode reference py_split_ws (sep=None). *)
From Boltons Require Import Lib.Prelude Spec.C09_Spec Model.C09_Model Proofs.C09_Split.

Section WsLaws.
  Variable isws : K -> bool.
  Let nonws := fun x => negb (isws x).

  Lemma filter_dropwhile_neg l : filter nonws (dropwhile isws l) = filter nonws l.
  Proof.
    unfold nonws. induction l as [|x r IH]; [reflexivity|]. cbn [dropwhile filter].
    destruct (isws x) eqn:E; cbn [negb]; [exact IH|].
    cbn [filter]. rewrite E. reflexivity.
  Qed.

  Lemma filter_take_drop {A} (p : A -> bool) l : filter p l = takewhile p l ++ filter p (dropwhile p l).
  Proof.
    induction l as [|x r IH]; [reflexivity|]. cbn [filter takewhile dropwhile].
    destruct (p x) eqn:E; cbn [app]; [f_equal; exact IH|]. cbn [filter]. rewrite E. reflexivity.
  Qed.

  Lemma forallb_takewhile {A} (p : A -> bool) l : forallb p (takewhile p l) = true.
  Proof.
    induction l as [|x r IH]; [reflexivity|]. cbn [takewhile].
    destruct (p x) eqn:E; [cbn [forallb]; rewrite E; exact IH|reflexivity].
  Qed.

  Lemma filter_all {A} (p : A -> bool) l : forallb p l = true -> filter p l = l.
  Proof.
    induction l as [|x r IH]; [reflexivity|]. cbn [forallb filter]. intro H.
    apply andb_true_iff in H as [H1 H2]. rewrite H1, IH by exact H2. reflexivity.
  Qed.

  Lemma rest_shrinks l y rest :
    dropwhile isws l = y :: rest -> length (dropwhile nonws (y :: rest)) < length l.
  Proof.
    intro E. pose proof (dropwhile_head_false _ _ _ _ E) as Hy.
    pose proof (dropwhile_length_le isws l) as Hl. rewrite E in Hl. cbn [length] in Hl.
    cbn [dropwhile]. unfold nonws at 1. rewrite Hy. cbn [negb].
    pose proof (dropwhile_length_le nonws rest). lia.
  Qed.

  (* whatever maxsplit: no non-separator is lost or reordered *)
  Lemma ws_conserves_fuel : forall fuel m l, length l < fuel ->
    filter nonws (concat (py_split_ws_fuel fuel isws m l)) = filter nonws l.
  Proof.
    induction fuel as [|fuel IH]; intros m l H; [lia|]. cbn [py_split_ws_fuel].
    rewrite <- (filter_dropwhile_neg l).
    destruct (dropwhile isws l) as [|y rest] eqn:E; [reflexivity|].
    pose proof (rest_shrinks l y rest E) as Hs.
    destruct (can_split m).
    - cbn [concat]. fold nonws. rewrite filter_app, IH by lia.
      rewrite (filter_all nonws (takewhile nonws (y :: rest))) by apply forallb_takewhile.
      symmetry. apply filter_take_drop.
    - cbn [concat]. rewrite app_nil_r. reflexivity.
  Qed.

  (* without maxsplit: the pieces concatenated are the input minus separators *)
  Lemma ws_concat_fuel : forall fuel l, length l < fuel ->
    concat (py_split_ws_fuel fuel isws None l) = filter nonws l.
  Proof.
    induction fuel as [|fuel IH]; intros l H; [lia|]. cbn [py_split_ws_fuel can_split dec_split].
    rewrite <- (filter_dropwhile_neg l).
    destruct (dropwhile isws l) as [|y rest] eqn:E; [reflexivity|].
    pose proof (rest_shrinks l y rest E) as Hs.
    cbn [concat]. fold nonws. rewrite IH by lia. symmetry. apply filter_take_drop.
  Qed.

  (* no piece is empty; without maxsplit no piece contains a separator *)
  Lemma ws_pieces_fuel : forall fuel m l,
    Forall (fun g => g <> []) (py_split_ws_fuel fuel isws m l)
    /\ (m = None -> Forall (fun g => forallb nonws g = true) (py_split_ws_fuel fuel isws m l)).
  Proof.
    induction fuel as [|fuel IH]; intros m l; [split; constructor|]. cbn [py_split_ws_fuel].
    destruct (dropwhile isws l) as [|y rest] eqn:E; [split; constructor|].
    pose proof (dropwhile_head_false _ _ _ _ E) as Hy.
    destruct (can_split m) eqn:C.
    - destruct (IH (dec_split m) (dropwhile (fun x => negb (isws x)) (y :: rest))) as [I1 I2]. split.
      + constructor; [|exact I1]. cbn [takewhile]. rewrite Hy. discriminate.
      + intros ->. constructor; [apply (forallb_takewhile nonws)|]. apply I2. reflexivity.
    - split; [constructor; [discriminate|constructor]|]. intros ->. discriminate.
  Qed.

  (* at most maxsplit cuts *)
  Lemma ws_maxsplit_fuel : forall fuel k l, length (py_split_ws_fuel fuel isws (Some k) l) <= S k.
  Proof.
    induction fuel as [|fuel IH]; intros k l; [cbn; lia|]. cbn [py_split_ws_fuel].
    destruct (dropwhile isws l) as [|y rest]; [cbn; lia|].
    destruct k as [|k]; cbn [can_split dec_split pred length]; [lia|].
    specialize (IH k (dropwhile (fun x => negb (isws x)) (y :: rest))). lia.
  Qed.

  Lemma py_split_ws_laws l :
    concat (py_split_ws isws None l) = filter nonws l
    /\ Forall (fun g => g <> [] /\ forallb nonws g = true) (py_split_ws isws None l)
    /\ (forall m, Forall (fun g => g <> []) (py_split_ws isws m l))
    /\ (forall k, length (py_split_ws isws (Some k) l) <= S k)
    /\ (forall m, filter nonws (concat (py_split_ws isws m l)) = filter nonws l).
  Proof.
    unfold py_split_ws. repeat split.
    - apply ws_concat_fuel. lia.
    - destruct (ws_pieces_fuel (S (length l)) None l) as [A B]. specialize (B eq_refl).
      rewrite Forall_forall in *. intros g Hg. split; [apply A|apply B]; exact Hg.
    - intro m. apply (ws_pieces_fuel (S (length l)) m l).
    - intro k. apply ws_maxsplit_fuel.
    - intro m. apply ws_conserves_fuel. lia.
  Qed.
End WsLaws.
