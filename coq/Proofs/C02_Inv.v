(* C02: the representation invariant of the three structures kept by LRI/LRU
   (dict storage, linked list + link table, counters) and the abstraction to the
   reference cache; preservation by __setitem__ and __getitem__. *)
From Boltons Require Import Lib.Prelude Lib.C02_Syntax Spec.C02_Spec Model.C02_Model Proofs.C02_Lists.
Close Scope N_scope.
Open Scope nat_scope.

Record Inv (c : cfg) (m : cache) : Prop := mkInv {
  inv_nd_ring  : NoDup (keys (ring m));
  inv_nd_store : NoDup (keys (store m));
  inv_same     : map_eq (store m) (ring m);      (* storage and linked list hold the same items *)
  inv_len      : length (store m) = length (ring m);
  inv_cap      : length (ring m) <= c_max c;
  inv_soft     : (soft m <= miss m)%N
}.

(* the reference cache a model state stands for: the linked list, oldest first *)
Definition abs (m : cache) : rcache := mkR (ring m) (hit m) (miss m) (soft m) (calls m).

Lemma inv_empty c : Inv c empty_cache.
Proof. constructor; simpl; first [constructor | intro; reflexivity | lia]. Qed.

Lemma inv_mem c m k : Inv c m -> d_mem (store m) k = d_mem (ring m) k.
Proof. intro I. unfold d_mem. now rewrite (inv_same _ _ I). Qed.

(* counters and call log are untouched by set_sr *)
Lemma inv_set_sr c m s r :
  (soft m <= miss m)%N -> NoDup (keys r) -> NoDup (keys s) -> map_eq s r -> length s = length r ->
  length r <= c_max c -> Inv c (set_sr m s r).
Proof. intros. constructor; simpl; assumption. Qed.

(* ---- __setitem__ ---------------------------------------------------------- *)
Lemma setitem_sim c m k v :
  1 <= c_max c -> Inv c m ->
  exists m', setitem c m k v = (m', Ok tt) /\ Inv c m' /\ abs m' = r_set c (abs m) k v
             /\ calls m' = calls m /\ hit m' = hit m /\ miss m' = miss m /\ soft m' = soft m.
Proof.
  intros Hmax I. destruct I as [NR NS SAME LEN CAP SOFT].
  unfold setitem, ll_move_to_front, r_set, items_set, abs, r_with_items; simpl.
  destruct (d_get (ring m) k) as [v0|] eqn:G.
  - (* existing key: move to front, overwrite in place *)
    assert (DM : d_mem (ring m) k = true) by (unfold d_mem; now rewrite G). rewrite DM.
    assert (Hk : In k (keys (ring m))) by (eapply d_get_some_keys; eauto).
    assert (Hks : In k (keys (store m))).
    { apply d_mem_iff. unfold d_mem. rewrite SAME, G. reflexivity. }
    assert (Hnk : ~ In k (keys (d_del (ring m) k))) by now apply not_in_keys_del.
    assert (E : d_set (d_del (ring m) k ++ [(k, v0)]) k v = d_del (ring m) k ++ [(k, v)]).
    { clear - Hnk. induction (d_del (ring m) k) as [|[k1 v1] r IH]; simpl.
      - now rewrite Nat.eqb_refl.
      - simpl in Hnk. destruct (Nat.eqb_spec k k1); [exfalso; apply Hnk; left; congruence|].
        f_equal. apply IH. tauto. }
    rewrite E. eexists. split; [reflexivity|]. split; [|simpl; repeat split; reflexivity].
    apply inv_set_sr; try assumption.
    + apply nodup_keys_snoc; [now apply nodup_del|assumption].
    + now rewrite keys_set_in.
    + intro k'. rewrite d_get_set, d_get_app, d_get_del by assumption. simpl.
      destruct (Nat.eqb_spec k' k); [reflexivity|]. rewrite SAME. destruct (d_get (ring m) k'); reflexivity.
    + rewrite length_set_in by assumption. rewrite app_length. simpl.
      rewrite LEN. rewrite <- (length_del_in (ring m) k) by assumption. lia.
    + rewrite app_length. simpl. rewrite <- (length_del_in (ring m) k) in CAP by assumption. lia.
  - (* new key *)
    assert (DM : d_mem (ring m) k = false) by (unfold d_mem; now rewrite G). rewrite DM.
    assert (Hk : ~ In k (keys (ring m))) by now apply d_get_none_iff.
    assert (Hks : ~ In k (keys (store m))).
    { apply d_get_none_iff. now rewrite SAME. }
    rewrite LEN. destruct (length (ring m) <? c_max c) eqn:LT.
    + apply Nat.ltb_lt in LT. unfold ll_add_to_front.
      eexists. split; [reflexivity|]. split; [|simpl; repeat split; reflexivity].
      rewrite d_set_notin by assumption.
      apply inv_set_sr; try assumption.
      * now apply nodup_keys_snoc.
      * now apply nodup_keys_snoc.
      * intro k'. rewrite !d_get_app, SAME. reflexivity.
      * rewrite !app_length. simpl. lia.
      * rewrite app_length. simpl. lia.
    + apply Nat.ltb_ge in LT. unfold ll_evict.
      destruct (ring m) as [|[e ve] r'] eqn:ER; [simpl in LT; lia|]. simpl tl.
      assert (He : d_mem (store m) e = true).
      { unfold d_mem. rewrite SAME. simpl. now rewrite Nat.eqb_refl. }
      rewrite He. eexists. split; [reflexivity|]. split; [|simpl; repeat split; reflexivity].
      simpl in NR. inversion NR as [|? ? NE NR']; subst.
      simpl in Hk.
      assert (Hke : k <> e) by (intro; apply Hk; left; congruence).
      assert (Hkd : ~ In k (keys (d_del (store m) e))).
      { intro H. apply Hks. eapply in_keys_del_sub; eauto. }
      rewrite d_set_notin by assumption.
      apply inv_set_sr; try assumption.
      * apply nodup_keys_snoc; [assumption|tauto].
      * apply nodup_keys_snoc; [now apply nodup_del|assumption].
      * intro k'. rewrite !d_get_app, d_get_del by assumption.
        destruct (Nat.eqb_spec k' e).
        -- subst k'. apply d_get_none_iff in NE. rewrite NE. reflexivity.
        -- rewrite SAME. simpl. destruct (Nat.eqb_spec k' e); [congruence|reflexivity].
      * rewrite !app_length. simpl. apply d_mem_iff in He.
        rewrite <- (length_del_in (store m) e) in LEN by assumption. simpl in LEN. lia.
      * rewrite app_length. simpl. simpl in CAP. lia.
Qed.

(* a sequence of assignments *)
Lemma setitems_sim c kvs : forall m,
  1 <= c_max c -> Inv c m ->
  exists m', setitems c m kvs = (m', Ok tt) /\ Inv c m' /\ abs m' = r_sets c (abs m) kvs
             /\ calls m' = calls m /\ hit m' = hit m /\ miss m' = miss m /\ soft m' = soft m.
Proof.
  induction kvs as [|[k v] rest IH]; intros m Hmax I; simpl.
  - exists m. split; [reflexivity|]. split; [assumption|]. repeat split; reflexivity.
  - destruct (setitem_sim c m k v Hmax I) as [m1 [E [I1 [A [C1 [H1 [M1 S1]]]]]]].
    rewrite E. destruct (IH m1 Hmax I1) as [m2 [E2 [I2 [A2 [C2 [H2 [M2 S2]]]]]]].
    exists m2. rewrite E2. split; [reflexivity|]. split; [assumption|].
    unfold r_sets in *. simpl. rewrite <- A.
    split; [assumption|]. repeat split; congruence.
Qed.

(* ---- __getitem__ ------------------------------------------------------------ *)
Definition res_of_opt (o : option V) : res V := match o with Some v => Ok v | None => Raise KeyError end.

Lemma getitem_sim c m k :
  1 <= c_max c -> Inv c m ->
  exists m' ov, getitem c m k = (m', res_of_opt ov) /\ Inv c m'
    /\ r_lookup c (abs m) k = (abs m', ov)
    /\ (exists new, calls m' = new ++ calls m)
    /\ (ov = None -> miss m' = (miss m + 1)%N /\ soft m' = soft m).
Proof.
  intros Hmax I. pose proof I as [NR NS SAME LEN CAP SOFT].
  unfold getitem, r_lookup, abs; simpl.
  destruct (d_get (ring m) k) as [v|] eqn:G.
  - exists (mkC (store m) (match c_cls c with LRI => ring m | LRU => d_del (ring m) k ++ [(k, v)] end)
                (hit m + 1) (miss m) (soft m) (calls m)), (Some v).
    split; [reflexivity|]. split; [|split; [reflexivity|split; [exists []; reflexivity|discriminate]]].
    assert (Hk : In k (keys (ring m))) by (eapply d_get_some_keys; eauto).
    destruct (c_cls c); constructor; simpl; try assumption.
    + apply nodup_keys_snoc; [now apply nodup_del|now apply not_in_keys_del].
    + intro k'. rewrite d_get_move_end by assumption. apply SAME.
    + rewrite app_length. simpl. rewrite <- (length_del_in (ring m) k) in LEN by assumption. lia.
    + rewrite app_length. simpl. rewrite <- (length_del_in (ring m) k) in CAP by assumption. lia.
  - destruct (c_on_miss c) as [f|] eqn:OM.
    + set (m2 := mkC (store m) (ring m) (hit m) (miss m + 1) (soft m) (k :: calls m)).
      assert (I2 : Inv c m2) by (constructor; simpl; try assumption; lia).
      destruct (setitem_sim c m2 k (f k) Hmax I2) as [m3 [E [I3 [A [C3 [H3 [M3 S3]]]]]]].
      rewrite E. exists m3, (Some (f k)). split; [reflexivity|]. split; [assumption|].
      split; [|split; [exists [k]; rewrite C3; reflexivity|discriminate]].
      f_equal. symmetry. exact A.
    + eexists. exists None. split; [reflexivity|]. split.
      * constructor; simpl; try assumption; lia.
      * split; [reflexivity|]. split; [exists []; reflexivity|]. intros _. simpl. auto.
Qed.
