(* C10 - BasePriorityQueue over any lawful back end refines the reference
   queue (Spec.C10_Spec); the heap-by-contract and the sorted-BarrelList back
   ends are lawful (the latter for every size-limit function). *)
From Boltons Require Import Lib.Prelude Spec.C10_Spec Model.C10_Model Proofs.C10_Barrel.
From Coq Require Import Sorting.Sorted Permutation.

Local Open Scope nat_scope.

(* ------------------------------------------------------------------------ *)
(* the order on entries                                                      *)
(* ------------------------------------------------------------------------ *)
Lemma entry_ltb_iff x y :
  entry_ltb x y = true <->
  (e_prio x < e_prio y)%Z \/ (e_prio x = e_prio y /\ e_cnt x < e_cnt y).
Proof.
  unfold entry_ltb. rewrite orb_true_iff, andb_true_iff, Z.ltb_lt, Z.eqb_eq, Nat.ltb_lt. tauto.
Qed.

Lemma entry_ltb_irrefl x : entry_ltb x x = false.
Proof.
  destruct (entry_ltb x x) eqn:E; [|reflexivity]. apply entry_ltb_iff in E. lia.
Qed.

Lemma entry_ltb_trans x y z :
  entry_ltb x y = true -> entry_ltb y z = true -> entry_ltb x z = true.
Proof. rewrite !entry_ltb_iff. lia. Qed.

Lemma entry_ltb_asym x y : entry_ltb x y = true -> entry_ltb y x = false.
Proof.
  intro H. destruct (entry_ltb y x) eqn:E; [|reflexivity].
  apply entry_ltb_iff in H. apply entry_ltb_iff in E. lia.
Qed.

Lemma entry_ltb_total x y :
  e_cnt x <> e_cnt y -> entry_ltb x y = true \/ entry_ltb y x = true.
Proof. rewrite !entry_ltb_iff. lia. Qed.

Lemma tomb_cnt c e : e_cnt (tomb c e) = e_cnt e.
Proof. unfold tomb. destruct (Nat.eqb _ _); reflexivity. Qed.
Lemma tomb_prio c e : e_prio (tomb c e) = e_prio e.
Proof. unfold tomb. destruct (Nat.eqb _ _); reflexivity. Qed.
Lemma entry_ltb_tomb c c' x y : entry_ltb (tomb c x) (tomb c' y) = entry_ltb x y.
Proof. unfold entry_ltb. now rewrite !tomb_cnt, !tomb_prio. Qed.
Lemma entry_ltb_tomb_r c x y : entry_ltb x (tomb c y) = entry_ltb x y.
Proof. unfold entry_ltb. now rewrite !tomb_cnt, !tomb_prio. Qed.

Lemma map_cnt_tomb c l : map e_cnt (map (tomb c) l) = map e_cnt l.
Proof. rewrite map_map. apply map_ext. intro. apply tomb_cnt. Qed.

(* ------------------------------------------------------------------------ *)
(* Python dict facts                                                         *)
(* ------------------------------------------------------------------------ *)
Section DictFacts.
  Context {V : Type}.
  Implicit Types m : pydict V.

  Lemma d_get_None m t : d_get m t = None <-> ~ In t (map fst m).
  Proof.
    induction m as [|[k v] r IH]; simpl; [tauto|].
    destruct (Nat.eqb_spec t k).
    - split; [discriminate|]. intro H. exfalso. apply H. left. congruence.
    - rewrite IH. split; [intros H [E|E]; [congruence|tauto] | tauto].
  Qed.

  Lemma d_get_In m t v : NoDup (map fst m) -> (d_get m t = Some v <-> In (t, v) m).
  Proof.
    induction m as [|[k w] r IH]; simpl; intro ND; [split; [discriminate|tauto]|].
    inversion ND as [|? ? Hk ND']; subst.
    destruct (Nat.eqb_spec t k).
    - subst k. split.
      + intro E. left. congruence.
      + intros [E|E]; [congruence|]. exfalso. apply Hk. apply (in_map fst) in E. exact E.
    - rewrite IH by exact ND'. split; [tauto|]. intros [E|E]; [congruence|exact E].
  Qed.

  Lemma d_del_filter m t :
    NoDup (map fst m) -> d_del m t = filter (fun x => negb (Nat.eqb (fst x) t)) m.
  Proof.
    induction m as [|[k w] r IH]; simpl; intro ND; [reflexivity|].
    inversion ND as [|? ? Hk ND']; subst.
    rewrite (Nat.eqb_sym k t). destruct (Nat.eqb_spec t k); simpl.
    - subst k. symmetry. clear IH ND ND'.
      induction r as [|[k' w'] r IH]; simpl; [reflexivity|].
      destruct (Nat.eqb_spec k' t); simpl.
      + exfalso. apply Hk. left. exact e.
      + f_equal. apply IH. intro H. apply Hk. right. exact H.
    - f_equal. apply IH. exact ND'.
  Qed.

  Lemma d_set_fresh m t v : d_get m t = None -> d_set m t v = m ++ [(t, v)].
  Proof.
    induction m as [|[k w] r IH]; simpl; [reflexivity|].
    destruct (Nat.eqb_spec t k); [discriminate|]. intro H. f_equal. now apply IH.
  Qed.

  Lemma d_mem_get m t : d_mem m t = match d_get m t with Some _ => true | None => false end.
  Proof. reflexivity. Qed.
End DictFacts.

(* ------------------------------------------------------------------------ *)
(* generic list facts                                                        *)
(* ------------------------------------------------------------------------ *)
Lemma NoDup_map_filter {X Y} (f : X -> Y) (p : X -> bool) (l : list X) :
  NoDup (map f l) -> NoDup (map f (filter p l)).
Proof.
  induction l as [|x r IH]; simpl; intro ND; [constructor|].
  inversion ND as [|? ? Hx ND']; subst. destruct (p x); simpl; [|auto].
  constructor; [|auto]. intro H. apply Hx. apply in_map_iff in H as (y & E & Hy).
  apply filter_In in Hy as [Hy _]. apply in_map_iff. eauto.
Qed.

Lemma StronglySorted_map_filter {X} (f : X -> nat) (p : X -> bool) (l : list X) :
  StronglySorted lt (map f l) -> StronglySorted lt (map f (filter p l)).
Proof.
  induction l as [|x r IH]; simpl; intro S; [constructor|].
  inversion S as [|? ? S' F]; subst. destruct (p x); simpl; [|auto].
  constructor; [auto|]. rewrite Forall_forall in *. intros y Hy. apply F.
  apply in_map_iff in Hy as (z & E & Hz). apply filter_In in Hz as [Hz _].
  apply in_map_iff. eauto.
Qed.

Lemma nonempty_match {X} (l : list X) :
  l <> [] -> match l with [] => false | _ => true end = true.
Proof. destruct l; congruence. Qed.

Lemma NoDup_app_snoc {X} (l : list X) (x : X) : NoDup l -> ~ In x l -> NoDup (l ++ [x]).
Proof.
  induction l as [|a r IH]; simpl; intros ND H; [constructor; [tauto|constructor]|].
  inversion ND; subst. constructor.
  - rewrite in_app_iff. simpl. intuition congruence.
  - apply IH; tauto.
Qed.

Lemma StronglySorted_snoc (l : list nat) (c : nat) :
  StronglySorted lt l -> (forall x, In x l -> x < c) -> StronglySorted lt (l ++ [c]).
Proof.
  induction l as [|a r IH]; simpl; intros S H.
  - constructor; constructor.
  - inversion S as [|? ? S' F]; subst. constructor.
    + apply IH; auto.
    + rewrite Forall_forall in *. intros y Hy. apply in_app_iff in Hy as [Hy|[Hy|[]]].
      * auto.
      * subst. auto.
Qed.

(* ------------------------------------------------------------------------ *)
(* the spec's choice is the least entry of the map                            *)
(* ------------------------------------------------------------------------ *)
Definition abs1 (x : K * (Z * nat)) : K * Z := (fst x, (- fst (snd x))%Z).
Definition abs (m : pydict (Z * nat)) : spec_state := map abs1 m.
Definition cnts_of (m : pydict (Z * nat)) : list nat := map (fun x => snd (snd x)) m.

(* w beats y: higher priority, or the same priority and an earlier count *)
Definition beats (w y : K * (Z * nat)) : Prop :=
  y = w \/ (fst (snd w) < fst (snd y))%Z \/
  (fst (snd w) = fst (snd y) /\ snd (snd w) < snd (snd y)).

Lemma best_from_least : forall (r : pydict (Z * nat)) cur w,
  StronglySorted lt (cnts_of (cur :: r)) ->
  In w (cur :: r) ->
  (forall y, In y (cur :: r) -> beats w y) ->
  best_from (abs1 cur) (abs r) = abs1 w.
Proof.
  induction r as [|x r IH]; intros cur w S Hin Hb.
  - simpl. destruct Hin as [E|[]]. now subst.
  - simpl. inversion S as [|? ? S' F]; subst. simpl in F.
    inversion F as [|? ? Fx F']; subst.
    destruct (Z.ltb_spec (- fst (snd cur)) (- fst (snd x))) as [Hlt|Hge].
    + (* x has a strictly higher priority than cur: cur cannot be the winner *)
      apply IH; [exact S' | | intros y Hy; apply Hb; right; exact Hy].
      destruct Hin as [E|Hin]; [|exact Hin]. subst w.
      destruct (Hb x (or_intror (or_introl eq_refl))) as [E|[E|[E1 E2]]].
      * subst x. lia.
      * lia.
      * lia.
    + (* cur stays: x cannot be the winner *)
      apply IH.
      * inversion S' as [|? ? S'' F'']; subst. constructor; [exact S''|exact F'].
      * destruct Hin as [E|[E|Hin]]; [left; exact E | | right; exact Hin].
        subst w. destruct (Hb cur (or_introl eq_refl)) as [E|[E|[E1 E2]]].
        -- subst x. lia.
        -- lia.
        -- lia.
      * intros y [E|Hy]; apply Hb; [left; exact E | right; right; exact Hy].
Qed.

Lemma best_least (m : pydict (Z * nat)) w :
  StronglySorted lt (cnts_of m) -> In w m -> (forall y, In y m -> beats w y) ->
  best (abs m) = Some (abs1 w).
Proof.
  destruct m as [|cur r]; [intros _ []|]. intros S Hin Hb. simpl. f_equal.
  now apply best_from_least.
Qed.

(* ------------------------------------------------------------------------ *)
(* refinement for any lawful back end                                        *)
(* ------------------------------------------------------------------------ *)
Section Refinement.
  Variable bk : backend.
  Variable elems : B bk -> list entry.       (* the entries held, in any order *)
  Variable wf : B bk -> Prop.                (* the back end's own invariant *)

  Hypothesis L_empty : wf (b_empty bk) /\ elems (b_empty bk) = [].
  Hypothesis L_nonempty : forall b, wf b ->
    b_nonempty bk b = match elems b with [] => false | _ => true end.
  Hypothesis L_size : forall b, wf b -> b_size bk b = length (elems b).
  Hypothesis L_push : forall b e, wf b -> ~ In (e_cnt e) (map e_cnt (elems b)) ->
    exists b', b_push bk b e = Ok b' /\ wf b' /\ Permutation (elems b') (e :: elems b).
  Hypothesis L_pop : forall b, wf b -> NoDup (map e_cnt (elems b)) -> elems b <> [] ->
    exists e b', b_first bk b = Ok e /\ b_pop bk b = Ok (e, b') /\ wf b' /\
                 Permutation (elems b) (e :: elems b') /\
                 (forall e', In e' (elems b') -> entry_ltb e e' = true).
  Hypothesis L_tomb : forall b c, wf b ->
    wf (b_tomb bk c b) /\ elems (b_tomb bk c b) = map (tomb c) (elems b).

  Record Inv (st : pq_state bk) (s : spec_state) : Prop := {
    I_wf : wf (q_pq bk st);
    I_nodup : NoDup (map e_cnt (elems (q_pq bk st)));
    I_bound : forall e, In e (elems (q_pq bk st)) -> e_cnt e < q_counter bk st;
    I_keys : NoDup (map fst (q_map bk st));
    I_sorted : StronglySorted lt (cnts_of (q_map bk st));
    I_link : forall t p c, In (t, (p, c)) (q_map bk st) <-> In (p, c, Some t) (elems (q_pq bk st));
    I_abs : s = abs (q_map bk st)
  }.

  Lemma Inv_init : Inv (q_init bk) [].
  Proof.
    destruct L_empty as [W E]. constructor; simpl; rewrite ?E; simpl;
      try constructor; try tauto.
  Qed.

  (* ---- abstraction commutes with the dict operations ---------------------- *)
  Lemma abs_del m t : NoDup (map fst m) -> abs (d_del m t) = s_del (abs m) t.
  Proof.
    intro ND. rewrite d_del_filter by exact ND. unfold abs, s_del. clear ND.
    induction m as [|[k [p c]] r IH]; simpl; [reflexivity|].
    destruct (Nat.eqb k t); simpl; [exact IH | f_equal; exact IH].
  Qed.

  Lemma abs_mem m t : s_mem (abs m) t = d_mem m t.
  Proof.
    unfold s_mem, d_mem, abs. induction m as [|[k v] r IH]; simpl; [reflexivity|].
    rewrite (Nat.eqb_sym k t). destruct (Nat.eqb t k); simpl; [reflexivity|exact IH].
  Qed.

  Lemma s_del_absent m t : d_get m t = None -> s_del (abs m) t = abs m.
  Proof.
    intro H. apply d_get_None in H. unfold s_del, abs.
    induction m as [|[k v] r IH]; simpl; [reflexivity|].
    simpl in H. destruct (Nat.eqb_spec k t); simpl.
    - exfalso. apply H. left. exact e.
    - f_equal. apply IH. tauto.
  Qed.

  (* ---- remove -------------------------------------------------------------- *)
  Lemma remove_present st s t p c :
    Inv st s -> d_get (q_map bk st) t = Some (p, c) ->
    Inv (mkPQ bk (b_tomb bk c (q_pq bk st)) (d_del (q_map bk st) t) (q_counter bk st)) (s_del s t)
    /\ d_get (d_del (q_map bk st) t) t = None.
  Proof.
    intros [W ND BD KS SS LK AB] G. simpl in *.
    destruct (L_tomb (q_pq bk st) c W) as [W' E'].
    pose proof (proj1 (d_get_In _ _ _ KS) G) as Hin.
    pose proof (proj1 (LK t p c) Hin) as HinE.
    split.
    - constructor; simpl.
      + exact W'.
      + rewrite E', map_cnt_tomb. exact ND.
      + rewrite E'. intros e He. apply in_map_iff in He as (e0 & <- & He0).
        rewrite tomb_cnt. now apply BD.
      + rewrite d_del_filter by exact KS. now apply NoDup_map_filter.
      + rewrite d_del_filter by exact KS. unfold cnts_of. now apply StronglySorted_map_filter.
      + intros t' p' c'. rewrite E', d_del_filter by exact KS. rewrite filter_In. simpl. split.
        * intros [H1 H2]. apply negb_true_iff, Nat.eqb_neq in H2.
          pose proof (proj1 (LK t' p' c') H1) as H3.
          apply in_map_iff. exists (p', c', Some t'). split; [|exact H3].
          unfold tomb. change (e_cnt (p', c', Some t')) with c'.
          destruct (Nat.eqb_spec c' c) as [Ec|]; [|reflexivity].
          exfalso. subst c'. apply H2.
          (* same count -> same entry -> same task *)
          assert (Heq : (p', c, Some t') = (p, c, Some t)).
          { clear - ND H3 HinE. induction (elems (q_pq bk st)) as [|x r IH]; [destruct H3|].
            simpl in ND. inversion ND as [|? ? Hx ND']; subst.
            destruct H3 as [E1|H3], HinE as [E2|HinE].
            - congruence.
            - exfalso. apply Hx. subst x. apply (in_map e_cnt) in HinE. exact HinE.
            - exfalso. apply Hx. subst x. apply (in_map e_cnt) in H3. exact H3.
            - auto. }
          congruence.
        * intro H. apply in_map_iff in H as (e0 & Et & He0).
          unfold tomb in Et. destruct (Nat.eqb_spec (e_cnt e0) c) as [Ec|Nc]; [discriminate|].
          subst e0. pose proof (proj2 (LK t' p' c') He0) as H1. split; [exact H1|].
          apply negb_true_iff, Nat.eqb_neq. intro Et. subst t'.
          assert ((p', c') = (p, c)).
          { pose proof (proj2 (d_get_In _ _ _ KS) H1). congruence. }
          unfold e_cnt in Nc. simpl in Nc. congruence.
      + rewrite AB. symmetry. now apply abs_del.
    - apply d_get_None. rewrite d_del_filter by exact KS. intro H.
      apply in_map_iff in H as (x & E & Hx). apply filter_In in Hx as [_ Hx].
      apply negb_true_iff, Nat.eqb_neq in Hx. exact (Hx E).
  Qed.

  Lemma step_remove st s t :
    Inv st s ->
    let '(st', r) := q_remove bk st t in
    let '(s', o) := spec_step s (Remove t) in
    unit_obs r = o /\ Inv st' s'.
  Proof.
    intro I. unfold q_remove. simpl.
    rewrite (I_abs _ _ I), abs_mem, d_mem_get.
    destruct (d_get (q_map bk st) t) as [[p c]|] eqn:G.
    - split; [reflexivity|]. rewrite <- (I_abs _ _ I). now apply (remove_present st s t p c).
    - split; [reflexivity|]. rewrite <- (I_abs _ _ I). exact I.
  Qed.

  (* ---- add --------------------------------------------------------------------- *)
  Lemma step_add st s t p :
    Inv st s ->
    let '(st', r) := q_add bk st t p in
    let '(s', o) := spec_step s (Add t p) in
    unit_obs r = o /\ Inv st' s'.
  Proof.
    intro I. unfold q_add. simpl.
    (* after the optional remove: st1 ~ s_del s t, and t is not a key *)
    set (st1 := if d_mem (q_map bk st) t then fst (q_remove bk st t) else st).
    assert (H1 : Inv st1 (s_del s t) /\ d_get (q_map bk st1) t = None).
    { unfold st1, q_remove. rewrite d_mem_get.
      destruct (d_get (q_map bk st) t) as [[p0 c0]|] eqn:G; simpl.
      - now apply (remove_present st s t p0 c0).
      - split; [|exact G]. rewrite (I_abs _ _ I), s_del_absent by exact G.
        rewrite <- (I_abs _ _ I). exact I. }
    destruct H1 as [[W ND BD KS SS LK AB] G1].
    set (c := q_counter bk st1). set (e := ((- prio_of p)%Z, c, Some t) : entry).
    assert (Hfresh : ~ In (e_cnt e) (map e_cnt (elems (q_pq bk st1)))).
    { intro H. apply in_map_iff in H as (x & E & Hx). apply BD in Hx.
      change (e_cnt e) with c in E. unfold c in E. lia. }
    destruct (L_push (q_pq bk st1) e W Hfresh) as (b' & P1 & P2 & P3).
    rewrite P1. split; [reflexivity|].
    rewrite (d_set_fresh _ _ _ G1).
    constructor; simpl.
    - exact P2.
    - apply (Permutation_NoDup (l := map e_cnt (e :: elems (q_pq bk st1)))).
      + apply Permutation_map. now apply Permutation_sym.
      + simpl. constructor; assumption.
    - intros x Hx. apply (Permutation_in _ P3) in Hx. destruct Hx as [E|Hx].
      + subst x. change (e_cnt e) with c. lia.
      + apply BD in Hx. fold c in Hx. lia.
    - rewrite map_app. simpl. apply NoDup_app_snoc; [exact KS|]. now apply d_get_None.
    - unfold cnts_of. rewrite map_app. simpl. apply StronglySorted_snoc; [exact SS|].
      intros x Hx. apply in_map_iff in Hx as ([t' [p' c']] & E & Hx). simpl in E. subst x.
      apply LK in Hx. apply BD in Hx. exact Hx.
    - intros t' p' c'. rewrite in_app_iff. simpl. split.
      + intros [H|[H|[]]].
        * apply (Permutation_in _ (Permutation_sym P3)). right. now apply LK.
        * apply (Permutation_in _ (Permutation_sym P3)). left. unfold e. congruence.
      + intro H. apply (Permutation_in _ P3) in H. destruct H as [H|H].
        * right. left. unfold e in H. congruence.
        * left. now apply LK.
    - rewrite AB. unfold abs. rewrite map_app. f_equal. simpl. unfold abs1. simpl.
      now rewrite Z.opp_involutive.
  Qed.

  (* ---- _cull ---------------------------------------------------------------------- *)
  Lemma cull_eq fuel b :
    cull bk fuel b =
    if b_nonempty bk b then
      match fuel with
      | O => (b, Raise OutOfFuel)
      | S f =>
          match b_first bk b with
          | Raise e => (b, Raise e)
          | Ok e =>
              match e_task e with
              | Some _ => (b, Ok tt)
              | None => match b_pop bk b with
                        | Raise x => (b, Raise x)
                        | Ok (_, b') => cull bk f b'
                        end
              end
          end
      end
    else (b, Raise IndexError).
  Proof. destruct fuel; reflexivity. Qed.

  (* what _cull leaves: the same live entries; either nothing at all, or a live
     least entry at the head *)
  Definition head_live (b : B bk) (e : entry) (b2 : B bk) (t : K) : Prop :=
    b_first bk b = Ok e /\ b_pop bk b = Ok (e, b2) /\ wf b2 /\
    Permutation (elems b) (e :: elems b2) /\
    (forall e', In e' (elems b2) -> entry_ltb e e' = true) /\ e_task e = Some t.

  Lemma cull_spec : forall fuel b,
    wf b -> NoDup (map e_cnt (elems b)) -> length (elems b) <= fuel ->
    exists b' r, cull bk fuel b = (b', r) /\ wf b' /\ NoDup (map e_cnt (elems b')) /\
      (forall e, In e (elems b') -> In e (elems b)) /\
      (forall e, In e (elems b) -> e_task e <> None -> In e (elems b')) /\
      ((r = Raise IndexError /\ elems b' = []) \/
       (r = Ok tt /\ exists e b2 t, head_live b' e b2 t)).
  Proof.
    induction fuel as [|f IH]; intros b W ND Hlen; rewrite cull_eq, (L_nonempty b W).
    - destruct (elems b) eqn:E; [|simpl in Hlen; lia].
      exists b, (Raise IndexError). rewrite E.
      split; [reflexivity|]. split; [exact W|]. split; [constructor|]. split; [auto|]. split; [auto|].
      left. split; reflexivity.
    - assert (Hcase : elems b = [] \/ elems b <> []).
      { destruct (elems b); [left; reflexivity | right; discriminate]. }
      destruct Hcase as [E|Hne].
      { exists b, (Raise IndexError). rewrite E.
        split; [reflexivity|]. split; [exact W|]. split; [constructor|]. split; [auto|]. split; [auto|].
        left. split; reflexivity. }
      rewrite (nonempty_match _ Hne).
      destruct (L_pop b W ND Hne) as (e & b2 & F & P & W2 & Pm & Hmin).
      rewrite F. destruct (e_task e) as [t|] eqn:T.
      + exists b, (Ok tt).
        split; [reflexivity|]. split; [exact W|]. split; [exact ND|]. split; [auto|]. split; [auto|].
        right. split; [reflexivity|]. exists e, b2, t. unfold head_live. auto 10.
      + rewrite P.
        assert (ND2 : NoDup (map e_cnt (elems b2))).
        { assert (NDc : NoDup (map e_cnt (e :: elems b2))).
          { eapply Permutation_NoDup; [apply Permutation_map; exact Pm | exact ND]. }
          now inversion NDc. }
        assert (Hl2 : length (elems b2) <= f).
        { apply Permutation_length in Pm. simpl in Pm. lia. }
        destruct (IH b2 W2 ND2 Hl2) as (b' & r & C & W' & ND' & Sub & Live & Out).
        exists b', r.
        split; [exact C|]. split; [exact W'|]. split; [exact ND'|]. split; [|split; [|exact Out]].
        * intros e' He'. apply (Permutation_in _ (Permutation_sym Pm)). right. auto.
        * intros e' He' Ht. apply (Permutation_in _ Pm) in He'. destruct He' as [Ee|He'].
          -- subst e'. congruence.
          -- auto.
  Qed.

  Lemma Inv_swap_pq st s b' :
    Inv st s -> wf b' -> NoDup (map e_cnt (elems b')) ->
    (forall e, In e (elems b') -> In e (elems (q_pq bk st))) ->
    (forall e, In e (elems (q_pq bk st)) -> e_task e <> None -> In e (elems b')) ->
    Inv (with_pq bk st b') s.
  Proof.
    intros [W ND BD KS SS LK AB] W' ND' Sub Live. constructor; simpl; auto.
    intros t p c. rewrite LK. split; [|apply Sub]. intro H. apply Live; [exact H|discriminate].
  Qed.

  Lemma handler_on_empty d : handler d IndexError = on_empty d.
  Proof. destruct d as [[t|v]|]; reflexivity. Qed.

  Lemma empty_pq_empty_spec st s : Inv st s -> elems (q_pq bk st) = [] -> s = [].
  Proof.
    intros I E. rewrite (I_abs _ _ I). destruct (q_map bk st) as [|[t [p c]] r] eqn:M; [reflexivity|].
    exfalso. pose proof (proj1 (I_link _ _ I t p c)) as H. rewrite M, E in H. apply H. now left.
  Qed.

  (* the live head the back end shows is the reference's choice *)
  Lemma head_is_best st s e b2 t :
    Inv st s -> head_live (q_pq bk st) e b2 t ->
    best s = Some (t, (- e_prio e)%Z) /\ In (t, (e_prio e, e_cnt e)) (q_map bk st).
  Proof.
    intros I (F & P & W2 & Pm & Hmin & T).
    assert (He : e = (e_prio e, e_cnt e, Some t)).
    { destruct e as [[p c] tk]. simpl in *. unfold e_task in T. simpl in T. now subst tk. }
    assert (Hin : In (t, (e_prio e, e_cnt e)) (q_map bk st)).
    { apply (I_link _ _ I). rewrite <- He. apply (Permutation_in _ (Permutation_sym Pm)). now left. }
    split; [|exact Hin].
    rewrite (I_abs _ _ I).
    change (t, (- e_prio e)%Z) with (abs1 (t, (e_prio e, e_cnt e))).
    apply best_least; [exact (I_sorted _ _ I) | exact Hin |].
    intros [t' [p' c']] Hy. apply (I_link _ _ I) in Hy. apply (Permutation_in _ Pm) in Hy.
    unfold beats. simpl. destruct Hy as [Ey|Hy].
    - left. clear He. subst e. unfold e_task in T. simpl in T. inversion T. reflexivity.
    - apply Hmin in Hy. apply entry_ltb_iff in Hy. right. exact Hy.
  Qed.

  (* ---- peek ------------------------------------------------------------------------- *)
  Lemma step_peek st s d :
    Inv st s ->
    snd (q_peek bk st d) = snd (spec_step s (Peek d)) /\
    Inv (fst (q_peek bk st d)) (fst (spec_step s (Peek d))).
  Proof.
    intro I. unfold q_peek.
    destruct (cull_spec (b_size bk (q_pq bk st)) (q_pq bk st) (I_wf _ _ I) (I_nodup _ _ I))
      as (b' & r & C & W' & ND' & Sub & Live & Out).
    { rewrite (L_size _ (I_wf _ _ I)). lia. }
    rewrite C. pose proof (Inv_swap_pq st s b' I W' ND' Sub Live) as I'.
    destruct Out as [[-> E]|[-> (e & b2 & t & HL)]].
    - pose proof (empty_pq_empty_spec _ _ I' E) as Es. subst s. simpl.
      split; [destruct d as [[t0|v0]|]; reflexivity | exact I'].
    - destruct (head_is_best _ _ e b2 t I' HL) as [Hb _].
      destruct HL as (F & P & W2 & Pm & Hmin & T). rewrite F, T. simpl. rewrite Hb. simpl.
      split; [reflexivity|exact I'].
  Qed.

  (* ---- pop -------------------------------------------------------------------------- *)
  Lemma pop_present st s e b2 t :
    Inv st s -> head_live (q_pq bk st) e b2 t ->
    Inv (mkPQ bk b2 (d_del (q_map bk st) t) (q_counter bk st)) (s_del s t).
  Proof.
    intros I HL. destruct (head_is_best _ _ e b2 t I HL) as [_ Hin].
    destruct HL as (F & P & W2 & Pm & Hmin & T).
    destruct I as [W ND BD KS SS LK AB]. simpl in *.
    assert (He : e = (e_prio e, e_cnt e, Some t)).
    { destruct e as [[p c] tk]. simpl in *. unfold e_task in T. simpl in T. now subst tk. }
    assert (NDc : NoDup (map e_cnt (e :: elems b2))).
    { eapply Permutation_NoDup; [apply Permutation_map; exact Pm | exact ND]. }
    inversion NDc as [|? ? Hnot ND2]; subst.
    constructor; simpl.
    - exact W2.
    - exact ND2.
    - intros x Hx. apply BD. apply (Permutation_in _ (Permutation_sym Pm)). now right.
    - rewrite d_del_filter by exact KS. now apply NoDup_map_filter.
    - rewrite d_del_filter by exact KS. unfold cnts_of. now apply StronglySorted_map_filter.
    - intros t' p' c'. rewrite d_del_filter by exact KS. rewrite filter_In. simpl. split.
      + intros [H1 H2]. apply negb_true_iff, Nat.eqb_neq in H2.
        apply LK in H1. apply (Permutation_in _ Pm) in H1. destruct H1 as [E1|H1]; [|exact H1].
        exfalso. apply H2. rewrite He in E1. congruence.
      + intro H. assert (H1 : In (t', (p', c')) (q_map bk st)).
        { apply LK. apply (Permutation_in _ (Permutation_sym Pm)). now right. }
        split; [exact H1|]. apply negb_true_iff, Nat.eqb_neq. intro Et. subst t'.
        assert (Epc : (p', c') = (e_prio e, e_cnt e)).
        { pose proof (proj2 (d_get_In _ _ _ KS) H1). pose proof (proj2 (d_get_In _ _ _ KS) Hin). congruence. }
        apply Hnot. apply in_map_iff. exists (p', c', Some t). split; [|exact H].
        inversion Epc. reflexivity.
    - symmetry. now apply abs_del.
  Qed.

  Lemma step_pop st s d :
    Inv st s ->
    snd (q_pop bk st d) = snd (spec_step s (Pop d)) /\
    Inv (fst (q_pop bk st d)) (fst (spec_step s (Pop d))).
  Proof.
    intro I. unfold q_pop.
    destruct (cull_spec (b_size bk (q_pq bk st)) (q_pq bk st) (I_wf _ _ I) (I_nodup _ _ I))
      as (b' & r & C & W' & ND' & Sub & Live & Out).
    { rewrite (L_size _ (I_wf _ _ I)). lia. }
    rewrite C. pose proof (Inv_swap_pq st s b' I W' ND' Sub Live) as I'.
    destruct Out as [[-> E]|[-> (e & b2 & t & HL)]].
    - pose proof (empty_pq_empty_spec _ _ I' E) as Es. subst s. simpl.
      split; [destruct d as [[t0|v0]|]; reflexivity | exact I'].
    - destruct (head_is_best _ _ e b2 t I' HL) as [Hb Hin].
      pose proof (pop_present _ _ e b2 t I' HL) as I2.
      destruct HL as (F & P & W2 & Pm & Hmin & T). rewrite P, T. simpl in Hin.
      assert (Hm : d_mem (q_map bk st) t = true).
      { rewrite d_mem_get. apply (d_get_In _ _ _ (I_keys _ _ I)) in Hin. now rewrite Hin. }
      rewrite Hm. simpl. rewrite Hb. simpl. split; [reflexivity|exact I2].
  Qed.

  (* ---- one step, whole histories ------------------------------------------------------ *)
  Lemma step_refines st s op :
    Inv st s ->
    snd (q_step bk st op) = snd (spec_step s op) /\
    Inv (fst (q_step bk st op)) (fst (spec_step s op)).
  Proof.
    intro I. destruct op as [t p|t e|t|d|d|].
    - pose proof (step_add st s t p I) as H. unfold q_step.
      destruct (q_add bk st t p) as [st' r]. destruct (spec_step s (Add t p)) as [s' o].
      simpl. exact H.
    - simpl. split; [reflexivity|exact I].
    - pose proof (step_remove st s t I) as H. unfold q_step.
      destruct (q_remove bk st t) as [st' r]. destruct (spec_step s (Remove t)) as [s' o].
      simpl. exact H.
    - now apply step_pop.
    - now apply step_peek.
    - simpl. split; [|exact I]. rewrite (I_abs _ _ I). unfold abs. now rewrite map_length.
  Qed.

  Theorem run_refines : forall ops st s, Inv st s -> q_run bk st ops = spec_run s ops.
  Proof.
    induction ops as [|op ops IH]; intros st s I; [reflexivity|].
    simpl. destruct (step_refines st s op I) as [Ho Hi].
    destruct (q_step bk st op) as [st' o]. destruct (spec_step s op) as [s' o'].
    simpl in *. subst o'. f_equal. now apply IH.
  Qed.

  Corollary queue_refines_spec ops : q_run bk (q_init bk) ops = spec_run [] ops.
  Proof. apply run_refines. exact Inv_init. Qed.
End Refinement.

(* ------------------------------------------------------------------------ *)
(* heapq by contract is a lawful back end                                    *)
(* ------------------------------------------------------------------------ *)
Lemma least_spec : forall r x,
  NoDup (map e_cnt (x :: r)) ->
  In (least x r) (x :: r) /\
  (forall y, In y (x :: r) -> y = least x r \/ entry_ltb (least x r) y = true).
Proof.
  induction r as [|a r IH]; intros x ND.
  - simpl. split; [now left|]. intros y [E|[]]. now left.
  - simpl least. set (x' := if entry_ltb a x then a else x).
    assert (Hxa : e_cnt x <> e_cnt a).
    { simpl in ND. inversion ND as [|? ? H _]; subst. intro E. apply H. left. now symmetry. }
    assert (ND' : NoDup (map e_cnt (x' :: r))).
    { simpl in ND. inversion ND as [|? ? H1 ND1]; subst. inversion ND1 as [|? ? H2 ND2]; subst.
      simpl. unfold x'. destruct (entry_ltb a x); constructor; auto.
      intro H. apply H1. now right. }
    destruct (IH x' ND') as [Hin Hmin].
    assert (Hother : forall y, (y = x \/ y = a) -> y = x' \/ entry_ltb x' y = true).
    { intros y [E|E]; subst y; unfold x'; destruct (entry_ltb a x) eqn:L; auto.
      right. destruct (entry_ltb_total x a Hxa) as [T|T]; [exact T|congruence]. }
    split.
    + destruct Hin as [E|Hin]; [|right; right; exact Hin].
      rewrite <- E. unfold x'. destruct (entry_ltb a x); [right; left|left]; reflexivity.
    + intros y Hy.
      assert (Hc : (y = x \/ y = a) \/ In y r).
      { destruct Hy as [E|[E|Hy]]; [left; left|left; right|right]; auto. }
      destruct Hc as [Hc|Hc].
      * destruct (Hother y Hc) as [E|L].
        -- subst y. apply Hmin. now left.
        -- destruct (Hmin x' (or_introl eq_refl)) as [E|L'].
           ++ right. now rewrite <- E.
           ++ right. eapply entry_ltb_trans; eauto.
      * apply Hmin. now right.
Qed.

Lemma remove_cnt_perm : forall h m,
  NoDup (map e_cnt h) -> In m h -> Permutation h (m :: remove_cnt (e_cnt m) h).
Proof.
  induction h as [|x r IH]; intros m ND Hin; [destruct Hin|].
  simpl in ND. inversion ND as [|? ? Hx ND']; subst. simpl.
  destruct Hin as [E|Hin].
  - subst m. rewrite Nat.eqb_refl. apply Permutation_refl.
  - destruct (Nat.eqb_spec (e_cnt x) (e_cnt m)) as [E|N].
    + exfalso. apply Hx. rewrite E. now apply in_map.
    + eapply Permutation_trans; [apply perm_skip; apply (IH m ND' Hin)|]. apply perm_swap.
Qed.

Theorem heap_refines_spec ops :
  q_run heap_backend (q_init heap_backend) ops = spec_run [] ops.
Proof.
  apply (queue_refines_spec heap_backend (fun h => h) (fun _ => True)).
  - split; [exact I|reflexivity].
  - intros b _. destruct b; reflexivity.
  - intros b _. reflexivity.
  - intros b e _ _. exists (b ++ [e]). split; [reflexivity|]. split; [exact I|].
    apply Permutation_sym, Permutation_cons_append.
  - intros b _ ND Hne. destruct b as [|x r]; [congruence|]. simpl in *.
    destruct (least_spec r x ND) as [Hin Hmin].
    exists (least x r), (remove_cnt (e_cnt (least x r)) (x :: r)).
    split; [reflexivity|]. split; [reflexivity|]. split; [exact I|].
    pose proof (remove_cnt_perm (x :: r) (least x r) ND Hin) as Pm.
    split; [exact Pm|].
    intros e' He'.
    assert (In e' (x :: r)) by (apply (Permutation_in _ (Permutation_sym Pm)); now right).
    destruct (Hmin e' H) as [E|L]; [|exact L].
    exfalso. subst e'.
    assert (NDp : NoDup (map e_cnt (least x r :: remove_cnt (e_cnt (least x r)) (x :: r)))).
    { eapply Permutation_NoDup; [apply Permutation_map; exact Pm|exact ND]. }
    inversion NDp as [|? ? Hn _]; subst. apply Hn. now apply in_map.
  - intros b c _. split; [exact I|reflexivity].
Qed.

(* ------------------------------------------------------------------------ *)
(* the sorted BarrelList is a lawful back end, for every size limit           *)
(* ------------------------------------------------------------------------ *)
Definition elt (x y : entry) : Prop := entry_ltb x y = true.

Lemma StronglySorted_nth {X} (R : X -> X -> Prop) (l : list X) :
  StronglySorted R l -> forall j1 j2 a b, j1 < j2 ->
  nth_error l j1 = Some a -> nth_error l j2 = Some b -> R a b.
Proof.
  induction 1 as [|x r S IH F]; intros j1 j2 a b Hlt E1 E2.
  - destruct j1; discriminate.
  - destruct j2 as [|j2]; [lia|]. destruct j1 as [|j1]; simpl in *.
    + inversion E1; subst. rewrite Forall_forall in F. apply F. eapply nth_error_In; eauto.
    + eapply IH; [|eauto|eauto]. lia.
Qed.

Lemma StronglySorted_insert {X} (R : X -> X -> Prop) (l1 l2 : list X) (x : X) :
  StronglySorted R (l1 ++ l2) ->
  (forall y, In y l1 -> R y x) -> (forall y, In y l2 -> R x y) ->
  StronglySorted R (l1 ++ x :: l2).
Proof.
  induction l1 as [|a r IH]; simpl; intros S H1 H2.
  - constructor; [exact S|]. apply Forall_forall. exact H2.
  - inversion S as [|? ? S' F]; subst. constructor.
    + apply IH; auto.
    + rewrite Forall_forall in *. intros y Hy. apply in_app_iff in Hy as [Hy|[Hy|Hy]].
      * apply F. apply in_app_iff. now left.
      * subst y. apply H1. now left.
      * apply F. apply in_app_iff. now right.
Qed.

Lemma StronglySorted_map {X Y} (R : X -> X -> Prop) (R' : Y -> Y -> Prop) (f : X -> Y) (l : list X) :
  (forall a b, R a b -> R' (f a) (f b)) -> StronglySorted R l -> StronglySorted R' (map f l).
Proof.
  intros Hf. induction 1 as [|x r S IH F]; simpl; constructor; [exact IH|].
  rewrite Forall_forall in *. intros y Hy. apply in_map_iff in Hy as (z & <- & Hz). auto.
Qed.

Definition sorted_wf (b : barrel (A := entry)) : Prop :=
  b <> [] /\ StronglySorted elt (concat b).

Lemma sorted_step_on (l : list entry) (x : entry) :
  StronglySorted elt l -> step_on entry_ltb x l.
Proof.
  intros S j1 j2 y1 y2 Hle E1 E2 L.
  destruct (Nat.eq_dec j1 j2) as [->|N]; [congruence|].
  assert (elt y1 y2) by (eapply (StronglySorted_nth elt l S j1 j2); eauto; lia).
  eapply entry_ltb_trans; eauto.
Qed.

Theorem sorted_refines_spec (limit : nat -> nat) ops :
  q_run (sorted_backend limit) (q_init (sorted_backend limit)) ops = spec_run [] ops.
Proof.
  apply (queue_refines_spec (sorted_backend limit) (fun b => concat b) sorted_wf).
  - split; [split; [discriminate|constructor]|reflexivity].
  - intros b _. simpl. rewrite bl_len_concat. destruct (concat b); reflexivity.
  - intros b _. simpl. apply bl_len_concat.
  - intros b e [Hne S] Hfresh. simpl.
    destruct (bl_insort_flat limit entry_ltb b e Hne (sorted_step_on _ e S))
      as (r & b' & E & Hne' & F & Hr & Hlo & Hup).
    exists b'. split; [exact E|].
    unfold sorted_wf. rewrite F. unfold list_insert. split; [split; [exact Hne'|]|].
    + apply StronglySorted_insert.
      * rewrite firstn_skipn. exact S.
      * intros y Hy. pose proof (Hlo y Hy) as L.
        assert (Hc : e_cnt e <> e_cnt y).
        { intro Ec. apply Hfresh. rewrite Ec. apply in_map.
          rewrite <- (firstn_skipn r (concat b)). apply in_app_iff. now left. }
        destruct (entry_ltb_total e y Hc) as [T|T]; [congruence|exact T].
      * intros y Hy. exact (Hup y Hy).
    + rewrite <- (firstn_skipn r (concat b)) at 3. apply Permutation_sym, Permutation_middle.
  - intros b [Hne S] ND Hne2. simpl.
    destruct (concat b) as [|e rest] eqn:Ec; [congruence|].
    exists e.
    pose proof (bl_pop_flat limit b 0 Hne) as P. rewrite Ec in P. simpl in P.
    destruct P as (b' & P1 & P2 & P3). exists b'.
    split.
    { change 0%Z with (Z.of_nat 0). rewrite (bl_get_flat b 0 Hne), Ec. reflexivity. }
    split; [exact P1|].
    unfold list_remove in P2. simpl in P2. rewrite <- P2 in S.
    inversion S as [|? ? S' F].
    split; [split; [exact P3|exact S']|].
    rewrite P2. split; [apply Permutation_refl|].
    rewrite <- P2. rewrite Forall_forall in F. exact F.
  - intros b c [Hne S]. simpl. unfold sorted_wf. rewrite <- concat_map. split; [split|reflexivity].
    + destruct b; [congruence|discriminate].
    + apply (StronglySorted_map elt elt (tomb c)); [|exact S].
      intros x y L. unfold elt. now rewrite entry_ltb_tomb.
Qed.

(* observational identity of the two classes *)
Corollary heap_sorted_equiv (limit : nat -> nat) ops :
  q_run heap_backend (q_init heap_backend) ops =
  q_run (sorted_backend limit) (q_init (sorted_backend limit)) ops.
Proof. now rewrite heap_refines_spec, sorted_refines_spec. Qed.
