(* (T) tie: the Gallina text regenerated from the current source of
   strutils.int_ranges_from_int_list computes the same function as the model. *)
From Boltons Require Import Lib.Prelude Lib.C14_Text Model.C14_Model.
From Boltons Require Import Gen.C14_Src Proofs.C14_SrcEqParse.
Open Scope Z_scope.

(* the model's treatment of one piece *)
Definition mbounds (bounds : text) : res (Z * Z) :=
  if memN c_minus bounds then
    match split1 c_minus bounds with
    | [a; b] => match py_int a, py_int b with
                | Ok x, Ok y => Ok (x, y)
                | Raise e, _ => Raise e
                | _, Raise e => Raise e
                end
    | _ => Raise ValueError
    end
  else match py_int bounds with Ok x => Ok (x, x) | Raise e => Raise e end.

Theorem src_int_ranges_from_int_list_eq s delim rdelim :
  src_int_ranges_from_int_list s delim rdelim = int_ranges_from_int_list s delim rdelim.
Proof.
  unfold src_int_ranges_from_int_list, int_ranges_from_int_list. rewrite src_parse_int_list_eq.
  destruct (parse_int_list s delim rdelim) as [ints|e]; [|reflexivity].
  unfold src_int_ranges_tail. cbv zeta.
  change [44%N] with [c_comma]. change [45%N] with [c_minus].
  set (rs := format_int_list [c_comma] [c_minus] ints false).
  destruct rs as [|c0 rs'] eqn:Ers; [reflexivity|]. cbn [src_nonempty is_nil].
  match goal with |- context [map_res ?g _] => change g with mbounds end.
  match goal with |- context [fold_left ?f _ ?i] => set (F := f) end.
  assert (Hstep : forall x s0 e0 acc, exists s1 e1,
             F (None, s0, e0, acc) x
             = (match mbounds x with Ok _ => None | Raise e => Some e end, s1, e1,
                match mbounds x with Ok p => acc ++ [p] | Raise _ => acc end)).
  { intros x s0 e0 acc. subst F. cbv beta iota zeta. unfold mbounds.
    change 45%N with c_minus.
    destruct (memN c_minus x).
    - destruct (split1 c_minus x) as [|p [|q [|r l]]]; try (eexists; eexists; reflexivity).
      destruct (py_int p); [|eexists; eexists; reflexivity].
      destruct (py_int q); eexists; eexists; reflexivity.
    - destruct (py_int x); eexists; eexists; reflexivity. }
  assert (Herr : forall xs e s0 e0 acc, exists s1 e1, fold_left F xs (Some e, s0, e0, acc) = (Some e, s1, e1, acc)).
  { induction xs as [|x xs IH]; intros e s0 e0 acc; [eexists; eexists; reflexivity|].
    cbn [fold_left].
    assert (E : exists s1 e1, F (Some e, s0, e0, acc) x = (Some e, s1, e1, acc)).
    { subst F. cbv beta iota zeta. destruct (memN 45 x); eexists; eexists; reflexivity. }
    destruct E as (s1 & e1 & E). rewrite E. apply IH. }
  assert (Hok : forall xs s0 e0 acc,
             (let '(err, _, _, t) := fold_left F xs (None, s0, e0, acc) in
              match err with Some e => Raise e | None => Ok t end)
             = match map_res mbounds xs with Raise e => Raise e | Ok l => Ok (acc ++ l) end).
  { induction xs as [|x xs IH]; intros s0 e0 acc.
    - cbn. rewrite app_nil_r. reflexivity.
    - cbn [fold_left map_res]. destruct (Hstep x s0 e0 acc) as (s1 & e1 & E). rewrite E.
      destruct (mbounds x) as [p|e].
      + rewrite IH. destruct (map_res mbounds xs); [rewrite <- app_assoc|]; reflexivity.
      + destruct (Herr xs e s1 e1 acc) as (s2 & e2 & H). rewrite H. reflexivity. }
  change 44%N with c_comma.
  generalize (split1 c_comma (c0 :: rs')). intro xs.
  assert (Hok' : forall init s0 e0 acc, init = (None, s0, e0, acc) ->
             (let '(err, _, _, t) := fold_left F xs init in
              match err with Some e => Raise e | None => Ok t end)
             = match map_res mbounds xs with Raise e => Raise e | Ok l => Ok (acc ++ l) end).
  { intros init s0 e0 acc ->. apply Hok. }
  match goal with |- context [fold_left F xs ?i] =>
    pose proof (Hok' i [] [] [] eq_refl) as H0;
    destruct (fold_left F xs i) as [[[err s1] e1] t]
  end.
  match goal with |- _ = ?rhs => change rhs with (map_res mbounds xs) end.
  destruct (map_res mbounds xs) as [l|e]; destruct err; cbn [app] in H0; cbv beta iota; congruence.
Qed.
