(* C09: redundant — the seen / redundant_order / redundant_groups loop reports
   exactly the second sightings, in order, and (groups=True) all elements of
   each such key. *)
From Boltons Require Import Lib.Prelude Spec.C09_Spec Model.C09_Model Proofs.C09_Group.

(* ---- pydict facts ------------------------------------------------------------ *)
Lemma d_get_set_same {B} (d : pydict B) k v : d_get (d_set d k v) k = Some v.
Proof.
  induction d as [|[k' v'] d IH]; cbn [d_set d_get].
  - rewrite Nat.eqb_refl. reflexivity.
  - destruct (Nat.eqb k k') eqn:E; cbn [d_get]; rewrite E; [reflexivity|exact IH].
Qed.

Lemma d_get_set_other {B} (d : pydict B) k k2 v : k2 <> k -> d_get (d_set d k v) k2 = d_get d k2.
Proof.
  intro H. induction d as [|[k' v'] d IH]; cbn [d_set d_get].
  - apply Nat.eqb_neq in H. rewrite H. reflexivity.
  - destruct (Nat.eqb k k') eqn:E; cbn [d_get].
    + apply Nat.eqb_eq in E. subst k'. apply Nat.eqb_neq in H. rewrite H. reflexivity.
    + destruct (Nat.eqb k2 k'); [reflexivity|exact IH].
Qed.

Section Redundant.
  Variable key : K -> K.

  (* the elements of p whose key is k, in order *)
  Definition fk (k : K) (p : list K) : list K := filter (fun y => Nat.eqb (key y) k) p.
  Definition keepR (bef : list K) (k : K) : bool := N.eqb (count_nat k bef) 1.
  Definition R (p : list K) : list K := spec_redundant key p.

  Lemma fk_snoc k p i : fk k (p ++ [i]) = fk k p ++ (if Nat.eqb (key i) k then [i] else []).
  Proof. unfold fk. rewrite filter_app. cbn [filter]. destruct (Nat.eqb (key i) k); reflexivity. Qed.

  Lemma count_fk k p : count_nat k (map key p) = N.of_nat (length (fk k p)).
  Proof.
    induction p as [|y p IH]; [reflexivity|].
    cbn [map count_nat fk filter]. fold (fk k p). rewrite IH, (Nat.eqb_sym k (key y)).
    destruct (Nat.eqb (key y) k); cbn [length]; lia.
  Qed.

  Lemma keepR_fk k p : keepR (map key p) k = Nat.eqb (length (fk k p)) 1.
  Proof.
    unfold keepR. rewrite count_fk.
    destruct (Nat.eqb (length (fk k p)) 1) eqn:E.
    - apply Nat.eqb_eq in E. rewrite E. reflexivity.
    - apply Nat.eqb_neq in E. apply N.eqb_neq. lia.
  Qed.

  Lemma R_snoc p i : R (p ++ [i]) = R p ++ (if Nat.eqb (length (fk (key i) p)) 1 then [i] else []).
  Proof.
    unfold R, spec_redundant. rewrite select_snoc. cbn [app].
    change (N.eqb (count_nat (key i) (map key p)) 1) with (keepR (map key p) (key i)).
    rewrite keepR_fk. reflexivity.
  Qed.

  (* every reported element is the second one of its key *)
  Lemma R_second : forall p x,
    In x (R p) -> 2 <= length (fk (key x) p) /\ nth 1 (fk (key x) p) 0 = x.
  Proof.
    induction p as [|i p IH] using rev_ind; intros x H; [destruct H|].
    rewrite R_snoc in H. apply in_app_or in H as [H|H].
    - destruct (IH x H) as [L N]. rewrite fk_snoc, app_length. split; [lia|].
      rewrite app_nth1 by lia. exact N.
    - destruct (Nat.eqb (length (fk (key i) p)) 1) eqn:E; [|destruct H].
      destruct H as [<-|[]]. apply Nat.eqb_eq in E.
      rewrite fk_snoc, Nat.eqb_refl, app_length. cbn [length]. split; [lia|].
      rewrite app_nth2 by lia. rewrite E. reflexivity.
  Qed.

  (* ---- the loop invariant ------------------------------------------------------ *)
  Definition grp (groups : bool) (k : K) (p : list K) : list K := if groups then fk k p else firstn 2 (fk k p).

  Record Inv (groups : bool) (p : list K) (s : red_state) : Prop := {
    i_seen : forall k, d_get (r_seen s) k = hd_error (fk k p);
    i_order : r_order s = map key (R p);
    i_groups : forall k, d_get (r_groups s) k
                         = if 2 <=? length (fk k p) then Some (grp groups k p) else None
  }.

  Lemma Inv_init groups : Inv groups [] (mkRed [] [] []).
  Proof. constructor; intros; reflexivity. Qed.

  Lemma hd_error_app_nonempty {A} (a b : list A) : a <> [] -> hd_error (a ++ b) = hd_error a.
  Proof. destruct a; [congruence|reflexivity]. Qed.

  Lemma fk_snoc' k k2 p i : key i = k ->
    fk k2 (p ++ [i]) = fk k2 p ++ (if Nat.eqb k k2 then [i] else []).
  Proof. intros <-. apply fk_snoc. Qed.

  Lemma R_snoc' k p i : key i = k ->
    R (p ++ [i]) = R p ++ (if Nat.eqb (length (fk k p)) 1 then [i] else []).
  Proof. intros <-. apply R_snoc. Qed.

  Lemma Inv_step groups p s i : Inv groups p s -> Inv groups (p ++ [i]) (red_step key groups s i).
  Proof.
    intros [I1 I2 I3]. unfold red_step. cbv zeta.
    remember (key i) as k eqn:Ek. symmetry in Ek.
    pose proof (I1 k) as S1. pose proof (I3 k) as G1.
    destruct (d_get (r_seen s) k) as [first|] eqn:Es.
    - (* key seen before *)
      destruct (fk k p) as [|f0 rest] eqn:Ef; [discriminate|]. injection S1 as ->.
      destruct (d_get (r_groups s) k) as [g|] eqn:Eg.
      + (* already a redundant key *)
        destruct (2 <=? length (f0 :: rest)) eqn:E2; [|discriminate]. injection G1 as ->.
        apply Nat.leb_le in E2.
        assert (Hlen : Nat.eqb (length (fk k p)) 1 = false).
        { rewrite Ef. apply Nat.eqb_neq. lia. }
        assert (H : Inv groups (p ++ [i]) (if groups then mkRed (r_seen s) (r_order s) (d_set (r_groups s) k (grp groups k p ++ [i])) else s)).
        { constructor.
          - intro k2. replace (r_seen (if groups then _ else s)) with (r_seen s) by (destruct groups; reflexivity).
            rewrite I1, (fk_snoc' k) by exact Ek. destruct (Nat.eqb k k2) eqn:E.
            + apply Nat.eqb_eq in E. subst k2. rewrite Ef. reflexivity.
            + rewrite app_nil_r. reflexivity.
          - replace (r_order (if groups then _ else s)) with (r_order s) by (destruct groups; reflexivity).
            rewrite I2, (R_snoc' k) by exact Ek. rewrite Hlen, app_nil_r. reflexivity.
          - intro k2. destruct (Nat.eq_dec k2 k) as [Heq|Hne].
            + subst k2. rewrite (fk_snoc' k) by exact Ek. rewrite Nat.eqb_refl, Ef, app_length.
              assert (2 <=? length (f0 :: rest) + length [i] = true) as -> by (apply Nat.leb_le; cbn [length] in *; lia).
              unfold grp. rewrite (fk_snoc' k) by exact Ek. rewrite Nat.eqb_refl, Ef.
              destruct groups.
              * cbn [r_groups]. rewrite d_get_set_same. reflexivity.
              * rewrite I3, Ef. assert (2 <=? length (f0 :: rest) = true) as -> by (apply Nat.leb_le; lia).
                unfold grp. rewrite Ef. f_equal. rewrite firstn_app.
                replace (2 - length (f0 :: rest)) with 0 by lia. rewrite app_nil_r. reflexivity.
            + assert (Hk : Nat.eqb k k2 = false) by (apply Nat.eqb_neq; congruence).
              assert (Hfk : fk k2 (p ++ [i]) = fk k2 p) by (rewrite (fk_snoc' k) by exact Ek; rewrite Hk, app_nil_r; reflexivity).
              unfold grp. rewrite Hfk. destruct groups.
              * cbn [r_groups]. rewrite d_get_set_other by exact Hne. rewrite I3. reflexivity.
              * rewrite I3. reflexivity. }
        unfold grp in H at 1. unfold grp. destruct groups; exact H.
      + (* second sighting *)
        destruct (2 <=? length (f0 :: rest)) eqn:E2; [discriminate|]. apply Nat.leb_gt in E2.
        assert (rest = []) as -> by (destruct rest; [reflexivity|cbn [length] in E2; lia]).
        assert (Hlen : Nat.eqb (length (fk k p)) 1 = true) by (rewrite Ef; reflexivity).
        constructor; cbn [r_seen r_order r_groups].
        * intro k2. rewrite I1, (fk_snoc' k) by exact Ek. destruct (Nat.eqb k k2) eqn:E.
          -- apply Nat.eqb_eq in E. subst k2. rewrite Ef. reflexivity.
          -- rewrite app_nil_r. reflexivity.
        * rewrite I2, (R_snoc' k) by exact Ek. rewrite Hlen, map_app. cbn [map]. rewrite Ek. reflexivity.
        * intro k2. destruct (Nat.eq_dec k2 k) as [Heq|Hne].
          -- subst k2. rewrite d_get_set_same. unfold grp. rewrite (fk_snoc' k) by exact Ek.
             rewrite Nat.eqb_refl, Ef.
             cbn [app length Nat.leb firstn]. destruct groups; reflexivity.
          -- rewrite d_get_set_other by exact Hne.
             assert (Hk : Nat.eqb k k2 = false) by (apply Nat.eqb_neq; congruence).
             unfold grp. rewrite (fk_snoc' k) by exact Ek. rewrite Hk, app_nil_r. apply I3.
    - (* first sighting *)
      symmetry in S1. assert (Ef : fk k p = []) by (destruct (fk k p); [reflexivity|discriminate]).
      assert (Hlen : Nat.eqb (length (fk k p)) 1 = false) by (rewrite Ef; reflexivity).
      constructor; cbn [r_seen r_order r_groups].
      + intro k2. destruct (Nat.eq_dec k2 k) as [Heq|Hne].
        * subst k2. rewrite d_get_set_same, (fk_snoc' k) by exact Ek. rewrite Nat.eqb_refl, Ef. reflexivity.
        * rewrite d_get_set_other by exact Hne.
          assert (Hk : Nat.eqb k k2 = false) by (apply Nat.eqb_neq; congruence).
          rewrite (fk_snoc' k) by exact Ek. rewrite Hk, app_nil_r. apply I1.
      + rewrite I2, (R_snoc' k) by exact Ek. rewrite Hlen, app_nil_r. reflexivity.
      + intro k2. rewrite I3. unfold grp. rewrite (fk_snoc' k) by exact Ek.
        destruct (Nat.eqb k k2) eqn:E.
        * apply Nat.eqb_eq in E. subst k2. rewrite Ef. reflexivity.
        * rewrite app_nil_r. reflexivity.
  Qed.

  Lemma Inv_run groups l : Inv groups l (red_run key groups l).
  Proof.
    unfold red_run. induction l as [|i l IH] using rev_ind; [exact (Inv_init groups)|].
    rewrite fold_left_app. cbn [fold_left]. apply Inv_step. exact IH.
  Qed.
End Redundant.

Lemma m_redundant_spec key l : m_redundant key l = spec_redundant key l.
Proof.
  unfold m_redundant. destruct (Inv_run key false l) as [_ I2 I3].
  rewrite I2, map_map. transitivity (map (fun x : K => x) (spec_redundant key l)); [|apply map_id].
  apply map_ext_in. intros x Hx. destruct (R_second key l x Hx) as [L N].
  unfold group_of. rewrite I3. apply Nat.leb_le in L. rewrite L. unfold grp.
  rewrite <- N at 2. clear -L. apply Nat.leb_le in L.
  destruct (fk key (key x) l) as [|a [|b t]]; cbn [length] in L; try lia. reflexivity.
Qed.

Lemma m_redundant_groups_spec key l : m_redundant_groups key l = spec_redundant_groups key l.
Proof.
  unfold m_redundant_groups, spec_redundant_groups. destruct (Inv_run key true l) as [_ I2 I3].
  rewrite I2, map_map. apply map_ext_in. intros x Hx. destruct (R_second key l x Hx) as [L _].
  unfold group_of. rewrite I3. apply Nat.leb_le in L. rewrite L. reflexivity.
Qed.

(* ---- laws of the reference ------------------------------------------------------- *)
(* exactly the keys seen more than once are reported, each once *)
Lemma count_nat_app k a b : count_nat k (a ++ b) = (count_nat k a + count_nat k b)%N.
Proof. induction a as [|y a IH]; cbn [app count_nat]; [reflexivity|]. rewrite IH. lia. Qed.

Lemma redundant_reports_key key : forall p k,
  In k (map key (spec_redundant key p)) <-> 2 <= length (fk key k p).
Proof.
  induction p as [|i p IH] using rev_ind; intro k.
  - cbn. split; [intros []|lia].
  - change (spec_redundant key (p ++ [i])) with (R key (p ++ [i])).
    rewrite R_snoc, map_app, in_app_iff, fk_snoc, app_length. unfold R. rewrite IH.
    destruct (Nat.eqb (key i) k) eqn:E.
    + apply Nat.eqb_eq in E. subst k. cbn [length].
      destruct (Nat.eqb (length (fk key (key i) p)) 1) eqn:E1.
      * apply Nat.eqb_eq in E1. cbn [map In]. split; [lia|]. intro. right. left. reflexivity.
      * apply Nat.eqb_neq in E1. cbn [map In]. split; [intros [H|[]]; lia|]. intro. left. lia.
    + cbn [length]. apply Nat.eqb_neq in E.
      destruct (Nat.eqb (length (fk key (key i) p)) 1); cbn [map In]; split.
      * intros [H|[H|[]]]; [lia|congruence].
      * intro H. left. lia.
      * intros [H|[]]. lia.
      * intro H. left. lia.
Qed.

Lemma nodup_snoc {A} (a : list A) k : NoDup a -> ~ In k a -> NoDup (a ++ [k]).
Proof.
  induction a as [|x a IH]; intros N H; cbn [app].
  - constructor; [intros []|constructor].
  - inversion N as [|? ? Hx N']; subst. constructor.
    + intro HI. apply in_app_or in HI as [HI|[HI|[]]]; [contradiction|]. subst. apply H. left. reflexivity.
    + apply IH; [exact N'|]. intro HI. apply H. right. exact HI.
Qed.

Lemma redundant_keys_nodup key : forall p, NoDup (map key (spec_redundant key p)).
Proof.
  induction p as [|i p IH] using rev_ind; [constructor|].
  change (spec_redundant key (p ++ [i])) with (R key (p ++ [i])). rewrite R_snoc, map_app. unfold R.
  destruct (Nat.eqb (length (fk key (key i) p)) 1) eqn:E; cbn [map]; [|rewrite app_nil_r; exact IH].
  apply Nat.eqb_eq in E. apply nodup_snoc; [exact IH|].
  intro HI. apply redundant_reports_key in HI. lia.
Qed.
