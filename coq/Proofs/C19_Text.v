(* Text-mode files and multi-byte characters: UTF-8 never produces a \n or \r byte inside a
   multi-byte sequence, so splitting the bytes and decoding line by line is the same as
   decoding and splitting the text; strict decode inverts encode on scalar values. *)
From Coq Require Import ZArith List Bool Lia ZifyBool.
From Boltons Require Import Lib.Prelude Lib.C19_Utf8 Spec.C19_Spec Model.C19_Model
     Proofs.C19_Split Proofs.C19_Reverse.
Open Scope N_scope.

Ltac Zify.zify_post_hook ::= Z.to_euclidean_division_equations.

(* ---- decode . encode = id --------------------------------------------------------- *)
Lemma dec1 b0 rest : b0 < 128 -> utf8_decode (b0 :: rest) = option_map (cons b0) (utf8_decode rest).
Proof. intros H. cbn [utf8_decode]. destruct (b0 <? 128) eqn:E; [reflexivity|lia]. Qed.

Lemma dec2 b0 b1 rest : 194 <= b0 <= 223 -> 128 <= b1 <= 191 ->
  utf8_decode (b0 :: b1 :: rest) = option_map (cons ((b0 - 192) * 64 + (b1 - 128))) (utf8_decode rest).
Proof.
  intros H0 H1. cbn [utf8_decode].
  destruct (b0 <? 128) eqn:E1; [lia|].
  destruct ((194 <=? b0) && (b0 <=? 223)) eqn:E2; [|lia].
  unfold is_cont. destruct ((128 <=? b1) && (b1 <=? 191)) eqn:E3; [reflexivity|lia].
Qed.

Lemma dec3 b0 b1 b2 rest : 224 <= b0 <= 239 -> 128 <= b1 <= 191 -> 128 <= b2 <= 191 ->
  (b0 = 224 -> 160 <= b1) -> (b0 = 237 -> b1 <= 159) ->
  utf8_decode (b0 :: b1 :: b2 :: rest)
  = option_map (cons ((b0 - 224) * 4096 + (b1 - 128) * 64 + (b2 - 128))) (utf8_decode rest).
Proof.
  intros H0 H1 H2 A B. cbn [utf8_decode].
  destruct (b0 <? 128) eqn:E1; [lia|].
  destruct ((194 <=? b0) && (b0 <=? 223)) eqn:E2; [lia|].
  destruct ((224 <=? b0) && (b0 <=? 239)) eqn:E3; [|lia].
  unfold is_cont.
  destruct ((128 <=? b1) && (b1 <=? 191) && ((128 <=? b2) && (b2 <=? 191))
            && (negb (b0 =? 224) || (160 <=? b1)) && (negb (b0 =? 237) || (b1 <=? 159))) eqn:E4;
    [reflexivity|lia].
Qed.

Lemma dec4 b0 b1 b2 b3 rest : 240 <= b0 <= 244 -> 128 <= b1 <= 191 -> 128 <= b2 <= 191 -> 128 <= b3 <= 191 ->
  (b0 = 240 -> 144 <= b1) -> (b0 = 244 -> b1 <= 143) ->
  utf8_decode (b0 :: b1 :: b2 :: b3 :: rest)
  = option_map (cons ((b0 - 240) * 262144 + (b1 - 128) * 4096 + (b2 - 128) * 64 + (b3 - 128))) (utf8_decode rest).
Proof.
  intros H0 H1 H2 H3 A B. cbn [utf8_decode].
  destruct (b0 <? 128) eqn:E1; [lia|].
  destruct ((194 <=? b0) && (b0 <=? 223)) eqn:E2; [lia|].
  destruct ((224 <=? b0) && (b0 <=? 239)) eqn:E3; [lia|].
  destruct ((240 <=? b0) && (b0 <=? 244)) eqn:E4; [|lia].
  unfold is_cont.
  destruct ((128 <=? b1) && (b1 <=? 191) && ((128 <=? b2) && (b2 <=? 191)) && ((128 <=? b3) && (b3 <=? 191))
            && (negb (b0 =? 240) || (144 <=? b1)) && (negb (b0 =? 244) || (b1 <=? 143))) eqn:E5;
    [reflexivity|lia].
Qed.

Lemma scalar_range c : is_scalar c = true -> (c < 55296 \/ 57344 <= c) /\ c < 1114112.
Proof. unfold is_scalar. lia. Qed.

Lemma dec_enc1 c rest : is_scalar c = true ->
  utf8_decode (utf8_enc1 c ++ rest) = option_map (cons c) (utf8_decode rest).
Proof.
  intros S. apply scalar_range in S. unfold utf8_enc1.
  destruct (c <? 128) eqn:E1.
  { cbn [app]. apply dec1. lia. }
  destruct (c <? 2048) eqn:E2.
  { cbn [app]. rewrite dec2 by lia. f_equal. f_equal. lia. }
  destruct (c <? 65536) eqn:E3.
  { cbn [app]. rewrite dec3 by lia. f_equal. f_equal. lia. }
  cbn [app]. rewrite dec4 by lia. f_equal. f_equal. lia.
Qed.

Theorem decode_encode : forall t, forallb is_scalar t = true -> utf8_decode (utf8_encode t) = Some t.
Proof.
  induction t as [|c t IH]; [reflexivity|]. cbn [forallb]. intros H.
  apply andb_true_iff in H as [Hc Ht]. unfold utf8_encode. cbn [flat_map].
  rewrite dec_enc1 by assumption. fold (utf8_encode t). rewrite IH by assumption. reflexivity.
Qed.

(* ---- splitting bytes = splitting text ------------------------------------------------ *)
Definition prepend_head (bs : text) (ls : list text) : list text :=
  match ls with [] => [bs] | l :: r => (bs ++ l) :: r end.

Lemma sl_prepend_nobrk brk bs rest : nobrk brk bs = true -> bs <> [] ->
  splitlines brk (bs ++ rest) = prepend_head bs (splitlines brk rest).
Proof.
  induction bs as [|x bs IH]; [congruence|]. intros F _.
  cbn [nobrk forallb] in F. apply andb_true_iff in F as [Fx Fb]. apply negb_true_iff in Fx.
  cbn [app]. rewrite sl_nobrk by assumption.
  destruct bs as [|y bs].
  - cbn [app]. destruct (splitlines brk rest); reflexivity.
  - rewrite IH by (try assumption; discriminate).
    destruct (splitlines brk rest); reflexivity.
Qed.

Lemma enc1_cases c :
  (c < 128 /\ utf8_enc1 c = [c]) \/
  (128 <= c /\ exists b bs, utf8_enc1 c = b :: bs /\ forallb (fun x => 128 <=? x) (b :: bs) = true).
Proof.
  unfold utf8_enc1. destruct (c <? 128) eqn:E1; [left; split; [lia|reflexivity]|]. right. split; [lia|].
  destruct (c <? 2048); [|destruct (c <? 65536)]; eexists; eexists; (split; [reflexivity|]);
    cbn [forallb]; lia.
Qed.

Lemma high_nobrk bs : forallb (fun x => 128 <=? x) bs = true -> nobrk is_nl_byte bs = true.
Proof.
  unfold nobrk. rewrite !forallb_forall. intros H x I. specialize (H x I). unfold is_nl_byte. lia.
Qed.

Lemma encode_cons c t : utf8_encode (c :: t) = utf8_enc1 c ++ utf8_encode t.
Proof. reflexivity. Qed.

Lemma enc1_nonempty c : utf8_enc1 c <> [].
Proof. destruct (enc1_cases c) as [[_ ->]|[_ [b [bs [-> _]]]]]; discriminate. Qed.

Lemma encode_nil_iff t : utf8_encode t = [] -> t = [].
Proof.
  destruct t as [|c t]; [reflexivity|]. rewrite encode_cons. intros H.
  apply app_eq_nil in H as [H _]. exfalso. exact (enc1_nonempty c H).
Qed.

Lemma starts_lf_encode t : starts_lf t = false -> starts_lf (utf8_encode t) = false.
Proof.
  destruct t as [|d t]; [reflexivity|]. cbn [starts_lf]. intros H. rewrite encode_cons.
  destruct (enc1_cases d) as [[_ ->]|[Hd [b [bs [-> F]]]]].
  - cbn [app starts_lf]. exact H.
  - cbn [app starts_lf]. cbn [forallb] in F. unfold LF. lia.
Qed.

Lemma map_encode_cons_head c ls :
  map utf8_encode (cons_head c ls) = prepend_head (utf8_enc1 c) (map utf8_encode ls).
Proof.
  destruct ls as [|l r]; cbn [cons_head map prepend_head].
  - rewrite encode_cons. cbn. rewrite app_nil_r. reflexivity.
  - rewrite encode_cons. reflexivity.
Qed.

Lemma splitlines_encode : forall t,
  bytes_splitlines (utf8_encode t) = map utf8_encode (splitlines is_nl_byte t).
Proof.
  unfold bytes_splitlines. intros t. pattern t. apply (split_ind is_nl_byte); clear t.
  - reflexivity.
  - intros c t B IH. rewrite encode_cons, sl_nobrk by assumption. rewrite map_encode_cons_head, <- IH.
    apply sl_prepend_nobrk; [|apply enc1_nonempty].
    destruct (enc1_cases c) as [[_ ->]|[_ [b [bs [-> F]]]]].
    + cbn. rewrite B. reflexivity.
    + apply high_nobrk. exact F.
  - intros c t B E IH.
    assert (c = LF).
    { unfold is_nl_byte in B. unfold CR in E. rewrite E, orb_false_r in B. apply N.eqb_eq in B. exact B. }
    subst c. rewrite sl_brk by assumption. change (utf8_encode (LF :: t)) with (LF :: utf8_encode t).
    rewrite sl_brk by reflexivity. rewrite IH. reflexivity.
  - intros t B IH. change (utf8_encode (CR :: LF :: t)) with (CR :: LF :: utf8_encode t).
    rewrite !sl_crlf by assumption. rewrite IH. reflexivity.
  - intros t B E IH. change (utf8_encode (CR :: t)) with (CR :: utf8_encode t).
    rewrite !sl_cr by (try assumption; apply starts_lf_encode; assumption). rewrite IH. reflexivity.
Qed.

Lemma ends_lf_encode : forall t, ends_lf (utf8_encode t) = ends_lf t.
Proof.
  induction t as [|c t IH]; [reflexivity|]. rewrite encode_cons.
  destruct t as [|d t].
  - cbn [utf8_encode flat_map]. rewrite app_nil_r.
    destruct (enc1_cases c) as [[_ ->]|[Hc [b [bs [-> F]]]]]; [reflexivity|].
    rewrite nobrk_last; [|apply high_nobrk; exact F|discriminate].
    unfold ends_lf. cbn [last]. unfold LF. lia.
  - rewrite ends_lf_app.
    + rewrite IH. unfold ends_lf. reflexivity.
    + intros Q. apply encode_nil_iff in Q. discriminate.
Qed.

Lemma ril_tail_encode t : ril_tail (utf8_encode t) = map utf8_encode (ril_tail t).
Proof.
  unfold ril_tail. destruct t as [|c t]; [reflexivity|].
  assert (N0 : is_nil (utf8_encode (c :: t)) = false).
  { destruct (utf8_encode (c :: t)) eqn:Q; [apply encode_nil_iff in Q; discriminate|reflexivity]. }
  rewrite N0. cbn [is_nil]. rewrite ends_lf_encode, splitlines_encode.
  rewrite map_app, map_rev. destruct (ends_lf (c :: t)); reflexivity.
Qed.

Lemma decode_all_encode : forall ls, forallb (forallb is_scalar) ls = true ->
  decode_all (map utf8_encode ls) = Some ls.
Proof.
  induction ls as [|l r IH]; [reflexivity|]. cbn [forallb map decode_all]. intros H.
  apply andb_true_iff in H as [Hl Hr]. rewrite decode_encode by assumption. rewrite IH by assumption. reflexivity.
Qed.

(* every line of a split consists of characters of the text *)
Lemma splitlines_chars brk (p : N -> bool) : forall t, forallb p t = true ->
  forallb (forallb p) (splitlines brk t) = true.
Proof.
  intros t. pattern t. apply (split_ind brk); clear t.
  - reflexivity.
  - intros c t B IH H. cbn [forallb] in H. apply andb_true_iff in H as [Hc Ht].
    rewrite sl_nobrk by assumption. specialize (IH Ht).
    destruct (splitlines brk t) as [|l r]; cbn [cons_head forallb] in *.
    + rewrite Hc. reflexivity.
    + apply andb_true_iff in IH as [I1 I2]. rewrite Hc, I1, I2. reflexivity.
  - intros c t B E IH H. cbn [forallb] in H. apply andb_true_iff in H as [Hc Ht].
    rewrite sl_brk by assumption. cbn [forallb]. apply IH. exact Ht.
  - intros t B IH H. cbn [forallb] in H. apply andb_true_iff in H as [_ H]. apply andb_true_iff in H as [_ H].
    rewrite sl_crlf by assumption. cbn [forallb]. apply IH. exact H.
  - intros t B E IH H. cbn [forallb] in H. apply andb_true_iff in H as [_ H].
    rewrite sl_cr by assumption. cbn [forallb]. apply IH. exact H.
Qed.

Lemma ril_tail_chars (p : N -> bool) t : forallb p t = true -> forallb (forallb p) (ril_tail t) = true.
Proof.
  intros H. unfold ril_tail. destruct (is_nil t); [reflexivity|].
  rewrite forallb_app. apply andb_true_iff. split.
  - destruct (ends_lf t); reflexivity.
  - rewrite forallb_forall. intros l I. apply in_rev in I.
    pose proof (splitlines_chars is_nl_byte p t H) as G. rewrite forallb_forall in G. apply G. exact I.
Qed.

(* text-mode file holding the text t (UTF-8): for every block size the str lines of t, last first *)
Theorem reverse_text_all : forall t bs, (1 <= bs)%nat -> forallb is_scalar t = true ->
  reverse_iter_lines TextUtf8 (utf8_encode t) bs (length (utf8_encode t)) = Ok (ril_tail t).
Proof.
  intros t bs Hbs S. unfold reverse_iter_lines. rewrite reverse_bytes_all by assumption.
  rewrite firstn_all, ril_tail_encode. rewrite decode_all_encode; [reflexivity|].
  apply ril_tail_chars. exact S.
Qed.

Theorem reverse_text_spec : forall t bs, (1 <= bs)%nat -> forallb is_scalar t = true -> no_lone_cr t = true ->
  reverse_iter_lines TextUtf8 (utf8_encode t) bs (length (utf8_encode t)) = Ok (reverse_lines_spec t).
Proof. intros. rewrite reverse_text_all by assumption. rewrite ril_tail_spec by assumption. reflexivity. Qed.

(* ---- the strict decoder accepts exactly the encodings of scalar strings ------------------ *)
Lemma decode_sound_n : forall n b t, (length b <= n)%nat -> utf8_decode b = Some t ->
  utf8_encode t = b /\ forallb is_scalar t = true.
Proof.
  induction n as [|n IH]; intros b t L D.
  - destruct b; [|cbn in L; lia]. cbn in D. inversion D. split; reflexivity.
  - destruct b as [|b0 r0]; [cbn in D; inversion D; split; reflexivity|].
    cbn [length] in L. cbn [utf8_decode] in D.
    destruct (b0 <? 128) eqn:E1.
    { destruct (utf8_decode r0) as [t'|] eqn:D'; [|discriminate]. cbn [option_map] in D. inversion D; subst t.
      destruct (IH r0 t' ltac:(lia) D') as [En Sc]. split.
      - rewrite encode_cons, En. unfold utf8_enc1. rewrite E1. reflexivity.
      - cbn [forallb]. rewrite Sc. unfold is_scalar. lia. }
    destruct ((194 <=? b0) && (b0 <=? 223)) eqn:E2.
    { destruct r0 as [|b1 r1]; [discriminate|]. unfold is_cont in D.
      destruct ((128 <=? b1) && (b1 <=? 191)) eqn:C1; [|discriminate].
      destruct (utf8_decode r1) as [t'|] eqn:D'; [|discriminate]. cbn [option_map] in D. inversion D; subst t.
      cbn [length] in L. destruct (IH r1 t' ltac:(lia) D') as [En Sc]. split.
      - rewrite encode_cons, En. unfold utf8_enc1.
        destruct ((b0 - 192) * 64 + (b1 - 128) <? 128) eqn:F1; [lia|].
        destruct ((b0 - 192) * 64 + (b1 - 128) <? 2048) eqn:F2; [|lia].
        cbn [app]. f_equal; [lia|]. f_equal. lia.
      - cbn [forallb]. rewrite Sc. unfold is_scalar. lia. }
    destruct ((224 <=? b0) && (b0 <=? 239)) eqn:E3.
    { destruct r0 as [|b1 [|b2 r2]]; try discriminate. unfold is_cont in D.
      destruct ((128 <=? b1) && (b1 <=? 191) && ((128 <=? b2) && (b2 <=? 191))
                && (negb (b0 =? 224) || (160 <=? b1)) && (negb (b0 =? 237) || (b1 <=? 159))) eqn:C1; [|discriminate].
      destruct (utf8_decode r2) as [t'|] eqn:D'; [|discriminate]. cbn [option_map] in D. inversion D; subst t.
      cbn [length] in L. destruct (IH r2 t' ltac:(lia) D') as [En Sc]. split.
      - rewrite encode_cons, En. unfold utf8_enc1.
        destruct ((b0 - 224) * 4096 + (b1 - 128) * 64 + (b2 - 128) <? 128) eqn:F1; [lia|].
        destruct ((b0 - 224) * 4096 + (b1 - 128) * 64 + (b2 - 128) <? 2048) eqn:F2; [lia|].
        destruct ((b0 - 224) * 4096 + (b1 - 128) * 64 + (b2 - 128) <? 65536) eqn:F3; [|lia].
        cbn [app]. f_equal; [lia|]. f_equal; [lia|]. f_equal. lia.
      - cbn [forallb]. rewrite Sc. unfold is_scalar. lia. }
    destruct ((240 <=? b0) && (b0 <=? 244)) eqn:E4; [|discriminate].
    destruct r0 as [|b1 [|b2 [|b3 r3]]]; try discriminate. unfold is_cont in D.
    destruct ((128 <=? b1) && (b1 <=? 191) && ((128 <=? b2) && (b2 <=? 191)) && ((128 <=? b3) && (b3 <=? 191))
              && (negb (b0 =? 240) || (144 <=? b1)) && (negb (b0 =? 244) || (b1 <=? 143))) eqn:C1; [|discriminate].
    destruct (utf8_decode r3) as [t'|] eqn:D'; [|discriminate]. cbn [option_map] in D. inversion D; subst t.
    cbn [length] in L. destruct (IH r3 t' ltac:(lia) D') as [En Sc]. split.
    + rewrite encode_cons, En. unfold utf8_enc1.
      set (c := (b0 - 240) * 262144 + (b1 - 128) * 4096 + (b2 - 128) * 64 + (b3 - 128)).
      assert (Hc : c = (b0 - 240) * 262144 + (b1 - 128) * 4096 + (b2 - 128) * 64 + (b3 - 128)) by reflexivity.
      destruct (c <? 128) eqn:F1; [lia|].
      destruct (c <? 2048) eqn:F2; [lia|].
      destruct (c <? 65536) eqn:F3; [lia|].
      cbn [app]. f_equal; [lia|]. f_equal; [lia|]. f_equal; [lia|]. f_equal. lia.
    + cbn [forallb]. rewrite Sc. unfold is_scalar. lia.
Qed.

Theorem decode_sound : forall b t, utf8_decode b = Some t ->
  utf8_encode t = b /\ forallb is_scalar t = true.
Proof. intros b t. apply (decode_sound_n (length b)). lia. Qed.

(* ---- single-byte codecs that keep \n and \r -------------------------------------------------- *)
(* a table is line-break compatible when a byte decodes to \n (\r) exactly when it is \n (\r) *)
Definition table_ok (tbl : sb_table) : bool :=
  (length tbl =? 256)%nat &&
  forallb (fun b => match sb_decode1 tbl b with
                    | Some c => Bool.eqb (c =? LF) (b =? LF) && Bool.eqb (c =? CR) (b =? CR)
                    | None => true
                    end) (map N.of_nat (seq 0 256)).

Lemma table_ok_spec tbl : table_ok tbl = true -> forall b c, sb_decode1 tbl b = Some c ->
  (c =? LF) = (b =? LF) /\ (c =? CR) = (b =? CR).
Proof.
  unfold table_ok. intros H b c D. apply andb_true_iff in H as [L F]. apply Nat.eqb_eq in L.
  assert (R : (N.to_nat b < 256)%nat).
  { destruct (Nat.lt_ge_cases (N.to_nat b) 256) as [Q|Q]; [exact Q|].
    unfold sb_decode1 in D. rewrite nth_overflow in D by lia. discriminate. }
  rewrite forallb_forall in F. specialize (F b).
  assert (I : In b (map N.of_nat (seq 0 256))).
  { apply in_map_iff. exists (N.to_nat b). split; [apply N2Nat.id|]. apply in_seq. lia. }
  specialize (F I). rewrite D in F. apply andb_true_iff in F as [F1 F2].
  apply Bool.eqb_prop in F1. apply Bool.eqb_prop in F2. split; assumption.
Qed.

Section Table.
  Variable tbl : sb_table.
  Hypothesis OK : table_ok tbl = true.

  Lemma sb_cons b r t : sb_decode tbl (b :: r) = Some t ->
    exists c t', t = c :: t' /\ sb_decode1 tbl b = Some c /\ sb_decode tbl r = Some t'.
  Proof.
    cbn [sb_decode]. destruct (sb_decode1 tbl b) as [c|]; [|discriminate].
    destruct (sb_decode tbl r) as [t'|]; [|discriminate]. intros E. inversion E. eauto.
  Qed.

  Lemma sb_nl b c : sb_decode1 tbl b = Some c -> is_nl_byte c = is_nl_byte b.
  Proof. intros D. destruct (table_ok_spec tbl OK b c D) as [A B]. unfold is_nl_byte. fold LF CR. rewrite A, B. reflexivity. Qed.

  Lemma sb_all_cons_head x c L L' : sb_decode1 tbl x = Some c -> sb_decode_all tbl L = Some L' ->
    sb_decode_all tbl (cons_head x L) = Some (cons_head c L').
  Proof.
    intros D A. destruct L as [|l r]; cbn [cons_head sb_decode_all sb_decode] in *.
    - inversion A. rewrite D. reflexivity.
    - rewrite D. destruct (sb_decode tbl l) as [tl|]; [|discriminate].
      destruct (sb_decode_all tbl r) as [tr|]; [|discriminate]. inversion A. reflexivity.
  Qed.

  Lemma sb_starts_lf b t : sb_decode tbl b = Some t -> starts_lf t = starts_lf b.
  Proof.
    destruct b as [|x b]; cbn [sb_decode]; intros D.
    - inversion D. reflexivity.
    - destruct (sb_cons _ _ _ D) as [c [t' [-> [D1 _]]]]. cbn [starts_lf].
      apply (table_ok_spec tbl OK x c D1).
  Qed.

  (* decoding the lines of the bytes = the lines of the decoded text *)
  Lemma sb_splitlines : forall b t, sb_decode tbl b = Some t ->
    sb_decode_all tbl (splitlines is_nl_byte b) = Some (splitlines is_nl_byte t).
  Proof.
    intros b. pattern b. apply (split_ind is_nl_byte); clear b.
    - intros t D. inversion D. reflexivity.
    - intros x b B IH t D. destruct (sb_cons _ _ _ D) as [c [t' [-> [D1 D2]]]].
      rewrite !sl_nobrk by (try assumption; rewrite (sb_nl x c D1); assumption).
      apply sb_all_cons_head; [exact D1|apply IH; exact D2].
    - intros x b B E IH t D. destruct (sb_cons _ _ _ D) as [c [t' [-> [D1 D2]]]].
      destruct (table_ok_spec tbl OK x c D1) as [_ Ec].
      rewrite !sl_brk by (try assumption; try (rewrite Ec; assumption); rewrite (sb_nl x c D1); assumption).
      cbn [sb_decode_all sb_decode]. rewrite (IH t' D2). reflexivity.
    - intros b B IH t D. destruct (sb_cons _ _ _ D) as [c [t1 [-> [D1 D2]]]].
      destruct (sb_cons _ _ _ D2) as [d [t2 [-> [D3 D4]]]].
      destruct (table_ok_spec tbl OK CR c D1) as [_ Ec]. change (CR =? CR) with true in Ec. apply N.eqb_eq in Ec. subst c.
      destruct (table_ok_spec tbl OK LF d D3) as [Ed _]. change (LF =? LF) with true in Ed. apply N.eqb_eq in Ed. subst d.
      rewrite !sl_crlf by reflexivity. cbn [sb_decode_all sb_decode]. rewrite (IH t2 D4). reflexivity.
    - intros b B E IH t D. destruct (sb_cons _ _ _ D) as [c [t' [-> [D1 D2]]]].
      destruct (table_ok_spec tbl OK CR c D1) as [_ Ec]. change (CR =? CR) with true in Ec. apply N.eqb_eq in Ec. subst c.
      rewrite !sl_cr by (try reflexivity; try assumption; rewrite (sb_starts_lf b t' D2); assumption).
      cbn [sb_decode_all sb_decode]. rewrite (IH t' D2). reflexivity.
  Qed.

  Lemma sb_ends_lf : forall b t, sb_decode tbl b = Some t -> ends_lf t = ends_lf b.
  Proof.
    induction b as [|x b IH]; intros t D.
    - inversion D. reflexivity.
    - destruct (sb_cons _ _ _ D) as [c [t' [-> [D1 D2]]]]. destruct b as [|y b].
      + cbn [sb_decode] in D2. inversion D2. unfold ends_lf. cbn [last]. apply (table_ok_spec tbl OK x c D1).
      + destruct (sb_cons _ _ _ D2) as [d [t2 [-> _]]].
        rewrite !ends_lf_cons by discriminate. apply IH. exact D2.
  Qed.

  Lemma sb_all_app L1 L2 T1 T2 : sb_decode_all tbl L1 = Some T1 -> sb_decode_all tbl L2 = Some T2 ->
    sb_decode_all tbl (L1 ++ L2) = Some (T1 ++ T2).
  Proof.
    revert T1. induction L1 as [|l r IH]; intros T1 A B.
    - inversion A. exact B.
    - cbn [app sb_decode_all] in *. destruct (sb_decode tbl l) as [tl|]; [|discriminate].
      destruct (sb_decode_all tbl r) as [tr|] eqn:R; [|discriminate]. inversion A; subst.
      rewrite (IH tr eq_refl B). reflexivity.
  Qed.

  Lemma sb_all_rev : forall L T, sb_decode_all tbl L = Some T -> sb_decode_all tbl (rev L) = Some (rev T).
  Proof.
    induction L as [|l r IH]; intros T A.
    - inversion A. reflexivity.
    - cbn [sb_decode_all] in A. destruct (sb_decode tbl l) as [tl|] eqn:Dl; [|discriminate].
      destruct (sb_decode_all tbl r) as [tr|] eqn:R; [|discriminate]. inversion A; subst.
      cbn [rev]. apply sb_all_app; [apply IH; reflexivity|]. cbn [sb_decode_all]. rewrite Dl. reflexivity.
  Qed.

  Lemma sb_ril_tail b t : sb_decode tbl b = Some t -> sb_decode_all tbl (ril_tail b) = Some (ril_tail t).
  Proof.
    intros D. unfold ril_tail.
    destruct b as [|x b].
    - inversion D. reflexivity.
    - destruct (sb_cons _ _ _ D) as [c [t' [E _]]]. rewrite E. cbn [is_nil]. rewrite <- E.
      rewrite (sb_ends_lf _ _ D).
      apply sb_all_app.
      + destruct (ends_lf (x :: b)); reflexivity.
      + apply sb_all_rev. apply sb_splitlines. exact D.
  Qed.

  Lemma sb_firstn : forall p b t, sb_decode tbl b = Some t -> sb_decode tbl (firstn p b) = Some (firstn p t).
  Proof.
    induction p as [|p IH]; intros b t D; [reflexivity|].
    destruct b as [|x b]; [inversion D; reflexivity|].
    destruct (sb_cons _ _ _ D) as [c [t' [-> [D1 D2]]]]. cbn [firstn sb_decode]. rewrite D1, (IH b t' D2). reflexivity.
  Qed.

  (* text-mode file in a line-break compatible single-byte encoding: the lines of the text, last first *)
  Theorem reverse_table_all : forall c t bs, (1 <= bs)%nat -> sb_decode tbl c = Some t ->
    reverse_iter_lines (TextTable tbl) c bs (length c) = Ok (ril_tail t).
  Proof.
    intros c t bs Hbs D. unfold reverse_iter_lines. rewrite reverse_bytes_all by assumption.
    rewrite firstn_all. rewrite (sb_ril_tail c t D). reflexivity.
  Qed.

  Theorem reverse_table_spec : forall c t bs, (1 <= bs)%nat -> sb_decode tbl c = Some t -> no_lone_cr t = true ->
    reverse_iter_lines (TextTable tbl) c bs (length c) = Ok (reverse_lines_spec t).
  Proof. intros. rewrite (reverse_table_all c t) by assumption. rewrite ril_tail_spec by assumption. reflexivity. Qed.
End Table.
