(* C11: the Gallina text regenerated from the current source of
   IndexedSet._get_real_index / _get_apparent_index (Gen/C11_Src.v, by
   harness/translators/{py2coq,c11_src}.py) computes what the model's
   real_loop / apparent_loop compute.  If the source of either function changes,
   the generated term changes and these proofs (or the translation) break. *)
From Boltons Require Import Lib.Prelude Lib.PySrc Lib.C11_Iface Spec.C11_Spec Model.C11_Model Gen.C11_Src
     Proofs.C11_Lists Proofs.C11_Dead Proofs.C11_Inv.

Section Loop.
  Variables (cond : Z -> Z * Z -> bool) (upd : Z -> Z * Z -> Z) (G : bool * Z -> Z * Z -> bool * Z).
  Hypothesis Gstuck : forall x p, G (true, x) p = (true, x).
  Hypothesis Gstep : forall x p, G (false, x) p = if cond x p then (true, x) else (false, upd x p).

  Fixpoint zloop (d : list (Z * Z)) (x : Z) : Z :=
    match d with [] => x | p :: t => if cond x p then x else zloop t (upd x p) end.

  Lemma fold_stuck d x : fold_left G d (true, x) = (true, x).
  Proof. induction d as [|p d IH]; simpl; [reflexivity|]. rewrite Gstuck. exact IH. Qed.

  Lemma fold_break d : forall x, snd (fold_left G d (false, x)) = zloop d x.
  Proof.
    induction d as [|p d IH]; intros x; simpl; [reflexivity|]. rewrite Gstep.
    destruct (cond x p); [rewrite fold_stuck; reflexivity|apply IH].
  Qed.
End Loop.

Definition condR (x : Z) (p : Z * Z) : bool := (x <? fst p)%Z.
Definition updR (x : Z) (p : Z * Z) : Z := (x + (snd p - fst p))%Z.
Definition condA (index : Z) (_ : Z) (p : Z * Z) : bool := (index <? fst p)%Z.
Definition updA (x : Z) (p : Z * Z) : Z := (x - (snd p - fst p))%Z.

Definition ivZ (d : list (nat * nat)) : list (Z * Z) :=
  map (fun ab => (Z.of_nat (fst ab), Z.of_nat (snd ab))) d.

Lemma src_real_unfold s i :
  src_get_real_index s i =
  let i := if (i <? 0)%Z then (i + lenZ s)%Z else i in zloop condR updR (deadZ s) i.
Proof.
  unfold src_get_real_index. cbv zeta.
  destruct (i <? 0)%Z; (destruct (deadZ s) as [|p d] eqn:D; [reflexivity|]);
  cbn [is_nonempty negb];
  match goal with |- context [fold_left ?G (p :: d) (false, ?x)] =>
    pose proof (fold_break condR updR G
                  ltac:(intros x0 [a b]; reflexivity)
                  ltac:(intros x0 [a b]; unfold condR, updR; cbn [fst snd]; destruct (x0 <? a)%Z; reflexivity)
                  (p :: d) x) as F;
    destruct (fold_left G (p :: d) (false, x)) as [bk y]; exact F
  end.
Qed.

Lemma src_apparent_unfold s i :
  src_get_apparent_index s i =
  let i := if (i <? 0)%Z then (i + lenZ s)%Z else i in zloop (condA i) updA (deadZ s) i.
Proof.
  unfold src_get_apparent_index. cbv zeta.
  destruct (i <? 0)%Z; (destruct (deadZ s) as [|p d] eqn:D; [reflexivity|]);
  cbn [is_nonempty negb];
  match goal with |- context [fold_left ?G (p :: d) (false, ?x)] =>
    pose proof (fold_break (condA x) updA G
                  ltac:(intros x0 [a b]; reflexivity)
                  ltac:(intros x0 [a b]; unfold condA, updA; cbn [fst snd]; destruct (x <? a)%Z; reflexivity)
                  (p :: d) x) as F;
    destruct (fold_left G (p :: d) (false, x)) as [bk y]; exact F
  end.
Qed.

(* the Z loop over well-formed intervals = the model's nat loop *)
Lemma zloop_real d : forall r, Forall (fun ab : nat * nat => fst ab <= snd ab) d ->
  zloop condR updR (ivZ d) (Z.of_nat r) = Z.of_nat (real_loop d r).
Proof.
  induction d as [|[a b] t IH]; intros r H; [reflexivity|].
  inversion H as [|? ? H1 H2]; subst. simpl in H1. cbn [ivZ map zloop real_loop fst snd]. unfold condR, updR. cbn [fst snd].
  destruct (r <? a) eqn:C.
  - apply Nat.ltb_lt in C. replace (Z.of_nat r <? Z.of_nat a)%Z with true by (symmetry; apply Z.ltb_lt; lia). reflexivity.
  - apply Nat.ltb_ge in C. replace (Z.of_nat r <? Z.of_nat a)%Z with false by (symmetry; apply Z.ltb_ge; lia).
    replace (Z.of_nat r + (Z.of_nat b - Z.of_nat a))%Z with (Z.of_nat (r + (b - a))) by lia.
    apply (IH _ H2).
Qed.

Lemma sorted_iv_le lo d : sorted_iv lo d -> Forall (fun ab : nat * nat => fst ab <= snd ab) d.
Proof.
  intros H. apply sorted_iv_bounds in H. eapply Forall_impl; [|exact H]. intros [a b]; simpl. lia.
Qed.

Theorem source_real_index s i r : Inv0 s -> m_real_index s i = Ok r -> src_get_real_index s i = Z.of_nat r.
Proof.
  intros H E. rewrite src_real_unfold. cbv zeta. unfold m_real_index, norm_neg in E. unfold lenZ.
  destruct (i <? 0)%Z eqn:C.
  - destruct (i + Z.of_nat (m_len s) <? 0)%Z eqn:C2; [discriminate|]. injection E as <-.
    apply Z.ltb_ge in C2. rewrite <- (Z2Nat.id _ C2) at 1.
    apply zloop_real. eapply sorted_iv_le. eapply layout_sorted. apply H.
  - rewrite C in E. injection E as <-. apply Z.ltb_ge in C. rewrite <- (Z2Nat.id _ C) at 1.
    apply zloop_real. eapply sorted_iv_le. eapply layout_sorted. apply H.
Qed.

(* apparent index: the Z loop subtracts exactly the tombstones before a live slot *)
Lemma zloop_apparent : forall d off its r x acc,
  layout off d its -> nth_error its r = Some (Some x) ->
  zloop (condA (Z.of_nat (off + r))) updA (ivZ d) acc =
  (acc - Z.of_nat (r - length (live_of (firstn r its))))%Z.
Proof.
  induction d as [|[a b] t IH]; intros off its r x acc H E.
  - simpl in H. cbn [ivZ map zloop].
    assert (Lr : r < length its) by (apply nth_error_Some; congruence).
    rewrite (live_of_all_live _ (Forall_firstn _ r _ H)), firstn_length. lia.
  - assert (Lr : r < length its) by (apply nth_error_Some; congruence).
    pose proof (layout_outside _ _ _ _ _ H E) as Ho. inversion Ho as [|? ? Ho1 _]; subst. simpl in Ho1.
    destruct (layout_head_split _ _ _ _ _ H) as (S1 & S2 & S3).
    simpl in H. destruct H as (H1 & H2 & H3 & H4 & H5 & H6).
    cbn [ivZ map zloop fst snd]. unfold condA at 1, updA at 1. cbn [fst snd].
    destruct (off + r <? a) eqn:C.
    + apply Nat.ltb_lt in C.
      replace (Z.of_nat (off + r) <? Z.of_nat a)%Z with true by (symmetry; apply Z.ltb_lt; lia).
      assert (Hl : Forall livep (firstn r its)).
      { replace (firstn r its) with (firstn r (firstn (a - off) its)) by (rewrite firstn_firstn; f_equal; lia).
        apply Forall_firstn. exact H4. }
      rewrite (live_of_all_live _ Hl), firstn_length. lia.
    + apply Nat.ltb_ge in C. assert (Hb : b <= off + r) by lia.
      replace (Z.of_nat (off + r) <? Z.of_nat a)%Z with false by (symmetry; apply Z.ltb_ge; lia).
      assert (F : length (live_of (firstn r its)) =
                  (a - off) + length (live_of (firstn (r - (b - off)) (skipn (b - off) its)))).
      { replace r with ((b - off) + (r - (b - off))) at 1 by lia.
        rewrite firstn_add, live_of_app, app_length, S1, S2. reflexivity. }
      pose proof (live_of_length_le (firstn (r - (b - off)) (skipn (b - off) its))) as Lle.
      rewrite firstn_length in Lle.
      replace (off + r) with (b + (r - (b - off))) by lia.
      fold (ivZ t).
      rewrite (IH b (skipn (b - off) its) (r - (b - off)) x).
      * rewrite F. unfold updA. cbn [fst snd]. lia.
      * exact H6.
      * rewrite nth_error_skipn. replace (b - off + (r - (b - off))) with r by lia. exact E.
Qed.

Theorem source_apparent_index s x r n :
  Inv0 s -> d_get (imap s) x = Some r -> m_index s x = Ok n ->
  src_get_apparent_index s (Z.of_nat r) = Z.of_nat n.
Proof.
  intros H G E. unfold m_index in E. rewrite G in E. injection E as <-.
  assert (Ex : nth_error (items s) r = Some (Some x)) by (apply H; exact G).
  rewrite src_apparent_unfold. cbv zeta.
  replace (Z.of_nat r <? 0)%Z with false by (symmetry; apply Z.ltb_ge; lia).
  pose proof (zloop_apparent (dead s) 0 (items s) r x (Z.of_nat r) (inv_layout s H) Ex) as A.
  simpl (0 + r) in A. unfold deadZ. fold (ivZ (dead s)). rewrite A.
  pose proof (apparent_loop_spec (dead s) 0 (items s) r x r (inv_layout s H) Ex ltac:(lia)) as B.
  simpl (0 + r) in B. rewrite B.
  pose proof (live_of_length_le (firstn r (items s))) as L. rewrite firstn_length in L. lia.
Qed.
