(* C03 -> C02 link, part 3: serial runs of the C03 model are runs of C02's sequential list
   model (Model/C02_Model.step1); with the serialisability theorem: under every schedule, the
   results returned to the threads and the final contents are those of C02's sequential model
   executed in some order that respects each thread's program order, and C02's invariant
   (hence its theorems: size bound, recency order, no ghost items ...) holds afterwards. *)
From Boltons Require Import Lib.Prelude Lib.C03_Syntax Lib.C03_Conc Model.C03_Model
     Proofs.C03_Serial Proofs.C03_Covered Proofs.C03_Main Proofs.C03_Link1 Proofs.C03_Link2 Proofs.C03_Link4.
From Boltons Require Lib.C02_Syntax Model.C02_Model Model.C02_PtrModel Model.C02_PtrCache.
From Boltons Require Proofs.C02_Lists Proofs.C02_Inv Proofs.C02_Refine Proofs.C02_PtrLemmas Proofs.C02_PtrRep Proofs.C02_PtrSim.

Module Rf2 := Boltons.Proofs.C02_Refine.

(* one operation on C02's sequential model: the 13 operations of C02's syntax through step1;
   copy() returns the items of the linked list oldest first (C02_copy: the copy's ring is the
   source's ring) and c == c is True; neither changes the cache *)
Definition c02_op (c2 : S2.cfg) (m : M2.cache) (o : op) : M2.cache * rv :=
  match tr o with
  | Some o1 => let '(m', out) := M2.step1 c2 m o1 in (m', conv_out o out)
  | None => match o with
            | Copy => (m, RItems (M2.ring m))
            | Snapshot _ => (m, RItems (sort_items (M2.store m)))
            | CopyCopy => (m, RItems (M2.ring m))
            | _ => (m, RBool true)
            end
  end.

(* C02's sequential model driven by the threads' programs in a given order *)
Definition c02_state := (M2.cache * (nat -> list op) * (nat -> list rv))%type.

Definition c02_step (c2 : S2.cfg) (st : c02_state) (t : nat) : c02_state :=
  let '(m, todo, done) := st in
  match todo t with
  | [] => st
  | o :: r => let '(m', a) := c02_op c2 m o in (m', upd todo t r, upd done t (done t ++ [a]))
  end.

Definition c02_serial (c2 : S2.cfg) (order : list nat) (m0 : M2.cache) (progs : nat -> list op) : c02_state :=
  fold_left (c02_step c2) order (m0, progs, fun _ => []).

(* a C03 shared state that stands for a C02 model state *)
Definition stands_for (c : config) (s : shared) (m : M2.cache) : Prop :=
  I2.Inv (cfg2 c) m /\ exists p, Sim2.PRel p m /\ CR s p.

Lemma stands_for_init c : stands_for c shared_init M2.empty_cache.
Proof.
  split; [apply I2.inv_empty|]. exists PC2.p_empty. split; [apply Sim2.prel_empty|].
  constructor; reflexivity.
Qed.

Lemma stands_for_store c s m : stands_for c s m -> store s = M2.store m.
Proof.
  intros [_ [p [[ES _ _ _ _ _] R]]]. rewrite (sr_store _ _ _ R). exact ES.
Qed.

Lemma stands_for_size c s m : stands_for c s m -> length (store s) <= cf_max c.
Proof.
  intros H. rewrite (stands_for_store _ _ _ H). destruct H as [[_ _ _ LEN CAP _] _].
  rewrite LEN. exact CAP.
Qed.

Section Link.
  Variables (tb : lock_table) (c : config).
  Hypothesis Hmax : 1 <= cf_max c.

  (* one operation of C02's syntax *)
  Lemma op_link s m o o1 :
    tr o = Some o1 -> stands_for c s m ->
    let '(s', r) := run_op tb c s o in
    let '(m', out) := M2.step1 (cfg2 c) m o1 in
    r = conv_out o out /\ stands_for c s' m'.
  Proof.
    intros T [I [p [PR R]]].
    destruct (step_link tb c Hmax m p s o o1 T I PR R) as [s' [E R']]. rewrite E.
    destruct (Sim2.pstep1_sim (cfg2 c) p m o1 Hmax I PR) as [p' [Ep PR']].
    destruct (Rf2.step1_sim (cfg2 c) m o1 Hmax I) as [m' [out [Em [I' _]]]].
    rewrite Em in *. simpl in *. rewrite Ep in *. simpl in *.
    split; [reflexivity|]. split; [exact I'|]. exists p'. split; assumption.
  Qed.

  (* any of the 15 operations *)
  Lemma op_link_all s m o :
    stands_for c s m ->
    let '(s', r) := run_op tb c s o in
    let '(m', r') := c02_op (cfg2 c) m o in
    r = r' /\ stands_for c s' m'.
  Proof.
    intro SF. unfold c02_op. destruct (tr o) as [o1|] eqn:T.
    - pose proof (op_link s m o o1 T SF) as OL.
      destruct (run_op tb c s o) as [s' r]. destruct (M2.step1 (cfg2 c) m o1) as [m' out]. exact OL.
    - destruct o; simpl in T; try discriminate.
      + rewrite eqself_link. split; [reflexivity|exact SF].
      + destruct SF as [I [p [PR R]]].
        rewrite (copy_link tb c s m p (lk_of _ _ _ I PR) R).
        * split; [reflexivity|]. split; [exact I|]. exists p. split; assumption.
        * destruct I as [_ _ _ _ CAP _]. exact CAP.
      + destruct SF as [I [p [PR R]]].
        rewrite (snapshot_link tb c s m p w (lk_of _ _ _ I PR) R).
        split; [reflexivity|]. split; [exact I|]. exists p. split; assumption.
      + destruct SF as [I [p [PR R]]].
        rewrite (copycopy_link tb c s m p (lk_of _ _ _ I PR) R).
        * split; [reflexivity|]. split; [exact I|]. exists p. split; assumption.
        * destruct I as [_ _ _ _ CAP _]. exact CAP.
  Qed.

  Variable progs : nat -> list op.
  Variables (sh0 : shared) (m0 : M2.cache).
  Hypothesis init_ok : stands_for c sh0 m0.

  Lemma serial_link order :
    let '(shS, todoS, doneS) := serial_run tb c progs sh0 order in
    let '(mS, todoC, doneC) := c02_serial (cfg2 c) order m0 progs in
    (forall t, todoS t = todoC t) /\ (forall t, doneS t = doneC t) /\ stands_for c shS mS.
  Proof.
    induction order as [|t order IH] using rev_ind.
    - unfold serial_run, serial, c02_serial. simpl. split; [reflexivity|]. split; [reflexivity|exact init_ok].
    - unfold serial_run, serial, c02_serial in *. rewrite !fold_left_app. simpl.
      destruct (fold_left (serial_step sem (compile_l tb c)) order (sh0, progs, fun _ => []))
        as [[shS todoS] doneS].
      destruct (fold_left (c02_step (cfg2 c)) order (m0, progs, fun _ => [])) as [[mS todoC] doneC].
      destruct IH as [HT [HD SF]].
      unfold serial_step, c02_step. rewrite <- HT.
      destruct (todoS t) as [|o r] eqn:ET.
      + split; [exact HT|]. split; [exact HD|exact SF].
      + pose proof (op_link_all shS mS o SF) as OL.
        unfold compile_l. fold (run_op tb c shS o).
        destruct (run_op tb c shS o) as [s' r']. destruct (c02_op (cfg2 c) mS o) as [m' a].
        destruct OL as [Er SF']. subst r'.
        split; [|split].
        * intro u. unfold upd. destruct (Nat.eqb u t); [reflexivity|apply HT].
        * intro u. unfold upd. destruct (Nat.eqb u t); [now rewrite HD|apply HD].
        * exact SF'.
  Qed.
End Link.

(* ---- atomicity with respect to C02's sequential model -------------------------------------- *)
Theorem atomic_wrt_c02 :
  forall tb, table_covered tb = true ->
  forall c, 1 <= cf_max c ->
  forall progs : nat -> list op,
  forall sh0 m0, stands_for c sh0 m0 ->
  forall sched,
    let s := conc_run tb c progs sh0 sched in
    finished s ->
    exists order,
      let '(mS, todoC, doneC) := c02_serial (cfg2 c) order m0 progs in
      (forall t, t_done (m_thr s t) = doneC t)         (* what every thread got back *)
      /\ (forall t, todoC t = [])                        (* every operation was executed, in program order *)
      /\ stands_for c (m_sh s) mS.                       (* final dict + ring represent C02's final state *)
Proof.
  intros tb T c Hmax progs sh0 m0 SF sched s F.
  destruct (serialisable_model tb T c progs sh0 sched F) as [order H].
  exists order.
  pose proof (serial_link tb c Hmax progs sh0 m0 SF order) as L.
  destruct (serial_run tb c progs sh0 order) as [[shS todoS] doneS].
  destruct (c02_serial (cfg2 c) order m0 progs) as [[mS todoC] doneC].
  destruct H as [Hsh [Hd Ht]]. destruct L as [LT [LD LS]].
  fold s in Hsh, Hd. split; [|split].
  - intro t. rewrite Hd. apply LD.
  - intro t. rewrite <- LT. apply Ht.
  - rewrite Hsh. exact LS.
Qed.

(* corollaries of the property text, for every schedule *)
Corollary never_exceeds_max_size :
  forall tb, table_covered tb = true ->
  forall c, 1 <= cf_max c ->
  forall progs : nat -> list op,
  forall sh0 m0, stands_for c sh0 m0 ->
  forall sched,
    let s := conc_run tb c progs sh0 sched in
    finished s -> view_len (m_sh s) <= cf_max c.
Proof.
  intros tb T c Hmax progs sh0 m0 SF sched s F.
  destruct (atomic_wrt_c02 tb T c Hmax progs sh0 m0 SF sched F) as [order H].
  destruct (c02_serial (cfg2 c) order m0 progs) as [[mS todoC] doneC].
  destruct H as [_ [_ SFs]]. unfold view_len. eapply stands_for_size. exact SFs.
Qed.

(* the cache is usable afterwards: the final state again stands for a C02 state satisfying C02's
   invariant, so any further sequential operation behaves as C02's model says *)
Corollary usable_afterwards :
  forall tb, table_covered tb = true ->
  forall c, 1 <= cf_max c ->
  forall progs : nat -> list op,
  forall sh0 m0, stands_for c sh0 m0 ->
  forall sched,
    let s := conc_run tb c progs sh0 sched in
    finished s ->
    exists mS, stands_for c (m_sh s) mS /\
      forall o,
        let '(s', r) := run_op tb c (m_sh s) o in
        let '(m', r') := c02_op (cfg2 c) mS o in
        r = r' /\ stands_for c s' m'.
Proof.
  intros tb T c Hmax progs sh0 m0 SF sched s F.
  destruct (atomic_wrt_c02 tb T c Hmax progs sh0 m0 SF sched F) as [order H].
  destruct (c02_serial (cfg2 c) order m0 progs) as [[mS todoC] doneC].
  destruct H as [_ [_ SFs]]. exists mS. split; [exact SFs|].
  intro o. apply (op_link_all tb c Hmax). exact SFs.
Qed.

(* and through C02's refinement theorem, every sequential operation of the C03 model is accepted
   by C02's reference cache (Spec/C02_Spec.v) *)
Lemma op_accepted_by_c02_spec tb c s m o o1 :
  1 <= cf_max c -> tr o = Some o1 -> stands_for c s m ->
  let '(s', r) := run_op tb c s o in
  exists m' out, r = conv_out o out /\ stands_for c s' m'
                 /\ Boltons.Spec.C02_Spec.spec_accept (cfg2 c) (I2.abs m) o1 out = Some (I2.abs m').
Proof.
  intros Hmax T SF. pose proof (op_link tb c Hmax s m o o1 T SF) as OL.
  destruct (run_op tb c s o) as [s' r].
  destruct SF as [I _].
  destruct (Rf2.step1_sim (cfg2 c) m o1 Hmax I) as [m' [out [Em [_ [A _]]]]].
  rewrite Em in OL. destruct OL as [Er SF']. exists m', out. auto.
Qed.
