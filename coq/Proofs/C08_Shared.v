(* C08: "an object referenced several times is rebuilt once and stays shared in
   the output".  In the term representation the rebuilt object for the old
   container id is named id; the theorem says that the output denotes a proper
   object graph: EVERY occurrence of a node named id, anywhere in the result or
   in the registry, is literally the one registry entry of id (one definition per
   object - it was built once - and all references to it see that object). *)
From Boltons Require Import Lib.Prelude Lib.C08_Py Spec.C08_Spec Model.C08_Model
  Proofs.C08_Machine Proofs.C08_Tree.

(* all sub-terms of a term (itself included) *)
Fixpoint subs (o : obj) : list obj :=
  match o with
  | ONode _ _ items => o :: flat_map (fun kv => subs (snd kv)) items
  | _ => [o]
  end.

Definition is_node (o : obj) : Prop := match o with ONode _ _ _ => True | _ => False end.
Definition node_id (o : obj) : nat := match o with ONode id _ _ => id | _ => 0 end.

(* every container node inside [v] is the registry's entry for its id *)
Definition registered (m : table obj) (v : obj) : Prop :=
  forall x, In x (subs v) -> is_node x -> t_get m (node_id x) = Some x.

Definition Cons (m : table obj) : Prop := forall j v, t_get m j = Some v -> registered m v.

Lemma set_of_sub : forall {A} (view : A -> val) (l : list A) x, In x (set_of view l) -> In x l.
Proof.
  intros A view l. unfold set_of.
  assert (H : forall l acc x, In x (fold_left (fun acc x => set_insert view x acc) l acc) -> In x acc \/ In x l).
  { induction l0 as [|y r IH]; intros acc x Hx; cbn in *; [tauto|].
    destruct (IH _ _ Hx) as [H|H]; [|tauto].
    assert (Hi : forall a, In x (set_insert view y a) -> x = y \/ In x a).
    { induction a as [|z a' IHa]; cbn [set_insert].
      - intros [E|[]]. left. symmetry. exact E.
      - destruct (vcmp (view y) (view z)).
        + intro H'. right. exact H'.
        + intros [E|H']; [left; symmetry; exact E|right; exact H'].
        + intros [E|H']; [right; left; exact E|]. destruct (IHa H') as [E|H'']; [left; exact E|right; right; exact H'']. }
    destruct (Hi _ H) as [->|H']; tauto. }
  intros x Hx. destruct (H l [] x Hx) as [[]|H']; assumption.
Qed.

Lemma reindex_snd : forall {A} (l : list A) i, map snd (reindex_from i l) = l.
Proof. induction l as [|x r IH]; intro i; cbn; [reflexivity|]. rewrite IH. reflexivity. Qed.

Lemma kd_set_vals : forall {A} (d : list (key * A)) k v x,
  In x (map snd (kd_set d k v)) -> x = v \/ In x (map snd d).
Proof.
  induction d as [|[k' v'] r IH]; intros k v x H; cbn [kd_set] in H.
  - cbn in H. destruct H as [<-|[]]. tauto.
  - destruct (key_eqb k k'); cbn [map snd In] in *.
    + destruct H as [<-|H]; tauto.
    + destruct H as [<-|H]; [tauto|]. destruct (IH _ _ _ H); tauto.
Qed.

Lemma build_vals : forall k (items : list (key * obj)) x,
  In x (map snd (build erase k items)) -> In x (map snd items).
Proof.
  intros k items x H. destruct k; cbn [build] in H.
  - unfold reindex in H. rewrite reindex_snd in H. exact H.
  - unfold reindex in H. rewrite reindex_snd in H. exact H.
  - unfold kd_update in H.
    assert (G : forall its d, In x (map snd (fold_left (fun d kv => kd_set d (fst kv) (snd kv)) its d)) ->
                              In x (map snd d) \/ In x (map snd its)).
    { induction its as [|[k v] r IH]; intros d Hd; cbn in *; [tauto|].
      destruct (IH _ Hd) as [H1|H1]; [|tauto].
      destruct (kd_set_vals _ _ _ _ H1) as [->|H2]; tauto. }
    destruct (G items [] H) as [[]|H']. exact H'.
  - unfold reindex in H. rewrite reindex_snd in H. exact (set_of_sub _ _ _ H).
  - unfold reindex in H. rewrite reindex_snd in H. exact (set_of_sub _ _ _ H).
Qed.

Section Shared.
  Variable blank : nat -> kind -> obj.
  Hypothesis blank_flat : forall id k, ~ is_node (blank id k) .
  Variable visit : option visit_fn.
  Variable defs : table obj.
  Notation srbB := (srb blank visit defs).
  Notation chB := (srb_children blank visit defs).

  (* an entry, once present, is only ever changed by the call that created it *)
  Definition keeps_ok (o : obj) : Prop :=
    forall rt p ky m lg v m' lg', srbB rt p ky o m lg = (v, m', lg') ->
      forall i x, t_get m i = Some x -> t_get m' i = Some x.

  Lemma children_keeps : forall l, Forall (fun kv => keeps_ok (snd kv)) l ->
    forall cp acc m lg acc' m' lg', chB cp l acc m lg = (acc', m', lg') ->
      forall i x, t_get m i = Some x -> t_get m' i = Some x.
  Proof.
    induction 1 as [|[ck c] r Hc Hr IH]; intros cp acc m lg acc' m' lg' E i x Hi.
    - cbn in E. inversion E; subst. assumption.
    - cbn [srb_children] in E.
      destruct (srbB false cp ck c m lg) as [[c' m1] lg1] eqn:E1.
      destruct (do_visit visit cp ck c' lg1) as [it lg2].
      eapply IH; [exact E|]. eapply Hc; eassumption.
  Qed.

  Lemma srb_keeps : forall o, keeps_ok o.
  Proof.
    induction o as [n|id k items IH|id k|k|id k|w] using obj_ind2; unfold keeps_ok;
      intros rt p ky m lg v m' lg' E i x Hi;
      try (cbn in E; inversion E; subst; assumption).
    - rewrite srb_node in E. destruct (t_get m id) eqn:G; [inversion E; subst; assumption|].
      cbv zeta in E. destruct (chB _ items [] _ _) as [[items' m1] lg1] eqn:EC. inversion E; subst.
      assert (Hne : Nat.eqb i id = false).
      { destruct (Nat.eqb i id) eqn:Ei; [|reflexivity]. apply Nat.eqb_eq in Ei. subst. congruence. }
      rewrite t_get_set, Hne.
      eapply (children_keeps items IH); [exact EC|]. rewrite t_get_set, Hne. assumption.
    - cbn [srb] in E. destruct (t_get m id); inversion E; subst; assumption.
  Qed.

  Lemma registered_mono : forall m m' v,
    (forall i x, t_get m i = Some x -> t_get m' i = Some x) -> registered m v -> registered m' v.
  Proof. intros m m' v Hk Hr x Hx Hn. apply Hk. apply Hr; assumption. Qed.

  Lemma oval_registered : forall m w, registered m (oval w).
  Proof. intros m w x Hx Hn. destruct w; cbn in Hx; destruct Hx as [<-|[]]; destruct Hn. Qed.

  Definition shared_ok (o : obj) : Prop :=
    forall rt p ky m lg v m' lg', Cons m -> srbB rt p ky o m lg = (v, m', lg') ->
      Cons m' /\ registered m' v.

  Lemma do_visit_registered : forall m p ky v lg,
    registered m v ->
    forall it, In it (opt_list (fst (do_visit visit p ky v lg))) -> registered m (snd it).
  Proof.
    intros m p ky v lg Hv it Hit. unfold do_visit in Hit. destruct visit as [f|]; cbn [fst] in Hit.
    - destruct (f p ky (erase v)) as [|k' v']; cbn in Hit; [contradiction|].
      destruct Hit as [<-|[]]. cbn [snd]. destruct v'; [apply oval_registered|assumption].
    - cbn in Hit. destruct Hit as [<-|[]]. assumption.
  Qed.

  Lemma children_shared : forall l, Forall (fun kv => shared_ok (snd kv)) l ->
    forall cp acc m lg acc' m' lg', Cons m ->
      (forall it, In it acc -> registered m (snd it)) ->
      chB cp l acc m lg = (acc', m', lg') ->
      Cons m' /\ (forall it, In it acc' -> registered m' (snd it)).
  Proof.
    induction 1 as [|[ck c] r Hc Hr IH]; intros cp acc m lg acc' m' lg' HC Hacc E.
    - cbn in E. inversion E; subst. split; assumption.
    - cbn [srb_children] in E.
      destruct (srbB false cp ck c m lg) as [[c' m1] lg1] eqn:E1.
      destruct (do_visit visit cp ck c' lg1) as [it lg2] eqn:E2.
      cbn [snd] in Hc. destruct (Hc _ _ _ _ _ _ _ _ HC E1) as [HC1 Hr1].
      eapply IH; [exact HC1| |exact E].
      intros it0 Hin. rewrite in_app_iff in Hin. destruct Hin as [Hin|Hin].
      + eapply registered_mono; [|apply Hacc; assumption].
        intros i x. eapply (srb_keeps c); eassumption.
      + apply (do_visit_registered m1 cp ck c' lg1 Hr1). rewrite E2. exact Hin.
  Qed.

  Lemma srb_shared : forall o, shared_ok o.
  Proof.
    induction o as [n|id k items IH|id k|k|id k|w] using obj_ind2; unfold shared_ok;
      intros rt p ky m lg v m' lg' HC E.
    - cbn in E. inversion E; subst. split; [assumption|]. intros x [<-|[]] [].
    - rewrite srb_node in E. destruct (t_get m id) as [v0|] eqn:G.
      + inversion E; subst. split; [assumption|]. exact (HC _ _ G).
      + cbv zeta in E. set (cp := if rt then p else p ++ [ky]) in *.
        destruct (chB cp items [] _ _) as [[items' m1] lg1] eqn:EC. inversion E; subst v m' lg'. clear E.
        assert (HC0 : Cons (t_set m id (blank id k))).
        { intros j v Hj. rewrite t_get_set in Hj. destruct (Nat.eqb j id) eqn:Ej.
          - inversion Hj; subst v. intros x Hx Hn. exfalso.
            destruct (blank id k) eqn:Eb; cbn in Hx; try (destruct Hx as [<-|[]]; destruct Hn).
            exact (blank_flat id k ltac:(rewrite Eb; exact I)).
          - intros x Hx Hn. rewrite t_get_set.
            destruct (Nat.eqb (node_id x) id) eqn:Ex.
            + apply Nat.eqb_eq in Ex. rewrite <- Ex in G. rewrite (HC _ _ Hj x Hx Hn) in G. discriminate.
            + exact (HC _ _ Hj x Hx Hn). }
        destruct (children_shared items IH cp [] _ _ _ _ _ HC0 (fun _ H => match H with end) EC) as [HC1 Hit].
        assert (Hb : t_get m1 id = Some (blank id k)).
        { eapply (children_keeps items (proj2 (Forall_forall _ items) (fun kv _ => srb_keeps (snd kv))));
            [exact EC|]. rewrite t_get_set, Nat.eqb_refl. reflexivity. }
        (* no node named id exists yet anywhere in m1's values *)
        assert (Hno : forall v0, registered m1 v0 -> forall x, In x (subs v0) -> is_node x -> node_id x <> id).
        { intros v0 Hr x Hx Hn Heq. specialize (Hr x Hx Hn). rewrite Heq, Hb in Hr. inversion Hr as [Hr'].
          rewrite <- Hr' in Hn. exact (blank_flat id k Hn). }
        set (v := ONode id k (build erase k items')).
        assert (Hv : registered (t_set m1 id v) v).
        { intros x Hx Hn. cbn [subs v] in Hx. destruct Hx as [<-|Hx].
          - cbn [node_id]. rewrite t_get_set, Nat.eqb_refl. reflexivity.
          - apply in_flat_map in Hx as [kv [Hkv Hx]].
            assert (Hin : In (snd kv) (map snd items')).
            { apply build_vals with (k := k). apply in_map. assumption. }
            apply in_map_iff in Hin as [it [Hs Hin]].
            assert (Hr := Hit it Hin). rewrite Hs in Hr.
            rewrite t_get_set.
            destruct (Nat.eqb (node_id x) id) eqn:Ex.
            + apply Nat.eqb_eq in Ex. exfalso. exact (Hno _ Hr x Hx Hn Ex).
            + exact (Hr x Hx Hn). }
        split; [|exact Hv].
        intros j v1 Hj. rewrite t_get_set in Hj. destruct (Nat.eqb j id) eqn:Ej.
        * inversion Hj; subst v1. exact Hv.
        * intros x Hx Hn. rewrite t_get_set.
          destruct (Nat.eqb (node_id x) id) eqn:Ex.
          -- apply Nat.eqb_eq in Ex. exfalso. exact (Hno _ (HC1 _ _ Hj) x Hx Hn Ex).
          -- exact (HC1 _ _ Hj x Hx Hn).
    - cbn [srb] in E. destruct (t_get m id) as [v0|] eqn:G; inversion E; subst.
      + split; [assumption|]. exact (HC _ _ G).
      + split; [assumption|]. intros x [<-|[]] [].
    - cbn in E. inversion E; subst. split; [assumption|]. intros x [<-|[]] [].
    - cbn in E. inversion E; subst. split; [assumption|]. intros x [<-|[]] [].
    - cbn in E. inversion E; subst. split; [assumption|]. intros x [<-|[]] [].
  Qed.
End Shared.

Lemma impl_blank_flat : forall id k, ~ is_node (impl_blank id k).
Proof. intros id k. unfold impl_blank. destruct (mutable k); exact (fun f => f). Qed.

(* the machine: the result is a proper object graph - one definition per object,
   shared by all its occurrences (in particular two occurrences of the same id
   are identical terms) *)
Theorem machine_shared : forall visit rr defs root v m lg,
  remap (lift visit) rr defs root = Done v m lg ->
  registered m v /\ Cons m
  /\ forall x y, In x (subs v) -> In y (subs v) -> is_node x -> is_node y -> node_id x = node_id y -> x = y.
Proof.
  intros visit rr defs root v m lg H. rewrite machine_is_recursion in H. unfold srb_root in H.
  assert (HC0 : Cons []) by (intros j v0 Hj; discriminate).
  assert (G : registered m v /\ Cons m).
  { destruct root as [n|id k items|id k|k|id k|w];
      try (destruct (do_visit _ _ _ _ _) as [[?|] ?]; inversion H; subst;
           split; [intros x [<-|[]] []|exact HC0]).
    destruct (srb impl_blank visit defs true [] KNone (ONode id k items) [] []) as [[v0 m0] lg0] eqn:E.
    inversion H; subst.
    destruct (srb_shared impl_blank impl_blank_flat visit defs _ _ _ _ _ _ _ _ _ HC0 E) as [HC Hr]. tauto. }
  destruct G as [Hr HC]. split; [assumption|]. split; [assumption|].
  intros x y Hx Hy Hnx Hny Heq. assert (Hx' := Hr x Hx Hnx). assert (Hy' := Hr y Hy Hny).
  rewrite Heq in Hx'. congruence.
Qed.
