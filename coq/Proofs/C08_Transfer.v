(* C08: the bridge between the correspondence checker and the theorems.  Outside
   the guard of finding C08-tuple-cycle, whenever the implementation's observation
   agrees with the MODEL (result, visit calls, enter/exit calls), it satisfies the
   SPEC clause [ok_rebuild] that `holds` evaluates - for every visit program
   (raising ones included) and both values of reraise_visit.  So on every run on
   which `agree` is true, the rebuild clause of the property holds for the code
   by proof, not only by evaluation. *)
From Boltons Require Import Lib.Prelude Lib.C08_Py Spec.C08_Spec Model.C08_Model Check.C08_Check
  Proofs.C08_Machine Proofs.C08_Cycle Proofs.C08_Reraise.

Lemma total_mvisit_of : forall pr, total (mvisit_of pr) = visit_of pr.
Proof. intros [pr|]; reflexivity. Qed.

Lemma upto_raise_cut : forall pr lg,
  match upto_raise pr (visits_of lg) with
  | None => clean (mvisit_of (Some pr)) lg = true
  | Some cs => clean (mvisit_of (Some pr)) lg = false /\ cs = visits_of (cut (mvisit_of (Some pr)) lg)
  end.
Proof.
  intros pr. induction lg as [|e r IH]; [reflexivity|].
  destruct e as [p k o s|p k v|p k i l]; cbn [visits_of flat_map app]; fold (visits_of r).
  - cbn [clean forallb raises mvisit_of cut negb andb]. destruct (upto_raise pr (visits_of r)); cbn in *; exact IH.
  - cbn [upto_raise]. cbn [clean forallb raises mvisit_of cut].
    destruct (run_prog pr p k (shallow v)) as [a|].
    + cbn [negb andb]. destruct (upto_raise pr (visits_of r)) as [cs|].
      * destruct IH as [IH1 IH2]. split; [exact IH1|]. cbn [visits_of flat_map app]. fold (visits_of (cut (mvisit_of (Some pr)) r)).
        rewrite IH2. reflexivity.
      * exact IH.
    + split; reflexivity.
  - cbn [clean forallb raises mvisit_of cut negb andb]. destruct (upto_raise pr (visits_of r)); cbn in *; exact IH.
Qed.

Theorem agree_implies_rebuild : forall c,
  imm_backref [] (c_in c) = false ->
  res_eqb obj_eqb (outcome_result (model_remap c)) (canon_res (c_out c)) = true ->
  list_eqb vcall_eqb (outcome_calls (model_remap c)) (c_calls c) = true ->
  hooks_match (model_remap c) (c_hooks c) = true ->
  ok_rebuild c = true.
Proof.
  intros c Hg H1 H2 H3. unfold ok_rebuild. unfold model_remap in *.
  set (s := spec_remap (visit_of (c_visit c)) (c_in c)) in *.
  destruct (c_reraise c) eqn:Er.
  - (* reraise_visit = True *)
    rewrite remap_reraise in H1, H2, H3.
    rewrite total_mvisit_of in H1, H2, H3.
    rewrite (srb_root_same (visit_of (c_visit c)) (collect_defs (c_in c)) (c_in c) Hg) in H1, H2, H3.
    change (srb_root spec_blank (visit_of (c_visit c)) (collect_defs (c_in c)) (c_in c)) with s in H1, H2, H3.
    destruct (c_visit c) as [pr|] eqn:Ev.
    + destruct s as [v m lg|e lg|]; cbn [outcome_calls cutO] in *.
      * assert (L := upto_raise_cut pr lg). destruct (upto_raise pr (visits_of lg)) as [cs|].
        -- destruct L as [L1 L2]. rewrite L1 in H1, H2, H3. cbn [outcome_result outcome_calls] in H1, H2.
           rewrite L2. rewrite H1, H2. reflexivity.
        -- rewrite L in H1, H2, H3. cbn [outcome_calls] in H2. rewrite H1, H2, H3. reflexivity.
      * assert (L := upto_raise_cut pr lg). destruct (upto_raise pr (visits_of lg)) as [cs|].
        -- destruct L as [L1 L2]. rewrite L1 in H1, H2, H3. cbn [outcome_result outcome_calls] in H1, H2.
           rewrite L2. rewrite H1, H2. reflexivity.
        -- rewrite L in H1, H2, H3. cbn [outcome_calls] in H2. rewrite H1, H2, H3. reflexivity.
      * cbn in *. rewrite H1, H2, H3. reflexivity.
    + assert (Hc : forall o, cutO (mvisit_of None) o = o).
      { intros [v m lg|e lg|]; cbn [cutO]; try reflexivity;
          (replace (clean (mvisit_of None) lg) with true; [reflexivity|]);
          induction lg as [|x r IH]; cbn; try reflexivity; exact IH. }
      rewrite Hc in H1, H2, H3. rewrite H1, H2, H3. reflexivity.
  - (* reraise_visit = False *)
    rewrite (remap_no_reraise _ true) in H1, H2, H3. rewrite total_mvisit_of in H1, H2, H3.
    rewrite (machine_refines_spec _ true _ Hg) in H1, H2, H3. fold s in H1, H2, H3.
    rewrite H1, H2, H3. reflexivity.
Qed.
