(* C08: the bridge between the correspondence checker and the theorems.  Outside
   the guard of finding C08-tuple-cycle, whenever the implementation's observation
   agrees with the MODEL (result, visit calls, enter/exit calls), it satisfies the
   SPEC clause [ok_rebuild] that `holds` evaluates - for every visit program
   (raising ones included) and both values of reraise_visit.  So on every run on
   which `agree` is true, the rebuild clause of the property holds for the code
   by proof, not only by evaluation. *)
From Boltons Require Import Lib.Prelude Lib.C08_Py Spec.C08_Spec Model.C08_Model Check.C08_Check
  Proofs.C08_Machine Proofs.C08_Cycle Proofs.C08_Reraise Proofs.C08_Paths.

Lemma total_mvisit_of : forall pr, total (mvisit_of pr) = visit_of pr.
Proof. intros [pr|]; reflexivity. Qed.

Lemma upto_raise_cut : forall pr lg,
  match upto_raise pr (visits_of lg) with
  | None => clean (mvisit_of (Some pr)) lg = true
  | Some cs => clean (mvisit_of (Some pr)) lg = false /\ cs = visits_of (cut (mvisit_of (Some pr)) lg)
  end.
Proof.
  intros pr. induction lg as [|e r IH]; [reflexivity|].
  destruct e as [p k o s|p k rr v|p k i l]; cbn [visits_of flat_map app]; fold (visits_of r).
  - cbn [clean forallb raises mvisit_of cut negb andb]. destruct (upto_raise pr (visits_of r)); cbn in *; exact IH.
  - cbn [upto_raise]. cbn [clean forallb raises mvisit_of cut].
    destruct (run_prog pr p k (shallow v)) as [a|].
    + cbn [negb andb]. destruct (upto_raise pr (visits_of r)) as [cs|].
      * destruct IH as [IH1 IH2]. split; [exact IH1|]. cbn [visits_of flat_map app]. fold (visits_of (cut (mvisit_of (Some pr)) r)).
        rewrite IH2. reflexivity.
      * exact IH.
    + split; reflexivity.
  - cbn [clean forallb raises mvisit_of cut negb andb]. destruct (upto_raise pr (visits_of r)); cbn in *; exact IH.
Qed.

Theorem agree_implies_rebuild : forall c,
  imm_backref [] (c_in c) = false ->
  res_eqb obj_eqb (outcome_result (model_remap c)) (canon_res (c_out c)) = true ->
  list_eqb vcall_eqb (outcome_calls (model_remap c)) (c_calls c) = true ->
  hooks_match (model_remap c) (c_hooks c) = true ->
  ids_match (model_remap c) (c_out c) (c_call_ids c) = true ->
  ok_rebuild c = true.
Proof.
  intros c Hg H1 H2 H3 H4. unfold ok_rebuild. unfold model_remap in *.
  set (s := spec_remap (visit_of (c_visit c)) (c_in c)) in *.
  destruct (c_reraise c) eqn:Er.
  - (* reraise_visit = True *)
    rewrite remap_reraise in H1, H2, H3, H4.
    rewrite total_mvisit_of in H1, H2, H3, H4.
    rewrite (srb_root_same (visit_of (c_visit c)) (collect_defs (c_in c)) (c_in c) Hg) in H1, H2, H3, H4.
    change (srb_root spec_blank (visit_of (c_visit c)) (collect_defs (c_in c)) (c_in c)) with s in H1, H2, H3, H4.
    destruct (c_visit c) as [pr|] eqn:Ev.
    + destruct s as [v m lg|e lg|]; cbn [outcome_calls cutO] in *.
      * assert (L := upto_raise_cut pr lg). destruct (upto_raise pr (visits_of lg)) as [cs|].
        -- destruct L as [L1 L2]. rewrite L1 in H1, H2, H3. cbn [outcome_result outcome_calls] in H1, H2.
           rewrite L2. rewrite H1, H2. reflexivity.
        -- rewrite L in H1, H2, H3, H4. cbn [outcome_calls] in H2. rewrite H1, H2, H3, H4. reflexivity.
      * assert (L := upto_raise_cut pr lg). destruct (upto_raise pr (visits_of lg)) as [cs|].
        -- destruct L as [L1 L2]. rewrite L1 in H1, H2, H3. cbn [outcome_result outcome_calls] in H1, H2.
           rewrite L2. rewrite H1, H2. reflexivity.
        -- rewrite L in H1, H2, H3, H4. cbn [outcome_calls] in H2. rewrite H1, H2, H3, H4. reflexivity.
      * cbn in *. rewrite H1, H2, H3, H4. reflexivity.
    + assert (Hc : forall o, cutO (mvisit_of None) o = o).
      { intros [v m lg|e lg|]; cbn [cutO]; try reflexivity;
          (replace (clean (mvisit_of None) lg) with true; [reflexivity|]);
          induction lg as [|x r IH]; cbn; try reflexivity; exact IH. }
      rewrite Hc in H1, H2, H3, H4. rewrite H1, H2, H3, H4. reflexivity.
  - (* reraise_visit = False *)
    rewrite (remap_no_reraise _ true) in H1, H2, H3, H4. rewrite total_mvisit_of in H1, H2, H3, H4.
    rewrite (machine_refines_spec _ true _ Hg) in H1, H2, H3, H4. fold s in H1, H2, H3, H4.
    rewrite H1, H2, H3, H4. reflexivity.
Qed.

(* ---- research / get_path ---------------------------------------------------- *)
Lemma oref_eqb_refl : forall r, oref_eqb r r = true.
Proof. intros [n|i|]; cbn; try apply Nat.eqb_refl; reflexivity. Qed.

Lemma reported_x_in : forall q rr lg l p r, reported_x q rr lg = Ok l -> In (p, r) l ->
  exists ep ek es, In (EEnter ep ek r es) lg /\ p = ep ++ [ek].
Proof.
  intros q rr. induction lg as [|e rest IH]; intros l p r H Hin; cbn [reported_x] in H.
  - inversion H; subst. inversion Hin.
  - destruct e as [ep ek er es| |].
    + destruct (q ep ek es) as [[|]|].
      * destruct (reported_x q rr rest) as [l'|] eqn:E; [|discriminate]. inversion H; subst.
        destruct Hin as [Hh|Hin].
        -- inversion Hh; subst. exists ep, ek, es. split; [left; reflexivity|reflexivity].
        -- destruct (IH _ _ _ eq_refl Hin) as [a [b [c [H1 H2]]]]. exists a, b, c. split; [right; assumption|assumption].
      * destruct (IH _ _ _ H Hin) as [a [b [c [H1 H2]]]]. exists a, b, c. split; [right; assumption|assumption].
      * destruct rr; [discriminate|].
        destruct (IH _ _ _ H Hin) as [a [b [c [H1 H2]]]]. exists a, b, c. split; [right; assumption|assumption].
    + destruct (IH _ _ _ H Hin) as [a [b [c [H1 H2]]]]. exists a, b, c. split; [right; assumption|assumption].
    + destruct (IH _ _ _ H Hin) as [a [b [c [H1 H2]]]]. exists a, b, c. split; [right; assumption|assumption].
Qed.

(* C08_paths_partial for a query that may raise and any `reraise` *)
Theorem research_x_paths : forall q rr root l,
  wf_keys root -> research_x q rr root = Ok l ->
  forall p r, In (p, r) l -> ~ (p = [KNone] /\ r = oref_of root) ->
    crosses_set (collect_defs root) root p = false -> get_path root p = Ok r.
Proof.
  intros q rr root l Hw Hr p r Hin Hp Hc. unfold research_x in Hr.
  pose proof (machine_is_recursion None true (collect_defs root) root) as HM. cbn [lift] in HM.
  rewrite HM in Hr. clear HM. unfold srb_root in Hr.
  destruct root as [n|id k items|id k|k|id k|w];
    try (unfold do_visit in Hr;
         match type of Hr with context [reported_x ?a ?b ?c] => destruct (reported_x a b c) end; discriminate).
  destruct (srb impl_blank None (collect_defs (ONode id k items)) true [] KNone (ONode id k items) [] [])
    as [[v m] lg] eqn:E.
  destruct (reported_x_in _ _ _ _ _ _ Hr Hin) as [ep [ek [es [He ->]]]].
  destruct (srb_events impl_blank None _ (ONode id k items) Hw true [] KNone [] [] v m lg E _ He)
    as [[]|[[]|[H|H]]].
  - inversion H; subst. exfalso. apply Hp. split; reflexivity.
  - destruct H as [ep' [ek' [er [es' [s [Ee [Hps [Hs [Hx|[c [Hx ->]]]]]]]]]]]; inversion Ee; subst.
    + cbn [app] in Hps. rewrite Hps in Hc. rewrite (walk_cross _ _ _ Hx) in Hc. discriminate.
    + cbn [app] in Hps. rewrite Hps. unfold get_path. apply walk_get. assumption.
Qed.

(* agreement with the model on research implies the paths clause up to the
   recorded guard: every reported entry is retrievable, or crosses a set *)
Theorem agree_implies_paths : forall c,
  wf_keys (c_in c) ->
  res_eqb (list_eqb rentry_eqb) (model_research c) (c_research c) = true ->
  match model_research c with
  | Ok l => forallb (fun e => let '(p, r, g) := e in
                      retrievable (c_in c) (p, r, got g) || crosses_set (collect_defs (c_in c)) (c_in c) p) l = true
  | Raise _ => True
  end.
Proof.
  intros c Hw _. unfold model_research.
  destruct (research_x _ (c_qreraise c) (c_in c)) as [l|e] eqn:E; [|exact I].
  apply forallb_forall. intros [[p r] g] Hin. apply in_map_iff in Hin as [[p0 r0] [Heq Hin]].
  cbn [fst snd] in Heq. inversion Heq; subst p0 r0 g. clear Heq.
  unfold retrievable.
  destruct (crosses_set (collect_defs (c_in c)) (c_in c) p) eqn:Ec; [apply orb_true_r|].
  destruct (path_eqb p [KNone] && oref_eqb r (oref_of (c_in c))) eqn:Eb; [reflexivity|].
  rewrite (research_x_paths _ _ _ _ Hw E p r Hin); [cbn; rewrite oref_eqb_refl; reflexivity| |exact Ec].
  intros [-> ->]. cbn in Eb. rewrite oref_eqb_refl in Eb. discriminate.
Qed.

(* agreement on the get_path probes implies the Spec's indexing clause *)
Theorem agree_implies_probes : forall c, probes_agree c = true -> ok_probes c = true.
Proof.
  intros c H. unfold probes_agree, ok_probes in *. rewrite forallb_forall in *.
  intros [[p g] d] Hin. specialize (H _ Hin). cbn in H. apply andb_true_iff in H as [H1 H2].
  rewrite H2, andb_true_r. rewrite get_path_is_lookup in H1.
  destruct (lookup_path (collect_defs (c_in c)) (c_in c) p) as [r|]; destruct g as [r'|e]; cbn in *;
    try discriminate; try reflexivity; exact H1.
Qed.
