(* C11: the dead-interval table.  [layout off d its]: the interval list d
   describes exactly the runs of tombstones of its (slot j of its has real
   index off + j).  _add_dead, the right-trim of _cull and the two index
   translations are proved against it. *)
From Boltons Require Import Lib.Prelude Lib.C11_Iface Spec.C11_Spec Model.C11_Model Proofs.C11_Lists.

Definition livep (o : option K) : Prop := o <> None.
Definition deadp (o : option K) : Prop := o = None.

Fixpoint layout (off : nat) (d : list (nat * nat)) (its : list (option K)) : Prop :=
  match d with
  | [] => Forall livep its
  | (a, b) :: t =>
      off <= a /\ a < b /\ b - off <= length its /\
      Forall livep (firstn (a - off) its) /\
      Forall deadp (firstn (b - a) (skipn (a - off) its)) /\
      layout b t (skipn (b - off) its)
  end.

(* sortedness / disjointness, implied by layout *)
Fixpoint sorted_iv (lo : nat) (d : list (nat * nat)) : Prop :=
  match d with
  | [] => True
  | (a, b) :: t => lo <= a /\ a < b /\ sorted_iv b t
  end.

Definition outside (start : nat) (d : list (nat * nat)) : Prop :=
  Forall (fun ab => start < fst ab \/ snd ab <= start) d.

Lemma layout_sorted off d its : layout off d its -> sorted_iv off d.
Proof.
  revert off its; induction d as [|[a b] t IH]; simpl; intros off its H; auto.
  destruct H as (H1 & H2 & _ & _ & _ & H6). eauto.
Qed.

Lemma sorted_iv_weaken lo lo' d : lo' <= lo -> sorted_iv lo d -> sorted_iv lo' d.
Proof. destruct d as [|[a b] t]; simpl; intros; auto. intuition lia. Qed.

Lemma sorted_iv_bounds lo d : sorted_iv lo d -> Forall (fun ab => lo <= fst ab /\ fst ab < snd ab) d.
Proof.
  revert lo; induction d as [|[a b] t IH]; simpl; intros lo H; constructor.
  - simpl; lia.
  - destruct H as (H1 & H2 & H3). specialize (IH _ H3).
    eapply Forall_impl; [|exact IH]. simpl. intros [a' b']; simpl. lia.
Qed.

(* a live slot lies outside every interval *)
Lemma layout_outside off d its r x :
  layout off d its -> nth_error its r = Some (Some x) -> outside (off + r) d.
Proof.
  revert off its r; induction d as [|[a b] t IH]; simpl; intros off its r H E.
  - constructor.
  - destruct H as (H1 & H2 & H3 & H4 & H5 & H6). constructor.
    + simpl. destruct (Nat.lt_ge_cases (off + r) a) as [L|L]; [left; exact L|right].
      destruct (Nat.lt_ge_cases (off + r) b) as [L2|L2]; [|exact L2]. exfalso.
      (* slot r would be inside the dead run *)
      assert (E2 : nth_error (firstn (b - a) (skipn (a - off) its)) (r - (a - off)) = Some (Some x)).
      { rewrite nth_error_firstn by lia. rewrite nth_error_skipn.
        replace (a - off + (r - (a - off))) with r by lia. exact E. }
      apply (Forall_nth_error _ _ _ _ H5) in E2. discriminate.
    + destruct (Nat.lt_ge_cases (off + r) b) as [L|L].
      * (* every later interval starts at or after b *)
        apply layout_sorted in H6. apply sorted_iv_bounds in H6.
        eapply Forall_impl; [|exact H6]. intros [a' b']; simpl. lia.
      * specialize (IH b (skipn (b - off) its) (r - (b - off)) H6).
        replace (b + (r - (b - off))) with (off + r) in IH by lia.
        apply IH. rewrite nth_error_skipn. replace (b - off + (r - (b - off))) with r by lia. exact E.
Qed.

(* ---- _add_dead = a simple recursive insertion ------------------------------- *)
Fixpoint add_dead_rec (d : list (nat * nat)) (start : nat) : list (nat * nat) :=
  match d with
  | [] => [(start, S start)]
  | (a, b) :: t =>
      if start <? a then (start, S start) :: d
      else if b =? start then (a, S start) :: t
      else (a, b) :: add_dead_rec t start
  end.

(* the wrap-around dints[-1] only matters for a single interval that starts right after [start] *)
Definition add_dead_top (d : list (nat * nat)) (start : nat) : list (nat * nat) :=
  match d with
  | [(a, b)] => if a =? S start then [(start, b)] else add_dead_rec d start
  | _ => add_dead_rec d start
  end.

Lemma pair_ltb_outside a b start :
  a < b -> (start < a \/ b <= start) -> pair_ltb (a, b) (start, S start) = (a <? start).
Proof.
  intros H1 H2. unfold pair_ltb; simpl.
  destruct (a <? start) eqn:E1; simpl; [reflexivity|].
  apply Nat.ltb_ge in E1.
  destruct (a =? start) eqn:E2; simpl; [|reflexivity].
  apply Nat.eqb_eq in E2. lia.
Qed.

Lemma add_dead_mid start : forall t a b,
  a < b -> b <= start -> sorted_iv b t -> outside start t ->
  (let m := bisect_left t (start, S start) in
   let '(ds, de) := nth m ((a, b) :: t) (0, 0) in
   if (start <=? ds) && (ds <=? S start) then set_nth m (start, de) ((a, b) :: t)
   else if (start <=? de) && (de <=? S start) then set_nth m (ds, S start) ((a, b) :: t)
   else insert_at (S m) (start, S start) ((a, b) :: t))
  = add_dead_rec ((a, b) :: t) start.
Proof.
  induction t as [|[a' b'] t IH]; intros a b Hab Hb Hs Ho.
  - cbn [bisect_left nth add_dead_rec].
    replace (start <=? a) with false by (symmetry; apply Nat.leb_gt; lia).
    replace (start <? a) with false by (symmetry; apply Nat.ltb_ge; lia).
    cbn [andb].
    destruct (b =? start) eqn:E.
    + apply Nat.eqb_eq in E. subst b.
      rewrite Nat.leb_refl. replace (start <=? S start) with true by (symmetry; apply Nat.leb_le; lia).
      reflexivity.
    + apply Nat.eqb_neq in E.
      replace (start <=? b) with false by (symmetry; apply Nat.leb_gt; lia). reflexivity.
  - simpl in Hs. destruct Hs as (Hs1 & Hs2 & Hs3).
    inversion Ho as [|? ? Ho1 Ho2]; subst. simpl in Ho1.
    cbn [bisect_left]. rewrite (pair_ltb_outside a' b' start Hs2 Ho1).
    cbn [add_dead_rec].
    replace (start <? a) with false by (symmetry; apply Nat.ltb_ge; lia).
    destruct (a' <? start) eqn:E1.
    + apply Nat.ltb_lt in E1.
      assert (Hb' : b' <= start) by lia.
      specialize (IH a' b' Hs2 Hb' Hs3 Ho2).
      replace (b =? start) with false by (symmetry; apply Nat.eqb_neq; lia).
      cbn zeta in IH. cbn zeta.
      change (nth (S (bisect_left t (start, S start))) ((a, b) :: (a', b') :: t) (0, 0))
        with (nth (bisect_left t (start, S start)) ((a', b') :: t) (0, 0)).
      revert IH.
      destruct (nth (bisect_left t (start, S start)) ((a', b') :: t) (0, 0)) as [ds de].
      cbn [set_nth insert_at].
      destruct ((start <=? ds) && (ds <=? S start)); [intros ->; reflexivity|].
      destruct ((start <=? de) && (de <=? S start)); intros ->; reflexivity.
    + apply Nat.ltb_ge in E1. cbn zeta. cbn [nth].
      replace (start <=? a) with false by (symmetry; apply Nat.leb_gt; lia).
      cbn [andb].
      replace (start <? a') with true by (symmetry; apply Nat.ltb_lt; lia).
      destruct (b =? start) eqn:E.
      * apply Nat.eqb_eq in E. subst b.
        rewrite Nat.leb_refl. replace (start <=? S start) with true by (symmetry; apply Nat.leb_le; lia).
        reflexivity.
      * apply Nat.eqb_neq in E.
        replace (start <=? b) with false by (symmetry; apply Nat.leb_gt; lia). reflexivity.
Qed.

Lemma sorted_iv_last lo d a b : sorted_iv lo d -> d <> [] -> last d (a, b) = last d (0, 0) /\ lo <= fst (last d (0,0)) /\ fst (last d (0,0)) < snd (last d (0,0)).
Proof.
  intros H Hne. apply sorted_iv_bounds in H. split.
  - clear H. induction d as [|x d IH]; [contradiction|]. destruct d; [reflexivity|].
    change (last (x :: p :: d) (a, b)) with (last (p :: d) (a, b)).
    change (last (x :: p :: d) (0, 0)) with (last (p :: d) (0, 0)). apply IH. discriminate.
  - assert (Hin : In (last d (0, 0)) d).
    { clear H. induction d as [|x d IH]; [contradiction|]. destruct d; [left; reflexivity|].
      right. apply IH. discriminate. }
    rewrite Forall_forall in H. apply H in Hin. exact Hin.
Qed.

Lemma nth_last {A} (l : list A) d : nth (length l - 1) l d = last l d.
Proof.
  induction l as [|x l IH]; [reflexivity|].
  destruct l as [|y l]; [reflexivity|].
  change (last (x :: y :: l) d) with (last (y :: l) d). rewrite <- IH.
  simpl. rewrite Nat.sub_0_r. reflexivity.
Qed.

Lemma add_dead_eq lo d start :
  sorted_iv lo d -> outside start d -> add_dead d start = add_dead_top d start.
Proof.
  intros Hs Ho. destruct d as [|[a b] t]; [reflexivity|].
  simpl in Hs. destruct Hs as (Hs1 & Hs2 & Hs3).
  inversion Ho as [|? ? Ho1 Ho2]; subst. simpl in Ho1.
  unfold add_dead. cbn [bisect_left]. rewrite (pair_ltb_outside a b start Hs2 Ho1).
  destruct (a <? start) eqn:E1.
  - (* the previous interval exists *)
    apply Nat.ltb_lt in E1. assert (Hb : b <= start) by lia.
    pose proof (add_dead_mid start t a b Hs2 Hb Hs3 Ho2) as M. cbn zeta in M.
    rewrite M. unfold add_dead_top. destruct t as [|p t]; [|reflexivity].
    replace (a =? S start) with false by (symmetry; apply Nat.eqb_neq; lia). reflexivity.
  - (* int_idx = 0: dints[-1] *)
    apply Nat.ltb_ge in E1. assert (Ha : start < a) by lia.
    rewrite nth_last.
    destruct t as [|p t].
    + cbn [last length add_dead_top add_dead_rec].
      replace (start <=? a) with true by (symmetry; apply Nat.leb_le; lia). cbn [andb].
      replace (start <? a) with true by (symmetry; apply Nat.ltb_lt; lia).
      destruct (a =? S start) eqn:E2.
      * apply Nat.eqb_eq in E2. replace (a <=? S start) with true by (symmetry; apply Nat.leb_le; lia).
        reflexivity.
      * apply Nat.eqb_neq in E2. replace (a <=? S start) with false by (symmetry; apply Nat.leb_gt; lia).
        replace (b <=? S start) with false by (symmetry; apply Nat.leb_gt; lia).
        rewrite andb_false_r. reflexivity.
    + change (last ((a, b) :: p :: t) (0, 0)) with (last (p :: t) (0, 0)).
      destruct (sorted_iv_last b (p :: t) 0 0 Hs3 ltac:(discriminate)) as (_ & L1 & L2).
      destruct (last (p :: t) (0, 0)) as [ds de]. simpl in L1, L2.
      replace (ds <=? S start) with false by (symmetry; apply Nat.leb_gt; lia).
      replace (de <=? S start) with false by (symmetry; apply Nat.leb_gt; lia).
      rewrite !andb_false_r. unfold add_dead_top. cbn [insert_at add_dead_rec].
      replace (start <? a) with true by (symmetry; apply Nat.ltb_lt; lia). reflexivity.
Qed.

(* ---- layout under the basic moves ------------------------------------------- *)
Lemma Forall_firstn_skipn {A} (P : A -> Prop) m n k (l : list A) :
  Forall P (firstn m l) -> n + k <= m -> Forall P (firstn k (skipn n l)).
Proof.
  intros H L. apply Forall_nth_error_intro. intros i y E.
  apply nth_error_firstn_some in E. destruct E as [Li E]. rewrite nth_error_skipn in E.
  apply (Forall_nth_error P (firstn m l) (n + i) y H). rewrite nth_error_firstn by lia. exact E.
Qed.

Lemma layout_skip_live d off its n :
  layout off d its -> n <= length its -> Forall livep (firstn n its) ->
  layout (off + n) d (skipn n its).
Proof.
  destruct d as [|[a b] t]; simpl; intros H Ln Hl.
  - apply Forall_skipn. exact H.
  - destruct H as (H1 & H2 & H3 & H4 & H5 & H6).
    assert (Hn : n <= a - off).
    { destruct (Nat.le_gt_cases n (a - off)) as [L|L]; [exact L|exfalso].
      (* slot a - off is dead but inside the live prefix *)
      destruct (nth_error its (a - off)) as [o|] eqn:E.
      - assert (E1 : nth_error (firstn n its) (a - off) = Some o) by (rewrite nth_error_firstn by lia; exact E).
        assert (E2 : nth_error (firstn (b - a) (skipn (a - off) its)) 0 = Some o).
        { rewrite nth_error_firstn by lia. rewrite nth_error_skipn. rewrite Nat.add_0_r. exact E. }
        apply (Forall_nth_error _ _ _ _ Hl) in E1. apply (Forall_nth_error _ _ _ _ H5) in E2.
        unfold livep, deadp in *. congruence.
      - apply nth_error_None in E. lia. }
    repeat split; try lia.
    + rewrite skipn_length. lia.
    + eapply Forall_firstn_skipn; [exact H4|lia].
    + rewrite skipn_skipn'. replace (a - (off + n) + n) with (a - off) by lia.
      replace (b - a) with (b - a) by lia. exact H5.
    + rewrite skipn_skipn'. replace (b - (off + n) + n) with (b - off) by lia. exact H6.
Qed.

Lemma skipn_set_nth_same {A} r (v : A) l : r < length l -> skipn r (set_nth r v l) = v :: skipn (S r) l.
Proof.
  revert r; induction l as [|y l IH]; intros r H; simpl in H; [lia|].
  destruct r; simpl; [reflexivity|]. apply IH. lia.
Qed.

Lemma layout_add_dead_rec : forall d off its r x,
  layout off d its -> nth_error its r = Some (Some x) ->
  layout off (add_dead_rec d (off + r)) (set_nth r None its).
Proof.
  induction d as [|[a b] t IH]; intros off its r x H E.
  - assert (Lr : r < length its) by (apply nth_error_Some; congruence).
    simpl in H. cbn [add_dead_rec layout]. rewrite set_nth_length.
    replace (off + r - off) with r by lia. replace (S (off + r) - off) with (S r) by lia.
    replace (S (off + r) - (off + r)) with 1 by lia.
    repeat split; try lia.
    + rewrite set_nth_firstn by lia. apply Forall_firstn. exact H.
    + rewrite skipn_set_nth_same by lia. simpl. constructor; [reflexivity|constructor].
    + rewrite set_nth_skipn_gt by lia. apply Forall_skipn. exact H.
  - assert (Lr : r < length its) by (apply nth_error_Some; congruence).
    pose proof (layout_outside _ _ _ _ _ H E) as Ho. inversion Ho as [|? ? Ho1 _]; subst. simpl in Ho1.
    pose proof H as H0. simpl in H. destruct H as (H1 & H2 & H3 & H4 & H5 & H6).
    cbn [add_dead_rec].
    destruct (off + r <? a) eqn:C1.
    + apply Nat.ltb_lt in C1. cbn [layout]. rewrite set_nth_length.
      replace (off + r - off) with r by lia. replace (S (off + r) - off) with (S r) by lia.
      replace (S (off + r) - (off + r)) with 1 by lia.
      assert (Hlive : Forall livep (firstn (S r) its)).
      { replace (firstn (S r) its) with (firstn (S r) (firstn (a - off) its)).
        - apply Forall_firstn. exact H4.
        - rewrite firstn_firstn. f_equal. lia. }
      split; [lia|]. split; [lia|]. split; [lia|]. split; [|split].
      * rewrite set_nth_firstn by lia.
        replace (firstn r its) with (firstn r (firstn (S r) its)) by (rewrite firstn_firstn; f_equal; lia).
        apply Forall_firstn. exact Hlive.
      * rewrite skipn_set_nth_same by lia. simpl. constructor; [reflexivity|constructor].
      * rewrite set_nth_skipn_gt by lia.
        replace (S (off + r)) with (off + S r) by lia.
        apply (layout_skip_live ((a, b) :: t)); [exact H0|lia|exact Hlive].
    + apply Nat.ltb_ge in C1. assert (Hb : b <= off + r) by lia.
      destruct (b =? off + r) eqn:C2.
      * apply Nat.eqb_eq in C2. cbn [layout]. rewrite set_nth_length.
        split; [lia|]. split; [lia|]. split; [lia|]. split; [|split].
        -- rewrite set_nth_firstn by lia. exact H4.
        -- apply Forall_nth_error_intro. intros i y Ei.
           apply nth_error_firstn_some in Ei. destruct Ei as [Li Ei].
           rewrite nth_error_skipn, nth_error_set_nth in Ei.
           destruct (Nat.eqb (a - off + i) r) eqn:C3.
           ++ replace (r <? length its) with true in Ei by (symmetry; apply Nat.ltb_lt; lia).
              injection Ei as <-. reflexivity.
           ++ apply Nat.eqb_neq in C3.
              apply (Forall_nth_error _ _ i y H5).
              rewrite nth_error_firstn by lia. rewrite nth_error_skipn. exact Ei.
        -- replace (S (off + r) - off) with (S r) by lia.
           rewrite set_nth_skipn_gt by lia.
           replace (S r) with (1 + (b - off)) by lia. rewrite <- skipn_skipn'.
           replace (S (off + r)) with (b + 1) by lia.
           apply layout_skip_live; [exact H6| |].
           ++ rewrite skipn_length. lia.
           ++ apply Forall_nth_error_intro. intros i y Ei.
              apply nth_error_firstn_some in Ei. destruct Ei as [Li Ei].
              rewrite nth_error_skipn in Ei. replace (b - off + i) with r in Ei by lia.
              rewrite E in Ei. injection Ei as <-. discriminate.
      * apply Nat.eqb_neq in C2. cbn [layout]. rewrite set_nth_length.
        split; [lia|]. split; [lia|]. split; [lia|]. split; [|split].
        -- rewrite set_nth_firstn by lia. exact H4.
        -- rewrite set_nth_skipn_le by lia. rewrite set_nth_firstn by lia. exact H5.
        -- rewrite set_nth_skipn_le by lia.
           replace (off + r) with (b + (r - (b - off))) by lia.
           apply (IH b _ _ x); [exact H6|].
           rewrite nth_error_skipn. replace (b - off + (r - (b - off))) with r by lia. exact E.
Qed.

Lemma layout_add_dead off d its r x :
  layout off d its -> nth_error its r = Some (Some x) ->
  layout off (add_dead d (off + r)) (set_nth r None its).
Proof.
  intros H E.
  rewrite (add_dead_eq off d (off + r) (layout_sorted _ _ _ H) (layout_outside _ _ _ _ _ H E)).
  unfold add_dead_top.
  destruct d as [|[a b] [|p t]]; try (eapply layout_add_dead_rec; eassumption).
  destruct (a =? S (off + r)) eqn:C; [|eapply layout_add_dead_rec; eassumption].
  apply Nat.eqb_eq in C.
  assert (Lr : r < length its) by (apply nth_error_Some; congruence).
  simpl in H. destruct H as (H1 & H2 & H3 & H4 & H5 & H6).
  cbn [layout]. rewrite set_nth_length. replace (off + r - off) with r by lia.
  split; [lia|]. split; [lia|]. split; [lia|]. split; [|split].
  - rewrite set_nth_firstn by lia.
    replace (firstn r its) with (firstn r (firstn (a - off) its)) by (rewrite firstn_firstn; f_equal; lia).
    apply Forall_firstn. exact H4.
  - apply Forall_nth_error_intro. intros i y Ei.
    apply nth_error_firstn_some in Ei. destruct Ei as [Li Ei].
    rewrite nth_error_skipn, nth_error_set_nth in Ei.
    destruct (Nat.eqb (r + i) r) eqn:C3.
    + replace (r <? length its) with true in Ei by (symmetry; apply Nat.ltb_lt; lia).
      injection Ei as <-. reflexivity.
    + apply Nat.eqb_neq in C3.
      apply (Forall_nth_error _ _ (r + i - (a - off)) y H5).
      rewrite nth_error_firstn by lia. rewrite nth_error_skipn.
      replace (a - off + (r + i - (a - off))) with (r + i) by lia. exact Ei.
  - rewrite set_nth_skipn_gt by lia. exact H6.
Qed.

(* ---- the two index translations --------------------------------------------- *)
Lemma layout_head_split off a b t its :
  layout off ((a, b) :: t) its ->
  live_of (firstn (b - off) its) = live_of (firstn (a - off) its) /\
  length (live_of (firstn (a - off) its)) = a - off /\
  live_of its = live_of (firstn (a - off) its) ++ live_of (skipn (b - off) its).
Proof.
  simpl. intros (H1 & H2 & H3 & H4 & H5 & H6).
  assert (E1 : firstn (b - off) its = firstn (a - off) its ++ firstn (b - a) (skipn (a - off) its)).
  { replace (b - off) with ((a - off) + (b - a)) by lia. apply firstn_add. }
  assert (E2 : live_of (firstn (b - off) its) = live_of (firstn (a - off) its)).
  { rewrite E1, live_of_app, (live_of_all_none _ H5). apply app_nil_r. }
  split; [exact E2|]. split.
  - rewrite (live_of_all_live _ H4). rewrite firstn_length. lia.
  - rewrite <- (firstn_skipn (b - off) its) at 1. rewrite live_of_app, E2. reflexivity.
Qed.

Lemma real_loop_spec : forall d off its i,
  layout off d its -> i < length (live_of its) ->
  exists r x, real_loop d (off + i) = off + r /\ nth_error its r = Some (Some x) /\
              length (live_of (firstn r its)) = i.
Proof.
  induction d as [|[a b] t IH]; intros off its i H Li.
  - simpl in H. rewrite (live_of_all_live _ H) in Li.
    destruct (all_live_nth its i H Li) as [x Ex]. exists i, x. simpl. split; [reflexivity|]. split; [exact Ex|].
    rewrite (live_of_all_live _ (Forall_firstn _ i _ H)). rewrite firstn_length. lia.
  - destruct (layout_head_split _ _ _ _ _ H) as (S1 & S2 & S3).
    pose proof H as H0. simpl in H. destruct H as (H1 & H2 & H3 & H4 & H5 & H6).
    cbn [real_loop]. destruct (off + i <? a) eqn:C.
    + apply Nat.ltb_lt in C.
      assert (Li' : i < length (firstn (a - off) its)) by (rewrite firstn_length; lia).
      destruct (all_live_nth _ i H4 Li') as [x Ex]. rewrite nth_error_firstn in Ex by lia.
      exists i, x. split; [reflexivity|]. split; [exact Ex|].
      assert (Hl : Forall livep (firstn i its)).
      { replace (firstn i its) with (firstn i (firstn (a - off) its)) by (rewrite firstn_firstn; f_equal; lia).
        apply Forall_firstn. exact H4. }
      rewrite (live_of_all_live _ Hl). rewrite firstn_length. lia.
    + apply Nat.ltb_ge in C.
      assert (Li' : i - (a - off) < length (live_of (skipn (b - off) its))).
      { rewrite S3, app_length, S2 in Li. lia. }
      destruct (IH b (skipn (b - off) its) (i - (a - off)) H6 Li') as (r' & x & R1 & R2 & R3).
      exists (b - off + r'), x.
      replace (off + i + (b - a)) with (b + (i - (a - off))) by lia.
      split; [rewrite R1; lia|]. split.
      * rewrite nth_error_skipn in R2. exact R2.
      * rewrite firstn_add, live_of_app, app_length, S1, S2, R3. lia.
Qed.

Lemma apparent_loop_spec : forall d off its r x acc,
  layout off d its -> nth_error its r = Some (Some x) ->
  r - length (live_of (firstn r its)) <= acc ->
  apparent_loop d (off + r) acc = acc - (r - length (live_of (firstn r its))).
Proof.
  induction d as [|[a b] t IH]; intros off its r x acc H E Hacc.
  - simpl in H. simpl.
    assert (Lr : r < length its) by (apply nth_error_Some; congruence).
    rewrite (live_of_all_live _ (Forall_firstn _ r _ H)), firstn_length. lia.
  - assert (Lr : r < length its) by (apply nth_error_Some; congruence).
    pose proof (layout_outside _ _ _ _ _ H E) as Ho. inversion Ho as [|? ? Ho1 _]; subst. simpl in Ho1.
    destruct (layout_head_split _ _ _ _ _ H) as (S1 & S2 & S3).
    simpl in H. destruct H as (H1 & H2 & H3 & H4 & H5 & H6).
    cbn [apparent_loop]. destruct (off + r <? a) eqn:C.
    + apply Nat.ltb_lt in C.
      assert (Hl : Forall livep (firstn r its)).
      { replace (firstn r its) with (firstn r (firstn (a - off) its)) by (rewrite firstn_firstn; f_equal; lia).
        apply Forall_firstn. exact H4. }
      rewrite (live_of_all_live _ Hl), firstn_length. lia.
    + apply Nat.ltb_ge in C. assert (Hb : b <= off + r) by lia.
      assert (F : length (live_of (firstn r its)) =
                  (a - off) + length (live_of (firstn (r - (b - off)) (skipn (b - off) its)))).
      { replace r with ((b - off) + (r - (b - off))) at 1 by lia.
        rewrite firstn_add, live_of_app, app_length, S1, S2. reflexivity. }
      pose proof (live_of_length_le (firstn (r - (b - off)) (skipn (b - off) its))) as Lle.
      rewrite firstn_length in Lle.
      replace (off + r) with (b + (r - (b - off))) by lia.
      rewrite (IH b (skipn (b - off) its) (r - (b - off)) x).
      * rewrite F. lia.
      * exact H6.
      * rewrite nth_error_skipn. replace (b - off + (r - (b - off))) with r by lia. exact E.
      * rewrite F in Hacc. lia.
Qed.

(* ---- append, drop the live last slot, cut the tail ----------------------------- *)
Lemma layout_app_live : forall d off its x, layout off d its -> layout off d (its ++ [Some x]).
Proof.
  induction d as [|[a b] t IH]; intros off its x H.
  - simpl in *. apply Forall_app. split; [exact H|]. constructor; [discriminate|constructor].
  - simpl in H. destruct H as (H1 & H2 & H3 & H4 & H5 & H6).
    cbn [layout]. rewrite app_length. simpl.
    split; [lia|]. split; [lia|]. split; [lia|]. split; [|split].
    + rewrite firstn_app_le by lia. exact H4.
    + rewrite skipn_app_le by lia. rewrite firstn_app_le by (rewrite skipn_length; lia). exact H5.
    + rewrite skipn_app_le by lia. apply IH. exact H6.
Qed.

Lemma layout_removelast : forall d off its x, layout off d (its ++ [Some x]) -> layout off d its.
Proof.
  induction d as [|[a b] t IH]; intros off its x H.
  - simpl in *. apply Forall_app in H. tauto.
  - simpl in H. destruct H as (H1 & H2 & H3 & H4 & H5 & H6).
    rewrite app_length in H3. simpl in H3.
    assert (Hb : b - off <= length its).
    { destruct (Nat.le_gt_cases (b - off) (length its)) as [L|L]; [exact L|exfalso].
      assert (E : nth_error (firstn (b - a) (skipn (a - off) (its ++ [Some x]))) (length its - (a - off))
                  = Some (Some x)).
      { rewrite nth_error_firstn by lia. rewrite nth_error_skipn.
        replace (a - off + (length its - (a - off))) with (length its) by lia.
        rewrite nth_error_app2 by lia. rewrite Nat.sub_diag. reflexivity. }
      apply (Forall_nth_error _ _ _ _ H5) in E. discriminate. }
    cbn [layout]. split; [lia|]. split; [lia|]. split; [lia|]. split; [|split].
    + rewrite firstn_app_le in H4 by lia. exact H4.
    + rewrite skipn_app_le in H5 by lia. rewrite firstn_app_le in H5 by (rewrite skipn_length; lia). exact H5.
    + rewrite skipn_app_le in H6 by lia. eapply IH. exact H6.
Qed.

Definition no_straddle (cut : nat) (d : list (nat * nat)) : Prop :=
  Forall (fun ab => fst ab < cut -> snd ab <= cut) d.

Lemma sorted_filter_none lo cut d :
  sorted_iv lo d -> cut <= lo -> filter (fun ab : nat * nat => fst ab <? cut) d = [].
Proof.
  intros H L. apply sorted_iv_bounds in H. induction H as [|[a b] d Hx _ IH]; [reflexivity|].
  simpl in *. replace (a <? cut) with false by (symmetry; apply Nat.ltb_ge; lia). exact IH.
Qed.

Lemma layout_cut : forall d off its n,
  layout off d its -> n <= length its -> no_straddle (off + n) d ->
  layout off (filter (fun ab => fst ab <? off + n) d) (firstn n its).
Proof.
  induction d as [|[a b] t IH]; intros off its n H Ln Hs.
  - simpl in *. apply Forall_firstn. exact H.
  - pose proof (layout_sorted _ _ _ H) as Hsort.
    simpl in H. destruct H as (H1 & H2 & H3 & H4 & H5 & H6).
    inversion Hs as [|? ? Hs1 Hs2]; subst. simpl in Hs1.
    cbn [filter fst]. destruct (a <? off + n) eqn:C.
    + apply Nat.ltb_lt in C. specialize (Hs1 C).
      cbn [layout]. rewrite firstn_length. split; [lia|]. split; [lia|]. split; [lia|]. split; [|split].
      * rewrite firstn_firstn. replace (Init.Nat.min (a - off) n) with (a - off) by lia. exact H4.
      * rewrite skipn_firstn_comm. rewrite firstn_firstn.
        replace (Init.Nat.min (b - a) (n - (a - off))) with (b - a) by lia. exact H5.
      * rewrite skipn_firstn_comm.
        replace (off + n) with (b + (n - (b - off))) by lia.
        apply IH; [exact H6|rewrite skipn_length; lia|].
        replace (b + (n - (b - off))) with (off + n) by lia. exact Hs2.
    + apply Nat.ltb_ge in C. simpl in Hsort. destruct Hsort as (_ & _ & Hsort).
      rewrite (sorted_filter_none b (off + n) t Hsort) by lia.
      simpl. replace (firstn n its) with (firstn n (firstn (a - off) its)) by (rewrite firstn_firstn; f_equal; lia).
      apply Forall_firstn. exact H4.
Qed.

Lemma no_straddle_after_live off d its n :
  layout off d its ->
  (n = 0 \/ exists x, nth_error its (n - 1) = Some (Some x)) -> no_straddle (off + n) d.
Proof.
  intros H [->|[x E]].
  - apply layout_sorted in H. apply sorted_iv_bounds in H.
    eapply Forall_impl; [|exact H]. intros [a b]; simpl. lia.
  - assert (n - 1 < length its) by (apply nth_error_Some; congruence).
    pose proof (layout_outside _ _ _ _ _ H E) as Ho.
    apply layout_sorted in H. apply sorted_iv_bounds in H.
    unfold no_straddle, outside in *. rewrite Forall_forall in *. intros [a b] Hin; simpl.
    specialize (Ho _ Hin). specialize (H _ Hin). simpl in *. lia.
Qed.

(* while ded and ded[-1][0] >= n: del ded[-1]   =   keep the intervals that start below n *)
Lemma drop_while_app {A} (f : A -> bool) l1 l2 :
  drop_while f (l1 ++ l2) = if forallb f l1 then drop_while f l2 else drop_while f l1 ++ l2.
Proof.
  induction l1 as [|x l1 IH]; simpl; [reflexivity|].
  destruct (f x); simpl; [exact IH|reflexivity].
Qed.

Lemma drop_trailing_dead_filter lo d n :
  sorted_iv lo d -> drop_trailing_dead d n = filter (fun ab => fst ab <? n) d.
Proof.
  revert lo; induction d as [|[a b] t IH]; intros lo H; [reflexivity|].
  simpl in H. destruct H as (H1 & H2 & H3).
  unfold drop_trailing_dead in *. cbn [rev filter fst]. rewrite drop_while_app.
  destruct (a <? n) eqn:C.
  - destruct (forallb (fun ab : nat * nat => n <=? fst ab) (rev t)) eqn:F.
    + cbn [drop_while fst]. replace (n <=? a) with false by (symmetry; apply Nat.leb_gt; apply Nat.ltb_lt; exact C).
      simpl. f_equal. symmetry.
      rewrite forallb_forall in F.
      assert (G : forall ab, In ab t -> (fst ab <? n) = false).
      { intros ab Hin. apply Nat.ltb_ge. apply Nat.leb_le. apply F. apply in_rev in Hin. exact Hin. }
      clear -G. induction t as [|x t IHt]; [reflexivity|]. simpl. rewrite (G x (or_introl eq_refl)).
      apply IHt. intros ab Hin. apply G. right. exact Hin.
    + rewrite rev_app_distr. simpl. f_equal. apply (IH b). exact H3.
  - apply Nat.ltb_ge in C.
    assert (F : forallb (fun ab : nat * nat => n <=? fst ab) (rev t) = true).
    { apply forallb_forall. intros ab Hin. apply in_rev in Hin.
      apply sorted_iv_bounds in H3. rewrite Forall_forall in H3. specialize (H3 _ Hin).
      apply Nat.leb_le. lia. }
    rewrite F. cbn [drop_while fst]. replace (n <=? a) with true by (symmetry; apply Nat.leb_le; lia).
    simpl. symmetry. apply (sorted_filter_none b); [exact H3|lia].
Qed.

(* the run of tombstones at the right end *)
Lemma leading_none_split r :
  r = repeat None (leading_none r) ++ skipn (leading_none r) r /\
  (skipn (leading_none r) r = [] \/ exists x r', skipn (leading_none r) r = Some x :: r').
Proof.
  induction r as [|[x|] r IH]; simpl.
  - split; [reflexivity|left; reflexivity].
  - split; [reflexivity|right; eauto].
  - destruct IH as [IH1 IH2]. split; [f_equal; exact IH1|exact IH2].
Qed.

Lemma repeat_rev {A} (x : A) n : rev (repeat x n) = repeat x n.
Proof.
  induction n; simpl; [reflexivity|]. rewrite IHn. clear.
  induction n; simpl; [reflexivity|]. f_equal. exact IHn.
Qed.

Lemma trailing_none_split its :
  let nd := leading_none (rev its) in
  let n := length its - nd in
  its = firstn n its ++ repeat None nd /\ nd <= length its /\
  (n = 0 \/ (0 < n /\ exists x, nth_error its (n - 1) = Some (Some x))).
Proof.
  cbn zeta. destruct (leading_none_split (rev its)) as [E1 E2].
  set (nd := leading_none (rev its)) in *.
  assert (E : its = rev (skipn nd (rev its)) ++ repeat None nd).
  { rewrite <- (rev_involutive its) at 1. rewrite E1 at 1. rewrite rev_app_distr, repeat_rev. reflexivity. }
  assert (Lnd : nd <= length its).
  { rewrite <- (rev_length its). rewrite E1 at 1. rewrite app_length, repeat_length. lia. }
  assert (Ln : length (rev (skipn nd (rev its))) = length its - nd).
  { rewrite rev_length, skipn_length, rev_length. reflexivity. }
  assert (F : firstn (length its - nd) its = rev (skipn nd (rev its))).
  { rewrite E at 2. rewrite <- Ln. rewrite firstn_app, Nat.sub_diag, firstn_all. simpl. apply app_nil_r. }
  split; [rewrite F; exact E|]. split; [exact Lnd|].
  destruct E2 as [E2|[x [r' E2]]].
  - left. rewrite E2 in Ln. simpl in Ln. lia.
  - right. rewrite E2 in Ln, E. simpl in Ln, E. clear -E Ln Lnd.
    rewrite app_length in Ln. simpl in Ln. rewrite rev_length in Ln.
    split; [lia|]. exists x.
    rewrite E at 1. rewrite <- app_assoc. rewrite nth_error_app2 by (rewrite rev_length; lia).
    rewrite rev_length. replace (length its - nd - 1 - length r') with 0 by lia. reflexivity.
Qed.
