(* C11: the dead-interval table.  [layout off d its]: the interval list d
   describes exactly the runs of tombstones of its (slot j of its has real
   index off + j).  _add_dead, the right-trim of _cull and the two index
   translations are proved against it. *)
From Boltons Require Import Lib.Prelude Lib.C11_Iface Spec.C11_Spec Model.C11_Model Proofs.C11_Lists.

Definition livep (o : option K) : Prop := o <> None.
Definition deadp (o : option K) : Prop := o = None.

Fixpoint layout (off : nat) (d : list (nat * nat)) (its : list (option K)) : Prop :=
  match d with
  | [] => Forall livep its
  | (a, b) :: t =>
      off <= a /\ a < b /\ b - off <= length its /\
      Forall livep (firstn (a - off) its) /\
      Forall deadp (firstn (b - a) (skipn (a - off) its)) /\
      layout b t (skipn (b - off) its)
  end.

(* sortedness / disjointness, implied by layout *)
Fixpoint sorted_iv (lo : nat) (d : list (nat * nat)) : Prop :=
  match d with
  | [] => True
  | (a, b) :: t => lo <= a /\ a < b /\ sorted_iv b t
  end.

Definition outside (start : nat) (d : list (nat * nat)) : Prop :=
  Forall (fun ab => start < fst ab \/ snd ab <= start) d.

Lemma layout_sorted off d its : layout off d its -> sorted_iv off d.
Proof.
  revert off its; induction d as [|[a b] t IH]; simpl; intros off its H; auto.
  destruct H as (H1 & H2 & _ & _ & _ & H6). eauto.
Qed.

Lemma sorted_iv_weaken lo lo' d : lo' <= lo -> sorted_iv lo d -> sorted_iv lo' d.
Proof. destruct d as [|[a b] t]; simpl; intros; auto. intuition lia. Qed.

Lemma sorted_iv_bounds lo d : sorted_iv lo d -> Forall (fun ab => lo <= fst ab /\ fst ab < snd ab) d.
Proof.
  revert lo; induction d as [|[a b] t IH]; simpl; intros lo H; constructor.
  - simpl; lia.
  - destruct H as (H1 & H2 & H3). specialize (IH _ H3).
    eapply Forall_impl; [|exact IH]. simpl. intros [a' b']; simpl. lia.
Qed.

(* a live slot lies outside every interval *)
Lemma layout_outside off d its r x :
  layout off d its -> nth_error its r = Some (Some x) -> outside (off + r) d.
Proof.
  revert off its r; induction d as [|[a b] t IH]; simpl; intros off its r H E.
  - constructor.
  - destruct H as (H1 & H2 & H3 & H4 & H5 & H6). constructor.
    + simpl. destruct (Nat.lt_ge_cases (off + r) a) as [L|L]; [left; exact L|right].
      destruct (Nat.lt_ge_cases (off + r) b) as [L2|L2]; [|exact L2]. exfalso.
      (* slot r would be inside the dead run *)
      assert (E2 : nth_error (firstn (b - a) (skipn (a - off) its)) (r - (a - off)) = Some (Some x)).
      { rewrite nth_error_firstn by lia. rewrite nth_error_skipn.
        replace (a - off + (r - (a - off))) with r by lia. exact E. }
      apply (Forall_nth_error _ _ _ _ H5) in E2. discriminate.
    + destruct (Nat.lt_ge_cases (off + r) b) as [L|L].
      * (* every later interval starts at or after b *)
        apply layout_sorted in H6. apply sorted_iv_bounds in H6.
        eapply Forall_impl; [|exact H6]. intros [a' b']; simpl. lia.
      * specialize (IH b (skipn (b - off) its) (r - (b - off)) H6).
        replace (b + (r - (b - off))) with (off + r) in IH by lia.
        apply IH. rewrite nth_error_skipn. replace (b - off + (r - (b - off))) with r by lia. exact E.
Qed.

(* ---- _add_dead = a simple recursive insertion ------------------------------- *)
Fixpoint add_dead_rec (d : list (nat * nat)) (start : nat) : list (nat * nat) :=
  match d with
  | [] => [(start, S start)]
  | (a, b) :: t =>
      if start <? a then (start, S start) :: d
      else if b =? start then (a, S start) :: t
      else (a, b) :: add_dead_rec t start
  end.

(* the wrap-around dints[-1] only matters for a single interval that starts right after [start] *)
Definition add_dead_top (d : list (nat * nat)) (start : nat) : list (nat * nat) :=
  match d with
  | [(a, b)] => if a =? S start then [(start, b)] else add_dead_rec d start
  | _ => add_dead_rec d start
  end.

Lemma pair_ltb_outside a b start :
  a < b -> (start < a \/ b <= start) -> pair_ltb (a, b) (start, S start) = (a <? start).
Proof.
  intros H1 H2. unfold pair_ltb; simpl.
  destruct (a <? start) eqn:E1; simpl; [reflexivity|].
  apply Nat.ltb_ge in E1.
  destruct (a =? start) eqn:E2; simpl; [|reflexivity].
  apply Nat.eqb_eq in E2. lia.
Qed.

Lemma add_dead_mid start : forall t a b,
  a < b -> b <= start -> sorted_iv b t -> outside start t ->
  (let m := bisect_left t (start, S start) in
   let '(ds, de) := nth m ((a, b) :: t) (0, 0) in
   if (start <=? ds) && (ds <=? S start) then set_nth m (start, de) ((a, b) :: t)
   else if (start <=? de) && (de <=? S start) then set_nth m (ds, S start) ((a, b) :: t)
   else insert_at (S m) (start, S start) ((a, b) :: t))
  = add_dead_rec ((a, b) :: t) start.
Proof.
  induction t as [|[a' b'] t IH]; intros a b Hab Hb Hs Ho.
  - cbn [bisect_left nth add_dead_rec].
    replace (start <=? a) with false by (symmetry; apply Nat.leb_gt; lia).
    replace (start <? a) with false by (symmetry; apply Nat.ltb_ge; lia).
    cbn [andb].
    destruct (b =? start) eqn:E.
    + apply Nat.eqb_eq in E. subst b.
      rewrite Nat.leb_refl. replace (start <=? S start) with true by (symmetry; apply Nat.leb_le; lia).
      reflexivity.
    + apply Nat.eqb_neq in E.
      replace (start <=? b) with false by (symmetry; apply Nat.leb_gt; lia). reflexivity.
  - simpl in Hs. destruct Hs as (Hs1 & Hs2 & Hs3).
    inversion Ho as [|? ? Ho1 Ho2]; subst. simpl in Ho1.
    cbn [bisect_left]. rewrite (pair_ltb_outside a' b' start Hs2 Ho1).
    cbn [add_dead_rec].
    replace (start <? a) with false by (symmetry; apply Nat.ltb_ge; lia).
    destruct (a' <? start) eqn:E1.
    + apply Nat.ltb_lt in E1.
      assert (Hb' : b' <= start) by lia.
      specialize (IH a' b' Hs2 Hb' Hs3 Ho2).
      replace (b =? start) with false by (symmetry; apply Nat.eqb_neq; lia).
      cbn zeta in IH. cbn zeta.
      change (nth (S (bisect_left t (start, S start))) ((a, b) :: (a', b') :: t) (0, 0))
        with (nth (bisect_left t (start, S start)) ((a', b') :: t) (0, 0)).
      revert IH.
      destruct (nth (bisect_left t (start, S start)) ((a', b') :: t) (0, 0)) as [ds de].
      cbn [set_nth insert_at].
      destruct ((start <=? ds) && (ds <=? S start)); [intros ->; reflexivity|].
      destruct ((start <=? de) && (de <=? S start)); intros ->; reflexivity.
    + apply Nat.ltb_ge in E1. cbn zeta. cbn [nth].
      replace (start <=? a) with false by (symmetry; apply Nat.leb_gt; lia).
      cbn [andb].
      replace (start <? a') with true by (symmetry; apply Nat.ltb_lt; lia).
      destruct (b =? start) eqn:E.
      * apply Nat.eqb_eq in E. subst b.
        rewrite Nat.leb_refl. replace (start <=? S start) with true by (symmetry; apply Nat.leb_le; lia).
        reflexivity.
      * apply Nat.eqb_neq in E.
        replace (start <=? b) with false by (symmetry; apply Nat.leb_gt; lia). reflexivity.
Qed.

Lemma sorted_iv_last lo d a b : sorted_iv lo d -> d <> [] -> last d (a, b) = last d (0, 0) /\ lo <= fst (last d (0,0)) /\ fst (last d (0,0)) < snd (last d (0,0)).
Proof.
  intros H Hne. apply sorted_iv_bounds in H. split.
  - clear H. induction d as [|x d IH]; [contradiction|]. destruct d; [reflexivity|].
    change (last (x :: p :: d) (a, b)) with (last (p :: d) (a, b)).
    change (last (x :: p :: d) (0, 0)) with (last (p :: d) (0, 0)). apply IH. discriminate.
  - assert (Hin : In (last d (0, 0)) d).
    { clear H. induction d as [|x d IH]; [contradiction|]. destruct d; [left; reflexivity|].
      right. apply IH. discriminate. }
    rewrite Forall_forall in H. apply H in Hin. exact Hin.
Qed.

Lemma nth_last {A} (l : list A) d : nth (length l - 1) l d = last l d.
Proof.
  induction l as [|x l IH]; [reflexivity|].
  destruct l as [|y l]; [reflexivity|].
  change (last (x :: y :: l) d) with (last (y :: l) d). rewrite <- IH.
  simpl. rewrite Nat.sub_0_r. reflexivity.
Qed.

Lemma add_dead_eq lo d start :
  sorted_iv lo d -> outside start d -> add_dead d start = add_dead_top d start.
Proof.
  intros Hs Ho. destruct d as [|[a b] t]; [reflexivity|].
  simpl in Hs. destruct Hs as (Hs1 & Hs2 & Hs3).
  inversion Ho as [|? ? Ho1 Ho2]; subst. simpl in Ho1.
  unfold add_dead. cbn [bisect_left]. rewrite (pair_ltb_outside a b start Hs2 Ho1).
  destruct (a <? start) eqn:E1.
  - (* the previous interval exists *)
    apply Nat.ltb_lt in E1. assert (Hb : b <= start) by lia.
    pose proof (add_dead_mid start t a b Hs2 Hb Hs3 Ho2) as M. cbn zeta in M.
    rewrite M. unfold add_dead_top. destruct t as [|p t]; [|reflexivity].
    replace (a =? S start) with false by (symmetry; apply Nat.eqb_neq; lia). reflexivity.
  - (* int_idx = 0: dints[-1] *)
    apply Nat.ltb_ge in E1. assert (Ha : start < a) by lia.
    rewrite nth_last.
    destruct t as [|p t].
    + cbn [last length add_dead_top add_dead_rec].
      replace (start <=? a) with true by (symmetry; apply Nat.leb_le; lia). cbn [andb].
      replace (start <? a) with true by (symmetry; apply Nat.ltb_lt; lia).
      destruct (a =? S start) eqn:E2.
      * apply Nat.eqb_eq in E2. replace (a <=? S start) with true by (symmetry; apply Nat.leb_le; lia).
        reflexivity.
      * apply Nat.eqb_neq in E2. replace (a <=? S start) with false by (symmetry; apply Nat.leb_gt; lia).
        replace (b <=? S start) with false by (symmetry; apply Nat.leb_gt; lia).
        rewrite andb_false_r. reflexivity.
    + change (last ((a, b) :: p :: t) (0, 0)) with (last (p :: t) (0, 0)).
      destruct (sorted_iv_last b (p :: t) 0 0 Hs3 ltac:(discriminate)) as (_ & L1 & L2).
      destruct (last (p :: t) (0, 0)) as [ds de]. simpl in L1, L2.
      replace (ds <=? S start) with false by (symmetry; apply Nat.leb_gt; lia).
      replace (de <=? S start) with false by (symmetry; apply Nat.leb_gt; lia).
      rewrite !andb_false_r. unfold add_dead_top. cbn [insert_at add_dead_rec].
      replace (start <? a) with true by (symmetry; apply Nat.ltb_lt; lia). reflexivity.
Qed.

(* ---- layout under the basic moves ------------------------------------------- *)
Lemma Forall_firstn_skipn {A} (P : A -> Prop) m n k (l : list A) :
  Forall P (firstn m l) -> n + k <= m -> Forall P (firstn k (skipn n l)).
Proof.
  intros H L. apply Forall_nth_error_intro. intros i y E.
  apply nth_error_firstn_some in E. destruct E as [Li E]. rewrite nth_error_skipn in E.
  apply (Forall_nth_error P (firstn m l) (n + i) y H). rewrite nth_error_firstn by lia. exact E.
Qed.

Lemma layout_skip_live d off its n :
  layout off d its -> n <= length its -> Forall livep (firstn n its) ->
  layout (off + n) d (skipn n its).
Proof.
  destruct d as [|[a b] t]; simpl; intros H Ln Hl.
  - apply Forall_skipn. exact H.
  - destruct H as (H1 & H2 & H3 & H4 & H5 & H6).
    assert (Hn : n <= a - off).
    { destruct (Nat.le_gt_cases n (a - off)) as [L|L]; [exact L|exfalso].
      (* slot a - off is dead but inside the live prefix *)
      destruct (nth_error its (a - off)) as [o|] eqn:E.
      - assert (E1 : nth_error (firstn n its) (a - off) = Some o) by (rewrite nth_error_firstn by lia; exact E).
        assert (E2 : nth_error (firstn (b - a) (skipn (a - off) its)) 0 = Some o).
        { rewrite nth_error_firstn by lia. rewrite nth_error_skipn. rewrite Nat.add_0_r. exact E. }
        apply (Forall_nth_error _ _ _ _ Hl) in E1. apply (Forall_nth_error _ _ _ _ H5) in E2.
        unfold livep, deadp in *. congruence.
      - apply nth_error_None in E. lia. }
    repeat split; try lia.
    + rewrite skipn_length. lia.
    + eapply Forall_firstn_skipn; [exact H4|lia].
    + rewrite skipn_skipn'. replace (a - (off + n) + n) with (a - off) by lia.
      replace (b - a) with (b - a) by lia. exact H5.
    + rewrite skipn_skipn'. replace (b - (off + n) + n) with (b - off) by lia. exact H6.
Qed.

Lemma skipn_set_nth_same {A} r (v : A) l : r < length l -> skipn r (set_nth r v l) = v :: skipn (S r) l.
Proof.
  revert r; induction l as [|y l IH]; intros r H; simpl in H; [lia|].
  destruct r; simpl; [reflexivity|]. apply IH. lia.
Qed.

Lemma layout_add_dead_rec : forall d off its r x,
  layout off d its -> nth_error its r = Some (Some x) ->
  layout off (add_dead_rec d (off + r)) (set_nth r None its).
Proof.
  induction d as [|[a b] t IH]; intros off its r x H E.
  - assert (Lr : r < length its) by (apply nth_error_Some; congruence).
    simpl in H. cbn [add_dead_rec layout]. rewrite set_nth_length.
    replace (off + r - off) with r by lia. replace (S (off + r) - off) with (S r) by lia.
    replace (S (off + r) - (off + r)) with 1 by lia.
    repeat split; try lia.
    + rewrite set_nth_firstn by lia. apply Forall_firstn. exact H.
    + rewrite skipn_set_nth_same by lia. simpl. constructor; [reflexivity|constructor].
    + rewrite set_nth_skipn_gt by lia. apply Forall_skipn. exact H.
  - assert (Lr : r < length its) by (apply nth_error_Some; congruence).
    pose proof (layout_outside _ _ _ _ _ H E) as Ho. inversion Ho as [|? ? Ho1 _]; subst. simpl in Ho1.
    pose proof H as H0. simpl in H. destruct H as (H1 & H2 & H3 & H4 & H5 & H6).
    cbn [add_dead_rec].
    destruct (off + r <? a) eqn:C1.
    + apply Nat.ltb_lt in C1. cbn [layout]. rewrite set_nth_length.
      replace (off + r - off) with r by lia. replace (S (off + r) - off) with (S r) by lia.
      replace (S (off + r) - (off + r)) with 1 by lia.
      assert (Hlive : Forall livep (firstn (S r) its)).
      { replace (firstn (S r) its) with (firstn (S r) (firstn (a - off) its)).
        - apply Forall_firstn. exact H4.
        - rewrite firstn_firstn. f_equal. lia. }
      split; [lia|]. split; [lia|]. split; [lia|]. split; [|split].
      * rewrite set_nth_firstn by lia.
        replace (firstn r its) with (firstn r (firstn (S r) its)) by (rewrite firstn_firstn; f_equal; lia).
        apply Forall_firstn. exact Hlive.
      * rewrite skipn_set_nth_same by lia. simpl. constructor; [reflexivity|constructor].
      * rewrite set_nth_skipn_gt by lia.
        replace (S (off + r)) with (off + S r) by lia.
        apply (layout_skip_live ((a, b) :: t)); [exact H0|lia|exact Hlive].
    + apply Nat.ltb_ge in C1. assert (Hb : b <= off + r) by lia.
      destruct (b =? off + r) eqn:C2.
      * apply Nat.eqb_eq in C2. cbn [layout]. rewrite set_nth_length.
        split; [lia|]. split; [lia|]. split; [lia|]. split; [|split].
        -- rewrite set_nth_firstn by lia. exact H4.
        -- apply Forall_nth_error_intro. intros i y Ei.
           apply nth_error_firstn_some in Ei. destruct Ei as [Li Ei].
           rewrite nth_error_skipn, nth_error_set_nth in Ei.
           destruct (Nat.eqb (a - off + i) r) eqn:C3.
           ++ replace (r <? length its) with true in Ei by (symmetry; apply Nat.ltb_lt; lia).
              injection Ei as <-. reflexivity.
           ++ apply Nat.eqb_neq in C3.
              apply (Forall_nth_error _ _ i y H5).
              rewrite nth_error_firstn by lia. rewrite nth_error_skipn. exact Ei.
        -- replace (S (off + r) - off) with (S r) by lia.
           rewrite set_nth_skipn_gt by lia.
           replace (S r) with (1 + (b - off)) by lia. rewrite <- skipn_skipn'.
           replace (S (off + r)) with (b + 1) by lia.
           apply layout_skip_live; [exact H6| |].
           ++ rewrite skipn_length. lia.
           ++ apply Forall_nth_error_intro. intros i y Ei.
              apply nth_error_firstn_some in Ei. destruct Ei as [Li Ei].
              rewrite nth_error_skipn in Ei. replace (b - off + i) with r in Ei by lia.
              rewrite E in Ei. injection Ei as <-. discriminate.
      * apply Nat.eqb_neq in C2. cbn [layout]. rewrite set_nth_length.
        split; [lia|]. split; [lia|]. split; [lia|]. split; [|split].
        -- rewrite set_nth_firstn by lia. exact H4.
        -- rewrite set_nth_skipn_le by lia. rewrite set_nth_firstn by lia. exact H5.
        -- rewrite set_nth_skipn_le by lia.
           replace (off + r) with (b + (r - (b - off))) by lia.
           apply (IH b _ _ x); [exact H6|].
           rewrite nth_error_skipn. replace (b - off + (r - (b - off))) with r by lia. exact E.
Qed.

Lemma layout_add_dead off d its r x :
  layout off d its -> nth_error its r = Some (Some x) ->
  layout off (add_dead d (off + r)) (set_nth r None its).
Proof.
  intros H E.
  rewrite (add_dead_eq off d (off + r) (layout_sorted _ _ _ H) (layout_outside _ _ _ _ _ H E)).
  unfold add_dead_top.
  destruct d as [|[a b] [|p t]]; try (eapply layout_add_dead_rec; eassumption).
  destruct (a =? S (off + r)) eqn:C; [|eapply layout_add_dead_rec; eassumption].
  apply Nat.eqb_eq in C.
  assert (Lr : r < length its) by (apply nth_error_Some; congruence).
  simpl in H. destruct H as (H1 & H2 & H3 & H4 & H5 & H6).
  cbn [layout]. rewrite set_nth_length. replace (off + r - off) with r by lia.
  split; [lia|]. split; [lia|]. split; [lia|]. split; [|split].
  - rewrite set_nth_firstn by lia.
    replace (firstn r its) with (firstn r (firstn (a - off) its)) by (rewrite firstn_firstn; f_equal; lia).
    apply Forall_firstn. exact H4.
  - apply Forall_nth_error_intro. intros i y Ei.
    apply nth_error_firstn_some in Ei. destruct Ei as [Li Ei].
    rewrite nth_error_skipn, nth_error_set_nth in Ei.
    destruct (Nat.eqb (r + i) r) eqn:C3.
    + replace (r <? length its) with true in Ei by (symmetry; apply Nat.ltb_lt; lia).
      injection Ei as <-. reflexivity.
    + apply Nat.eqb_neq in C3.
      apply (Forall_nth_error _ _ (r + i - (a - off)) y H5).
      rewrite nth_error_firstn by lia. rewrite nth_error_skipn.
      replace (a - off + (r + i - (a - off))) with (r + i) by lia. exact Ei.
  - rewrite set_nth_skipn_gt by lia. exact H6.
Qed.
