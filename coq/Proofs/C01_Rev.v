(* C01: __reversed__ yields the first-occurrence key list backwards. *)
From Boltons Require Import Lib.Prelude Spec.C01_Spec Model.C01_Model Proofs.C01_Base.

Definition count_key (k : K) (l : list cell) : nat :=
  length (filter (fun c => Nat.eqb (c_key c) k) l).

Lemma count_key_app k l1 l2 : count_key k (l1 ++ l2) = count_key k l1 + count_key k l2.
Proof. unfold count_key. rewrite filter_app, app_length. reflexivity. Qed.

Lemma count_key_cons k c l :
  count_key k (c :: l) = (if Nat.eqb (c_key c) k then 1 else 0) + count_key k l.
Proof. unfold count_key. simpl. destruct (Nat.eqb (c_key c) k); reflexivity. Qed.

Lemma vals_of_len l k : length (vals_of (map ckv l) k) = count_key k l.
Proof.
  unfold vals_of, count_key. rewrite map_length.
  induction l as [|c r IH]; simpl; [reflexivity|].
  unfold keyb at 1. simpl. destruct (Nat.eqb (c_key c) k); simpl; rewrite IH; reflexivity.
Qed.

Lemma count_key_mem k l : mem_nat k (map c_key l) = negb (Nat.eqb (count_key k l) 0).
Proof.
  induction l as [|c r IH]; [reflexivity|].
  rewrite count_key_cons. unfold mem_nat in *. simpl. rewrite IH.
  rewrite (Nat.eqb_sym k (c_key c)). destruct (Nat.eqb (c_key c) k); reflexivity.
Qed.

Lemma rev_walk_split s : StoreOk s ->
  forall pre suf lengths,
    ll s = pre ++ suf ->
    (forall k, d_get lengths k =
               if Nat.eqb (count_key k suf) 0 then None else Some (S (count_key k suf))) ->
    rev_walk s lengths (rev pre) = Ok (rev (nodup_nat (map c_key pre))).
Proof.
  intros HS pre. induction pre as [|c pre' IH] using rev_ind; intros suf lengths Hll HL.
  - reflexivity.
  - rewrite rev_unit. cbn [rev_walk].
    set (k := c_key c).
    assert (Hhas : has_key (abs s) k = true).
    { apply has_key_In. rewrite map_fst_abs, Hll, !map_app. simpl.
      apply in_or_app. left. apply in_or_app. right. left. reflexivity. }
    rewrite (store_get s k HS), Hhas.
    assert (Hcnt : match d_get lengths k with Some n => n | None => 1 end = S (count_key k suf)).
    { rewrite HL. destruct (Nat.eqb (count_key k suf) 0) eqn:E; [|reflexivity].
      apply Nat.eqb_eq in E. rewrite E. reflexivity. }
    rewrite Hcnt.
    rewrite (IH (c :: suf) (d_set lengths k (S (S (count_key k suf))))).
    + unfold bind. f_equal.
      assert (Hlen : length (vals_of (abs s) k) = count_key k pre' + 1 + count_key k suf).
      { unfold abs, m_items. rewrite vals_of_len, Hll, !count_key_app.
        rewrite (count_key_cons k c []). unfold k at 2. rewrite Nat.eqb_refl.
        unfold count_key. simpl. lia. }
      rewrite Hlen.
      replace (Nat.eqb (S (count_key k suf)) (count_key k pre' + 1 + count_key k suf))
        with (Nat.eqb (count_key k pre') 0).
      2:{ destruct (Nat.eqb (count_key k pre') 0) eqn:E; symmetry.
          - apply Nat.eqb_eq in E. apply Nat.eqb_eq. lia.
          - apply Nat.eqb_neq in E. apply Nat.eqb_neq. lia. }
      rewrite map_app. cbn [map]. rewrite nodup_nat_snoc. fold k.
      rewrite count_key_mem.
      destruct (Nat.eqb (count_key k pre') 0); cbn [negb].
      * rewrite rev_unit. reflexivity.
      * reflexivity.
    + rewrite Hll, <- app_assoc. reflexivity.
    + intro k'. rewrite d_get_set, count_key_cons. fold k.
      destruct (Nat.eqb k' k) eqn:E.
      * apply Nat.eqb_eq in E. subst k'. rewrite Nat.eqb_refl. simpl. reflexivity.
      * rewrite (Nat.eqb_sym k k'), E. simpl. apply HL.
Qed.

Lemma rev_walk_correct : forall s, StoreOk s -> rev_walk s [] (rev (ll s)) = Ok (rev (keys1 (abs s))).
Proof.
  intros s HS. unfold keys1. rewrite map_fst_abs.
  apply (rev_walk_split s HS (ll s) [] []).
  - rewrite app_nil_r. reflexivity.
  - intro k. reflexivity.
Qed.

Print Assumptions rev_walk_correct.
