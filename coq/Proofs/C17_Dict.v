(* Association-list dictionary lemmas used by the C17 proofs. *)
From Boltons Require Import Lib.Prelude Model.C17_Model.

Ltac eqb_case x y :=
  let E := fresh "E" in
  destruct (Nat.eqb x y) eqn:E;
  [apply Nat.eqb_eq in E | apply Nat.eqb_neq in E].

Lemma NoDup_app_end_nat : forall (l : list nat) x, NoDup l -> ~ In x l -> NoDup (l ++ [x]).
Proof.
  induction l as [|y r IH]; simpl; intros x ND H.
  - constructor; [tauto|constructor].
  - inversion ND; subst. constructor.
    + rewrite in_app_iff. simpl. intros [H4|[H4|[]]]; [tauto|]. subst. tauto.
    + apply IH; tauto.
Qed.

Section Dict.
  Context {B : Type}.
  Implicit Types d : list (nat * B).

  Lemma get_set d k v a :
    d_get (d_set d k v) a = if Nat.eqb a k then Some v else d_get d a.
  Proof.
    induction d as [|[k' v'] r IH]; simpl.
    - reflexivity.
    - eqb_case k k'.
      + subst. simpl. destruct (Nat.eqb a k'); reflexivity.
      + simpl. eqb_case a k'.
        * subst. eqb_case k' k; [congruence|reflexivity].
        * exact IH.
  Qed.

  Lemma get_rm d k a :
    d_get (d_rm d k) a = if Nat.eqb a k then None else d_get d a.
  Proof.
    induction d as [|[k' v'] r IH]; simpl.
    - destruct (Nat.eqb a k); reflexivity.
    - eqb_case k k'; simpl.
      + subst. rewrite IH. eqb_case a k'; reflexivity.
      + eqb_case a k'.
        * subst. eqb_case k' k; [congruence|reflexivity].
        * exact IH.
  Qed.

  Lemma get_In d k v : d_get d k = Some v -> In (k, v) d.
  Proof.
    induction d as [|[k' v'] r IH]; simpl; [discriminate|].
    eqb_case k k'.
    - intros [= ->]. subst. now left.
    - intro H. right. now apply IH.
  Qed.

  Lemma get_None_notin d k : d_get d k = None -> ~ In k (map fst d).
  Proof.
    induction d as [|[k' v'] r IH]; simpl; [tauto|].
    eqb_case k k'; [discriminate|]. intros H [H1|H1]; [congruence|]. now apply IH.
  Qed.

  Lemma notin_get_None d k : ~ In k (map fst d) -> d_get d k = None.
  Proof.
    induction d as [|[k' v'] r IH]; simpl; [reflexivity|].
    intro H. eqb_case k k'; [subst; tauto|]. apply IH. tauto.
  Qed.

  Lemma In_get d k v : NoDup (map fst d) -> In (k, v) d -> d_get d k = Some v.
  Proof.
    induction d as [|[k' v'] r IH]; simpl; [tauto|].
    intros ND [H|H].
    - inversion H; subst. now rewrite Nat.eqb_refl.
    - inversion ND; subst. eqb_case k k'.
      + subst. exfalso. apply H2. apply in_map_iff. now exists (k', v).
      + now apply IH.
  Qed.

  Lemma In_get_iff d k v : NoDup (map fst d) -> (In (k, v) d <-> d_get d k = Some v).
  Proof. intro ND. split; [now apply In_get | apply get_In]. Qed.

  Lemma keys_set d k v : In k (map fst d) -> map fst (d_set d k v) = map fst d.
  Proof.
    induction d as [|[k' v'] r IH]; simpl; [tauto|].
    eqb_case k k'; simpl.
    - reflexivity.
    - intros [H|H]; [congruence|]. now rewrite IH.
  Qed.

  Lemma keys_set_new d k v : ~ In k (map fst d) -> map fst (d_set d k v) = map fst d ++ [k].
  Proof.
    induction d as [|[k' v'] r IH]; simpl; [reflexivity|].
    intro H. eqb_case k k'; [subst; tauto|]. simpl. rewrite IH; tauto.
  Qed.

  Lemma nodup_set d k v : NoDup (map fst d) -> NoDup (map fst (d_set d k v)).
  Proof.
    intro ND. destruct (in_dec Nat.eq_dec k (map fst d)) as [H|H].
    - now rewrite keys_set.
    - rewrite keys_set_new by assumption.
      apply NoDup_app_end_nat; assumption.
  Qed.

  Lemma keys_rm d k : map fst (d_rm d k) = filter (fun x => negb (Nat.eqb k x)) (map fst d).
  Proof.
    induction d as [|[k' v'] r IH]; simpl; [reflexivity|].
    destruct (Nat.eqb k k'); simpl; now rewrite IH.
  Qed.

  Lemma nodup_rm d k : NoDup (map fst d) -> NoDup (map fst (d_rm d k)).
  Proof. intro ND. rewrite keys_rm. now apply NoDup_filter. Qed.

  Lemma In_rm d k p : In p (d_rm d k) <-> In p d /\ fst p <> k.
  Proof.
    unfold d_rm. rewrite filter_In. split; intros [H1 H2]; split; trivial.
    - apply negb_true_iff, Nat.eqb_neq in H2. congruence.
    - apply negb_true_iff, Nat.eqb_neq. congruence.
  Qed.

  Lemma mem_get d k : d_mem d k = match d_get d k with Some _ => true | None => false end.
  Proof. reflexivity. Qed.
End Dict.

