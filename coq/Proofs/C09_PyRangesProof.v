(* C09 (T): running the (translated) source of chunk_ranges under the
   interpreter of Model/C09_PyRanges.v IS the model m_chunk_ranges, for all
   integer inputs. *)
From Boltons Require Import Lib.Prelude Spec.C09_Spec Model.C09_Model Proofs.C09_Ranges.
From Boltons Require Import Model.C09_PyRanges.

(* parameters 0..4 = input_size chunk_size input_offset overlap_size align;
   locals 5 = input_stop, 6 = initial_chunk_len, 7 = i *)
Definition loop_body : list stmt :=
  [ Yield (V 7) (Min (Add (V 7) (V 1)) (V 5));
    If (Ge (Add (V 7) (V 1)) (V 5)) [Return] ].

Definition expected_prog : list stmt :=
  [ Validate 0 false; Validate 1 true; Validate 2 false; Validate 3 false;
    Assign 5 (Add (V 2) (V 0));
    If (Truthy 4)
       [ Assign 6 (Sub (V 1) (Mod (V 2) (Sub (V 1) (V 3))));
         If (Ne (V 6) (V 3))
            [ Yield (V 2) (Min (Add (V 2) (V 6)) (V 5));
              If (Ge (Add (V 2) (V 6)) (V 5)) [Return];
              Assign 2 (Sub (Add (V 2) (V 6)) (V 3)) ] ];
    ForRange 7 (V 2) (V 5) (Sub (V 1) (V 3)) loop_body ].

Local Open Scope Z_scope.

Definition env0 (size chunk offset overlap : Z) (align : bool) : env :=
  [(0%nat, size); (1%nat, chunk); (2%nat, offset); (3%nat, overlap); (4%nat, if align then 1 else 0)].

Definition fuel_for (size : Z) : nat := (30 + Z.to_nat size)%nat.

Lemma body_exec f rho out i chunk stop :
  (3 <= f)%nat -> get rho 1%nat = chunk -> get rho 5%nat = stop ->
  exec f (set rho 7%nat i) out loop_body
  = mkSt (set rho 7%nat i) (out ++ [(i, Z.min (i + chunk) stop)])
         (if i + chunk >=? stop then SReturn else SNormal).
Proof.
  intros Hf H1 H5. destruct f as [|[|[|f]]]; try lia.
  cbn [exec loop_body eval evalc get set Nat.eqb]. rewrite H1, H5.
  destruct (i + chunk >=? stop); reflexivity.
Qed.

Lemma loop_equiv (chunk stop step : Z) : 1 <= step ->
  forall n i rho out f rs,
    (n + 3 <= f)%nat -> get rho 1%nat = chunk -> get rho 5%nat = stop ->
    range_loop n i stop step chunk = Some rs ->
    let r := exec (S f) rho out [ForFrom 7%nat i stop step loop_body] in
    st_out r = out ++ rs /\ (st_status r = SNormal \/ st_status r = SReturn).
Proof.
  intro Hstep. induction n as [|n IH]; intros i rho out f rs Hf H1 H5 Hr; [discriminate|].
  cbn [range_loop] in Hr. cbn [exec].
  assert ((0 <? step) = true) as -> by (apply Z.ltb_lt; lia).
  assert ((step <? 0) = false) as -> by (apply Z.ltb_ge; lia).
  cbn [andb orb]. rewrite orb_false_r.
  destruct (i <? stop) eqn:Elt.
  - rewrite (body_exec f rho out i chunk stop) by (try lia; assumption).
    destruct (i + chunk >=? stop) eqn:Ege.
    + injection Hr as <-. cbn [st_status st_out]. split; [reflexivity|right; reflexivity].
    + cbn [st_status st_env st_out].
      destruct (range_loop n (i + step) stop step chunk) as [rest|] eqn:Erest; [|discriminate].
      injection Hr as <-. destruct f as [|f]; [lia|].
      destruct (IH (i + step) (set rho 7%nat i) (out ++ [(i, Z.min (i + chunk) stop)]) f rest) as [A B];
        [lia|exact H1|exact H5|exact Erest|].
      split; [|exact B]. rewrite A, <- app_assoc. reflexivity.
  - injection Hr as <-. destruct f; [lia|]. cbn [exec st_out st_status]. rewrite app_nil_r. split; [reflexivity|left; reflexivity].
Qed.

(* the final `for i in range(...)` statement = the model's loop *)
Lemma for_range_equiv f rho out size chunk overlap start stop :
  (Z.to_nat size + 5 <= f)%nat ->
  get rho 1%nat = chunk -> get rho 2%nat = start -> get rho 3%nat = overlap -> get rho 5%nat = stop ->
  0 <= overlap -> start <= stop -> (0 < chunk - overlap -> stop - start <= size) ->
  to_res (exec (S f) rho out [ForRange 7%nat (V 2%nat) (V 5%nat) (Sub (V 1%nat) (V 3%nat)) loop_body])
  = (let step := chunk - overlap in
     if step =? 0 then Raise ValueError
     else if step <? 0 then Ok out
     else match range_loop (S (Z.to_nat size)) start stop step chunk with
          | Some rs => Ok (out ++ rs)
          | None => Raise RuntimeError
          end).
Proof.
  intros Hf H1 H2 H3 H5 Hov Hss Hsz. cbn [exec eval]. rewrite H1, H2, H3, H5. cbv zeta.
  destruct (chunk - overlap =? 0) eqn:E0; [reflexivity|]. apply Z.eqb_neq in E0.
  destruct f as [|f]; [lia|].
  destruct (chunk - overlap <? 0) eqn:En.
  - apply Z.ltb_lt in En. cbn [exec].
    assert ((0 <? chunk - overlap) = false) as -> by (apply Z.ltb_ge; lia).
    assert ((stop <? start) = false) as -> by (apply Z.ltb_ge; lia).
    cbn [andb orb]. rewrite andb_false_r. destruct f; [lia|]. reflexivity.
  - apply Z.ltb_ge in En.
    destruct (range_loop_good stop (chunk - overlap) chunk ltac:(lia) ltac:(lia) (S (Z.to_nat size)) start)
      as [rs [Hrs _]]; [specialize (Hsz ltac:(lia)); lia|].
    rewrite Hrs.
    destruct (loop_equiv chunk stop (chunk - overlap) ltac:(lia) (S (Z.to_nat size)) start rho out f rs
                ltac:(lia) H1 H5 Hrs) as [A B].
    unfold to_res. rewrite A. destruct B as [-> | ->]; reflexivity.
Qed.

(* one-step unfoldings (all by computation), so that symbolic execution does
   not duplicate continuations *)
Lemma exec_validate f rho out x strict rest :
  exec (S f) rho out (Validate x strict :: rest)
  = if (get rho x <? 0) || (strict && (get rho x =? 0)) then mkSt rho out (SRaise ValueError)
    else exec f rho out rest.
Proof. reflexivity. Qed.

Lemma exec_assign f rho out x e rest :
  exec (S f) rho out (Assign x e :: rest)
  = match eval rho e with Ok z => exec f (set rho x z) out rest | Raise e => mkSt rho out (SRaise e) end.
Proof. reflexivity. Qed.

Lemma exec_yield f rho out a b rest :
  exec (S f) rho out (Yield a b :: rest)
  = match eval rho a, eval rho b with
    | Ok x, Ok y => exec f rho (out ++ [(x, y)]) rest
    | Raise e, _ => mkSt rho out (SRaise e)
    | _, Raise e => mkSt rho out (SRaise e)
    end.
Proof. reflexivity. Qed.

Lemma exec_if f rho out c body rest :
  exec (S f) rho out (If c body :: rest)
  = match evalc rho c with
    | Ok true => let r := exec f rho out body in
                 match st_status r with SNormal => exec f (st_env r) (st_out r) rest | _ => r end
    | Ok false => exec f rho out rest
    | Raise e => mkSt rho out (SRaise e)
    end.
Proof. reflexivity. Qed.

Lemma exec_return f rho out rest : exec (S f) rho out (Return :: rest) = mkSt rho out SReturn.
Proof. reflexivity. Qed.

Lemma exec_nil f rho out : exec (S f) rho out [] = mkSt rho out SNormal.
Proof. reflexivity. Qed.

Theorem py_chunk_ranges_is_model : forall size chunk offset overlap align,
  run_generator (fuel_for size) expected_prog (env0 size chunk offset overlap align)
  = m_chunk_ranges size chunk offset overlap align.
Proof.
  intros size chunk offset overlap align.
  unfold run_generator, m_chunk_ranges, fuel_for, expected_prog. cbn [Nat.add].
  set (rho0 := env0 size chunk offset overlap align).
  assert (G0 : get rho0 0%nat = size) by reflexivity.
  assert (G1 : get rho0 1%nat = chunk) by reflexivity.
  assert (G2 : get rho0 2%nat = offset) by reflexivity.
  assert (G3 : get rho0 3%nat = overlap) by reflexivity.
  assert (G4 : get rho0 4%nat = if align then 1 else 0) by reflexivity.
  clearbody rho0.
  (* the four validations *)
  rewrite exec_validate, G0. cbn [andb]. rewrite orb_false_r.
  destruct (size <? 0) eqn:Es; [reflexivity|]. cbn [orb].
  rewrite exec_validate, G1. cbn [andb].
  replace ((chunk <? 0) || (chunk =? 0)) with (chunk <=? 0)
    by (destruct (chunk <=? 0) eqn:A, (chunk <? 0) eqn:B, (chunk =? 0) eqn:C0; try reflexivity; lia).
  destruct (chunk <=? 0) eqn:Ec; [reflexivity|]. cbn [orb].
  rewrite exec_validate, G2. cbn [andb]. rewrite orb_false_r.
  destruct (offset <? 0) eqn:Eo; [reflexivity|]. cbn [orb].
  rewrite exec_validate, G3. cbn [andb]. rewrite orb_false_r.
  destruct (overlap <? 0) eqn:Ev; [reflexivity|].
  apply Z.ltb_ge in Es, Eo, Ev. apply Z.leb_gt in Ec.
  cbv zeta.
  (* input_stop = input_offset + input_size *)
  rewrite exec_assign. cbn [eval]. rewrite G0, G2.
  set (stop := offset + size).
  set (rho1 := set rho0 5%nat stop).
  assert (H0 : get rho1 0%nat = size) by exact G0.
  assert (H1 : get rho1 1%nat = chunk) by exact G1.
  assert (H2 : get rho1 2%nat = offset) by exact G2.
  assert (H3 : get rho1 3%nat = overlap) by exact G3.
  assert (H4 : get rho1 4%nat = if align then 1 else 0) by exact G4.
  assert (H5 : get rho1 5%nat = stop) by reflexivity.
  clearbody rho1. clear G0 G1 G2 G3 G4 rho0.
  rewrite exec_if. cbn [evalc]. rewrite H4.
  destruct align; cbn [Z.eqb negb].
  - (* align *)
    cbv zeta. rewrite exec_assign. cbn [eval]. rewrite H1, H2, H3.
    destruct (chunk - overlap =? 0) eqn:E0; [reflexivity|].
    set (initial := chunk - offset mod (chunk - overlap)).
    set (rho2 := set rho1 6%nat initial).
    assert (I1 : get rho2 1%nat = chunk) by exact H1.
    assert (I2 : get rho2 2%nat = offset) by exact H2.
    assert (I3 : get rho2 3%nat = overlap) by exact H3.
    assert (I5 : get rho2 5%nat = stop) by exact H5.
    assert (I6 : get rho2 6%nat = initial) by reflexivity.
    clearbody rho2.
    rewrite exec_if. cbn [evalc eval]. rewrite I6, I3.
    destruct (initial =? overlap) eqn:Ei; cbn [negb].
    + (* initial_chunk_len == overlap_size (impossible for valid parameters, still the same) *)
      rewrite exec_nil. cbn [st_status st_env st_out].
      rewrite (for_range_equiv _ rho2 [] size chunk overlap offset stop); try assumption; try (unfold stop; lia).
      cbv zeta. rewrite E0. reflexivity.
    + cbv zeta. rewrite exec_yield. cbn [eval]. rewrite I2, I6, I5. cbn [app].
      rewrite exec_if. cbn [evalc eval]. rewrite I2, I6, I5.
      destruct (offset + initial >=? stop) eqn:Ege.
      * cbv zeta. rewrite exec_return. cbn [st_status]. reflexivity.
      * rewrite exec_assign. cbn [eval]. rewrite I2, I6, I3.
        set (start := offset + initial - overlap).
        set (rho3 := set rho2 2%nat start).
        assert (J1 : get rho3 1%nat = chunk) by exact I1.
        assert (J2 : get rho3 2%nat = start) by reflexivity.
        assert (J3 : get rho3 3%nat = overlap) by exact I3.
        assert (J5 : get rho3 5%nat = stop) by exact I5.
        clearbody rho3.
        rewrite exec_nil. cbn [st_status st_env st_out].
        rewrite exec_nil. cbn [st_status st_env st_out].
        rewrite Z.geb_leb in Ege. apply Z.leb_gt in Ege.
        rewrite (for_range_equiv _ rho3 [(offset, Z.min (offset + initial) stop)] size chunk overlap start stop);
          try assumption; try (unfold start, stop in *; lia).
        -- cbv zeta. rewrite E0. reflexivity.
        -- intro Hpos. pose proof (Z.mod_pos_bound offset (chunk - overlap) Hpos).
           unfold start, stop, initial in *. lia.
  - (* not aligned *)
    rewrite (for_range_equiv _ rho1 [] size chunk overlap offset stop); try assumption; try (unfold stop; lia).
    cbv zeta. cbn [app]. destruct (chunk - overlap =? 0); [reflexivity|].
    destruct (chunk - overlap <? 0); [reflexivity|].
    destruct (range_loop _ _ _ _ _); reflexivity.
Qed.
