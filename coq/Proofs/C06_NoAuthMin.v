(* C06: references without an authority under MINIMAL quoting (to_text(full_quote=False)): when no
   path segment, query key/value or fragment contains '%', the text parses back to exactly those
   components and rendering the re-parsed URL minimally gives the same text. *)
From Boltons Require Import Lib.Prelude Lib.C06_Text Spec.C06_Spec Model.C06_Model
  Proofs.C06_Codec Proofs.C06_Quote Proofs.C06_Lists Proofs.C06_Round Proofs.C06_QuoteMin
  Proofs.C06_Parts Proofs.C06_RoundMin Proofs.C06_NoAuth.
Open Scope N_scope.

Section NoAuthMin.
Variable T : tables.
Variable O : oracles.
Hypothesis TOK : tables_ok T = true.
Hypothesis DOK : delims_ok T = true.
Let qm := quote_min T.

Definition rendered_nam (scheme : text) (nl : bool) (path : list text) (q : list (text * option text)) (frag : text) : text :=
  let pathtxt := join [47] (map (qm CPath) path) in
  sprefix scheme ++ slashes scheme pathtxt nl ++ pathtxt ++ qpart (join [38] (map (rpm T) q)) ++ fpart (qm CFrag frag).

Theorem to_text_nam scheme sep fam port path q frag :
  let u := mkU scheme sep [] [] fam [] port path q frag in
  to_text T O false u = MOk (rendered_nam scheme (uses_netloc T u) path q frag).
Proof.
  intro u. unfold to_text, get_authority. cbn [u u_user u_pass u_host u_scheme u_path u_query u_frag nonempty orb mbind].
  unfold rendered_nam, sprefix, slashes. rewrite (query_to_text_min T O).
  change (quote T O false CPath) with (qm CPath). change (quote T O false CFrag frag) with (qm CFrag frag).
  fold u. generalize (join [47] (map (qm CPath) path)); intro pathtxt.
  f_equal. f_equal. rewrite andb_false_r. cbn [andb].
  assert (E1 : (match pathtxt with 47 :: 47 :: _ => true | _ => false end) = starts2 pathtxt) by reflexivity.
  assert (E2 : (match pathtxt with [] => true | 47 :: _ => true | _ => false end) = empty_or_slash pathtxt) by reflexivity.
  rewrite E1, E2. f_equal. destruct pathtxt; reflexivity.
Qed.

Definition rest_ofm (q : list (text * option text)) (frag : text) : text :=
  qpart (join [38] (map (rpm T) q)) ++ fpart (qm CFrag frag).

Lemma restm_stops q frag p : p 63 = false -> p 35 = false -> stops p (rest_ofm q frag) = true.
Proof.
  intros P63 P35. unfold rest_ofm, qpart, fpart. destruct (nonempty _); [cbn [app stops]; rewrite P63; reflexivity|].
  destruct (nonempty _); [cbn [app stops]; rewrite P35; reflexivity|reflexivity].
Qed.
Lemma restm_no_colon q frag : starts_colon (rest_ofm q frag) = false.
Proof. unfold rest_ofm, qpart, fpart. destruct (nonempty _); [reflexivity|]. destruct (nonempty _); reflexivity. Qed.
Lemma restm_no_slash q frag : starts1 (rest_ofm q frag) = false.
Proof. unfold rest_ofm, qpart, fpart. destruct (nonempty _); [reflexivity|]. destruct (nonempty _); reflexivity. Qed.

Lemma url_re_nam scheme nl path q frag :
  forallb (not_in [58; 47; 63; 35]) scheme = true ->
  Forall nopct path -> Forall pair_okm q ->
  (scheme = [] -> noscheme (join [47] (map (qm CPath) path)) = true) ->
  url_re (rendered_nam scheme nl path q frag)
  = mkRe (some_if scheme)
         (if nonempty (slashes scheme (join [47] (map (qm CPath) path)) nl) then Some [] else None)
         (join [47] (map (qm CPath) path)) (some_if (join [38] (map (rpm T) q))) (some_if (qm CFrag frag)).
Proof.
  intros Hs Fp Fq NS. unfold rendered_nam. cbv zeta.
  set (pathtxt := join [47] (map (qm CPath) path)) in *.
  fold (rest_ofm q frag).
  assert (Hp : forallb (not_in [63; 35]) pathtxt = true)
    by (apply (C06_Parts.path_chars (qm CPath) nopct (qm_path_excl T DOK) _ Fp)).
  assert (Hq : forallb (not_in [35]) (join [38] (map (rpm T) q)) = true)
    by (apply (C06_Parts.query_chars (qm CQuery) idt nopct (qm_query_excl T DOK) q Fq)).
  assert (TAIL : forall sch, re_tail sch (slashes scheme pathtxt nl ++ pathtxt ++ rest_ofm q frag)
                 = mkRe sch (if nonempty (slashes scheme pathtxt nl) then Some [] else None) pathtxt
                        (some_if (join [38] (map (rpm T) q))) (some_if (qm CFrag frag))).
  { intro sch. unfold slashes. destruct (starts2 pathtxt || (nonempty scheme && empty_or_slash pathtxt && nl)) eqn:C.
    - rewrite re_tail_slashes.
      + cbn [nonempty]. apply re_tail2_shape; assumption.
      + assert (EP : empty_or_slash pathtxt = true).
        { apply orb_true_iff in C as [C|C]; [apply starts2_eos; exact C|].
          apply andb_true_iff in C as [C _]. apply andb_true_iff in C as [_ C]. exact C. }
        apply (eos_stops pathtxt _ EP). apply restm_stops; reflexivity.
    - cbn [app nonempty]. apply orb_false_iff in C as [C _]. rewrite re_tail_noslashes.
      + apply re_tail2_shape; assumption.
      + rewrite (starts2_app_rest pathtxt _ (restm_no_slash q frag)). exact C. }
  unfold sprefix. destruct scheme as [|s0 sr].
  - cbn [nonempty app]. unfold some_if at 1. cbn [nonempty]. rewrite url_re_noscheme; [apply TAIL|].
    unfold slashes. cbn [nonempty andb orb]. rewrite orb_false_r. destruct (starts2 pathtxt) eqn:C.
    + reflexivity.
    + cbn [app]. rewrite noscheme_app; [apply NS; reflexivity|apply restm_stops; reflexivity|apply restm_no_colon].
  - cbn [nonempty]. rewrite <- app_assoc. rewrite url_re_scheme; [|discriminate|exact Hs].
    unfold some_if at 1. cbn [nonempty]. apply TAIL.
Qed.

Theorem url_init_nam scheme nl path q frag :
  forallb (not_in [58; 47; 63; 35]) scheme = true ->
  path <> [] -> Forall nopct path -> Forall pair_okm q -> nopct frag ->
  (scheme = [] -> noscheme (join [47] (map (qm CPath) path)) = true) ->
  rendered_nam scheme nl path q frag <> [] ->
  url_init T O (rendered_nam scheme nl path q frag)
  = MOk (mkU scheme (nonempty (slashes scheme (join [47] (map (qm CPath) path)) nl)) [] [] 0 [] None path q frag).
Proof.
  intros Hs NEp Fp Fq Sf NS NEt. unfold url_init.
  destruct (rendered_nam scheme nl path q frag) as [|x0 xr] eqn:ET; [contradiction|]. rewrite <- ET. clear NEt.
  unfold parse_url. rewrite (url_re_nam scheme nl path q frag Hs Fp Fq NS).
  cbn [g_scheme g_authority g_path g_query g_fragment].
  assert (CP : CPath <> CUser) by discriminate. assert (CQ : CQuery <> CUser) by discriminate.
  assert (CF : CFrag <> CUser) by discriminate.
  destruct (nonempty (slashes scheme (join [47] (map (qm CPath) path)) nl));
    cbn [split_userinfo split_hostport parse_host mbind];
    cbn [pu_host pu_scheme pu_sep pu_user pu_pass pu_family pu_port pu_path pu_query pu_fragment decode_host mbind];
    rewrite !opt_text_some_if; unfold qm, rpm;
    rewrite (C06_Parts.path_back T (quote_min T CPath) idt nopct (qm_path_excl T DOK)
               (fun s => qm_unq_if T TOK DOK CPath s CP) _ NEp Fp),
            (C06_Parts.parse_qsl_join T (quote_min T CQuery) idt nopct (qm_query_excl T DOK)
               (fun s => qm_unquote T TOK DOK CQuery s CQ) (fun s _ E => qm_nil T DOK CQuery s CQ E) q Fq),
            (qm_unq_if T TOK DOK CFrag frag CF Sf);
    unfold idt; rewrite map_id;
    rewrite (map_ext (fun kv : text * option text => (fst kv, option_map (fun s : text => s) (snd kv))) (fun kv => kv))
      by (intros [k [v|]]; reflexivity);
    rewrite map_id; reflexivity.
Qed.
End NoAuthMin.

Theorem roundtrip_nam T O :
  tables_ok T = true -> delims_ok T = true ->
  forall scheme sep fam port path q frag,
  let u := mkU scheme sep [] [] fam [] port path q frag in
  let pathtxt := join [47] (map (quote_min T CPath) path) in
  forallb (not_in [58; 47; 63; 35]) scheme = true ->
  path <> [] -> Forall nopct path -> Forall pair_okm q -> nopct frag ->
  (scheme = [] -> noscheme pathtxt = true) ->
  forall m, to_text T O false u = MOk m -> m <> [] ->
  url_init T O m = MOk (mkU scheme (nonempty (slashes scheme pathtxt (uses_netloc T u))) [] [] 0 [] None path q frag).
Proof.
  intros TOK DOK scheme sep fam port path q frag u pathtxt Hs NEp Fp Fq Sf NS m R NEt.
  pose proof (to_text_nam T O scheme sep fam port path q frag) as R0. fold u in R0.
  pose proof (eq_trans (eq_sym R0) R) as EF. inversion EF as [EF']. subst m.
  apply (url_init_nam T O TOK DOK scheme (uses_netloc T u) path q frag Hs NEp Fp Fq Sf NS NEt).
Qed.

Theorem fixpoint_min_na T O :
  tables_ok T = true -> delims_ok T = true ->
  forall scheme sep fam port path q frag,
  let u := mkU scheme sep [] [] fam [] port path q frag in
  let pathtxt := join [47] (map (quote_min T CPath) path) in
  forallb (not_in [58; 47; 63; 35]) scheme = true ->
  path <> [] -> Forall nopct path -> Forall pair_okm q -> nopct frag ->
  (scheme = [] -> noscheme pathtxt = true) ->
  forall m u', to_text T O false u = MOk m -> m <> [] -> url_init T O m = MOk u' -> to_text T O false u' = MOk m.
Proof.
  intros TOK DOK scheme sep fam port path q frag u pathtxt Hs NEp Fp Fq Sf NS m u' R NEt P.
  pose proof (roundtrip_nam T O TOK DOK scheme sep fam port path q frag Hs NEp Fp Fq Sf NS m R NEt) as P0.
  pose proof (eq_trans (eq_sym P0) P) as EU. inversion EU as [EU']. clear EU P.
  pose proof (to_text_nam T O scheme sep fam port path q frag) as R0. fold u in R0.
  pose proof (eq_trans (eq_sym R0) R) as EF. inversion EF as [EF']. clear EF.
  set (u1 := mkU scheme (nonempty (slashes scheme pathtxt (uses_netloc T u))) [] [] 0 [] None path q frag).
  pose proof (to_text_nam T O scheme (nonempty (slashes scheme pathtxt (uses_netloc T u))) 0 None path q frag) as R1.
  fold u1 in R1. refine (eq_trans R1 _). f_equal.
  unfold rendered_nam. cbv zeta. fold pathtxt.
  assert (SL : slashes scheme pathtxt (uses_netloc T u1) = slashes scheme pathtxt (uses_netloc T u)).
  { destruct (uses_netloc_cases T u u1 eq_refl) as [E|[E1 E2]].
    - rewrite E. reflexivity.
    - rewrite E2. unfold u1. cbn [u_sep]. apply slashes_stable. }
  rewrite SL. reflexivity.
Qed.
