(* C03: the eviction probe (Model.probe: insert max_size fresh keys, watch which old keys vanish)
   of a state that stands for a C02 state m shows exactly the ring of m, oldest first. *)
From Boltons Require Import Lib.Prelude Lib.C03_Syntax Lib.C03_Conc Model.C03_Model Spec.C03_Spec
     Proofs.C03_Link1 Proofs.C03_Link2 Proofs.C03_Link4 Proofs.C03_Link3
     Proofs.C03_SpecLink Proofs.C03_SpecLink2 Proofs.C03_FinalOk.
From Boltons Require Lib.C02_Syntax Model.C02_Model Proofs.C02_Lists Proofs.C02_Inv.

(* ---- strictly ascending lists of keys --------------------------------------------------------- *)
Fixpoint asc (l : list nat) : Prop :=
  match l with
  | a :: ((b :: _) as r) => a < b /\ asc r
  | _ => True
  end.

Lemma asc_tail a l : asc (a :: l) -> asc l.
Proof. destruct l; simpl; tauto. Qed.

Lemma asc_head_lt a l : asc (a :: l) -> forall x, In x l -> a < x.
Proof.
  revert a. induction l as [|b r IH]; intros a A x H; [destruct H|].
  destruct A as [L A]. destruct H as [<-|H]; [exact L|]. specialize (IH b A x H). lia.
Qed.

Lemma asc_cons a l : asc l -> (forall x, In x l -> a < x) -> asc (a :: l).
Proof. intros A H. destruct l as [|b r]; [exact I|]. split; [apply H; now left|exact A]. Qed.

Lemma asc_unique : forall l1 l2, asc l1 -> asc l2 -> (forall x, In x l1 <-> In x l2) -> l1 = l2.
Proof.
  induction l1 as [|a r1 IH]; intros [|b r2] A1 A2 E.
  - reflexivity.
  - exfalso. apply (proj2 (E b)). now left.
  - exfalso. apply (proj1 (E a)). now left.
  - assert (a = b).
    { destruct (proj1 (E a) (or_introl eq_refl)) as [Eq|Ha]; [now symmetry|].
      destruct (proj2 (E b) (or_introl eq_refl)) as [Eq|Hb]; [exact Eq|].
      pose proof (asc_head_lt _ _ A2 a Ha). pose proof (asc_head_lt _ _ A1 b Hb). lia. }
    subst b. f_equal. apply IH; [eapply asc_tail; eauto|eapply asc_tail; eauto|].
    intro x. split; intro H.
    + destruct (proj1 (E x) (or_intror H)) as [Eq|H']; [|exact H'].
      pose proof (asc_head_lt _ _ A1 x H). lia.
    + destruct (proj2 (E x) (or_intror H)) as [Eq|H']; [|exact H'].
      pose proof (asc_head_lt _ _ A2 x H). lia.
Qed.

Lemma asc_filter f l : asc l -> asc (filter f l).
Proof.
  induction l as [|a r IH]; intro A; [exact I|].
  simpl. destruct (f a).
  - apply asc_cons; [apply IH; eapply asc_tail; eauto|].
    intros x H. apply filter_In in H as [H _]. apply (asc_head_lt _ _ A x H).
  - apply IH. eapply asc_tail; eauto.
Qed.

Lemma asc_nodup l : asc l -> NoDup l.
Proof.
  induction l as [|a r IH]; intro A; constructor.
  - intro H. pose proof (asc_head_lt _ _ A a H). lia.
  - apply IH. eapply asc_tail; eauto.
Qed.

(* sorted keys of an association list *)
Definition canon (l : list (K * V)) : list K := map fst (sort_items l).

Lemma sorted_asc (l : list (K * V)) : strictly_sorted l = true -> asc (map fst l).
Proof.
  induction l as [|a r IH]; intro S; [exact I|].
  destruct r as [|b r']; [exact I|].
  change (strictly_sorted (a :: b :: r')) with (Nat.ltb (fst a) (fst b) && strictly_sorted (b :: r')) in S.
  apply andb_true_iff in S as [L S]. apply Nat.ltb_lt in L. simpl. split; [exact L|]. apply IH. exact S.
Qed.

Lemma canon_asc l : NoDup (map fst l) -> asc (canon l).
Proof. intro ND. apply sorted_asc. apply sort_items_sorted. exact ND. Qed.

Lemma in_canon l k : In k (canon l) <-> In k (map fst l).
Proof.
  unfold canon. rewrite !in_map_iff. split; intros [p [E H]]; exists p; split; auto; now apply in_sort_items.
Qed.

Lemma existsb_in k l : existsb (Nat.eqb k) l = true <-> In k l.
Proof.
  rewrite existsb_exists. split.
  - intros [x [H E]]. apply Nat.eqb_eq in E. now subst.
  - intro H. exists k. split; [exact H|apply Nat.eqb_refl].
Qed.

Lemma NoDup_app_remove_r {X} (a b : list X) : NoDup (a ++ b) -> NoDup a.
Proof.
  induction a as [|x r IH]; intro H; [constructor|]. simpl in H. inversion H; subst.
  constructor; [|now apply IH]. intro Hx. apply H2. apply in_or_app. now left.
Qed.

Lemma filter_none {X} (f : X -> bool) l : (forall x, In x l -> f x = false) -> filter f l = [].
Proof.
  induction l as [|a r IH]; intro H; [reflexivity|]. simpl. rewrite (H a) by now left.
  apply IH. intros x Hx. apply H. now right.
Qed.

(* ---- what the probe must show, abstractly: `free` insertions evict nothing, then the old items
        leave oldest first ----------------------------------------------------------------------- *)
Fixpoint exp_steps (free : nat) (a : list (K * V)) (F : list K) : list (list K) :=
  match F with
  | [] => []
  | _ :: r =>
      match free with
      | S fr => [] :: exp_steps fr a r
      | 0 => match a with
             | (e, _) :: a' => [e] :: exp_steps 0 a' r
             | [] => [] :: exp_steps 0 [] r
             end
      end
  end.

Lemma exp_steps_expected : forall free a F,
  length F = free + length a ->
  exp_steps free a F = repeat [] free ++ map (fun p : K * V => [fst p]) a.
Proof.
  induction free as [|fr IH]; intros a F L.
  - simpl. revert F L. induction a as [|[e v] a' IHa]; intros [|f r] L; simpl in *; try lia; [reflexivity|].
    f_equal. apply IHa. lia.
  - destruct F as [|f r]; simpl in L; [lia|]. simpl. f_equal. apply IH. lia.
Qed.

Section Probe.
  Variables (tb : lock_table) (cf : config).
  Hypothesis Hmax : 1 <= cf_max cf.
  Notation rc := (rc_of cf).

  (* the sorted public keys of a state are the sorted keys of the ring it stands for *)
  Lemma view_keys s m : stands_for cf s m -> map fst (view_items s) = canon (M2.ring m).
  Proof.
    intro SF. pose proof (stands_for_store _ _ _ SF) as ES. destruct SF as [[NR NS SAME LEN CAP _] _].
    unfold view_items. rewrite ES. fold (canon (M2.store m)).
    apply asc_unique; [apply canon_asc; exact NS|apply canon_asc; exact NR|].
    intro k. rewrite !in_canon. fold (Li2.keys (M2.store m)). fold (Li2.keys (M2.ring m)).
    rewrite <- !Li2.d_mem_iff. unfold d_mem. now rewrite SAME.
  Qed.

  (* inserting a key that is not in the cache *)
  Lemma insert_fresh s m f :
    stands_for cf s m -> ~ In f (Li2.keys (M2.ring m)) ->
    exists m', stands_for cf (fst (run_op tb cf s (SetItem f 0))) m'
               /\ M2.ring m' = (if Nat.ltb (length (M2.ring m)) (cf_max cf) then M2.ring m else tl (M2.ring m)) ++ [(f, 0)].
  Proof.
    intros SF NI.
    pose proof (op_accepted_by_c03_spec tb cf s m (SetItem f 0) Hmax I SF) as OA.
    destruct (run_op tb cf s (SetItem f 0)) as [s' x]. destruct OA as [m' [SF' A]].
    exists m'. split; [exact SF'|].
    unfold r_accepts in A. simpl in A. destruct (rv_eqb x RNone); [|discriminate]. inversion A as [A'].
    unfold r_insert, r_lookup. rewrite (proj2 (Li2.d_get_none_iff _ _) NI). reflexivity.
  Qed.

  Definition small (l : list (K * V)) : Prop := forall k, In k (Li2.keys l) -> k < 100.
  Definition big (l : list (K * V)) : Prop := forall k, In k (Li2.keys l) -> 100 <= k.

  Lemma keys_app' (a b : list (K * V)) : Li2.keys (a ++ b) = Li2.keys a ++ Li2.keys b.
  Proof. apply map_app. Qed.

  Lemma probe_from_spec : forall F s m a b,
    stands_for cf s m -> M2.ring m = a ++ b -> small a -> big b ->
    (forall f, In f F -> 100 <= f /\ ~ In f (Li2.keys b)) -> NoDup F ->
    let free := cf_max cf - length (a ++ b) in
    exists sf mf,
      probe_from tb cf s (canon a) F = (exp_steps free a F, sf)
      /\ stands_for cf sf mf
      /\ length (M2.ring mf) = length (a ++ b) + Nat.min free (length F).
  Proof.
    induction F as [|f r IH]; intros s m a b SF ER SA BB FF NDF free.
    - exists s, m. simpl. split; [reflexivity|]. split; [exact SF|]. rewrite ER. lia.
    - assert (Ff : 100 <= f /\ ~ In f (Li2.keys b)) by (apply FF; now left).
      assert (NI : ~ In f (Li2.keys (M2.ring m))).
      { rewrite ER, keys_app', in_app_iff. intros [H|H]; [specialize (SA f H); lia|tauto]. }
      destruct (insert_fresh s m f SF NI) as [m' [SF' R']].
      pose proof SF as [[NR _ _ _ CAP _] _]. simpl in CAP.
      assert (NDab : NoDup (Li2.keys (a ++ b))) by (rewrite <- ER; exact NR).
      assert (CAPab : length (a ++ b) <= cf_max cf) by (rewrite <- ER; exact CAP).
      cbn [probe_from].
      set (s' := fst (run_op tb cf s (SetItem f 0))) in *.
      rewrite (view_keys s' m' SF').
      assert (FF' : forall b', (forall k, In k (Li2.keys b') -> In k (Li2.keys b) \/ k = f) ->
                     forall g, In g r -> 100 <= g /\ ~ In g (Li2.keys b')).
      { intros b' Hb' g Hg. split; [apply FF; now right|]. intro H. destruct (Hb' g H) as [H1|H1].
        - apply (proj2 (FF g (or_intror Hg))). exact H1.
        - subst g. inversion NDF; contradiction. }
      inversion NDF as [|? ? _ NDr]; subst.
      destruct (Nat.ltb (length (M2.ring m)) (cf_max cf)) eqn:LT.
      + (* room left: nothing is evicted *)
        apply Nat.ltb_lt in LT. rewrite ER in LT.
        assert (Efree : free = S (cf_max cf - length (a ++ (b ++ [(f, 0)])))).
        { unfold free. rewrite !app_length in *. simpl. lia. }
        assert (R'' : M2.ring m' = a ++ (b ++ [(f, 0)])) by (rewrite R', ER, app_assoc; reflexivity).
        assert (NOW : filter (fun k => existsb (Nat.eqb k) (canon a)) (canon (M2.ring m')) = canon a).
        { pose proof SF' as [[NR' _ _ _ _ _] _].
          apply asc_unique; [apply asc_filter; apply canon_asc; exact NR'| |].
          - apply canon_asc. rewrite keys_app' in NDab. apply (NoDup_app_remove_r _ (Li2.keys b)) in NDab. exact NDab.
          - intro x. rewrite filter_In, existsb_in, !in_canon. fold (Li2.keys (M2.ring m')).
            rewrite R'', keys_app', in_app_iff. fold (Li2.keys a). tauto. }
        rewrite NOW.
        assert (BB' : big (b ++ [(f, 0)])).
        { intros k Hk. rewrite keys_app', in_app_iff in Hk. destruct Hk as [Hk|[<-|[]]]; [now apply BB|tauto]. }
        destruct (IH s' m' a (b ++ [(f, 0)]) SF' R'' SA BB'
                     (FF' (b ++ [(f, 0)]) ltac:(intros k Hk; rewrite keys_app', in_app_iff in Hk; simpl in Hk; destruct Hk as [Hk|[Hk|[]]]; [now left|right; now symmetry])) NDr)
          as [sf [mf [E [SFf LF]]]].
        rewrite E. exists sf, mf. split; [|split; [exact SFf|]].
        * rewrite Efree. simpl. f_equal. f_equal.
          unfold keys_gone. apply filter_none. intros x Hx. rewrite (proj2 (existsb_in x (canon a)) Hx). reflexivity.
        * rewrite LF, Efree. rewrite !app_length in *. simpl. lia.
      + (* full: the oldest item goes *)
        try rewrite LT in R'. apply Nat.ltb_ge in LT. rewrite ER in LT.
        assert (Efree : free = 0) by (unfold free; lia).
        rewrite Efree.
        destruct a as [|[e ve] a'].
        * (* only fresh items are left *)
          simpl in *. assert (R'' : M2.ring m' = [] ++ (tl b ++ [(f, 0)])) by (rewrite R', ER; reflexivity).
          assert (BB' : big (tl b ++ [(f, 0)])).
          { intros k Hk. rewrite keys_app', in_app_iff in Hk. destruct Hk as [Hk|[<-|[]]]; [|tauto].
            apply BB. destruct b; [destruct Hk|now right]. }
          destruct (IH s' m' [] (tl b ++ [(f, 0)]) SF' R'' SA BB'
                       (FF' (tl b ++ [(f, 0)]) ltac:(intros k Hk; rewrite keys_app', in_app_iff in Hk; simpl in Hk;
                                    destruct Hk as [Hk|[Hk|[]]]; [left; destruct b; [destruct Hk|now right]|right; now symmetry])) NDr)
            as [sf [mf [E [SFf LF]]]].
          assert (NOW : filter (fun _ : nat => false) (canon (M2.ring m')) = []).
          { apply filter_none. reflexivity. }
          rewrite NOW. change (probe_from tb cf s' [] r) with (probe_from tb cf s' (canon []) r). rewrite E.
          assert (F0 : cf_max cf - length ([] ++ (tl b ++ [(f, 0)])) = 0).
          { simpl. rewrite app_length. simpl. destruct b; simpl in *; lia. }
          rewrite F0. exists sf, mf. split; [reflexivity|]. split; [exact SFf|].
          rewrite LF, F0. simpl. rewrite app_length. simpl. destruct b; simpl in *; lia.
        * assert (R'' : M2.ring m' = a' ++ (b ++ [(f, 0)])) by (rewrite R', ER; simpl; now rewrite <- app_assoc).
          assert (SA' : small a') by (intros k Hk; apply SA; now right).
          assert (BB' : big (b ++ [(f, 0)])).
          { intros k Hk. rewrite keys_app', in_app_iff in Hk. destruct Hk as [Hk|[<-|[]]]; [now apply BB|tauto]. }
          simpl in NDab. inversion NDab as [|? ? NIe NDab']; subst.
          assert (NOW : filter (fun k => existsb (Nat.eqb k) (canon ((e, ve) :: a'))) (canon (M2.ring m')) = canon a').
          { pose proof SF' as [[NR' _ _ _ _ _] _].
            apply asc_unique; [apply asc_filter; apply canon_asc; exact NR'| |].
            - apply canon_asc. fold (Li2.keys a'). rewrite keys_app' in NDab'. apply (NoDup_app_remove_r _ (Li2.keys b)) in NDab'. exact NDab'.
            - intro x. rewrite filter_In, existsb_in, !in_canon. fold (Li2.keys (M2.ring m')).
              rewrite R'', keys_app', in_app_iff. simpl. fold (Li2.keys a').
              split; [|tauto]. intros [[H|H] [H2|H2]]; auto.
              subst x. exfalso. rewrite keys_app', in_app_iff in H. destruct H as [H|[H|[]]].
              + apply NIe. rewrite keys_app', in_app_iff. now right.
              + simpl in H. subst f. specialize (SA e (or_introl eq_refl)). lia. }
          rewrite NOW.
          destruct (IH s' m' a' (b ++ [(f, 0)]) SF' R'' SA' BB'
                       (FF' (b ++ [(f, 0)]) ltac:(intros k Hk; rewrite keys_app', in_app_iff in Hk; simpl in Hk; destruct Hk as [Hk|[Hk|[]]]; [now left|right; now symmetry])) NDr)
            as [sf [mf [E [SFf LF]]]].
          assert (F0 : cf_max cf - length (a' ++ (b ++ [(f, 0)])) = 0).
          { rewrite !app_length in *. simpl in *. lia. }
          rewrite F0 in E, LF. rewrite E. exists sf, mf. split; [|split; [exact SFf|]].
          -- simpl. f_equal. f_equal.
             unfold keys_gone.
             apply asc_unique; [apply asc_filter; apply canon_asc; constructor; [|]| exact I|].
             ++ intro H. apply NIe. rewrite keys_app', in_app_iff. now left.
             ++ fold (Li2.keys a'). rewrite keys_app' in NDab'. apply (NoDup_app_remove_r _ (Li2.keys b)) in NDab'. exact NDab'.
             ++ intro x. rewrite filter_In, negb_true_iff, !in_canon. simpl. fold (Li2.keys a').
                split.
                ** intros [[H|H] N]; [now left|]. exfalso.
                   assert (existsb (Nat.eqb x) (canon a') = true) by (apply (proj2 (existsb_in _ _)); apply (proj2 (in_canon _ _)); exact H). congruence.
                ** intros [H|[]]. subst x. split; [now left|].
                   destruct (existsb (Nat.eqb e) (canon a')) eqn:EX; [|reflexivity].
                   exfalso. apply (proj1 (existsb_in _ _)) in EX. apply (proj1 (in_canon _ _)) in EX. apply NIe. rewrite keys_app', in_app_iff. now left.
          -- rewrite LF. rewrite !app_length in *. simpl in *. lia.
  Qed.
End Probe.

Lemma fresh_keys_spec n f : In f (fresh_keys n) -> 100 <= f.
Proof. unfold fresh_keys. rewrite in_map_iff. intros [i [<- _]]. lia. Qed.

Lemma nodup_map_seq n : forall st, NoDup (map (fun i => 100 + i) (seq st n)).
Proof.
  induction n as [|n IH]; intro st; cbn [seq map]; constructor.
  - rewrite in_map_iff. intros [i [E H]]. apply in_seq in H. lia.
  - apply IH.
Qed.

Lemma fresh_keys_nodup n : NoDup (fresh_keys n).
Proof. apply nodup_map_seq. Qed.

Lemma fresh_keys_length n : length (fresh_keys n) = n.
Proof. unfold fresh_keys. now rewrite map_length, seq_length. Qed.

Theorem probe_correct tb cf s m :
  1 <= cf_max cf -> stands_for cf s m -> small (M2.ring m) ->
  probe tb cf s = (expected_probe (rc_of cf) (M2.ring m), cf_max cf).
Proof.
  intros Hmax SF SM. unfold probe. rewrite (view_keys cf s m SF).
  pose proof SF as [[NR NS SAME LEN CAP _] _]. simpl in CAP.
  destruct (probe_from_spec tb cf Hmax (fresh_keys (cf_max cf)) s m (M2.ring m) [] SF)
    as [sf [mf [E [SFf LF]]]].
  - now rewrite app_nil_r.
  - exact SM.
  - intros k [].
  - intros f Hf. split; [eapply fresh_keys_spec; eauto|intros []].
  - apply fresh_keys_nodup.
  - rewrite E. rewrite app_nil_r in *. rewrite fresh_keys_length in LF.
    rewrite exp_steps_expected by (rewrite fresh_keys_length; lia).
    unfold expected_probe. simpl r_max. f_equal.
    unfold view_len. rewrite (stands_for_store _ _ _ SFf).
    destruct SFf as [[_ _ _ LEN' _ _] _]. rewrite LEN', LF. lia.
Qed.

(* ---- keys never come from nowhere --------------------------------------------------------------- *)
Lemma keys_r_remove l k x : In x (Li2.keys (r_remove l k)) -> In x (Li2.keys l).
Proof.
  unfold r_remove, Li2.keys. rewrite !in_map_iff. intros [p [E H]]. apply filter_In in H as [H _]. eauto.
Qed.

Lemma keys_tl (l : list (K * V)) x : In x (Li2.keys (tl l)) -> In x (Li2.keys l).
Proof. destruct l; simpl; auto. Qed.

Lemma keys_r_insert rc l k v x : In x (Li2.keys (r_insert rc l k v)) -> In x (Li2.keys l) \/ x = k.
Proof.
  unfold r_insert. destruct (r_lookup l k).
  - unfold Li2.keys. rewrite map_app, in_app_iff. simpl. intros [H|[H|[]]]; [left; eapply keys_r_remove; eauto|now right].
  - unfold Li2.keys. rewrite map_app, in_app_iff. simpl. intros [H|[H|[]]]; [left|now right].
    destruct (Nat.ltb (length l) (r_max rc)); [exact H|now apply keys_tl].
Qed.

Lemma keys_r_getitem rc l k x :
  In x (Li2.keys (fst (r_getitem rc l k))) -> In x (Li2.keys l) \/ x = k.
Proof.
  unfold r_getitem. destruct (r_lookup l k) eqn:G; simpl.
  - unfold r_touch. rewrite G. destruct (r_kind rc); [now left|].
    unfold Li2.keys. rewrite map_app, in_app_iff. simpl. intros [H|[H|[]]]; [left; eapply keys_r_remove; eauto|now right].
  - destruct (r_miss rc); simpl; [apply keys_r_insert|now left].
Qed.

Lemma keys_fold_insert rc (kvs : list (K * V)) : forall l x,
  In x (Li2.keys (fold_left (fun s p => r_insert rc s (fst p) (snd p)) kvs l)) ->
  In x (Li2.keys l) \/ In x (map fst kvs).
Proof.
  induction kvs as [|[k v] r IH]; intros l x H; simpl in *; [now left|].
  destruct (IH _ _ H) as [H1|H1]; [|now right; right].
  destruct (keys_r_insert _ _ _ _ _ H1) as [H2|H2]; [now left|right; left; now symmetry].
Qed.

Lemma step_keys rc l o x :
  In x (Li2.keys (fst (r_step rc l o))) -> In x (Li2.keys l) \/ In x (op_keys o).
Proof.
  intro H. destruct o; simpl in H; simpl op_keys.
  - destruct (keys_r_insert _ _ _ _ _ H); [now left|right; now left].
  - pose proof (keys_r_getitem rc l k x) as KG. destruct (r_getitem rc l k) as [s1 r1]. simpl in *.
    destruct (KG H); [now left|right; now left].
  - pose proof (keys_r_getitem rc l k x) as KG. destruct (r_getitem rc l k) as [s1 r1]. simpl in *.
    destruct (KG H); [now left|right; now left].
  - destruct (r_lookup l k); simpl in H; [left; eapply keys_r_remove; eauto|now left].
  - destruct (r_lookup l k); simpl in H; [left; eapply keys_r_remove; eauto|].
    destruct d; simpl in H; now left.
  - now left.
  - destruct H.
  - pose proof (keys_r_getitem rc l k x) as KG. destruct (r_getitem rc l k) as [s1 r1]. simpl in KG.
    destruct r1; simpl in H.
    + destruct (KG H); [now left|right; now left].
    + destruct (keys_r_insert _ _ _ _ _ H); [now left|right; now left].
  - apply (keys_fold_insert rc). exact H.
  - apply (keys_fold_insert rc). exact H.
  - now left.
  - now left.
  - now left.
  - now left.
  - now left.
  - now left.
  - now left.
  - now left.
Qed.

Lemma let_pair_some {S R} (X : S * R) (f : R -> bool) l' :
  (let '(s', r') := X in if f r' then Some s' else None) = Some l' -> l' = fst X.
Proof. destruct X as [s r]. simpl. destruct (f r); intro E; inversion E; reflexivity. Qed.

Lemma keys_r_accepts rc l o r l' x :
  r_accepts rc l o r = Some l' -> In x (Li2.keys l') -> In x (Li2.keys l) \/ In x (op_keys o).
Proof.
  intros A H. unfold r_accepts in A.
  destruct o; destruct l as [|p t];
    try (apply (let_pair_some _ (rv_eqb r)) in A; subst l'; apply (step_keys rc); exact H).
  (* PopItem on a non-empty cache; a snapshot leaves the cache as it is *)
  - destruct r; try discriminate.
    destruct (r_lookup (p :: t) k); [|discriminate]. destruct (Nat.eqb v v0); [|discriminate].
    inversion A; subst l'. left. eapply keys_r_remove; eauto.
  - destruct r; try discriminate. destruct (strictly_sorted l && same_items [] l); [|discriminate].
    inversion A; subst l'. now left.
  - destruct r; try discriminate. destruct (strictly_sorted l && same_items (p :: t) l); [|discriminate].
    inversion A; subst l'. now left.
Qed.
