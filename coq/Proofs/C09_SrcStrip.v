(* C09 (T): lstrip_iter / rstrip_iter as translated from the source (nested and
   consecutive for-loops over ONE shared iterator, Gen/C09_Src.v) are the model. *)
From Boltons Require Import Lib.Prelude Spec.C09_Spec Model.C09_Model Gen.C09_Src.

(* ---- lstrip_iter ----------------------------------------------------------------- *)
Lemma glstrip_loop2 v : forall fuel it i0 out,
  length it < fuel ->
  exists i', Glstrip_iter_loop2 fuel v (it, i0, out) = (GCont, ([], i', out ++ it)).
Proof.
  induction fuel as [|fuel IH]; intros it i0 out H; [lia|].
  destruct it as [|x r]; cbn [Glstrip_iter_loop2].
  - exists i0. rewrite app_nil_r. reflexivity.
  - cbn [length] in H. destruct (IH r x (out ++ [x]) ltac:(lia)) as [i' E].
    exists i'. rewrite E, <- app_assoc. reflexivity.
Qed.

Lemma glstrip_loop1 v : forall fuel it i0 out,
  length it < fuel ->
  exists it' i' out',
    Glstrip_iter_loop1 fuel v (it, i0, out) = (GCont, (it', i', out'))
    /\ out' ++ it' = out ++ m_lstrip v it.
Proof.
  induction fuel as [|fuel IH]; intros it i0 out H; [lia|].
  destruct it as [|x r]; cbn [Glstrip_iter_loop1 m_lstrip].
  - exists [], i0, out. split; reflexivity.
  - cbn [length] in H. destruct (Nat.eqb x v) eqn:E; cbn [negb].
    + destruct (IH r x out ltac:(lia)) as [it' [i' [out' [E1 E2]]]].
      exists it', i', out'. split; assumption.
    + exists r, x, (out ++ [x]). split; [reflexivity|]. rewrite <- app_assoc. reflexivity.
Qed.

Lemma gen_lstrip_is_model l v : Glstrip_iter l v = Some (m_lstrip v l).
Proof.
  unfold Glstrip_iter. cbv zeta.
  destruct (glstrip_loop1 v (S (length l)) l 0 [] ltac:(lia)) as [it' [i' [out' [E1 E2]]]].
  rewrite E1.
  destruct (glstrip_loop2 v (S (length it')) it' i' out' ltac:(lia)) as [i'' E3].
  rewrite E3. cbn [app] in E2. rewrite E2. reflexivity.
Qed.

(* ---- rstrip_iter ----------------------------------------------------------------- *)
Lemma grstrip_inner v : forall fuel it i0 cache out,
  length it < fuel ->
  exists it' i' cache' b',
    Grstrip_iter_loop1 fuel v (it, i0, cache, false, out) = (GCont, (it', i', cache', b', out))
    /\ (b' = false -> rstrip_loop v cache it = [])
    /\ (b' = true -> rstrip_loop v cache it = cache' ++ i' :: rstrip_loop v [] it'
                     /\ length it' < length it).
Proof.
  induction fuel as [|fuel IH]; intros it i0 cache out H; [lia|].
  destruct it as [|x r]; cbn [Grstrip_iter_loop1 rstrip_loop].
  - exists [], i0, cache, false. split; [reflexivity|]. split; [reflexivity|discriminate].
  - cbn [length] in H. destruct (Nat.eqb x v) eqn:E.
    + destruct (IH r x (cache ++ [x]) out ltac:(lia)) as [it' [i' [c' [b' [E1 [E2 E3]]]]]].
      exists it', i', c', b'. split; [exact E1|]. split; [exact E2|].
      intro Hb. destruct (E3 Hb) as [A B]. split; [exact A|cbn [length]; lia].
    + exists r, x, cache, true. split; [reflexivity|]. split; [discriminate|].
      intros _. split; [reflexivity|cbn [length]; lia].
Qed.

Definition out_of (st : list K * K * list K * bool * list K) : list K :=
  let '(_, _, _, _, out) := st in out.

Lemma grstrip_outer v : forall fuel it i0 c0 b0 out,
  length it < fuel ->
  exists s st',
    Grstrip_iter_loop2 fuel v (it, i0, c0, b0, out) = (s, st')
    /\ (s = GCont \/ s = GRet)
    /\ out_of st' = out ++ rstrip_loop v [] it.
Proof.
  induction fuel as [|fuel IH]; intros it i0 c0 b0 out H; [lia|].
  destruct it as [|x r]; cbn [Grstrip_iter_loop2].
  - exists GCont, ([], i0, c0, b0, out). split; [reflexivity|]. split; [left; reflexivity|].
    cbn [out_of rstrip_loop]. symmetry. apply app_nil_r.
  - cbn [length] in H. cbn [rstrip_loop]. destruct (Nat.eqb x v) eqn:E.
    + cbn [app].
      destruct (grstrip_inner v (S (length r)) r x [x] out ltac:(lia)) as [it' [i' [c' [b' [E1 [E2 E3]]]]]].
      rewrite E1. destruct b'; cbn [negb].
      * destruct (E3 eq_refl) as [A B].
        destruct (IH it' i' c' true ((out ++ c') ++ [i']) ltac:(lia)) as [s [st' [F1 [F2 F3]]]].
        rewrite F1. exists s, st'. split; [destruct F2 as [-> | ->]; reflexivity|]. split; [exact F2|].
        rewrite F3, A, <- !app_assoc. reflexivity.
      * exists GRet, (it', i', c', false, out). split; [reflexivity|]. split; [right; reflexivity|].
        cbn [out_of]. rewrite (E2 eq_refl), app_nil_r. reflexivity.
    + destruct (IH r x c0 b0 (out ++ [x]) ltac:(lia)) as [s [st' [F1 [F2 F3]]]].
      rewrite F1. exists s, st'. split; [destruct F2 as [-> | ->]; reflexivity|]. split; [exact F2|].
      rewrite F3, <- app_assoc. reflexivity.
Qed.

Lemma gen_rstrip_is_model l v : Grstrip_iter l v = Some (m_rstrip v l).
Proof.
  unfold Grstrip_iter, m_rstrip. cbv zeta.
  destruct (grstrip_outer v (S (length l)) l 0 [] false [] ltac:(lia)) as [s [st' [F1 [F2 F3]]]].
  rewrite F1. destruct st' as [[[[a b] c] d] o]. cbn [out_of app] in F3. subst o.
  destruct F2 as [-> | ->]; reflexivity.
Qed.

(* strip_iter is rstrip_iter(lstrip_iter(..)): composition of the two *)
Lemma gen_strip_is_model l v :
  match Glstrip_iter l v with Some m => Grstrip_iter m v | None => None end = Some (m_strip v l).
Proof. rewrite gen_lstrip_is_model. apply gen_rstrip_is_model. Qed.
