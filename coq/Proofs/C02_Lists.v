(* C02: lemmas about association lists with distinct keys (Python dict storage,
   the linked list read as a list, the reference recency list). *)
From Boltons Require Import Lib.Prelude Lib.C02_Syntax Spec.C02_Spec.

Definition keys (l : list (K * V)) : list K := map fst l.

Lemma keys_app l1 l2 : keys (l1 ++ l2) = keys l1 ++ keys l2.
Proof. apply map_app. Qed.

Lemma d_get_none_iff (l : list (K * V)) k : d_get l k = None <-> ~ In k (keys l).
Proof.
  induction l as [|[k' v] r IH]; simpl.
  - tauto.
  - destruct (Nat.eqb_spec k k').
    + split; [discriminate|]. intro H. exfalso. apply H. left. congruence.
    + rewrite IH. split; intro H.
      * intros [E|E]; [congruence | tauto].
      * intro E. apply H. now right.
Qed.

Lemma d_get_some_in (l : list (K * V)) k v : d_get l k = Some v -> In (k, v) l.
Proof.
  induction l as [|[k' v'] r IH]; simpl; [discriminate|].
  destruct (Nat.eqb_spec k k').
  - intro E. inversion E; subst. now left.
  - intro E. right. now apply IH.
Qed.

Lemma d_get_some_keys (l : list (K * V)) k v : d_get l k = Some v -> In k (keys l).
Proof. intro H. apply d_get_some_in in H. apply (in_map fst) in H. exact H. Qed.

Lemma d_get_in_nd (l : list (K * V)) k v : NoDup (keys l) -> In (k, v) l -> d_get l k = Some v.
Proof.
  induction l as [|[k' v'] r IH]; simpl; [tauto|].
  intros ND [E|E].
  - inversion E; subst. now rewrite Nat.eqb_refl.
  - inversion ND; subst. destruct (Nat.eqb_spec k k').
    + subst. exfalso. apply H1. apply (in_map fst) in E. exact E.
    + now apply IH.
Qed.

Lemma d_mem_iff (l : list (K * V)) k : d_mem l k = true <-> In k (keys l).
Proof.
  unfold d_mem. destruct (d_get l k) eqn:E.
  - split; [|reflexivity]. intros _. eapply d_get_some_keys; eauto.
  - apply d_get_none_iff in E. split; [discriminate|tauto].
Qed.

Lemma d_mem_false_iff (l : list (K * V)) k : d_mem l k = false <-> ~ In k (keys l).
Proof. rewrite <- d_mem_iff. destruct (d_mem l k); split; congruence. Qed.

Lemma d_get_app (l1 l2 : list (K * V)) k :
  d_get (l1 ++ l2) k = match d_get l1 k with Some v => Some v | None => d_get l2 k end.
Proof.
  induction l1 as [|[k' v'] r IH]; simpl; [reflexivity|].
  destruct (Nat.eqb k k'); [reflexivity|apply IH].
Qed.

Lemma d_get_set (l : list (K * V)) k v k' :
  d_get (d_set l k v) k' = if Nat.eqb k' k then Some v else d_get l k'.
Proof.
  induction l as [|[k0 v0] r IH]; simpl.
  - destruct (Nat.eqb k' k); reflexivity.
  - destruct (Nat.eqb_spec k k0); simpl.
    + subst. destruct (Nat.eqb k' k0); reflexivity.
    + rewrite IH. destruct (Nat.eqb_spec k' k0); [|reflexivity].
      subst. destruct (Nat.eqb_spec k0 k); [congruence|reflexivity].
Qed.

Lemma keys_set_in (l : list (K * V)) k v : In k (keys l) -> keys (d_set l k v) = keys l.
Proof.
  induction l as [|[k0 v0] r IH]; simpl; [tauto|].
  intros H. destruct (Nat.eqb_spec k k0); simpl; [reflexivity|].
  f_equal. apply IH. destruct H; [congruence|assumption].
Qed.

Lemma d_set_notin (l : list (K * V)) k v : ~ In k (keys l) -> d_set l k v = l ++ [(k, v)].
Proof.
  induction l as [|[k0 v0] r IH]; simpl; [reflexivity|].
  intros H. destruct (Nat.eqb_spec k k0).
  - exfalso. apply H. left. congruence.
  - f_equal. apply IH. tauto.
Qed.

Lemma length_set_in (l : list (K * V)) k v : In k (keys l) -> length (d_set l k v) = length l.
Proof.
  intro H. rewrite <- (map_length fst), keys_set_in by assumption. apply map_length.
Qed.

Lemma d_del_notin (l : list (K * V)) k : ~ In k (keys l) -> d_del l k = l.
Proof.
  induction l as [|[k0 v0] r IH]; simpl; [reflexivity|].
  intros H. destruct (Nat.eqb_spec k k0).
  - exfalso. apply H. left. congruence.
  - f_equal. apply IH. tauto.
Qed.

Lemma in_keys_del_sub (l : list (K * V)) k k' : In k' (keys (d_del l k)) -> In k' (keys l).
Proof.
  induction l as [|[k0 v0] r IH]; simpl; [tauto|].
  destruct (Nat.eqb k k0); simpl; [tauto|]. intros [E|E]; [now left|right; now apply IH].
Qed.

Lemma nodup_del (l : list (K * V)) k : NoDup (keys l) -> NoDup (keys (d_del l k)).
Proof.
  induction l as [|[k0 v0] r IH]; simpl; [trivial|].
  intro ND. inversion ND; subst. destruct (Nat.eqb k k0); simpl; [assumption|].
  constructor; [|now apply IH]. intro H. apply H1. eapply in_keys_del_sub; eauto.
Qed.

Lemma d_get_del (l : list (K * V)) k k' :
  NoDup (keys l) -> d_get (d_del l k) k' = if Nat.eqb k' k then None else d_get l k'.
Proof.
  induction l as [|[k0 v0] r IH]; simpl; intro ND.
  - destruct (Nat.eqb k' k); reflexivity.
  - inversion ND; subst. destruct (Nat.eqb_spec k k0); simpl.
    + subst. destruct (Nat.eqb_spec k' k0); [|reflexivity].
      subst. now apply d_get_none_iff.
    + rewrite IH by assumption. destruct (Nat.eqb_spec k' k0); [|reflexivity].
      subst. destruct (Nat.eqb_spec k0 k); [congruence|reflexivity].
Qed.

Lemma not_in_keys_del (l : list (K * V)) k : NoDup (keys l) -> ~ In k (keys (d_del l k)).
Proof.
  intros ND. apply d_get_none_iff. rewrite d_get_del by assumption. now rewrite Nat.eqb_refl.
Qed.

Lemma in_keys_del (l : list (K * V)) k k' :
  NoDup (keys l) -> (In k' (keys (d_del l k)) <-> k' <> k /\ In k' (keys l)).
Proof.
  intro ND. rewrite <- !d_mem_iff. unfold d_mem. rewrite d_get_del by assumption.
  destruct (Nat.eqb_spec k' k).
  - split; [discriminate|]. intros [H _]. congruence.
  - tauto.
Qed.

Lemma length_del_in (l : list (K * V)) k : In k (keys l) -> S (length (d_del l k)) = length l.
Proof.
  induction l as [|[k0 v0] r IH]; simpl; [tauto|].
  intro H. destruct (Nat.eqb_spec k k0); simpl; [reflexivity|].
  f_equal. apply IH. destruct H; [congruence|assumption].
Qed.

(* move-to-end keeps the map *)
Lemma d_get_move_end (l : list (K * V)) k v k' :
  NoDup (keys l) -> d_get l k = Some v -> d_get (d_del l k ++ [(k, v)]) k' = d_get l k'.
Proof.
  intros ND G. rewrite d_get_app, d_get_del by assumption. simpl.
  destruct (Nat.eqb_spec k' k); [subst; now rewrite G|].
  destruct (d_get l k'); reflexivity.
Qed.

Lemma nodup_snoc (l : list K) k : NoDup l -> ~ In k l -> NoDup (l ++ [k]).
Proof.
  induction l as [|x r IH]; simpl; intros ND H.
  - constructor; [tauto|constructor].
  - inversion ND; subst. constructor.
    + rewrite in_app_iff. simpl. intros [E|[E|[]]]; [tauto|]. apply H. now left.
    + apply IH; [assumption|]. intro E. apply H. now right.
Qed.

Lemma nodup_keys_snoc (l : list (K * V)) k v :
  NoDup (keys l) -> ~ In k (keys l) -> NoDup (keys (l ++ [(k, v)])).
Proof. intros. rewrite keys_app. simpl. now apply nodup_snoc. Qed.

Lemma nodup_keys_spec (l : list K) : nodup_keys l = true <-> NoDup l.
Proof.
  induction l as [|x r IH]; simpl.
  - split; [constructor|reflexivity].
  - rewrite andb_true_iff, negb_true_iff, IH. split.
    + intros [H1 H2]. constructor; [|assumption]. intro H.
      assert (existsb (Nat.eqb x) r = true); [|congruence].
      apply existsb_exists. exists x. split; [assumption|apply Nat.eqb_refl].
    + intro ND. inversion ND; subst. split; [|assumption].
      destruct (existsb (Nat.eqb x) r) eqn:E; [|reflexivity].
      apply existsb_exists in E as [y [Hy E]]. apply Nat.eqb_eq in E. subst. tauto.
Qed.

Lemma opt_eqb_some (o : option nat) v : option_eqb Nat.eqb o (Some v) = true <-> o = Some v.
Proof.
  destruct o; simpl; [|split; discriminate].
  rewrite Nat.eqb_eq. split; congruence.
Qed.

(* two association lists with distinct keys denote the same finite map *)
Definition map_eq (l1 l2 : list (K * V)) : Prop := forall k, d_get l1 k = d_get l2 k.

Lemma map_eq_incl_keys l1 l2 : map_eq l1 l2 -> incl (keys l1) (keys l2).
Proof.
  intros H k Hk. apply d_mem_iff in Hk. apply d_mem_iff. unfold d_mem in *. now rewrite <- H.
Qed.

Lemma map_eq_sym l1 l2 : map_eq l1 l2 -> map_eq l2 l1.
Proof. intros H k. symmetry. apply H. Qed.

Lemma map_eq_length l1 l2 :
  NoDup (keys l1) -> NoDup (keys l2) -> map_eq l1 l2 -> length l1 = length l2.
Proof.
  intros N1 N2 H. rewrite <- (map_length fst l1), <- (map_length fst l2).
  apply Nat.le_antisymm; apply NoDup_incl_length; auto using map_eq_incl_keys, map_eq_sym.
Qed.

Lemma same_map_true l1 l2 :
  NoDup (keys l1) -> NoDup (keys l2) -> map_eq l1 l2 -> same_map l1 l2 = true.
Proof.
  intros N1 N2 H. unfold same_map. rewrite !andb_true_iff. repeat split.
  - now apply nodup_keys_spec.
  - apply Nat.eqb_eq. now apply map_eq_length.
  - apply forallb_forall. intros [k v] Hin. simpl. apply opt_eqb_some.
    rewrite <- H. now apply d_get_in_nd.
Qed.

(* conversely: inclusion one way + same size + distinct keys = same map *)
Lemma same_map_sound l1 l2 :
  NoDup (keys l2) -> same_map l1 l2 = true -> NoDup (keys l1) /\ map_eq l1 l2.
Proof.
  intros N2 H. unfold same_map in H. rewrite !andb_true_iff in H. destruct H as [[H1 H2] H3].
  apply nodup_keys_spec in H1. apply Nat.eqb_eq in H2. split; [assumption|].
  rewrite forallb_forall in H3.
  assert (I12 : incl (keys l1) (keys l2)).
  { intros k Hk. apply in_map_iff in Hk as [[k' v] [E Hin]]. simpl in E. subst.
    specialize (H3 _ Hin). simpl in H3. apply opt_eqb_some in H3. eapply d_get_some_keys; eauto. }
  assert (I21 : incl (keys l2) (keys l1)).
  { apply NoDup_length_incl; [assumption| |assumption]. unfold keys. rewrite !map_length. lia. }
  intro k. destruct (d_get l1 k) eqn:E1.
  - apply d_get_some_in in E1. specialize (H3 _ E1). simpl in H3. apply opt_eqb_some in H3. now rewrite H3.
  - symmetry. apply d_get_none_iff. apply d_get_none_iff in E1. intro Hk. apply E1. now apply I21.
Qed.

Lemma same_keys_true l1 l2 :
  NoDup (keys l1) -> NoDup (keys l2) -> map_eq l1 l2 -> same_keys (keys l1) l2 = true.
Proof.
  intros N1 N2 H. unfold same_keys. rewrite !andb_true_iff. repeat split.
  - now apply nodup_keys_spec.
  - apply Nat.eqb_eq. unfold keys. rewrite map_length. now apply map_eq_length.
  - apply forallb_forall. intros k Hk. apply d_mem_iff. eapply map_eq_incl_keys; eauto.
Qed.
