(* iter_splitlines: the regex scan + the generator loop over (start, end) offsets compute the
   Spec's line list, for every text and every alternative list accepted by [alts_ok]. *)
From Boltons Require Import Lib.Prelude Spec.C19_Spec Model.C19_Model Proofs.C19_Split.
Open Scope N_scope.

(* ---- condition on the regenerated alternatives ------------------------------ *)
Definition teqb : text -> text -> bool := list_eqb N.eqb.
Definition alt_shape (a : text) : bool :=
  teqb a [CR; LF] || match a with [c] => is_break c | _ => false end.
Fixpoint crlf_first (alts : list text) : bool :=
  match alts with
  | [] => false
  | a :: r => if teqb a [CR; LF] then true else if teqb a [CR] then false else crlf_first r
  end.
Definition singles : list N := [10; 11; 12; 13; 133; 8232; 8233].
(* every alternative is \r\n or one of the seven single breaks; all eight are present;
   \r\n is tried before \r *)
Definition alts_ok (alts : list text) : bool :=
  forallb alt_shape alts && forallb (fun c => existsb (teqb [c]) alts) singles && crlf_first alts.

Lemma teqb_eq a b : teqb a b = true <-> a = b.
Proof. apply list_eqb_eq. intros; apply N.eqb_eq. Qed.

Lemma teqb_neq a b : teqb a b = false <-> a <> b.
Proof.
  split.
  - intros H E. apply teqb_eq in E. congruence.
  - intros H. destruct (teqb a b) eqn:E; [apply teqb_eq in E; congruence|reflexivity].
Qed.

Lemma is_break_singles c : is_break c = true <-> In c singles.
Proof.
  unfold is_break, singles. split.
  - intros H. repeat (apply orb_true_iff in H as [H|H]); apply N.eqb_eq in H; subst; cbn; tauto.
  - intros H. cbn in H. repeat (destruct H as [H|H]; [subst; reflexivity|]). contradiction.
Qed.

Definition brk_at (t : text) : option nat :=
  match t with
  | [] => None
  | c :: t' => if is_break c then (if (c =? CR) && starts_lf t' then Some 2%nat else Some 1%nat) else None
  end.

Lemma shape_cases a : alt_shape a = true -> a = [CR; LF] \/ exists c, a = [c] /\ is_break c = true.
Proof.
  unfold alt_shape. intros H. apply orb_true_iff in H as [H|H].
  - left. apply teqb_eq. exact H.
  - right. destruct a as [|c [|d a]]; try discriminate. eauto.
Qed.

Lemma fm_nil alts : forallb alt_shape alts = true -> first_match alts [] = None.
Proof.
  induction alts as [|a r IH]; [reflexivity|]. cbn [forallb]. intros H.
  apply andb_true_iff in H as [Ha Hr]. cbn [first_match].
  destruct (shape_cases a Ha) as [->|[c [-> _]]]; cbn [is_prefix]; apply IH; exact Hr.
Qed.

Lemma fm_crlf alts t : forallb alt_shape alts = true -> crlf_first alts = true ->
  first_match alts (CR :: LF :: t) = Some 2%nat.
Proof.
  induction alts as [|a r IH]; [discriminate|]. cbn [forallb crlf_first]. intros H C.
  apply andb_true_iff in H as [Ha Hr]. cbn [first_match].
  destruct (shape_cases a Ha) as [->|[c [-> Bc]]].
  - reflexivity.
  - assert (E1 : teqb [c] [CR; LF] = false) by (apply teqb_neq; discriminate).
    rewrite E1 in C. destruct (teqb [c] [CR]) eqn:E2; [discriminate|].
    apply teqb_neq in E2.
    cbn [is_prefix]. destruct (c =? CR) eqn:E3.
    + apply N.eqb_eq in E3. subst. congruence.
    + cbn [andb]. apply IH; assumption.
Qed.

Lemma fm_single alts c t : forallb alt_shape alts = true ->
  (c =? CR) && starts_lf t = false ->
  first_match alts (c :: t) = if existsb (teqb [c]) alts then Some 1%nat else None.
Proof.
  intros H NC. induction alts as [|a r IH]; [reflexivity|]. cbn [forallb] in H.
  apply andb_true_iff in H as [Ha Hr]. cbn [first_match existsb].
  destruct (shape_cases a Ha) as [->|[x [-> Bx]]].
  - assert (P : is_prefix [CR; LF] (c :: t) = false).
    { cbn [is_prefix]. destruct (CR =? c) eqn:E; [|reflexivity].
      apply N.eqb_eq in E. subst c. change (CR =? CR) with true in NC. cbn [andb] in NC.
      destruct t as [|d t]; [reflexivity|]. cbn [starts_lf] in NC. cbn [andb].
      rewrite N.eqb_sym, NC. reflexivity. }
    rewrite P. assert (E1 : teqb [c] [CR; LF] = false) by (apply teqb_neq; discriminate).
    rewrite E1. cbn [orb]. apply IH. exact Hr.
  - cbn [is_prefix]. rewrite andb_true_r. destruct (x =? c) eqn:E.
    + apply N.eqb_eq in E. subst x.
      assert (E1 : teqb [c] [c] = true) by (apply teqb_eq; reflexivity). rewrite E1. reflexivity.
    + assert (E1 : teqb [c] [x] = false).
      { apply teqb_neq. intros Q. inversion Q. subst. rewrite N.eqb_refl in E. discriminate. }
      rewrite E1. cbn [orb]. apply IH. exact Hr.
Qed.

Lemma exists_single alts c : forallb alt_shape alts = true ->
  forallb (fun c => existsb (teqb [c]) alts) singles = true ->
  existsb (teqb [c]) alts = is_break c.
Proof.
  intros H S. destruct (is_break c) eqn:B.
  - apply is_break_singles in B. rewrite forallb_forall in S. apply S. exact B.
  - destruct (existsb (teqb [c]) alts) eqn:E; [|reflexivity].
    apply existsb_exists in E as [a [Ia Ea]]. apply teqb_eq in Ea. subst a.
    rewrite forallb_forall in H. specialize (H _ Ia).
    destruct (shape_cases _ H) as [Q|[x [Q Bx]]]; [discriminate|]. inversion Q. subst. congruence.
Qed.

Lemma first_match_brk alts t : alts_ok alts = true -> first_match alts t = brk_at t.
Proof.
  unfold alts_ok. intros H. apply andb_true_iff in H as [H C]. apply andb_true_iff in H as [H S].
  destruct t as [|c t]; [apply fm_nil; exact H|]. cbn [brk_at].
  destruct ((c =? CR) && starts_lf t) eqn:E.
  - apply andb_true_iff in E as [E1 E2]. apply N.eqb_eq in E1. subst c.
    destruct t as [|d t]; [discriminate|]. cbn [starts_lf] in E2. apply N.eqb_eq in E2. subst d.
    rewrite fm_crlf by assumption. reflexivity.
  - rewrite fm_single by assumption. rewrite exists_single by assumption.
    destruct (is_break c); reflexivity.
Qed.

(* ---- the scan the loop performs, without offsets ----------------------------- *)
Definition ends (s : text) : list text := if is_nil s then [[]] else [].

Fixpoint scan (s cur : text) : list text :=
  match s with
  | [] => match cur with [] => [] | _ => [cur] end
  | c :: s' =>
      if is_break c then
        cur :: (if c =? CR
                then match s' with
                     | d :: s'' => if d =? LF then ends s'' ++ scan s'' [] else ends s' ++ scan s' []
                     | [] => [[]]
                     end
                else ends s' ++ scan s' [])
      else scan s' (cur ++ [c])
  end.

Lemma scan_nobrk c s cur : is_break c = false -> scan (c :: s) cur = scan s (cur ++ [c]).
Proof. intros H. cbn [scan]. rewrite H. reflexivity. Qed.
Lemma scan_brk c s cur : is_break c = true -> (c =? CR) = false -> scan (c :: s) cur = cur :: ends s ++ scan s [].
Proof. intros H E. cbn [scan]. rewrite H, E. reflexivity. Qed.
Lemma scan_crlf s cur : scan (CR :: LF :: s) cur = cur :: ends s ++ scan s [].
Proof. reflexivity. Qed.
Lemma scan_cr s cur : starts_lf s = false -> scan (CR :: s) cur = cur :: ends s ++ scan s [].
Proof.
  intros E. cbn [scan]. change (is_break CR) with true. change (CR =? CR) with true. cbv iota.
  destruct s as [|d s]; [reflexivity|]. cbn [starts_lf] in E. rewrite E. reflexivity.
Qed.

(* ---- offsets and slices --------------------------------------------------------- *)
Lemma slice_full pre pe : slice pre pe (length pre) = skipn pe pre.
Proof. unfold slice. rewrite <- skipn_length. apply firstn_all. Qed.

Lemma slice_empty t n : slice t n n = [].
Proof. unfold slice. rewrite Nat.sub_diag. reflexivity. Qed.

Lemma slice_prefix pre s pe : (pe <= length pre)%nat -> slice (pre ++ s) pe (length pre) = skipn pe pre.
Proof.
  intros H. unfold slice. rewrite skipn_app.
  replace (pe - length pre)%nat with O by lia. cbn [skipn].
  rewrite firstn_app, skipn_length. replace (length pre - pe - (length pre - pe))%nat with O by lia.
  cbn [firstn]. rewrite app_nil_r. rewrite <- skipn_length. apply firstn_all.
Qed.

Lemma app_cons_assoc {A} (pre : list A) c s : pre ++ c :: s = (pre ++ [c]) ++ s.
Proof. rewrite <- app_assoc. reflexivity. Qed.

Lemma slice_snoc pre c s pe : (pe <= length pre)%nat ->
  slice (pre ++ c :: s) pe (S (length pre)) = slice (pre ++ c :: s) pe (length pre) ++ [c].
Proof.
  intros H. rewrite slice_prefix by assumption.
  rewrite app_cons_assoc.
  replace (S (length pre)) with (length (pre ++ [c])) by (rewrite app_length; cbn; lia).
  rewrite slice_prefix by (rewrite app_length; cbn; lia).
  rewrite skipn_app. replace (pe - length pre)%nat with O by lia. reflexivity.
Qed.

(* ---- finditer, one match at a time ------------------------------------------- *)
Lemma fi_none alts c s pos : first_match alts (c :: s) = None ->
  finditer alts (c :: s) pos O = finditer alts s (S pos) O.
Proof. intros H. cbn [finditer]. rewrite H. reflexivity. Qed.
Lemma fi_one alts c s pos : first_match alts (c :: s) = Some 1%nat ->
  finditer alts (c :: s) pos O = (pos, S pos) :: finditer alts s (S pos) O.
Proof. intros H. cbn [finditer]. rewrite H. rewrite Nat.add_1_r. reflexivity. Qed.
Lemma fi_two alts c d s pos : first_match alts (c :: d :: s) = Some 2%nat ->
  finditer alts (c :: d :: s) pos O = (pos, S (S pos)) :: finditer alts s (S (S pos)) O.
Proof.
  intros H. cbn [finditer]. rewrite H.
  replace (pos + 2)%nat with (S (S pos)) by lia. reflexivity.
Qed.

Definition finish (t : text) (st : nat * list text) : list text :=
  let '(pe, out) := st in match skipn pe t with [] => out | tail => out ++ [tail] end.

Lemma is_nil_len {A} (s : list A) n : (S n =? n + S (length s))%nat = is_nil s.
Proof.
  destruct s; cbn [length is_nil].
  - apply Nat.eqb_eq. lia.
  - apply Nat.eqb_neq. lia.
Qed.

Section Scan.
  Variable alts : list text.
  Hypothesis OK : alts_ok alts = true.

  (* one break of length 1 or 2 processed by the loop body *)
  Lemma step_at t pre brk_ s pe out :
    t = pre ++ brk_ ++ s -> (pe <= length pre)%nat -> brk_ <> [] ->
    isl_step t (pe, out) (length pre, length (pre ++ brk_)) =
    (length (pre ++ brk_), out ++ slice t pe (length pre) :: ends s).
  Proof.
    intros T H N0. cbn [isl_step].
    assert (E1 : (pe <=? length pre)%nat = true) by (apply Nat.leb_le; exact H). rewrite E1.
    assert (E2 : (length (pre ++ brk_) =? length t)%nat = is_nil s).
    { subst t. rewrite !app_length. destruct s; cbn [length is_nil].
      - apply Nat.eqb_eq. lia.
      - apply Nat.eqb_neq. lia. }
    rewrite E2. unfold ends. destruct (is_nil s).
    - rewrite <- app_assoc. reflexivity.
    - reflexivity.
  Qed.

  Lemma isl_scan t : forall s pre pe out, t = pre ++ s -> (pe <= length pre)%nat ->
    finish t (fold_left (isl_step t) (finditer alts s (length pre) O) (pe, out))
    = out ++ scan s (slice t pe (length pre)).
  Proof.
    intros s. pattern s. apply (split_ind is_break); clear s.
    - intros pre pe out T H. cbn [finditer fold_left finish scan].
      rewrite app_nil_r in T. subst t. rewrite slice_full.
      destruct (skipn pe pre); [rewrite app_nil_r|]; reflexivity.
    - intros c s B IH pre pe out T H.
      rewrite fi_none by (rewrite first_match_brk by exact OK; cbn [brk_at]; rewrite B; reflexivity).
      rewrite scan_nobrk by assumption.
      assert (L : S (length pre) = length (pre ++ [c])) by (rewrite app_length; cbn; lia).
      rewrite L. rewrite IH; [|rewrite T; apply app_cons_assoc|lia].
      rewrite <- L. rewrite T at 1 2. rewrite slice_snoc by assumption. rewrite <- T. reflexivity.
    - intros c s B E IH pre pe out T H.
      rewrite fi_one by (rewrite first_match_brk by exact OK; cbn [brk_at]; rewrite B, E; reflexivity).
      rewrite scan_brk by assumption. cbn [fold_left].
      assert (L : S (length pre) = length (pre ++ [c])) by (rewrite app_length; cbn; lia).
      rewrite L. rewrite (step_at t pre [c] s pe out) by (try assumption; discriminate).
      rewrite IH; [|rewrite T; apply app_cons_assoc|lia].
      rewrite slice_empty. rewrite <- app_assoc. reflexivity.
    - intros s B IH pre pe out T H.
      rewrite fi_two by (rewrite first_match_brk by exact OK; reflexivity).
      rewrite scan_crlf. cbn [fold_left].
      assert (L : S (S (length pre)) = length (pre ++ [CR; LF])) by (rewrite app_length; cbn; lia).
      rewrite L. rewrite (step_at t pre [CR; LF] s pe out) by (try assumption; discriminate).
      rewrite IH; [|rewrite T; rewrite <- app_assoc; reflexivity|lia].
      rewrite slice_empty. rewrite <- app_assoc. reflexivity.
    - intros s B E IH pre pe out T H.
      rewrite fi_one by (rewrite first_match_brk by exact OK; cbn [brk_at]; rewrite B, E; reflexivity).
      rewrite scan_cr by assumption. cbn [fold_left].
      assert (L : S (length pre) = length (pre ++ [CR])) by (rewrite app_length; cbn; lia).
      rewrite L. rewrite (step_at t pre [CR] s pe out) by (try assumption; discriminate).
      rewrite IH; [|rewrite T; apply app_cons_assoc|lia].
      rewrite slice_empty. rewrite <- app_assoc. reflexivity.
  Qed.

  Lemma iter_splitlines_scan t : iter_splitlines alts t = scan t [].
  Proof.
    unfold iter_splitlines.
    pose proof (isl_scan t t [] O [] eq_refl (Nat.le_refl _)) as H.
    cbn [length app] in H. rewrite slice_empty in H. unfold finish in H.
    destruct (fold_left (isl_step t) (finditer alts t O O) (O, [])) as [pe out].
    cbv zeta. destruct (skipn pe t); exact H.
  Qed.
End Scan.

(* ---- the scan is the Spec ------------------------------------------------------ *)
Lemma sl_app_nobrk brk cur : nobrk brk cur = true ->
  forall s X, splitlines brk s = [] :: X -> splitlines brk (cur ++ s) = cur :: X.
Proof.
  induction cur as [|x cur IH]; intros F s X S; [exact S|].
  cbn [nobrk forallb] in F. apply andb_true_iff in F as [Fx Fc]. apply negb_true_iff in Fx.
  cbn [app]. rewrite sl_nobrk by assumption. rewrite (IH Fc s X S). reflexivity.
Qed.

Lemma ends_with_cons p c s : ends_with p (c :: s) = if is_nil s then p c else ends_with p s.
Proof.
  unfold ends_with. cbn [rev]. destruct s as [|d s]; [reflexivity|]. cbn [is_nil].
  assert (N0 : rev (d :: s) <> []).
  { intros Q. apply (f_equal (@length N)) in Q. rewrite rev_length in Q. discriminate. }
  destruct (rev (d :: s)); [congruence|reflexivity].
Qed.

Lemma ends_with_app p cur s : s <> [] -> ends_with p (cur ++ s) = ends_with p s.
Proof.
  intros N0. induction cur as [|x cur IH]; [reflexivity|].
  cbn [app]. rewrite ends_with_cons.
  destruct (cur ++ s) eqn:Q; [destruct cur; [cbn in Q; congruence|discriminate]|]. cbn [is_nil]. exact IH.
Qed.

Lemma ends_with_nobrk brk cur : nobrk brk cur = true -> ends_with brk cur = false.
Proof.
  induction cur as [|x cur IH]; [reflexivity|]. cbn [nobrk forallb]. intros F.
  apply andb_true_iff in F as [Fx Fc]. apply negb_true_iff in Fx.
  rewrite ends_with_cons. destruct (is_nil cur); [exact Fx|apply IH; exact Fc].
Qed.

Definition flag (t : text) : list text := if ends_with is_break t then [[]] else [].

Lemma spec_after_break cur b s :
  nobrk is_break cur = true -> b <> [] ->
  splitlines is_break (b ++ s) = [] :: splitlines is_break s ->
  ends_with is_break b = true ->
  scan s [] = iter_splitlines_spec s ->
  cur :: ends s ++ scan s [] = iter_splitlines_spec (cur ++ b ++ s).
Proof.
  intros F N0 S Eb IH. unfold iter_splitlines_spec.
  rewrite (sl_app_nobrk is_break cur F (b ++ s) _ S).
  assert (N1 : b ++ s <> []) by (destruct b; [congruence|discriminate]).
  rewrite ends_with_app by assumption. rewrite IH. unfold iter_splitlines_spec, ends.
  destruct s as [|d s].
  - rewrite (app_nil_r b), Eb. reflexivity.
  - cbn [is_nil app]. rewrite ends_with_app by discriminate. reflexivity.
Qed.

Lemma scan_spec : forall s cur, nobrk is_break cur = true -> scan s cur = iter_splitlines_spec (cur ++ s).
Proof.
  intros s. pattern s. apply (split_ind is_break); clear s.
  - intros cur F. rewrite app_nil_r. unfold iter_splitlines_spec. cbn [scan].
    rewrite ends_with_nobrk by assumption. rewrite app_nil_r.
    destruct cur as [|x cur]; [reflexivity|]. rewrite sl_breakfree; [reflexivity|assumption|discriminate].
  - intros c s B IH cur F. rewrite scan_nobrk by assumption. rewrite IH.
    + rewrite <- app_assoc. reflexivity.
    + unfold nobrk. rewrite forallb_app. fold (nobrk is_break cur). rewrite F. cbn. rewrite B. reflexivity.
  - intros c s B E IH cur F. rewrite scan_brk by assumption.
    apply (spec_after_break cur [c] s F); [discriminate| |cbn; exact B|apply (IH [] eq_refl)].
    cbn [app]. apply sl_brk; assumption.
  - intros s B IH cur F. rewrite scan_crlf.
    apply (spec_after_break cur [CR; LF] s F); [discriminate| |reflexivity|apply (IH [] eq_refl)].
    cbn [app]. apply sl_crlf. reflexivity.
  - intros s B E IH cur F. rewrite scan_cr by assumption.
    apply (spec_after_break cur [CR] s F); [discriminate| |reflexivity|apply (IH [] eq_refl)].
    cbn [app]. apply sl_cr; [reflexivity|assumption].
Qed.

Theorem iter_splitlines_correct : forall alts t, alts_ok alts = true ->
  iter_splitlines alts t = iter_splitlines_spec t.
Proof. intros alts t OK. rewrite iter_splitlines_scan by exact OK. apply (scan_spec t [] eq_refl). Qed.

(* strutils.indent is built on the same scanner *)
Theorem indent_correct : forall alts t margin newline, alts_ok alts = true ->
  indent alts t margin newline = indent_spec t margin newline.
Proof.
  intros alts t m n OK. unfold indent, indent_spec. rewrite iter_splitlines_correct by exact OK.
  f_equal. apply map_ext. intros [|x l]; reflexivity.
Qed.
