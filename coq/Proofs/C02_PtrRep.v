(* C02: each pointer-level helper preserves the representation and has the
   effect of the corresponding list function of the model. *)
From Boltons Require Import Lib.Prelude Lib.C02_Syntax Spec.C02_Spec Model.C02_Model Proofs.C02_Lists.
From Boltons Require Import Model.C02_PtrModel Proofs.C02_PtrLemmas.
Close Scope N_scope.
Open Scope nat_scope.


(* ---- field-wise effect of the four setters ---------------------------------------- *)
Ltac fld := intros; unfold set_prev, set_next, set_key, set_val, upd;
            match goal with |- context [Nat.eqb ?j ?i] => destruct (Nat.eqb_spec j i) as [->|] end; reflexivity.
Lemma next_set_next h i x j : c_next (set_next h i x j) = if Nat.eqb j i then x else c_next (h j). Proof. fld. Qed.
Lemma prev_set_next h i x j : c_prev (set_next h i x j) = c_prev (h j). Proof. fld. Qed.
Lemma key_set_next h i x j : c_key (set_next h i x j) = c_key (h j). Proof. fld. Qed.
Lemma val_set_next h i x j : c_val (set_next h i x j) = c_val (h j). Proof. fld. Qed.
Lemma prev_set_prev h i x j : c_prev (set_prev h i x j) = if Nat.eqb j i then x else c_prev (h j). Proof. fld. Qed.
Lemma next_set_prev h i x j : c_next (set_prev h i x j) = c_next (h j). Proof. fld. Qed.
Lemma key_set_prev h i x j : c_key (set_prev h i x j) = c_key (h j). Proof. fld. Qed.
Lemma val_set_prev h i x j : c_val (set_prev h i x j) = c_val (h j). Proof. fld. Qed.
Lemma key_set_key h i x j : c_key (set_key h i x j) = if Nat.eqb j i then x else c_key (h j). Proof. fld. Qed.
Lemma val_set_key h i x j : c_val (set_key h i x j) = c_val (h j). Proof. fld. Qed.
Lemma prev_set_key h i x j : c_prev (set_key h i x j) = c_prev (h j). Proof. fld. Qed.
Lemma next_set_key h i x j : c_next (set_key h i x j) = c_next (h j). Proof. fld. Qed.
Lemma val_set_val h i x j : c_val (set_val h i x j) = if Nat.eqb j i then x else c_val (h j). Proof. fld. Qed.
Lemma key_set_val h i x j : c_key (set_val h i x j) = c_key (h j). Proof. fld. Qed.
Lemma prev_set_val h i x j : c_prev (set_val h i x j) = c_prev (h j). Proof. fld. Qed.
Lemma next_set_val h i x j : c_next (set_val h i x j) = c_next (h j). Proof. fld. Qed.

Ltac fields :=
  repeat first
    [ rewrite next_set_next | rewrite prev_set_next | rewrite key_set_next | rewrite val_set_next
    | rewrite prev_set_prev | rewrite next_set_prev | rewrite key_set_prev | rewrite val_set_prev
    | rewrite key_set_key | rewrite val_set_key | rewrite prev_set_key | rewrite next_set_key
    | rewrite val_set_val | rewrite key_set_val | rewrite prev_set_val | rewrite next_set_val ].

Ltac neq_eqb :=
  repeat match goal with
  | |- context [Nat.eqb ?x ?x] => rewrite (Nat.eqb_refl x)
  | H : ?x <> ?y |- context [Nat.eqb ?x ?y] => rewrite (proj2 (Nat.eqb_neq x y) H)
  | H : ?y <> ?x |- context [Nat.eqb ?x ?y] => rewrite (proj2 (Nat.eqb_neq x y) (not_eq_sym H))
  end.

(* ---- the link table as zip(keys, ids) ------------------------------------------ *)
Definition zip (l : list (K * V)) (ids : list id) : list (K * V) := combine (keys l) ids.

(* id, K and V are all nat: make the implicit type arguments of the dict functions uniform *)
Ltac fixty :=
  change (@d_get id) with (@d_get V) in *; change (@d_set id) with (@d_set V) in *;
  change (@d_del id) with (@d_del V) in *; change (@d_mem id) with (@d_mem V) in *.

Lemma zip_app l1 : forall ids1 l2 ids2,
  length ids1 = length l1 -> zip (l1 ++ l2) (ids1 ++ ids2) = zip l1 ids1 ++ zip l2 ids2.
Proof.
  induction l1 as [|[k v] r IH]; destruct ids1 as [|i ir]; simpl; intros l2 ids2 E; try discriminate.
  - reflexivity.
  - unfold zip in *. simpl. f_equal. apply IH. now inversion E.
Qed.

Lemma last_in {A} (l : list A) d : In (last l d) (d :: l).
Proof.
  induction l as [|x r IH]; [now left|].
  destruct r as [|y r']; [right; now left|]. change (last (x :: y :: r') d) with (last (y :: r') d).
  destruct IH as [E|H]; [left; exact E|right; right; exact H].
Qed.

Lemma keys_zip l : forall ids, length ids = length l -> keys (zip l ids) = keys l.
Proof.
  induction l as [|[k v] r IH]; destruct ids as [|i ir]; simpl; intro E; try discriminate; [reflexivity|].
  f_equal. apply IH. now inversion E.
Qed.

(* a present key sits at some position; its cell is the link-table entry *)
Lemma locate h l : forall ids k v,
  cells_hold h ids l -> NoDup (keys l) -> d_get l k = Some v ->
  exists l1 l2 ids1 n ids2,
    l = l1 ++ (k, v) :: l2 /\ ids = ids1 ++ n :: ids2 /\ length ids1 = length l1
    /\ ~ In k (keys l1) /\ ~ In k (keys l2)
    /\ cells_hold h ids1 l1 /\ cells_hold h ids2 l2
    /\ c_key (h n) = Some k /\ c_val (h n) = Some v
    /\ d_get (zip l ids) k = Some n /\ d_del l k = l1 ++ l2.
Proof.
  induction l as [|[k0 v0] r IH]; intros ids k v CH ND G; simpl in G; [discriminate|].
  destruct ids as [|i ir]; [simpl in CH; tauto|]. simpl in CH. destruct CH as [CK [CV CR]].
  simpl in ND. inversion ND as [|? ? NI NDr]; subst.
  destruct (Nat.eqb_spec k k0) as [->|NE].
  - inversion G; subst. exists [], r, [], i, ir. simpl. rewrite Nat.eqb_refl.
    repeat split; auto.
  - destruct (IH ir k v CR NDr G) as [l1 [l2 [ids1 [n [ids2 [E1 [E2 [EL [N1 [N2 [C1 [C2 [K1 [V1 [Z D]]]]]]]]]]]]]]].
    exists ((k0, v0) :: l1), l2, (i :: ids1), n, ids2. simpl.
    destruct (Nat.eqb_spec k k0); [congruence|].
    subst r ir. repeat split; auto.
    + intros [H|H]; [congruence|tauto].
    + now rewrite D.
Qed.

Lemma zip_absent l : forall ids k, length ids = length l -> d_get l k = None -> d_get (zip l ids) k = None.
Proof.
  intros ids k E G. apply d_get_none_iff. rewrite keys_zip by assumption. now apply d_get_none_iff.
Qed.

(* ---- _link_lookup[key] ... link[VALUE] ---------------------------------------------- *)
Lemma rep_find pr l ids k : Rep pr l ids -> NoDup (keys l) -> p_find pr k = d_get l k.
Proof.
  intros [ND CH CE LK LND FR] NDl. unfold p_find. fixty. rewrite LK. fold (zip l ids).
  destruct (d_get l k) as [v|] eqn:G.
  - destruct (locate _ _ _ _ _ CE NDl G) as [l1 [l2 [ids1 [n [ids2 [_ [_ [_ [_ [_ [_ [_ [_ [V1 [Z _]]]]]]]]]]]]]]].
    now rewrite Z.
  - pose proof (zip_absent l ids k (cells_hold_length _ _ _ CE) G) as Z. now rewrite Z.
Qed.

(* ---- _init_ll --------------------------------------------------------------------------- *)
Lemma rep_init h f : Rep (p_init h f) [] [].
Proof.
  constructor; simpl.
  - constructor; [tauto|constructor].
  - rewrite upd_same. simpl. auto.
  - exact I.
  - intro k. reflexivity.
  - constructor.
  - constructor; [lia|constructor].
Qed.

(* ---- _set_key_and_add_to_front_of_ll ------------------------------------------------------- *)
Lemma rep_add pr l ids k v :
  Rep pr l ids -> ~ In k (keys l) ->
  Rep (p_add_to_front pr k v) (l ++ [(k, v)]) (ids ++ [pr_fresh pr]).
Proof.
  intros [ND CH CE LK LND FR] NK.
  pose proof (cells_hold_length _ _ _ CE) as LEN.
  set (a := pr_anchor pr) in *. set (h := pr_heap pr) in *. set (n := pr_fresh pr) in *.
  assert (NI : ~ In n (a :: ids)).
  { intro H. rewrite Forall_forall in FR. specialize (FR n H). simpl in FR. lia. }
  assert (Na : n <> a) by (intro; apply NI; now left).
  destruct (chain_last_prev h a ids CH) as [Ls _].
  set (s := c_prev (h a)) in *.
  assert (Sin : In s (a :: ids)) by (rewrite Ls; apply last_in).
  assert (Ns : n <> s) by (intro E; apply NI; rewrite E; exact Sin).
  assert (Zk : ~ In k (keys (pr_lookup pr))).
  { apply d_get_none_iff. rewrite LK. apply zip_absent; [assumption|]. now apply d_get_none_iff. }
  unfold p_add_to_front. fixty. fold a h n s.
  set (h1 := upd h n (mkCell s a (Some k) (Some v))).
  set (h2 := set_next h1 s n). set (h3 := set_prev h2 a n).
  assert (H3n : h3 n = mkCell s a (Some k) (Some v)).
  { unfold h3, h2, h1. heap_simpl. reflexivity. }
  assert (Hn : forall j, j <> n -> h1 j = h j) by (intros j Hj; unfold h1; now rewrite upd_other).
  constructor; simpl.
  - (* NoDup *)
    change (a :: ids ++ [n]) with ((a :: ids) ++ [n]). apply nodup_snoc; assumption.
  - (* chain *)
    apply (chain_link_last h h3 a ids n s); auto.
    + intros j J1 J2. unfold h3, h2. fields. neq_eqb. now rewrite Hn.
    + intros j J1 J2. unfold h3, h2. fields. neq_eqb. now rewrite Hn.
    + unfold h3, h2. fields. neq_eqb. reflexivity.
    + unfold h3. fields. neq_eqb. reflexivity.
    + now rewrite H3n.
    + now rewrite H3n.
  - (* cells *)
    apply cells_hold_app.
    + eapply cells_hold_frame; [|exact CE]. intros j Hj.
      assert (j <> n) by (intro; subst; apply NI; now right).
      unfold h3, h2. fields. now rewrite Hn.
    + simpl. rewrite H3n. simpl. auto.
  - (* link table *)
    intro k'. rewrite d_get_set. fold (zip (l ++ [(k, v)]) (ids ++ [n])).
    rewrite zip_app by assumption. rewrite d_get_app. fold (zip l ids). rewrite <- LK. simpl.
    destruct (Nat.eqb_spec k' k) as [->|NE].
    + apply d_get_none_iff in Zk. now rewrite Zk.
    + match goal with |- context [match ?o with _ => _ end] => destruct o eqn:EO end; fixty; rewrite ?EO; reflexivity.
  - rewrite d_set_notin by assumption. now apply nodup_keys_snoc.
  - change (a :: ids ++ [n]) with ((a :: ids) ++ [n]). apply Forall_app. split.
    + eapply Forall_impl; [|exact FR]. simpl. intros; lia.
    + constructor; [lia|constructor].
Qed.

(* ---- unlink / link-last on the heap ---------------------------------------------------- *)
Definition h_unlink (h : heap) (n : id) : heap :=
  let h1 := set_next h (c_prev (h n)) (c_next (h n)) in
  set_prev h1 (c_next (h1 n)) (c_prev (h1 n)).

Definition h_link_last (h : heap) (a n : id) : heap :=
  let s := c_prev (h a) in
  set_next (set_prev (set_prev (set_next h s n) a n) n s) n a.

Lemma chain_neighbours h a ids1 n ids2 :
  NoDup (a :: ids1 ++ n :: ids2) -> chain h (a :: (ids1 ++ n :: ids2) ++ [a]) ->
  In (c_prev (h n)) (a :: ids1) /\ In (c_next (h n)) (ids2 ++ [a]).
Proof.
  intros ND C.
  destruct (@exists_last _ (a :: ids1)) as [L [p E]]; [discriminate|].
  assert (F1 : a :: (ids1 ++ n :: ids2) ++ [a] = L ++ p :: n :: (ids2 ++ [a])).
  { rewrite <- app_assoc. simpl. rewrite app_comm_cons, E, <- app_assoc. reflexivity. }
  rewrite F1 in C. apply chain_app_mid in C as [_ C]. apply chain_cons2 in C as [_ [A2 C]].
  split.
  - rewrite A2, E. apply in_or_app. right. now left.
  - destruct ids2 as [|q r]; simpl in *.
    + destruct C as [C _]. rewrite C. now left.
    + destruct C as [C _]. rewrite C. now left.
Qed.

Lemma unlink_ok h a ids1 n ids2 :
  NoDup (a :: ids1 ++ n :: ids2) -> chain h (a :: (ids1 ++ n :: ids2) ++ [a]) ->
  chain (h_unlink h n) (a :: (ids1 ++ ids2) ++ [a])
  /\ (forall j, c_key (h_unlink h n j) = c_key (h j) /\ c_val (h_unlink h n j) = c_val (h j)).
Proof.
  intros ND C. destruct (chain_neighbours h a ids1 n ids2 ND C) as [Pin Qin].
  assert (NDa : NoDup ((a :: ids1) ++ n :: ids2)) by exact ND.
  pose proof (NoDup_remove_2 _ _ _ NDa) as Nn.
  assert (Np : n <> c_prev (h n)).
  { intro E. apply Nn. apply in_or_app. left. now rewrite E. }
  assert (Nq : n <> c_next (h n)).
  { intro E. apply Nn. rewrite E. apply in_app_or in Qin as [Q|[Q|[]]].
    - apply in_or_app. now right.
    - apply in_or_app. left. rewrite <- Q. now left. }
  unfold h_unlink. cbv zeta. fields. neq_eqb.
  set (p := c_prev (h n)) in *. set (q := c_next (h n)) in *.
  split.
  - apply (chain_unlink h _ a ids1 n ids2 p q); auto.
    + intros j J. fields. now neq_eqb.
    + intros j J. fields. now neq_eqb.
    + fields. now neq_eqb.
    + fields. now neq_eqb.
  - intro j. fields. auto.
Qed.

Lemma link_last_ok h a ids n :
  NoDup (a :: ids) -> ~ In n (a :: ids) -> chain h (a :: ids ++ [a]) ->
  chain (h_link_last h a n) (a :: (ids ++ [n]) ++ [a])
  /\ (forall j, c_key (h_link_last h a n j) = c_key (h j) /\ c_val (h_link_last h a n j) = c_val (h j)).
Proof.
  intros ND NI C. destruct (chain_last_prev h a ids C) as [Ls _].
  assert (Sin : In (c_prev (h a)) (a :: ids)) by (rewrite Ls; apply last_in).
  assert (Na : n <> a) by (intro; apply NI; now left).
  assert (Ns : n <> c_prev (h a)) by (intro E; apply NI; rewrite E; exact Sin).
  unfold h_link_last. cbv zeta. set (s := c_prev (h a)) in *.
  split.
  - apply (chain_link_last h _ a ids n s); auto.
    + intros j J1 J2. fields. now neq_eqb.
    + intros j J1 J2. fields. now neq_eqb.
    + fields. now neq_eqb.
    + fields. now neq_eqb.
    + fields. now neq_eqb.
    + fields. now neq_eqb.
  - intro j. fields. auto.
Qed.

Lemma d_del_app_mid (l1 l2 : list (K * V)) k v :
  ~ In k (keys l1) -> d_del (l1 ++ (k, v) :: l2) k = l1 ++ l2.
Proof.
  induction l1 as [|[k0 v0] r IH]; simpl; intro H.
  - now rewrite Nat.eqb_refl.
  - destruct (Nat.eqb_spec k k0); [exfalso; apply H; left; congruence|]. f_equal. apply IH. tauto.
Qed.

(* ---- _remove_from_ll ------------------------------------------------------------------------ *)
Lemma rep_remove pr l ids k v :
  Rep pr l ids -> NoDup (keys l) -> d_get l k = Some v ->
  exists pr' ids', p_remove pr k = Some pr' /\ Rep pr' (d_del l k) ids'.
Proof.
  intros [ND CH CE LK LND FR] NDl G.
  destruct (locate _ _ _ _ _ CE NDl G)
    as [l1 [l2 [ids1 [n [ids2 [E1 [E2 [EL [N1 [N2 [C1 [C2 [K1 [V1 [Z D]]]]]]]]]]]]]]].
  unfold p_remove. fixty. rewrite LK. fold (zip l ids). rewrite Z.
  change (set_prev (set_next (pr_heap pr) (c_prev (pr_heap pr n)) (c_next (pr_heap pr n)))
            (c_next (set_next (pr_heap pr) (c_prev (pr_heap pr n)) (c_next (pr_heap pr n)) n))
            (c_prev (set_next (pr_heap pr) (c_prev (pr_heap pr n)) (c_next (pr_heap pr n)) n)))
    with (h_unlink (pr_heap pr) n).
  subst ids. destruct (unlink_ok _ _ _ _ _ ND CH) as [CH' KV].
  eexists. exists (ids1 ++ ids2). split; [reflexivity|]. rewrite D.
  constructor; simpl.
  - change (pr_anchor pr :: ids1 ++ ids2) with ((pr_anchor pr :: ids1) ++ ids2).
    eapply NoDup_remove_1. exact ND.
  - exact CH'.
  - apply cells_hold_app; eapply cells_hold_frame; try eassumption; intros j _; apply KV.
  - intro k'. fold (zip (l1 ++ l2) (ids1 ++ ids2)). rewrite zip_app by assumption.
    rewrite d_get_del by assumption. rewrite LK. fold (zip l (ids1 ++ n :: ids2)).
    rewrite E1, zip_app by assumption. simpl.
    assert (NZ1 : ~ In k (keys (zip l1 ids1))) by (rewrite keys_zip; assumption).
    assert (NZ2 : ~ In k (keys (zip l2 ids2))).
    { rewrite keys_zip; [assumption|]. pose proof (cells_hold_length _ _ _ C2). assumption. }
    rewrite !d_get_app. simpl. apply d_get_none_iff in NZ1, NZ2.
    destruct (Nat.eqb_spec k' k) as [->|NE].
    + now rewrite NZ1, NZ2.
    + reflexivity.
  - now apply nodup_del.
  - rewrite Forall_forall in *. intros x Hx. apply FR. simpl in *. destruct Hx as [Hx|Hx]; [now left|].
    right. apply in_app_or in Hx as [Hx|Hx]; apply in_or_app; [now left|right; now right].
Qed.

(* ---- absent keys: the three lookups of the link table fail -------------------------------------- *)
Lemma rep_absent pr l ids k :
  Rep pr l ids -> d_get l k = None ->
  d_get (pr_lookup pr) k = None /\ p_move_to_front pr k = None /\ p_remove pr k = None.
Proof.
  intros [ND CH CE LK LND FR] G.
  assert (Z : d_get (pr_lookup pr) k = None).
  { rewrite LK. apply (zip_absent l ids k (cells_hold_length _ _ _ CE) G). }
  unfold p_move_to_front, p_remove. fixty. now rewrite Z.
Qed.

(* ---- _get_link_and_move_to_front_of_ll, then link[VALUE] = value ----------------------------------- *)
Lemma rep_move pr l ids k v :
  Rep pr l ids -> NoDup (keys l) -> d_get l k = Some v ->
  exists pr' n ids', p_move_to_front pr k = Some (pr', n)
    /\ Rep pr' (d_del l k ++ [(k, v)]) ids'
    /\ c_val (pr_heap pr' n) = Some v
    /\ (forall v', Rep (p_set_value pr' n v') (d_del l k ++ [(k, v')]) ids').
Proof.
  intros [ND CH CE LK LND FR] NDl G.
  destruct (locate _ _ _ _ _ CE NDl G)
    as [l1 [l2 [ids1 [n [ids2 [E1 [E2 [EL [N1 [N2 [C1 [C2 [K1 [V1 [Z D]]]]]]]]]]]]]]].
  unfold p_move_to_front. fixty. rewrite LK. fold (zip l ids). rewrite Z.
  set (h := pr_heap pr) in *. set (a := pr_anchor pr) in *.
  change (set_prev (set_next h (c_prev (h n)) (c_next (h n)))
            (c_next (set_next h (c_prev (h n)) (c_next (h n)) n))
            (c_prev (set_next h (c_prev (h n)) (c_next (h n)) n)))
    with (h_unlink h n).
  set (hu := h_unlink h n).
  change (set_next (set_prev (set_prev (set_next hu (c_prev (hu a)) n) a n) n (c_prev (hu a))) n a)
    with (h_link_last hu a n).
  subst ids. destruct (unlink_ok _ _ _ _ _ ND CH) as [CHu KVu]. fold hu in CHu, KVu.
  assert (NDu : NoDup (a :: ids1 ++ ids2)).
  { change (a :: ids1 ++ ids2) with ((a :: ids1) ++ ids2). eapply NoDup_remove_1. exact ND. }
  assert (NIu : ~ In n (a :: ids1 ++ ids2)).
  { change (a :: ids1 ++ ids2) with ((a :: ids1) ++ ids2). eapply NoDup_remove_2. exact ND. }
  destruct (link_last_ok hu a (ids1 ++ ids2) n NDu NIu CHu) as [CHl KVl].
  set (hl := h_link_last hu a n) in *.
  assert (KV : forall j, c_key (hl j) = c_key (h j) /\ c_val (hl j) = c_val (h j)).
  { intro j. destruct (KVl j) as [A1 A2]. destruct (KVu j) as [B1 B2]. split; congruence. }
  assert (L2 : length ids2 = length l2) by (eapply cells_hold_length; eauto).
  assert (LKm : forall hx, map_eq (pr_lookup pr) (combine (keys ((l1 ++ l2) ++ [(k, v)])) ((ids1 ++ ids2) ++ [n]))
                      = map_eq (pr_lookup pr) (combine (keys ((l1 ++ l2) ++ [(k, hx)])) ((ids1 ++ ids2) ++ [n]))).
  { intro hx. unfold keys. rewrite !map_app. reflexivity. }
  assert (LK' : map_eq (pr_lookup pr) (combine (keys ((l1 ++ l2) ++ [(k, v)])) ((ids1 ++ ids2) ++ [n]))).
  { intro k'. rewrite LK. fold (zip l (ids1 ++ n :: ids2)). fold (zip ((l1 ++ l2) ++ [(k, v)]) ((ids1 ++ ids2) ++ [n])).
    rewrite E1. rewrite zip_app by assumption. simpl.
    rewrite zip_app by (rewrite !app_length; lia). rewrite zip_app by assumption. simpl.
    assert (NZ1 : ~ In k (keys (zip l1 ids1))) by (rewrite keys_zip; assumption).
    assert (NZ2 : ~ In k (keys (zip l2 ids2))) by (rewrite keys_zip; assumption).
    apply d_get_none_iff in NZ1, NZ2. rewrite !d_get_app. simpl.
    destruct (Nat.eqb_spec k' k) as [->|NE].
    - now rewrite NZ1, NZ2.
    - unfold zip. cbv [id V K].
      repeat match goal with |- context [match ?o with Some _ => _ | None => _ end] =>
        is_var o || (destruct o eqn:?) end; try reflexivity. }
  assert (FR' : Forall (fun i => i < pr_fresh pr) (a :: (ids1 ++ ids2) ++ [n])).
  { rewrite Forall_forall in *. intros x Hx. apply FR. simpl in *. destruct Hx as [Hx|Hx]; [now left|].
    right. apply in_app_or in Hx as [Hx|[Hx|[]]].
    - apply in_app_or in Hx as [Hx|Hx]; apply in_or_app; [now left|right; now right].
    - apply in_or_app. right. now left. }
  assert (ND' : NoDup (a :: (ids1 ++ ids2) ++ [n])).
  { change (a :: (ids1 ++ ids2) ++ [n]) with ((a :: ids1 ++ ids2) ++ [n]). now apply nodup_snoc. }
  eexists. exists n, ((ids1 ++ ids2) ++ [n]). split; [reflexivity|]. rewrite D. split; [|split].
  - constructor; simpl; try assumption.
    apply cells_hold_app; [apply cells_hold_app|].
    + eapply cells_hold_frame; [|exact C1]. intros j _. apply KV.
    + eapply cells_hold_frame; [|exact C2]. intros j _. apply KV.
    + simpl. destruct (KV n) as [A1 A2]. rewrite A1, A2. auto.
  - simpl. destruct (KV n) as [_ A2]. now rewrite A2.
  - intro v'. unfold p_set_value. constructor; cbn [pr_heap pr_anchor pr_lookup pr_fresh]; try assumption.
    + eapply chain_frame; [| |exact CHl]; intros j _; fields; reflexivity.
    + apply cells_hold_app; [apply cells_hold_app|].
      * eapply cells_hold_frame; [|exact C1]. intros j Hj. fields.
        assert (j <> n). { intro; subst j. apply NIu. right. apply in_or_app. now left. }
        neq_eqb. apply KV.
      * eapply cells_hold_frame; [|exact C2]. intros j Hj. fields.
        assert (j <> n). { intro; subst j. apply NIu. right. apply in_or_app. now right. }
        neq_eqb. apply KV.
      * simpl. fields. neq_eqb. destruct (KV n) as [A1 A2]. rewrite A1. auto.
    + rewrite <- (LKm v'). exact LK'.
Qed.

(* ---- _set_key_and_evict_last_in_ll: the anchor rotates, no pointer moves ------------------------------ *)
Lemma rep_evict pr e ve rest ids k v :
  Rep pr ((e, ve) :: rest) ids -> NoDup (keys ((e, ve) :: rest)) -> ~ In k (keys ((e, ve) :: rest)) ->
  exists pr' ids', p_evict pr k v = Some (pr', e) /\ Rep pr' (rest ++ [(k, v)]) ids'.
Proof.
  intros [ND CH CE LK LND FR] NDl NK.
  destruct ids as [|ie rids]; [simpl in CE; tauto|]. simpl in CE. destruct CE as [KE [VE CR]].
  set (h := pr_heap pr) in *. set (a := pr_anchor pr) in *.
  change (a :: (ie :: rids) ++ [a]) with (a :: ie :: rids ++ [a]) in CH.
  apply chain_cons2 in CH as [NA [PI CH']].
  pose proof ND as ND0. apply NoDup_cons_iff in ND as [NIa NDi]. apply NoDup_cons_iff in NDi as [NIi NDr].
  assert (NDi : NoDup (ie :: rids)) by (constructor; assumption).
  assert (Nai : a <> ie) by (intro E; apply NIa; left; now rewrite E).
  simpl in NDl, NK. apply NoDup_cons_iff in NDl as [NEr NDrest].
  assert (LE : d_get (pr_lookup pr) e = Some ie).
  { rewrite LK. simpl. now rewrite Nat.eqb_refl. }
  unfold p_evict. fold h a. fields. neq_eqb. rewrite NA. fields. neq_eqb. rewrite KE.
  fixty. unfold d_mem. rewrite LE.
  eexists. exists (rids ++ [a]). split; [reflexivity|].
  set (h4 := set_val (set_key (set_val (set_key h a (Some k)) a (Some v)) ie None) ie None).
  assert (PN : forall j, c_next (h4 j) = c_next (h j) /\ c_prev (h4 j) = c_prev (h j)).
  { intro j. unfold h4. fields. auto. }
  assert (Lr : length rids = length rest) by (eapply cells_hold_length; eauto).
  constructor; cbn [pr_heap pr_anchor pr_lookup pr_fresh].
  - change (ie :: rids ++ [a]) with ((ie :: rids) ++ [a]). apply nodup_snoc; [assumption|].
    intros [E|H]; [congruence|]. apply NIa. now right.
  - replace (ie :: (rids ++ [a]) ++ [ie]) with ((ie :: rids) ++ a :: [ie])
      by (simpl; now rewrite <- app_assoc).
    apply chain_app_mid. split.
    + eapply chain_frame; [| |exact CH']; intros j _; apply PN.
    + simpl. destruct (PN a) as [A1 _]. destruct (PN ie) as [_ A2]. rewrite A1, A2. auto.
  - apply cells_hold_app.
    + eapply cells_hold_frame; [|exact CR]. intros j Hj.
      assert (j <> a) by (intro; subst j; apply NIa; now right).
      assert (j <> ie) by (intro; subst j; tauto).
      unfold h4. fields. neq_eqb. auto.
    + simpl. unfold h4. fields. neq_eqb. auto.
  - intro k'. rewrite d_get_set, d_get_del by assumption. rewrite LK.
    fold (zip (rest ++ [(k, v)]) (rids ++ [a])). rewrite zip_app by assumption.
    rewrite d_get_app. simpl.
    assert (NZk : d_get (zip rest rids) k = None).
    { apply d_get_none_iff. rewrite keys_zip by assumption. tauto. }
    assert (NZe : d_get (zip rest rids) e = None).
    { apply d_get_none_iff. rewrite keys_zip by assumption. assumption. }
    fold (zip rest rids).
    destruct (Nat.eqb_spec k' k) as [->|NEk].
    + now rewrite NZk.
    + destruct (Nat.eqb_spec k' e) as [->|NEe].
      * now rewrite NZe.
      * cbv [id V K]. match goal with |- context [match ?o with Some _ => _ | None => _ end] => destruct o end; reflexivity.
  - assert (Zk : ~ In k (keys (d_del (pr_lookup pr) e))).
    { intro H. apply in_keys_del_sub in H.
      assert (G : d_get (pr_lookup pr) k = None).
      { rewrite LK. simpl. destruct (Nat.eqb_spec k e); [exfalso; apply NK; left; congruence|].
        apply d_get_none_iff. change (combine (keys rest) rids) with (zip rest rids).
        rewrite keys_zip by assumption. tauto. }
      apply d_get_none_iff in G. fixty. tauto. }
    rewrite d_set_notin by assumption. apply nodup_keys_snoc; [now apply nodup_del|assumption].
  - rewrite Forall_forall in *. intros x Hx. apply FR. simpl in *.
    destruct Hx as [Hx|Hx]; [right; now left|].
    apply in_app_or in Hx as [Hx|[Hx|[]]]; [right; now right|now left].
Qed.

(* ---- _get_flattened_ll()[1:] -------------------------------------------------------------------------------- *)
Lemma walk_chain h a : forall ids l x fuel,
  chain h (x :: ids ++ [a]) -> ~ In a ids -> cells_hold h ids l -> length ids < fuel ->
  walk h a (c_next (h x)) fuel = l.
Proof.
  induction ids as [|i r IH]; intros l x fuel C NA CE LT.
  - destruct l; [|simpl in CE; tauto]. simpl in C. destruct C as [C _]. rewrite C.
    destruct fuel; [simpl in LT; lia|]. simpl. now rewrite Nat.eqb_refl.
  - destruct l as [|[k v] lr]; [simpl in CE; tauto|]. simpl in CE. destruct CE as [KE [VE CR]].
    change (x :: (i :: r) ++ [a]) with (x :: i :: r ++ [a]) in C.
    apply chain_cons2 in C as [NX [_ C']]. rewrite NX.
    destruct fuel; [simpl in LT; lia|]. simpl.
    destruct (Nat.eqb_spec i a) as [->|NE]; [exfalso; apply NA; now left|].
    rewrite KE, VE. f_equal. apply IH; auto.
    + intro H. apply NA. now right.
    + simpl in LT. lia.
Qed.

Lemma nodup_bounded_length (l : list nat) n : NoDup l -> Forall (fun i => i < n) l -> length l <= n.
Proof.
  intros ND F. rewrite <- (seq_length n 0). apply NoDup_incl_length; [assumption|].
  intros x Hx. rewrite Forall_forall in F. apply in_seq. pose proof (F x Hx) as B. cbv beta in B. lia.
Qed.

Lemma rep_flatten pr l ids : Rep pr l ids -> p_flatten pr = l.
Proof.
  intros [ND CH CE LK LND FR]. unfold p_flatten.
  apply (walk_chain _ _ ids); auto.
  - inversion ND; assumption.
  - pose proof (nodup_bounded_length _ _ ND FR) as B. simpl in B. unfold id in *. lia.
Qed.
