(* C01: every public operation and every history of the pointer-level model computes exactly what
   the list-level model computes. *)
From Boltons Require Import Lib.Prelude Spec.C01_Spec Model.C01_Model Model.C01_Ptr Model.C01_PModel
  Proofs.C01_Base Proofs.C01_PSimDefs Proofs.C01_PSim1 Proofs.C01_PSim2.

Ltac fin := unfold rel_op;
  first [ reflexivity
        | split; [reflexivity | split; [reflexivity | assumption]] ].

(* the pointer side of a bind is convertible with the list side *)
Ltac bind_conv :=
  match goal with
  | |- rel_op (bind ?a _) (bind ?b _) => change a with b; destruct b; cbn [bind]; fin
  end.

Lemma rel_state_op (r : res pomd) (r' : res omd) (x : out) :
  rel_state r r' ->
  rel_op (bind r (fun s1 => Ok (s1, x))) (bind r' (fun s1 => Ok (s1, x))).
Proof.
  destruct r as [p1|e], r' as [s1|e']; simpl; intro H; try contradiction.
  - destruct H as [H1 H2]. split; [reflexivity | split; assumption].
  - exact H.
Qed.

Theorem sim_op p q op_ : Good p -> Good q -> rel_op (pm_op p q op_) (m_op (lift p) (lift q) op_).
Proof.
  intros Hp Hq. destruct op_; unfold pm_op, m_op.
  - (* Add *) destruct (sim_add p k v Hp) as [H1 H2]. unfold rel_op. rewrite H2. split; [reflexivity | split; [reflexivity | assumption]].
  - (* AddList *) destruct (sim_addlist p k vs Hp) as [H1 H2]. unfold rel_op. rewrite H2. split; [reflexivity | split; [reflexivity | assumption]].
  - (* SetItem *) apply rel_state_op. apply sim_setitem. exact Hp.
  - (* DelItem *) apply rel_state_op. apply sim_delitem. exact Hp.
  - (* Update *) apply rel_state_op. apply sim_update; assumption.
  - (* UpdateExtend *) apply rel_state_op. apply sim_update_extend; assumption.
  - (* IOr *) apply rel_state_op. apply sim_update; assumption.
  - (* SetDefault *)
    change (d_mem (store (lift p)) k) with (d_mem (pstore p) k).
    destruct (d_mem (pstore p) k).
    + cbn [bind]. change (pm_getitem p k) with (m_getitem (lift p) k).
      destruct (m_getitem (lift p) k); cbn [bind]; fin.
    + pose proof (sim_setitem p k (dflt d) Hp) as H.
      destruct (pm_setitem p k (dflt d)) as [p1|e], (m_setitem (lift p) k (dflt d)) as [s1|e'];
        simpl in H; try contradiction; cbn [bind].
      * destruct H as [H1 H2]. subst s1. change (pm_getitem p1 k) with (m_getitem (lift p1) k).
        destruct (m_getitem (lift p1) k); cbn [bind]; fin.
      * exact H.
  - (* Pop *)
    pose proof (sim_popall p k Hp) as H.
    destruct (pm_popall p k) as [[p1 vs]|e], (m_popall (lift p) k) as [[s1 vs']|e'];
      try contradiction.
    + destruct H as [H1 [H2 H3]]. subst vs' s1. destruct (last_res vs); cbn [bind]; fin.
    + subst e'. destruct e; try (unfold rel_op; reflexivity).
      destruct (dflt_res d); cbn [bind]; fin.
  - (* PopAll *)
    change (d_mem (store (lift p)) k) with (d_mem (pstore p) k).
    assert (H : rel_state (if d_mem (pstore p) k then pl_remove_all p k else Ok p)
                          (if d_mem (pstore p) k then ll_remove_all (lift p) k else Ok (lift p))).
    { destruct (d_mem (pstore p) k); [apply good_remove_all; exact Hp | apply rel_ok; exact Hp]. }
    destruct (if d_mem (pstore p) k then pl_remove_all p k else Ok p) as [p1|e],
             (if d_mem (pstore p) k then ll_remove_all (lift p) k else Ok (lift p)) as [s1|e'];
      simpl in H; try contradiction; cbn [bind].
    + destruct H as [H1 H2]. subst s1. change (store (lift p1)) with (pstore p1).
      destruct (d_get (pstore p1) k) as [vs|].
      * destruct (good_set_store p1 (d_del (pstore p1) k) H2) as [G1 G2].
        unfold rel_op. split; [reflexivity | split; [exact G2 | exact G1]].
      * destruct (dflt_res d); cbn [bind]; fin.
    + exact H.
  - (* PopLast *)
    change (store (lift p)) with (pstore p). rewrite (good_last_key p Hp).
    destruct (match k with
              | Some k0 => Ok (Some k0)
              | None => match pstore p with
                        | [] => Ok None
                        | _ :: _ => do k0 <- last_key (lift p); Ok (Some k0)
                        end
              end) as [[k0|]|e]; [| destruct (dflt_res d); cbn [bind]; fin | unfold rel_op; reflexivity].
    pose proof (good_remove p k0 Hp) as H.
    destruct (pl_remove p k0) as [p1|e], (ll_remove (lift p) k0) as [s1|e'];
      simpl in H; try contradiction.
    + destruct H as [H1 H2]. subst s1. change (store (lift p1)) with (pstore p1).
      destruct (d_get (pstore p1) k0) as [values|]; [|unfold rel_op; reflexivity].
      destruct (rev values) as [|v rrest]; [unfold rel_op; reflexivity|].
      match goal with
      | |- rel_op (Ok (pset_store p1 ?st, _)) _ =>
          destruct (good_set_store p1 st H2) as [G1 G2];
          unfold rel_op; split; [reflexivity | split; [exact G2 | exact G1]]
      end.
    + subst e'. destruct e; try (unfold rel_op; reflexivity).
      destruct (dflt_res d); cbn [bind]; fin.
  - (* PopItem *)
    change (store (lift p)) with (pstore p). destruct (pstore p) as [|x0 r0]; [unfold rel_op; reflexivity|].
    rewrite (good_last_key p Hp). destruct (last_key (lift p)) as [k|e]; cbn [bind]; [|unfold rel_op; reflexivity].
    pose proof (sim_popall p k Hp) as H.
    destruct (pm_popall p k) as [[p1 vs]|e], (m_popall (lift p) k) as [[s1 vs']|e'];
      try contradiction; cbn [bind].
    + destruct H as [H1 [H2 H3]]. subst vs' s1. cbn [fst snd]. destruct (last_res vs); cbn [bind].
      * unfold rel_op. cbn [fst]. split; [reflexivity | split; [reflexivity | assumption]].
      * unfold rel_op. reflexivity.
    + exact H.
  - (* Clear *)
    destruct (good_clear (pnxt p)) as [G1 G2]. unfold rel_op.
    split; [reflexivity | split; [exact G2 | exact G1]].
  - (* New *) apply rel_state_op. apply sim_new; assumption.
  - (* FromKeys *)
    destruct (sim_from_pairs (map (fun k => (k, dflt d)) ks)) as [G1 G2]. unfold rel_op.
    split; [reflexivity | split; [exact G2 | exact G1]].
  - (* CopyOther *)
    change (m_items (lift q)) with (pm_items q).
    destruct (sim_from_pairs (pm_items q)) as [G1 G2]. cbv zeta. unfold rel_op.
    split; [|split; [exact G2 | exact G1]].
    rewrite sim_eq_omd, G2. reflexivity.
  - (* CopyCyc *)
    change (m_items (lift q)) with (pm_items q).
    match goal with |- rel_op (Ok (pm_from_pairs ?l, _)) _ => destruct (sim_from_pairs l) as [G1 G2] end.
    unfold rel_op. split; [reflexivity | split; [exact G2 | exact G1]].
  - (* Items *) destruct multi; [fin | bind_conv].
  - (* Keys *) fin.
  - (* Values *) destruct multi; [fin | bind_conv].
  - (* Len *) fin.
  - (* Iter *) fin.
  - (* Reversed *)
    rewrite sim_rev_walk, (proj2 (proj2 (good_lift p Hp))).
    destruct (rev_walk (lift p) [] (rev (ll (lift p)))); cbn [bind]; fin.
  - (* Get *) bind_conv.
  - (* GetList *) fin.
  - (* GetItem *) bind_conv.
  - (* Contains *) fin.
  - (* ToDict *) destruct multi; [fin | bind_conv].
  - (* Counts *)
    match goal with
    | |- rel_op (bind ?a _) (bind ?b _) => change a with b; destruct b as [l|e]; cbn [bind]
    end; [|fin].
    unfold rel_op. split; [|split; [reflexivity | assumption]].
    rewrite sim_items, (proj2 (sim_from_pairs l)). reflexivity.
  - (* Inverted *)
    change (pm_items p) with (m_items (lift p)).
    destruct (existsb unhashable (map snd (m_items (lift p)))); [unfold rel_op; reflexivity|].
    unfold rel_op. split; [|split; [reflexivity | assumption]].
    rewrite sim_items, (proj2 (sim_from_pairs _)). reflexivity.
  - (* Sorted *)
    unfold rel_op. split; [|split; [reflexivity | assumption]].
    rewrite sim_items, (proj2 (sim_from_pairs _)). reflexivity.
  - (* SortedValues *)
    pose proof (sim_sortedvalues p f reverse) as H.
    destruct (pm_sortedvalues p f reverse) as [r|e], (m_sortedvalues (lift p) f reverse) as [r'|e'];
      simpl in H; try contradiction; cbn [bind].
    + destruct H as [H1 H2]. subst r'. fin.
    + exact H.
  - (* Repr *) fin.
  - (* EqOther *) fin.
  - (* EqSelf *) fin.
  - (* EqPairs *)
    unfold rel_op. split; [|split; [reflexivity | assumption]].
    rewrite sim_eq_omd, (proj2 (sim_from_pairs l)). reflexivity.
  - (* EqMap *) rewrite sim_eq_map. destruct (m_eq_map (lift p) m); cbn [bind]; fin.
  - (* EqJunk *) fin.
  - (* OrMap *) bind_conv.
  - (* ROrMap *) bind_conv.
  - (* ViewKeys *) fin.
  - (* ViewValues *) bind_conv.
  - (* ViewItems *) bind_conv.
  - (* DictOf *) bind_conv.
  - (* Truth *) fin.
  - (* UpdateBad *) apply rel_state_op. apply sim_upd_pairs. exact Hp.
  - (* UpdateExtendBad *)
    destruct (sim_add_all l p Hp) as [H1 H2]. unfold rel_op. rewrite H2.
    split; [reflexivity | split; [reflexivity | assumption]].
  - (* AddListBad *) fin.
  - (* BadKey *) fin.
Qed.

Lemma sim_step p q op_ : Good p -> Good q ->
  Good (fst (pm_step p q op_)) /\
  lift (fst (pm_step p q op_)) = fst (m_step (lift p) (lift q) op_) /\
  snd (pm_step p q op_) = snd (m_step (lift p) (lift q) op_).
Proof.
  intros Hp Hq. pose proof (sim_op p q op_ Hp Hq) as H. unfold pm_step, m_step.
  destruct (pm_op p q op_) as [[p1 x]|e], (m_op (lift p) (lift q) op_) as [[s1 x']|e'];
    simpl in H; try contradiction; simpl.
  - destruct H as [H1 [H2 H3]]. subst. repeat split; assumption || reflexivity.
  - subst. repeat split; assumption || reflexivity.
Qed.

Definition Good2 (st : pmstate) : Prop := Good (fst st) /\ Good (snd st).
Definition lift2 (st : pmstate) : mstate := (lift (fst st), lift (snd st)).

Lemma sim_step2 st reg op_ : Good2 st ->
  Good2 (fst (pm_step2 st reg op_)) /\
  lift2 (fst (pm_step2 st reg op_)) = fst (m_step2 (lift2 st) reg op_) /\
  snd (pm_step2 st reg op_) = snd (m_step2 (lift2 st) reg op_).
Proof.
  destruct st as [p0 p1]. intros [H0 H1]. cbn [fst snd] in H0, H1.
  unfold pm_step2, m_step2, lift2, Good2. cbn [fst snd]. destruct reg.
  - destruct (sim_step p1 p0 op_ H1 H0) as [G [L R]].
    destruct (pm_step p1 p0 op_) as [p' r], (m_step (lift p1) (lift p0) op_) as [s' r'].
    cbn [fst snd] in *. subst. repeat split; assumption || reflexivity.
  - destruct (sim_step p0 p1 op_ H0 H1) as [G [L R]].
    destruct (pm_step p0 p1 op_) as [p' r], (m_step (lift p0) (lift p1) op_) as [s' r'].
    cbn [fst snd] in *. subst. repeat split; assumption || reflexivity.
Qed.

Theorem sim_run : forall ops st, Good2 st -> pm_run st ops = m_run (lift2 st) ops.
Proof.
  induction ops as [|[reg o] r IH]; intros st Hst; [reflexivity|].
  cbn [pm_run m_run]. destruct (sim_step2 st reg o Hst) as [G [L R]].
  destruct (pm_step2 st reg o) as [st' x], (m_step2 (lift2 st) reg o) as [s' x'].
  cbn [fst snd] in *. subst. rewrite (IH st' G), !sim_view. reflexivity.
Qed.

Theorem ptr_history : forall ops, pm_run (pm_empty, pm_empty) ops = m_run (m_empty, m_empty) ops.
Proof.
  intro ops. rewrite (sim_run ops (pm_empty, pm_empty)).
  - unfold lift2. cbn [fst snd]. rewrite (proj2 good_empty). reflexivity.
  - split; apply good_empty.
Qed.
