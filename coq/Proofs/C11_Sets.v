(* C11: list-level facts about first-occurrence de-duplication, filters and
   list.remove used by the set-algebra part of the refinement. *)
From Boltons Require Import Lib.Prelude Lib.C11_Iface Spec.C11_Spec Model.C11_Model
     Proofs.C11_Lists Proofs.C11_Dead Proofs.C11_Inv.
From Coq Require Import Permutation Sorted.

Definition notin (l : list K) : K -> bool := fun y => negb (l_mem y l).

Lemma filter_comp {A} (f g : A -> bool) l : filter f (filter g l) = filter (fun x => g x && f x) l.
Proof.
  induction l as [|x l IH]; simpl; [reflexivity|].
  destruct (g x); simpl; [destruct (f x); simpl; congruence|exact IH].
Qed.

Lemma filter_id {A} (f : A -> bool) l : (forall x, In x l -> f x = true) -> filter f l = l.
Proof.
  induction l as [|x l IH]; simpl; intros H; [reflexivity|].
  rewrite (H x (or_introl eq_refl)). f_equal. apply IH. intros y Hy. apply H. right. exact Hy.
Qed.

Lemma filter_none {A} (f : A -> bool) l : (forall x, In x l -> f x = false) -> filter f l = [].
Proof.
  induction l as [|x l IH]; simpl; intros H; [reflexivity|].
  rewrite (H x (or_introl eq_refl)). apply IH. intros y Hy. apply H. right. exact Hy.
Qed.

Lemma NoDup_filter {A} (f : A -> bool) l : NoDup l -> NoDup (filter f l).
Proof.
  induction 1 as [|x l N _ IH]; simpl; [constructor|].
  destruct (f x); [constructor|]; auto. intros H. apply filter_In in H. tauto.
Qed.

Lemma notin_true y l : notin l y = true <-> ~ In y l.
Proof.
  unfold notin. rewrite negb_true_iff. split.
  - intros H Hin. apply l_mem_In in Hin. congruence.
  - intros H. destruct (l_mem y l) eqn:E; [|reflexivity]. apply l_mem_In in E. contradiction.
Qed.

Lemma l_mem_false y l : l_mem y l = false <-> ~ In y l.
Proof. rewrite <- notin_true. unfold notin. rewrite negb_true_iff. tauto. Qed.

(* ---- uniq ------------------------------------------------------------------------------- *)
Lemma uniq_cons x l : uniq (x :: l) = x :: filter (fun y => negb (N.eqb x y)) (uniq l).
Proof. reflexivity. Qed.

Lemma In_uniq x l : In x (uniq l) <-> In x l.
Proof.
  revert x; induction l as [|y l IH]; intros x; [simpl; tauto|].
  rewrite uniq_cons. simpl. rewrite filter_In, IH. rewrite negb_true_iff, N.eqb_neq.
  destruct (N.eq_dec y x); [subst; tauto|tauto].
Qed.

Lemma NoDup_uniq l : NoDup (uniq l).
Proof.
  induction l as [|y l IH]; [constructor|]. rewrite uniq_cons. constructor.
  - intros H. apply filter_In in H. destruct H as [_ H]. rewrite N.eqb_refl in H. discriminate.
  - apply NoDup_filter. exact IH.
Qed.

Lemma uniq_app l r : NoDup l -> uniq (l ++ r) = l ++ filter (notin l) (uniq r).
Proof.
  induction l as [|x l IH]; intros ND.
  - simpl. symmetry. apply filter_id. intros; reflexivity.
  - inversion ND as [|? ? N1 N2]; subst. simpl app. rewrite uniq_cons, (IH N2).
    rewrite filter_app. f_equal. f_equal.
    + apply filter_id. intros y Hy. rewrite negb_true_iff, N.eqb_neq. intros ->. contradiction.
    + rewrite filter_comp. apply filter_ext. intros y. unfold notin, l_mem. simpl.
      rewrite negb_orb. rewrite (N.eqb_sym y x). apply andb_comm.
Qed.

Lemma uniq_nodup l : NoDup l -> uniq l = l.
Proof. intros H. rewrite <- (app_nil_r l) at 1. rewrite (uniq_app l [] H). simpl. apply app_nil_r. Qed.

Lemma uniq_filter (f : K -> bool) l : uniq (filter f l) = filter f (uniq l).
Proof.
  induction l as [|x l IH]; [reflexivity|]. simpl filter at 1. rewrite uniq_cons. simpl.
  destruct (f x) eqn:E.
  - rewrite uniq_cons, IH. f_equal. rewrite !filter_comp. apply filter_ext. intros y. apply andb_comm.
  - rewrite IH. rewrite filter_comp. apply filter_ext_in. intros y Hy.
    destruct (N.eqb x y) eqn:E2; simpl; [|reflexivity]. apply N.eqb_eq in E2. subst. exact E.
Qed.

Lemma fold_l_add xs : forall l, NoDup l -> fold_left l_add xs l = uniq (l ++ xs).
Proof.
  induction xs as [|x xs IH]; intros l ND; simpl.
  - rewrite app_nil_r. symmetry. apply uniq_nodup. exact ND.
  - unfold l_add at 2. destruct (l_mem x l) eqn:M.
    + rewrite (IH l ND). rewrite !(uniq_app l _ ND). f_equal. rewrite uniq_cons. simpl.
      unfold notin at 2. rewrite M. simpl. rewrite filter_comp. apply filter_ext_in. intros y Hy.
      destruct (N.eqb x y) eqn:E; simpl; [|reflexivity]. apply N.eqb_eq in E. subst y.
      unfold notin. rewrite M. reflexivity.
    + rewrite IH.
      * rewrite <- app_assoc. reflexivity.
      * apply NoDup_snoc; [exact ND|]. apply l_mem_false. exact M.
Qed.

(* ---- list.remove on a duplicate-free list ----------------------------------------------------- *)
Lemma l_remove_filter x l : NoDup l -> l_remove x l = filter (fun y => negb (N.eqb x y)) l.
Proof.
  induction 1 as [|y l N _ IH]; simpl; [reflexivity|].
  destruct (N.eqb x y) eqn:E; simpl.
  - apply N.eqb_eq in E. subst y. symmetry. apply filter_id. intros z Hz.
    rewrite negb_true_iff, N.eqb_neq. intros ->. contradiction.
  - f_equal. exact IH.
Qed.

Lemma fold_l_remove D : forall l, NoDup l ->
  fold_left (fun l x => l_remove x l) D l = filter (notin D) l.
Proof.
  induction D as [|x D IH]; intros l ND; simpl.
  - symmetry. apply filter_id. intros; reflexivity.
  - rewrite IH by (rewrite (l_remove_filter x l ND); apply NoDup_filter; exact ND).
    rewrite (l_remove_filter x l ND), filter_comp. apply filter_ext. intros y.
    unfold notin, l_mem. simpl. rewrite negb_orb. rewrite (N.eqb_sym y x). reflexivity.
Qed.

Lemma l_count_nodup x l : NoDup l -> l_count x l = if l_mem x l then 1 else 0.
Proof.
  unfold l_count, l_mem. induction 1 as [|y l N _ IH]; simpl; [reflexivity|].
  destruct (N.eqb x y) eqn:E; simpl.
  - apply N.eqb_eq in E. subst y. rewrite filter_none; [reflexivity|].
    intros z Hz. apply N.eqb_neq. intros ->. contradiction.
  - rewrite IH. reflexivity.
Qed.

(* ---- sorted(): a permutation -------------------------------------------------------------------- *)
Lemma ins_sorted_perm x l : Permutation (ins_sorted x l) (x :: l).
Proof.
  induction l as [|y l IH]; simpl; [apply Permutation_refl|].
  destruct (N.leb x y); [apply Permutation_refl|].
  eapply Permutation_trans; [apply perm_skip; exact IH|apply perm_swap].
Qed.

Lemma sort_nat_perm l : Permutation (sort_nat l) l.
Proof.
  induction l as [|x l IH]; simpl; [constructor|].
  eapply Permutation_trans; [apply ins_sorted_perm|apply perm_skip; exact IH].
Qed.

Lemma py_sorted_perm l r : Permutation (py_sorted l r) l.
Proof.
  unfold py_sorted. destruct r; [|apply sort_nat_perm].
  eapply Permutation_trans; [apply Permutation_sym, Permutation_rev|apply sort_nat_perm].
Qed.

Lemma ins_sorted_sorted x l : Sorted N.le l -> Sorted N.le (ins_sorted x l).
Proof.
  induction l as [|y l IH]; simpl; intros H.
  - constructor; constructor.
  - destruct (N.leb x y) eqn:E.
    + apply N.leb_le in E. constructor; [exact H|constructor; exact E].
    + apply N.leb_gt in E. inversion H as [|? ? H1 H2]; subst. constructor; [apply IH; exact H1|].
      destruct l as [|z l]; simpl.
      * constructor. lia.
      * destruct (N.leb x z); constructor; [lia|]. inversion H2; subst. assumption.
Qed.

Lemma sort_nat_sorted l : Sorted N.le (sort_nat l).
Proof. induction l as [|x l IH]; simpl; [constructor|apply ins_sorted_sorted; exact IH]. Qed.

Lemma ins_key_perm key x l : Permutation (ins_key key x l) (x :: l).
Proof.
  induction l as [|y l IH]; simpl; [apply Permutation_refl|].
  destruct (N.leb (key x) (key y)); [apply Permutation_refl|].
  eapply Permutation_trans; [apply perm_skip; exact IH|apply perm_swap].
Qed.

Lemma sort_key_perm key l : Permutation (sort_key key l) l.
Proof.
  induction l as [|x l IH]; simpl; [constructor|].
  eapply Permutation_trans; [apply ins_key_perm|apply perm_skip; exact IH].
Qed.

Lemma py_sorted_key_perm l m r : Permutation (py_sorted_key l m r) l.
Proof.
  unfold py_sorted_key. destruct r; [|apply sort_key_perm].
  eapply Permutation_trans; [apply Permutation_sym, Permutation_rev|].
  eapply Permutation_trans; [apply sort_key_perm|apply Permutation_sym, Permutation_rev].
Qed.
