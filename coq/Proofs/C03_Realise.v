(* C03: the converse of serialisability, generically: every serial order is realised by a
   schedule (run each chosen thread until its operation has returned).  Together with
   Proofs/C03_Serial.serialisable: for operations that are single critical sections, the states
   reachable by ALL schedules at quiescence are exactly those reachable by schedules that switch
   threads only BETWEEN operations. *)
From Boltons Require Import Lib.Prelude Lib.C03_Conc Proofs.C03_Serial.

Section Realise.
  Variables (shared act ares : Type).
  Variable sem : act -> shared -> shared * ares.
  Variables (stats sact sres : Type).
  Variable ssem : sact -> stats -> stats * sres.
  Variables (OP RV : Type).
  Variable compile : OP -> @prog act ares sact sres RV.
  Hypothesis compile_one_cs : forall o, one_cs (compile o).

  Notation prog := (@prog act ares sact sres).
  Notation mstate := (@mstate shared act ares stats sact sres OP RV).
  Notation step := (step sem ssem compile true).
  Notation run := (run sem ssem compile true).

  (* thread t is the only one that moves: everything about the other threads is kept *)
  Definition others_same (t : nat) (s s' : mstate) : Prop :=
    forall u, u <> t -> m_thr s' u = m_thr s u.

  Lemma run_app a b s : run (a ++ b) s = run b (run a s).
  Proof. unfold C03_Conc.run. apply fold_left_app. Qed.

  Lemma run_one t s s' : step t s = Some s' -> run [t] s = s'.
  Proof. intro H. unfold C03_Conc.run. simpl. unfold step_or_skip. now rewrite H. Qed.

  Lemma upd_same' {X} (f : nat -> X) t x : upd f t x t = x.
  Proof. unfold upd. now rewrite Nat.eqb_refl. Qed.
  Lemma upd_other' {X} (f : nat -> X) t u x : u <> t -> upd f t x u = f u.
  Proof. intro H. unfold upd. destruct (Nat.eqb_spec u t); [contradiction|reflexivity]. Qed.

  (* a statistics tail runs to its return *)
  Lemma run_stat_prog t : forall (sp : @sprog sact sres) (k : prog RV) s todo done,
    m_thr s t = mkThread (Some (Stat sp k)) todo done ->
    exists n s', run (repeat t n) s = s' /\ m_sh s' = m_sh s /\ m_lock s' = m_lock s
                 /\ m_thr s' t = mkThread (Some k) todo done /\ others_same t s s'.
  Proof.
    induction sp as [|a f IH]; intros k s todo done E.
    - exists 1. eexists. split; [apply run_one; unfold C03_Conc.step; rewrite E; reflexivity|].
      simpl. rewrite upd_same'. repeat split; auto. intros u Hu. simpl. now rewrite upd_other'.
    - destruct (ssem a (m_st s)) as [st' r] eqn:ES.
      set (s1 := mkState (m_sh s) st' (m_lock s)
                         (upd (m_thr s) t (mkThread (Some (Stat (f r) k)) todo done))).
      assert (S1 : step t s = Some s1).
      { unfold C03_Conc.step. rewrite E. simpl. rewrite ES. reflexivity. }
      destruct (IH r k s1 todo done) as [n [s' [R [A [B [C D]]]]]].
      { unfold s1. simpl. apply upd_same'. }
      exists (S n), s'. split.
      + change (repeat t (S n)) with ([t] ++ repeat t n). rewrite run_app, (run_one _ _ _ S1). exact R.
      + split; [rewrite A; reflexivity|]. split; [rewrite B; reflexivity|]. split; [exact C|].
        intros u Hu. rewrite (D u Hu). unfold s1. simpl. now rewrite upd_other'.
  Qed.

  Lemma run_post t : forall (q : prog RV) a, post q a -> forall s todo done,
    m_thr s t = mkThread (Some q) todo done ->
    exists n s', run (repeat t n) s = s' /\ m_sh s' = m_sh s /\ m_lock s' = m_lock s
                 /\ m_thr s' t = mkThread None todo (done ++ [a]) /\ others_same t s s'.
  Proof.
    intros q a P. induction P as [a|sp q a P IH]; intros s todo done E.
    - exists 1. eexists. split; [apply run_one; unfold C03_Conc.step; rewrite E; reflexivity|].
      simpl. rewrite upd_same'. repeat split; auto. intros u Hu. simpl. now rewrite upd_other'.
    - destruct (run_stat_prog t sp q s todo done E) as [n1 [s1 [R1 [A1 [B1 [C1 D1]]]]]].
      destruct (IH s1 todo done C1) as [n2 [s2 [R2 [A2 [B2 [C2 D2]]]]]].
      exists (n1 + n2), s2. split.
      + rewrite repeat_app, run_app, R1. exact R2.
      + split; [congruence|]. split; [congruence|]. split; [exact C2|].
        intros u Hu. rewrite (D2 u Hu). apply D1. exact Hu.
  Qed.

  (* inside the critical section at depth d, thread t alone runs to the end of its operation *)
  Lemma run_cs t : forall d (p : prog RV), in_cs d p -> forall s todo done,
    m_lock s = Some (t, d) -> m_thr s t = mkThread (Some p) todo done ->
    exists n s', run (repeat t n) s = s'
                 /\ m_sh s' = fst (arun sem p (m_sh s)) /\ m_lock s' = None
                 /\ m_thr s' t = mkThread None todo (done ++ [snd (arun sem p (m_sh s))])
                 /\ others_same t s s'.
  Proof.
    intros d p H. induction H as [d a k Hk IH|d k Hk IH|d k Hk IH|d sp k Hk IH|q a P]; intros s todo done L E.
    - (* Act *)
      destruct (sem a (m_sh s)) as [sh' r] eqn:ES.
      set (s1 := mkState sh' (m_st s) (m_lock s) (upd (m_thr s) t (mkThread (Some (k r)) todo done))).
      assert (S1 : step t s = Some s1) by (unfold C03_Conc.step; rewrite E; simpl; rewrite ES; reflexivity).
      destruct (IH r s1 todo done) as [n [s' [R [A [B [C D]]]]]]; [exact L|unfold s1; simpl; apply upd_same'|].
      exists (S n), s'. split.
      + change (repeat t (S n)) with ([t] ++ repeat t n). rewrite run_app, (run_one _ _ _ S1). exact R.
      + simpl. rewrite ES. split; [exact A|]. split; [exact B|]. split; [exact C|].
        intros u Hu. rewrite (D u Hu). unfold s1. simpl. now rewrite upd_other'.
    - (* nested Acquire *)
      set (s1 := mkState (m_sh s) (m_st s) (Some (t, S (S d)))
                         (upd (m_thr s) t (mkThread (Some k) todo done))).
      assert (S1 : step t s = Some s1).
      { unfold C03_Conc.step. rewrite E. simpl. rewrite L, Nat.eqb_refl. reflexivity. }
      destruct (IH s1 todo done) as [n [s' [R [A [B [C D]]]]]]; [reflexivity|unfold s1; simpl; apply upd_same'|].
      exists (S n), s'. split.
      + change (repeat t (S n)) with ([t] ++ repeat t n). rewrite run_app, (run_one _ _ _ S1). exact R.
      + simpl. split; [exact A|]. split; [exact B|]. split; [exact C|].
        intros u Hu. rewrite (D u Hu). unfold s1. simpl. now rewrite upd_other'.
    - (* inner Release *)
      set (s1 := mkState (m_sh s) (m_st s) (Some (t, S d))
                         (upd (m_thr s) t (mkThread (Some k) todo done))).
      assert (S1 : step t s = Some s1).
      { unfold C03_Conc.step. rewrite E. simpl. rewrite L, Nat.eqb_refl. reflexivity. }
      destruct (IH s1 todo done) as [n [s' [R [A [B [C D]]]]]]; [reflexivity|unfold s1; simpl; apply upd_same'|].
      exists (S n), s'. split.
      + change (repeat t (S n)) with ([t] ++ repeat t n). rewrite run_app, (run_one _ _ _ S1). exact R.
      + simpl. split; [exact A|]. split; [exact B|]. split; [exact C|].
        intros u Hu. rewrite (D u Hu). unfold s1. simpl. now rewrite upd_other'.
    - (* statistics inside the critical section *)
      destruct (run_stat_prog t sp k s todo done E) as [n1 [s1 [R1 [A1 [B1 [C1 D1]]]]]].
      destruct (IH s1 todo done) as [n2 [s2 [R2 [A2 [B2 [C2 D2]]]]]]; [congruence|exact C1|].
      exists (n1 + n2), s2. split.
      + rewrite repeat_app, run_app, R1. exact R2.
      + simpl. rewrite A1 in A2, C2. split; [exact A2|]. split; [exact B2|]. split; [exact C2|].
        intros u Hu. rewrite (D2 u Hu). apply D1. exact Hu.
    - (* the outermost Release, then the tail *)
      set (s1 := mkState (m_sh s) (m_st s) None (upd (m_thr s) t (mkThread (Some q) todo done))).
      assert (S1 : step t s = Some s1).
      { unfold C03_Conc.step. rewrite E. simpl. rewrite L, Nat.eqb_refl. reflexivity. }
      destruct (run_post t q a P s1 todo done) as [n [s' [R [A [B [C D]]]]]]; [unfold s1; simpl; apply upd_same'|].
      exists (S n), s'. split.
      + change (repeat t (S n)) with ([t] ++ repeat t n). rewrite run_app, (run_one _ _ _ S1). exact R.
      + simpl. erewrite arun_post by exact P. simpl.
        split; [exact A|]. split; [exact B|]. split; [exact C|].
        intros u Hu. rewrite (D u Hu). unfold s1. simpl. now rewrite upd_other'.
  Qed.

  (* a state in which no operation is in progress, described by a serial state *)
  Definition quiescent (s : mstate) (x : shared * (nat -> list OP) * (nat -> list RV)) : Prop :=
    let '(sh, todo, done) := x in
    m_lock s = None /\ m_sh s = sh /\ forall t, m_thr s t = mkThread None (todo t) (done t).

  Lemma run_operation t s sh todo done :
    quiescent s (sh, todo, done) ->
    exists n, quiescent (run (repeat t n) s) (serial_step sem compile (sh, todo, done) t).
  Proof.
    intros [L [ES ET]]. unfold serial_step.
    destruct (todo t) as [|o rest] eqn:ETD.
    - exists 0. simpl. repeat split; auto.
    - destruct (compile_one_cs o) as [k [EK HK]].
      (* start the operation *)
      set (s1 := mkState (m_sh s) (m_st s) (m_lock s) (upd (m_thr s) t (mkThread (Some (Acq k)) rest (done t)))).
      assert (S1 : step t s = Some s1).
      { unfold C03_Conc.step. rewrite (ET t), ETD. simpl. rewrite EK. reflexivity. }
      (* acquire the free lock *)
      set (s2 := mkState (m_sh s1) (m_st s1) (Some (t, 1))
                         (upd (m_thr s1) t (mkThread (Some k) rest (done t)))).
      assert (S2 : step t s1 = Some s2).
      { unfold C03_Conc.step, s1. simpl. rewrite upd_same'. simpl. rewrite L. reflexivity. }
      destruct (run_cs t 1 k HK s2 rest (done t)) as [n [s3 [R [A [B [C D]]]]]].
      { reflexivity. } { unfold s2. simpl. apply upd_same'. }
      exists (S (S n)).
      change (repeat t (S (S n))) with ([t] ++ [t] ++ repeat t n).
      rewrite !run_app, (run_one _ _ _ S1), (run_one _ _ _ S2), R.
      rewrite EK. simpl arun.
      assert (SH2 : m_sh s2 = sh) by (unfold s2, s1; simpl; exact ES).
      rewrite SH2 in A, C.
      destruct (arun sem k sh) as [sh' a] eqn:EA. simpl in A, C.
      split; [exact B|]. split; [exact A|].
      intro u. destruct (Nat.eq_dec u t) as [->|NE].
      + rewrite C, !upd_same'. reflexivity.
      + rewrite (D u NE). unfold s2, s1. simpl. rewrite !upd_other' by exact NE. apply ET.
  Qed.

  Variables (progs : nat -> list OP) (sh0 : shared) (st0 : stats).

  (* every serial order is the outcome of some schedule *)
  Theorem serial_realisable : forall order,
    exists sched, quiescent (run sched (init_state sh0 st0 progs)) (serial sem compile order sh0 progs).
  Proof.
    induction order as [|t order IH] using rev_ind.
    - exists []. unfold serial. simpl. repeat split; reflexivity.
    - destruct IH as [sched Q]. unfold serial in *. rewrite fold_left_app. simpl.
      destruct (fold_left (serial_step sem compile) order (sh0, progs, fun _ => [])) as [[sh todo] done].
      destruct (run_operation t _ sh todo done Q) as [n Q'].
      exists (sched ++ repeat t n). rewrite run_app. exact Q'.
  Qed.
End Realise.
