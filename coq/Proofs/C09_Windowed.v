(* C09: windowed / pairwise — tee'd iterators advanced i times and zipped
   yield exactly the contiguous slices (padded at the end with fill). *)
From Boltons Require Import Lib.Prelude Spec.C09_Spec Model.C09_Model.

(* ---- advancing a tee = skipn -------------------------------------------------- *)
Lemma advance_skipn : forall i t,
  advance i t = if i <=? length t then Some (skipn i t) else None.
Proof.
  induction i as [|i IH]; intro t; [reflexivity|].
  destruct t as [|x t']; [reflexivity|]. cbn [advance length skipn]. rewrite IH. reflexivity.
Qed.

Lemma advance_lenient_skipn : forall i t, advance_lenient i t = skipn i t.
Proof.
  induction i as [|i IH]; intro t; [reflexivity|].
  destruct t as [|x t']; [reflexivity|]. cbn [advance_lenient skipn]. apply IH.
Qed.

Lemma advance_all_some src : forall idx,
  (forall i, In i idx -> i <= length src) ->
  advance_all (map (fun i => (i, src)) idx) = Some (map (fun i => skipn i src) idx).
Proof.
  induction idx as [|a idx IH]; intro H; [reflexivity|].
  cbn [map advance_all]. rewrite advance_skipn.
  assert (a <=? length src = true) as -> by (apply Nat.leb_le, H; left; reflexivity).
  rewrite IH; [reflexivity|]. intros i Hi. apply H. right. exact Hi.
Qed.

Lemma advance_all_none src : forall idx i,
  In i idx -> length src < i -> advance_all (map (fun i => (i, src)) idx) = None.
Proof.
  induction idx as [|a idx IH]; intros i HI Hlt; [destruct HI|].
  cbn [map advance_all]. rewrite advance_skipn.
  destruct (a <=? length src) eqn:E.
  - destruct HI as [->|HI]; [apply Nat.leb_le in E; lia|].
    rewrite (IH i HI Hlt). reflexivity.
  - reflexivity.
Qed.

(* ---- skipn / nth vocabulary --------------------------------------------------- *)
Lemma skipn_S_tl {A} : forall i (l : list A), skipn (S i) l = tl (skipn i l).
Proof.
  induction i as [|i IH]; intro l.
  - destruct l; reflexivity.
  - destruct l as [|x l']; [reflexivity|]. change (skipn (S (S i)) (x :: l')) with (skipn (S i) l').
    rewrite IH. reflexivity.
Qed.

Lemma skipn_nth_cons {A} (d : A) : forall a (l : list A),
  a < length l -> skipn a l = nth a l d :: skipn (S a) l.
Proof.
  induction a as [|a IH]; intros l H.
  - destruct l; [cbn in H; lia|reflexivity].
  - destruct l as [|x l']; [cbn in H; lia|].
    cbn [length] in H. change (skipn (S a) (x :: l')) with (skipn a l').
    rewrite (IH l') by lia. reflexivity.
Qed.

Lemma firstn_skipn_nth {A} (d : A) (l : list A) : forall n a,
  a + n <= length l -> firstn n (skipn a l) = map (fun i => nth i l d) (seq a n).
Proof.
  induction n as [|n IH]; intros a H; [reflexivity|].
  rewrite (skipn_nth_cons d) by lia. cbn [firstn seq map]. f_equal. apply IH. lia.
Qed.

Lemma hd_skipn_nth {A} (d : A) : forall i (l : list A),
  match skipn i l with [] => d | y :: _ => y end = nth i l d.
Proof.
  induction i as [|i IH]; intro l; destruct l as [|x l']; try reflexivity.
  cbn [skipn nth]. apply IH.
Qed.

Lemma nth_app_repeat {A} (f : A) l k i : nth i (l ++ repeat f k) f = nth i l f.
Proof.
  destruct (Nat.lt_ge_cases i (length l)) as [H|H].
  - apply app_nth1. exact H.
  - rewrite app_nth2 by exact H. rewrite (nth_overflow l) by exact H.
    generalize (i - length l) as j. clear. induction k as [|k IH]; intro j; destruct j; cbn; auto.
Qed.

Lemma tails_tees x r idx :
  tails (map (fun i => skipn i (x :: r)) idx) = map (fun i => skipn i r) idx.
Proof.
  unfold tails. rewrite map_map. apply map_ext. intro i. rewrite <- skipn_S_tl. reflexivity.
Qed.

(* ---- next() on all tees -------------------------------------------------------- *)
Lemma heads_tees l : forall n a,
  a + n <= length l -> heads (map (fun i => skipn i l) (seq a n)) = Some (firstn n (skipn a l)).
Proof.
  induction n as [|n IH]; intros a H; [reflexivity|].
  cbn [seq map]. rewrite (@skipn_nth_cons K 0 a l) by lia. cbn [heads firstn].
  rewrite IH by lia. reflexivity.
Qed.

Lemma heads_none : forall ts, In [] ts -> heads ts = None.
Proof.
  induction ts as [|t ts IH]; intro H; [destruct H|].
  destruct H as [->|H]; [reflexivity|].
  destruct t; [reflexivity|]. cbn [heads]. rewrite (IH H). reflexivity.
Qed.

(* ---- zip over the tees = the slices --------------------------------------------- *)
Lemma zip_tees : forall src fuel n,
  1 <= n -> n <= S (length src) -> length src < fuel ->
  zip_loop fuel (map (fun i => skipn i src) (seq 0 n))
  = map (fun j => slice src j n) (seq 0 (S (length src) - n)).
Proof.
  induction src as [|x r IH]; intros fuel n Hn Hle Hf.
  - cbn [length] in *. assert (n = 1) as -> by lia. destruct fuel; [lia|]. reflexivity.
  - destruct fuel as [|fuel]; [lia|]. cbn [zip_loop].
    destruct n as [|n']; [lia|]. remember (S n') as n eqn:En.
    assert (Hne : map (fun i => skipn i (x :: r)) (seq 0 n) <> []) by (subst n; discriminate).
    destruct (Nat.eq_dec n (S (length (x :: r)))) as [E|E].
    + (* the last tee is already exhausted *)
      rewrite (heads_none (map (fun i => skipn i (x :: r)) (seq 0 n))).
      * rewrite E, Nat.sub_diag.
        destruct (map (fun i => skipn i (x :: r)) (seq 0 (S (length (x :: r))))); reflexivity.
      * apply in_map_iff. exists (length (x :: r)). split; [apply skipn_all|].
        apply in_seq. lia.
    + rewrite heads_tees by (cbn [length] in *; lia).
      destruct (map (fun i => skipn i (x :: r)) (seq 0 n)) eqn:Ets; [congruence|].
      rewrite <- Ets. rewrite tails_tees.
      cbn [length] in *. rewrite IH by lia.
      replace (S (S (length r)) - n) with (S (S (length r) - n)) by lia.
      cbn [seq map]. f_equal. rewrite <- seq_shift, map_map. reflexivity.
Qed.

Lemma m_windowed_nofill src n :
  1 <= n -> m_windowed src n None = spec_windowed src n None.
Proof.
  intro Hn. unfold m_windowed, spec_windowed, tees.
  destruct (le_lt_dec n (S (length src))) as [H|H].
  - rewrite advance_all_some; [|intros i Hi; apply in_seq in Hi; lia].
    apply zip_tees; lia.
  - rewrite (advance_all_none src (seq 0 n) (S (length src))); [|apply in_seq; lia|lia].
    replace (S (length src) - n) with 0 by lia. reflexivity.
Qed.

(* ---- zip_longest over the tees = padded slices ----------------------------------- *)
Lemma all_empty_tees_nil idx : all_empty (map (fun i => skipn i (@nil K)) idx) = true.
Proof.
  induction idx as [|a idx IH]; [reflexivity|]. cbn [map all_empty forallb].
  rewrite skipn_nil. exact IH.
Qed.

Lemma heads_fill_tees f l idx :
  heads_fill f (map (fun i => skipn i l) idx) = map (fun i => nth i l f) idx.
Proof.
  unfold heads_fill. rewrite map_map. apply map_ext. intro i. apply hd_skipn_nth.
Qed.

Lemma zip_longest_tees f : forall src fuel n,
  1 <= n -> length src < fuel ->
  zip_longest_loop fuel f (map (fun i => skipn i src) (seq 0 n))
  = map (fun j => slice (src ++ repeat f (n - 1)) j n) (seq 0 (length src)).
Proof.
  induction src as [|x r IH]; intros fuel n Hn Hf.
  - destruct fuel; [lia|]. cbn [zip_longest_loop]. rewrite all_empty_tees_nil. reflexivity.
  - destruct fuel as [|fuel]; [lia|]. cbn [zip_longest_loop].
    destruct n as [|n']; [lia|].
    assert (all_empty (map (fun i => skipn i (x :: r)) (seq 0 (S n'))) = false) as -> by reflexivity.
    rewrite tails_tees, heads_fill_tees. cbn [length] in *. rewrite IH by lia.
    rewrite <- (cons_seq (length r) 0), map_cons. f_equal.
    + unfold slice. rewrite (firstn_skipn_nth f) by (rewrite app_length, repeat_length; cbn [length]; lia).
      apply map_ext. intro i. symmetry. apply nth_app_repeat.
    + rewrite <- seq_shift, map_map. reflexivity.
Qed.

Lemma m_windowed_fill src n f :
  1 <= n -> m_windowed src n (Some f) = spec_windowed src n (Some f).
Proof.
  intro Hn. unfold m_windowed, spec_windowed, tees. rewrite map_map. cbn [fst snd].
  rewrite (map_ext _ (fun i => skipn i src)) by (intro; apply advance_lenient_skipn).
  apply zip_longest_tees; lia.
Qed.

Lemma m_windowed_spec src n fill :
  1 <= n -> m_windowed src n fill = spec_windowed src n fill.
Proof. destruct fill; [apply m_windowed_fill|apply m_windowed_nofill]. Qed.

Lemma m_pairwise_spec src fill : m_pairwise src fill = spec_windowed src 2 fill.
Proof. apply m_windowed_spec. lia. Qed.

(* ---- laws of the reference -------------------------------------------------------- *)
Lemma slice_length l i n : i + n <= length l -> length (slice l i n) = n.
Proof. intro H. unfold slice. rewrite firstn_length, skipn_length. lia. Qed.

(* number of windows and their exact length *)
Lemma spec_windowed_count l n fill :
  length (spec_windowed l n fill)
  = match fill with None => S (length l) - n | Some _ => length l end.
Proof. destruct fill; cbn [spec_windowed]; rewrite map_length, seq_length; reflexivity. Qed.

Lemma spec_windowed_sizes l n fill :
  1 <= n -> Forall (fun w => length w = n) (spec_windowed l n fill).
Proof.
  intro Hn. apply Forall_forall. intros w Hw. destruct fill as [f|]; cbn [spec_windowed] in Hw;
    apply in_map_iff in Hw as [j [<- Hj]]; apply in_seq in Hj; apply slice_length.
  - rewrite app_length, repeat_length. lia.
  - lia.
Qed.

(* the j-th window is the slice starting at j: its k-th item is item j+k of
   the input (or fill past the end) *)
Lemma spec_windowed_nth l n f j k :
  1 <= n -> j < length l -> k < n ->
  nth k (nth j (spec_windowed l n (Some f)) []) f = nth (j + k) l f.
Proof.
  intros Hn Hj Hk. cbn [spec_windowed].
  rewrite (nth_indep _ [] (slice (l ++ repeat f (n - 1)) 0 n)) by (rewrite map_length, seq_length; lia).
  rewrite (map_nth (fun i => slice (l ++ repeat f (n - 1)) i n) (seq 0 (length l)) 0 j).
  rewrite seq_nth by lia. cbn [plus]. unfold slice.
  rewrite (firstn_skipn_nth f) by (rewrite app_length, repeat_length; lia).
  rewrite (nth_indep _ f (nth 0 (l ++ repeat f (n - 1)) f)) by (rewrite map_length, seq_length; lia).
  rewrite (map_nth (fun i => nth i (l ++ repeat f (n - 1)) f) (seq j n) 0 k).
  rewrite seq_nth by lia. apply nth_app_repeat.
Qed.
