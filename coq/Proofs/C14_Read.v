(* C14: parse_int_list agrees with the reference reading of every well-formed
   range string (Spec.read_ranges) - not only of the strings format_int_list writes. *)
From Boltons Require Import Lib.Prelude Lib.C14_Text Spec.C14_Spec Model.C14_Model Check.C14_Check
  Proofs.C14_Sh Proofs.C14_Int Proofs.C14_Int2 Proofs.C14_Int3.
Open Scope N_scope.

(* ---- str.strip: decomposition and uniqueness -------------------------------- *)
Definition head_not (p : N -> bool) (s : text) : Prop := forall c r, s = c :: r -> p c = false.
Definition last_not (p : N -> bool) (s : text) : Prop := forall r c, s = r ++ [c] -> p c = false.

Lemma dropwhile_decomp p s :
  exists a, s = a ++ dropwhile p s /\ forallb p a = true /\ head_not p (dropwhile p s).
Proof.
  induction s as [|c r IH].
  - exists []. repeat split. intros c r E. discriminate.
  - cbn [dropwhile]. destruct (p c) eqn:E.
    + destruct IH as (a & Ha & Hp & Hh). exists (c :: a). repeat split.
      * cbn. rewrite <- Ha. reflexivity.
      * cbn. rewrite E, Hp. reflexivity.
      * exact Hh.
    + exists []. repeat split. intros c' r' E'. inversion E'; subst. exact E.
Qed.

Lemma dropwhile_all p a s : forallb p a = true -> dropwhile p (a ++ s) = dropwhile p s.
Proof.
  induction a as [|c r IH]; intro H; [reflexivity|].
  cbn in H. apply andb_true_iff in H as [Hc Hr]. cbn [app dropwhile]. rewrite Hc. apply IH. exact Hr.
Qed.

Lemma dropwhile_head_not p s : head_not p s -> dropwhile p s = s.
Proof. destruct s as [|c r]; intro H; [reflexivity|]. cbn. rewrite (H c r eq_refl). reflexivity. Qed.

Lemma forallb_rev (p : N -> bool) l : forallb p (rev l) = forallb p l.
Proof.
  induction l as [|c r IH]; [reflexivity|]. cbn [rev]. rewrite forallb_app, IH. cbn. rewrite andb_true_r. apply andb_comm.
Qed.

Lemma head_not_rev p s : last_not p s -> head_not p (rev s).
Proof.
  intros H c r E. apply (H (rev r) c). rewrite <- (rev_involutive s), E. reflexivity.
Qed.

Lemma last_not_of_rev p s : head_not p (rev s) -> last_not p s.
Proof. intros H r c E. apply (H c (rev r)). rewrite E, rev_app_distr. reflexivity. Qed.

Lemma strip_unique p s a t b :
  s = a ++ t ++ b -> forallb p a = true -> forallb p b = true -> head_not p t -> last_not p t ->
  strip_by p s = t.
Proof.
  intros -> Ha Hb Hh Hl. unfold strip_by. rewrite dropwhile_all by exact Ha.
  destruct t as [|c r].
  - cbn [app]. assert (E : dropwhile p b = []).
    { rewrite <- (app_nil_r b). rewrite dropwhile_all by exact Hb. reflexivity. }
    rewrite E. reflexivity.
  - rewrite (dropwhile_head_not p ((c :: r) ++ b)).
    + rewrite rev_app_distr. rewrite dropwhile_all by (rewrite forallb_rev; exact Hb).
      rewrite dropwhile_head_not by (apply head_not_rev; exact Hl). apply rev_involutive.
    + intros c' r' E. cbn in E. inversion E; subst. exact (Hh c' r eq_refl).
Qed.

Lemma strip_decomp p s :
  exists a b, s = a ++ strip_by p s ++ b /\ forallb p a = true /\ forallb p b = true
              /\ head_not p (strip_by p s) /\ last_not p (strip_by p s).
Proof.
  unfold strip_by.
  destruct (dropwhile_decomp p s) as (a & Ha & Hpa & Hha).
  destruct (dropwhile_decomp p (rev (dropwhile p s))) as (b & Hb & Hpb & Hhb).
  set (u := dropwhile p s) in *. set (w := dropwhile p (rev u)) in *.
  assert (Eu : u = rev w ++ rev b).
  { rewrite <- (rev_involutive u), Hb, rev_app_distr. reflexivity. }
  exists a, (rev b). repeat split.
  - rewrite Ha at 1. rewrite Eu. reflexivity.
  - exact Hpa.
  - rewrite forallb_rev. exact Hpb.
  - intros c r E. apply (Hha c (r ++ rev b)). rewrite Eu, E. reflexivity.
  - apply last_not_of_rev. rewrite rev_involutive. exact Hhb.
Qed.

(* strip with a larger class, when the ends of the smaller strip are outside it *)
Lemma strip_widen (p q : N -> bool) s :
  (forall c, q c = true -> p c = true) ->
  head_not p (strip_by q s) -> last_not p (strip_by q s) -> strip_by p s = strip_by q s.
Proof.
  intros Hqp Hh Hl. destruct (strip_decomp q s) as (a & b & E & Ha & Hb & _ & _).
  apply (strip_unique p s a _ b E); try assumption.
  - apply forallb_forall. intros c Hc. apply Hqp. eapply forallb_forall in Ha; eassumption.
  - apply forallb_forall. intros c Hc. apply Hqp. eapply forallb_forall in Hb; eassumption.
Qed.

(* ---- numerals ------------------------------------------------------------------ *)
Lemma py_int_of_strip a t :
  map to_ascii a = a -> strip_by int_isspace a = t -> all_digits t -> t <> [] ->
  py_int a = Ok (Z.of_N (digits_val 0 t)).
Proof.
  intros Hm Hs Hd Hne. unfold py_int. rewrite Hm, Hs.
  destruct t as [|c r] eqn:E; [congruence|].
  assert (Hc : is_digit c = true) by (eapply all_digits_head; [exact Hd|reflexivity]).
  apply digit_props in Hc as (_ & _ & Hmi & Hpl & _ & _). rewrite Hmi, Hpl.
  rewrite digits_ok_all by (assumption || (left; discriminate)).
  rewrite filter_all_digits by assumption. reflexivity.
Qed.

Definition sp_or_digit (c : N) : bool := is_sp c || is_digit c.

Lemma sp_or_digit_ascii c : sp_or_digit c = true -> to_ascii c = c.
Proof.
  unfold sp_or_digit, is_sp. intro H. apply orb_true_iff in H as [H|H].
  - apply N.eqb_eq in H. subst c. reflexivity.
  - apply digit_props in H. tauto.
Qed.

Lemma read_numeral_int a v :
  read_numeral a = Some v -> py_int a = Ok v /\ forallb sp_or_digit a = true.
Proof.
  unfold read_numeral. set (t := strip_by is_sp a).
  destruct (negb (is_nil t) && forallb is_digit t) eqn:E; [|discriminate].
  intro H. inversion H; subst v. clear H.
  apply andb_true_iff in E as [Hn Hd]. assert (Hne : t <> []) by (destruct t; [discriminate|discriminate]).
  destruct (strip_decomp is_sp a) as (x & y & Ea & Hx & Hy & _ & _). fold t in Ea.
  assert (Hall : forallb sp_or_digit a = true).
  { rewrite Ea, !forallb_app. unfold sp_or_digit.
    assert (Hsp : forall l, forallb is_sp l = true -> forallb (fun c => is_sp c || is_digit c) l = true).
    { intros l Hl. apply forallb_forall. intros c Hc. eapply forallb_forall in Hl; [|exact Hc]. rewrite Hl. reflexivity. }
    rewrite (Hsp x Hx), (Hsp y Hy). cbn [andb]. rewrite andb_true_r.
    apply forallb_forall. intros c Hc. eapply forallb_forall in Hd; [|exact Hc]. rewrite Hd. apply orb_true_r. }
  split; [|exact Hall].
  apply py_int_of_strip; try assumption.
  - clear -Hall. induction a as [|c r IH]; [reflexivity|]. cbn in Hall. apply andb_true_iff in Hall as [Hc Hr].
    cbn [map]. rewrite (sp_or_digit_ascii c Hc), (IH Hr). reflexivity.
  - assert (Hsi : forall l, forallb is_sp l = true -> forallb int_isspace l = true).
    { intros l Hl. apply forallb_forall. intros c Hc. eapply forallb_forall in Hl; [|exact Hc].
      unfold is_sp in Hl. apply N.eqb_eq in Hl. subst c. reflexivity. }
    apply (strip_unique int_isspace a x t y Ea (Hsi x Hx) (Hsi y Hy)).
    + intros c r Ec. apply (all_digits_head _ _ _ Hd) in Ec. apply digit_props in Ec. tauto.
    + intros r c Ec. apply (all_digits_last _ _ _ Hd) in Ec. apply digit_props in Ec. tauto.
Qed.

(* ---- splitting: shapes and characters --------------------------------------------- *)
Lemma split1_single_inv rd p a : split1 rd p = [a] -> memN rd p = false /\ a = p.
Proof.
  revert a. induction p as [|c r IH]; intros a H.
  - cbn in H. inversion H. split; reflexivity.
  - cbn [split1] in H. pose proof (split1_nonnil rd r) as Hn.
    destruct (split1 rd r) as [|w ws] eqn:E; [congruence|].
    destruct (c =? rd) eqn:Ec; [discriminate|].
    inversion H; subst. destruct (IH w eq_refl) as [Hm Hw]. subst w. split; [|reflexivity].
    unfold memN. cbn [existsb]. rewrite N.eqb_sym, Ec. exact Hm.
Qed.

Lemma split1_chars d t c : In c t -> c = d \/ exists w, In w (split1 d t) /\ In c w.
Proof.
  induction t as [|c0 r IH]; intro H; [destruct H|].
  cbn [split1]. pose proof (split1_nonnil d r) as Hn. destruct (split1 d r) as [|w ws] eqn:E; [congruence|].
  destruct H as [<-|H].
  - destruct (c0 =? d) eqn:Ec.
    + left. apply N.eqb_eq. exact Ec.
    + right. exists (c0 :: w). split; left; reflexivity.
  - destruct (IH H) as [->|(w' & Hw' & Hc)]; [left; reflexivity|]. right.
    destruct (c0 =? d).
    + exists w'. split; [right; exact Hw'|exact Hc].
    + destruct Hw' as [<-|Hw'].
      * exists (c0 :: w). split; [left; reflexivity|right; exact Hc].
      * exists w'. split; [right; exact Hw'|exact Hc].
Qed.

Lemma split1_pieces_chars rd p w c : In w (split1 rd p) -> In c w -> In c p.
Proof.
  revert w. induction p as [|c0 r IH]; intros w Hw Hc.
  - cbn in Hw. destruct Hw as [<-|[]]. destruct Hc.
  - cbn [split1] in Hw. pose proof (split1_nonnil rd r) as Hn.
    destruct (split1 rd r) as [|w0 ws] eqn:E; [congruence|].
    destruct (c0 =? rd).
    + destruct Hw as [<-|Hw]; [destruct Hc|]. right. eapply IH; eassumption.
    + destruct Hw as [<-|Hw].
      * destruct Hc as [<-|Hc]; [left; reflexivity|]. right. apply (IH w0); [left; reflexivity|exact Hc].
      * right. apply (IH w); [right; exact Hw|exact Hc].
Qed.

Section ReadProof.
  Variables d rd : N.
  (* the characters of a well-formed piece *)
  Definition okc (c : N) : bool := sp_or_digit c || (c =? rd).

  Lemma read_piece_parse p vals rest out :
    read_piece rd p = Some vals ->
    parse_parts [rd] (p :: rest) out = parse_parts [rd] rest (out ++ vals)
    /\ forallb okc p = true.
  Proof.
    unfold read_piece. destruct p as [|c0 p0].
    - cbn [is_nil]. intro H. inversion H; subst. cbn. rewrite app_nil_r. split; reflexivity.
    - cbn [is_nil]. set (p := c0 :: p0). intro H.
      destruct (split1 rd p) as [|a [|b [|x l]]] eqn:E; try discriminate.
      + destruct (read_numeral a) as [v|] eqn:Ea; [|discriminate]. cbn in H. inversion H; subst vals.
        destruct (split1_single_inv _ _ _ E) as [Hm ->].
        destruct (read_numeral_int _ _ Ea) as [Hi Hch].
        split.
        * cbn [parse_parts]. rewrite contains_single, Hm. unfold p at 1. cbn [is_nil]. rewrite Hi. reflexivity.
        * apply forallb_forall. intros c Hc. eapply forallb_forall in Hch; [|exact Hc]. unfold okc. rewrite Hch. reflexivity.
      + destruct (read_numeral a) as [x|] eqn:Ea; [|discriminate].
        destruct (read_numeral b) as [y|] eqn:Eb; [|discriminate]. inversion H; subst vals.
        destruct (read_numeral_int _ _ Ea) as [Hia Hca]. destruct (read_numeral_int _ _ Eb) as [Hib Hcb].
        assert (Hm : memN rd p = true).
        { destruct (memN rd p) eqn:Em; [reflexivity|]. rewrite (split1_nosep _ _ Em) in E. discriminate. }
        split.
        * cbn [parse_parts]. rewrite contains_single, Hm, py_split_single, E. cbn [map_res]. rewrite Hia, Hib.
          cbn [list_minZ list_maxZ fold_left]. reflexivity.
        * apply forallb_forall. intros c Hc.
          destruct (split1_chars rd p c Hc) as [->|(w & Hw & Hcw)].
          -- unfold okc. rewrite N.eqb_refl. apply orb_true_r.
          -- rewrite E in Hw. unfold okc. destruct Hw as [<-|[<-|[]]].
             ++ eapply forallb_forall in Hca; [|exact Hcw]. rewrite Hca. reflexivity.
             ++ eapply forallb_forall in Hcb; [|exact Hcw]. rewrite Hcb. reflexivity.
  Qed.

  Lemma read_pieces_parse ps : forall l out,
    read_pieces rd ps = Some l ->
    parse_parts [rd] ps out = Ok (sortZ (out ++ l)) /\ Forall (fun p => forallb okc p = true) ps.
  Proof.
    induction ps as [|p r IH]; intros l out H.
    - cbn in H. inversion H; subst. cbn. rewrite app_nil_r. split; [reflexivity|constructor].
    - cbn [read_pieces] in H. destruct (read_piece rd p) as [a|] eqn:Ea; [|discriminate].
      destruct (read_pieces rd r) as [b|] eqn:Eb; [|discriminate]. inversion H; subst l.
      destruct (read_piece_parse p a r out Ea) as [Hp Hc]. destruct (IH b (out ++ a) eq_refl) as [Hr Hf].
      split; [|constructor; assumption]. rewrite Hp, Hr, <- app_assoc. reflexivity.
  Qed.

  Hypothesis Hd_space : py_isspace d = false.
  Hypothesis Hrd_space : py_isspace rd = false.

  Theorem parse_reads s l :
    read_ranges d rd s = Some l -> parse_int_list s [d] [rd] = Ok l.
  Proof.
    unfold read_ranges. set (t := strip_by is_sp s).
    destruct (read_pieces rd (split1 d t)) as [l0|] eqn:E; [|discriminate].
    cbn [option_map]. intro H. inversion H; subst l. clear H.
    destruct (read_pieces_parse _ _ [] E) as [Hp Hf]. cbn [app] in Hp.
    unfold parse_int_list.
    assert (Hokc : forall c, In c t -> is_sp c = false -> py_isspace c = false).
    { intros c Hc Hns. destruct (split1_chars d t c Hc) as [->|(w & Hw & Hcw)]; [exact Hd_space|].
      rewrite Forall_forall in Hf. specialize (Hf w Hw). eapply forallb_forall in Hf; [|exact Hcw].
      unfold okc, sp_or_digit in Hf. rewrite Hns in Hf. cbn [orb] in Hf. apply orb_true_iff in Hf as [Hf|Hf].
      - apply digit_props in Hf. tauto.
      - apply N.eqb_eq in Hf. subst c. exact Hrd_space. }
    assert (Hstrip : strip_by py_isspace s = t).
    { destruct (strip_decomp is_sp s) as (a & b & Es & Ha & Hb & Hh & Hl). fold t in Es, Hh, Hl.
      apply (strip_widen py_isspace is_sp s).
      - intros c Hc. unfold is_sp in Hc. apply N.eqb_eq in Hc. subst c. reflexivity.
      - fold t. intros c r Ec. apply Hokc; [rewrite Ec; left; reflexivity|exact (Hh c r Ec)].
      - fold t. intros r c Ec. apply Hokc; [rewrite Ec; apply in_or_app; right; left; reflexivity|exact (Hl r c Ec)]. }
    rewrite Hstrip, py_split_single. exact Hp.
  Qed.
End ReadProof.

Theorem parse_agrees_with_reading d rd s l :
  delims_ok [d] [rd] = true -> read_ranges d rd s = Some l -> parse_int_list s [d] [rd] = Ok l.
Proof.
  unfold delims_ok, delim_char_ok. intro H.
  apply andb_true_iff in H as [H _]. apply andb_true_iff in H as [H1 H2].
  apply andb_true_iff in H1 as [_ Hd2]. apply andb_true_iff in H2 as [Hr1 Hr2].
  rewrite negb_true_iff in *.
  apply parse_reads; try assumption.
Qed.
