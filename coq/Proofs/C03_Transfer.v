(* C03: `agree` transfers to `holds`.  If the model, run serially in some lock order, produces an
   outcome, that outcome satisfies the formal Spec predicate that `holds` evaluates
   (Spec.C03_Spec.spec_holds): so on every run where the implementation's observation equals the
   model's (agree), the implementation's observation satisfies the Spec. *)
From Boltons Require Import Lib.Prelude Lib.C03_Syntax Lib.C03_Conc Model.C03_Model Spec.C03_Spec
     Proofs.C03_Link1 Proofs.C03_Link2 Proofs.C03_Link4 Proofs.C03_Link3
     Proofs.C03_SpecLink Proofs.C03_SpecLink2 Proofs.C03_SpecLink3 Proofs.C03_Complete Proofs.C03_CompleteCalls
     Proofs.C03_FinalOk Proofs.C03_Probe.
From Boltons Require Import Gen.C03_Gen Check.C03_Check.
From Boltons Require Lib.C02_Syntax Model.C02_Model.

(* ---- the model run in a lock order (Check.model_order) as an accepted event sequence --------- *)
Definition th_ops (ths : list mthread) (t : nat) : list op := fst (nth t ths ([], [])).
Definition th_res (ths : list mthread) (t : nat) : list rv := snd (nth t ths ([], [])).

Lemma nth_nth_upd_same {X} (l : list X) i f d : i < length l -> nth i (nth_upd l i f) d = f (nth i l d).
Proof. revert i. induction l; intros [|i] H; simpl in *; try lia; auto. apply IHl. lia. Qed.

Lemma nth_nth_upd_other {X} (l : list X) i j f d : i <> j -> nth j (nth_upd l i f) d = nth j l d.
Proof. revert i j. induction l; intros [|i] [|j] H; simpl; auto; try congruence. Qed.

Lemma nth_upd_length {X} (l : list X) i f : length (nth_upd l i f) = length l.
Proof. revert i. induction l; intros [|i]; simpl; auto. Qed.

Lemma m_calls_r_calls cf s m o : stands_for cf s m -> m_calls cf s o = r_calls (rc_of cf) (M2.ring m) o.
Proof.
  intro SF. pose proof (stands_for_store _ _ _ SF) as ES. destruct SF as [[_ _ SAME _ _ _] _].
  unfold m_calls, r_calls, r_lookup. rewrite ES. simpl r_miss.
  destruct o; try reflexivity; now rewrite SAME.
Qed.

Lemma model_order_accepted tb cf : 1 <= cf_max cf -> forall order s ths m sf thsf,
  stands_for cf s m -> (forall t, Forall wf_op (th_ops ths t)) ->
  model_order tb cf s ths order = Some (sf, thsf) ->
  exists mf (tr : list event),
    stands_for cf sf mf
    /\ spec_replay (rc_of cf) (M2.ring m) tr = Some (M2.ring mf)
    /\ length thsf = length ths
    /\ (forall e, In e tr -> fst (fst e) < length ths)
    /\ (forall t, th_ops ths t = ops_of t tr ++ th_ops thsf t)
    /\ (forall t, th_res thsf t = th_res ths t ++ results_of t tr)
    /\ model_order_calls tb cf s ths order = replay_calls (rc_of cf) (M2.ring m) tr.
Proof.
  intros Hmax. induction order as [|[t i] r IH]; intros s ths m sf thsf SF WF MO; simpl in MO.
  - inversion MO; subst. exists m, []. split; [exact SF|]. split; [reflexivity|]. split; [reflexivity|].
    split; [intros e []|]. split; [|split]; try (intro t; unfold ops_of, results_of; simpl; now rewrite ?app_nil_r).
    reflexivity.
  - destruct (nth_error ths t) as [[[|o todo] done]|] eqn:NE; try discriminate.
    destruct (Nat.eqb i (length done)) eqn:EI; [|discriminate].
    assert (Ht : t < length ths) by (apply nth_error_Some; congruence).
    assert (NT : nth t ths ([], []) = (o :: todo, done)) by (apply nth_error_nth; exact NE).
    assert (Wo : wf_op o /\ Forall wf_op todo).
    { specialize (WF t). unfold th_ops in WF. rewrite NT in WF. simpl in WF. inversion WF; auto. }
    pose proof (op_accepted_by_c03_spec tb cf s m o Hmax (proj1 Wo) SF) as OA.
    assert (CALLS : model_order_calls tb cf s ths ((t, i) :: r)
                    = let '(s', x) := run_op tb cf s o in
                      m_calls cf s o + model_order_calls tb cf s' (nth_upd ths t (fun _ => (todo, done ++ [x]))) r).
    { simpl. rewrite NE, EI. reflexivity. }
    destruct (run_op tb cf s o) as [s' x]. destruct OA as [m' [SF' A]].
    set (ths' := nth_upd ths t (fun _ => (todo, done ++ [x]))) in *.
    assert (WF' : forall u, Forall wf_op (th_ops ths' u)).
    { intro u. unfold th_ops, ths'. destruct (Nat.eq_dec u t) as [->|NEu].
      - rewrite nth_nth_upd_same by exact Ht. exact (proj2 Wo).
      - rewrite nth_nth_upd_other by congruence. apply WF. }
    destruct (IH s' ths' m' sf thsf SF' WF' MO) as [mf [tr [SFf [RP [LN [B [PO [PR PC]]]]]]]].
    exists mf, ((t, o, x) :: tr).
    split; [exact SFf|]. split; [simpl; rewrite A; exact RP|].
    split; [rewrite LN; apply nth_upd_length|].
    split.
    { intros e [<-|He]; [exact Ht|]. specialize (B e He). unfold ths' in B. now rewrite nth_upd_length in B. }
    split; [|split]; [| |rewrite CALLS, PC, (m_calls_r_calls cf s m o SF); simpl; fold (rc_of cf); rewrite A; reflexivity];
      intro u; specialize (PO u); specialize (PR u); unfold th_ops, th_res, ths', ops_of, results_of in *; simpl.
    + destruct (Nat.eq_dec u t) as [->|NEu].
      * rewrite Nat.eqb_refl. rewrite nth_nth_upd_same in PO by exact Ht. rewrite NT. simpl in *. now rewrite PO.
      * rewrite nth_nth_upd_other in PO by congruence.
        destruct (Nat.eqb_spec t u); [congruence|]. exact PO.
    + destruct (Nat.eq_dec u t) as [->|NEu].
      * rewrite Nat.eqb_refl. rewrite nth_nth_upd_same in PR by exact Ht. rewrite NT. simpl in *.
        rewrite PR. now rewrite <- app_assoc.
      * rewrite nth_nth_upd_other in PR by congruence.
        destruct (Nat.eqb_spec t u); [congruence|]. exact PR.
Qed.

(* ---- zip_progs ------------------------------------------------------------------------------- *)
Lemma zip_ok : forall (ps : list (list op)) (rs : list (list rv)),
  length ps = length rs ->
  (forall i, i < length ps -> length (nth i ps []) = length (nth i rs [])) ->
  exists z, zip_progs ps rs = Some z /\ length z = length ps
            /\ (forall i, i < length ps -> nth i z [] = combine (nth i ps []) (nth i rs []))
            /\ size z <= total_ops ps.
Proof.
  induction ps as [|p ps IH]; intros [|r rs] L H; simpl in L; try discriminate.
  - exists []. simpl. repeat split; auto. intros i Hi. lia.
  - assert (L0 : length p = length r) by (apply (H 0); simpl; lia).
    destruct (IH rs) as [z [E [Lz [N Sz]]]]; [lia| |].
    { intros i Hi. apply (H (S i)). simpl. lia. }
    exists (combine p r :: z). simpl. rewrite L0, Nat.eqb_refl, E.
    split; [reflexivity|]. split; [now rewrite Lz|]. split.
    + intros [|i] Hi; [reflexivity|]. apply N. lia.
    + rewrite combine_length. unfold total_ops in *. simpl. lia.
Qed.

Lemma ops_results_length t (tr : list event) : length (ops_of t tr) = length (results_of t tr).
Proof. unfold ops_of, results_of. now rewrite !map_length. Qed.

(* ---- the initial contents ------------------------------------------------------------------------ *)
Lemma init_link tb cf : 1 <= cf_max cf -> forall init s m,
  stands_for cf s m ->
  exists m', stands_for cf (run_ops tb cf s (init_ops init)) m'
             /\ M2.ring m' = fold_left (fun l p => r_insert (rc_of cf) l (fst p) (snd p)) init (M2.ring m).
Proof.
  intros Hmax. induction init as [|[k v] r IH]; intros s m SF; simpl.
  - exists m. split; [exact SF|reflexivity].
  - pose proof (op_accepted_by_c03_spec tb cf s m (SetItem k v) Hmax I SF) as OA.
    unfold run_ops. simpl. fold (run_ops tb cf (fst (run_op tb cf s (SetItem k v))) (init_ops r)).
    destruct (run_op tb cf s (SetItem k v)) as [s' x]. destruct OA as [m' [SF' A]].
    unfold r_accepts in A. simpl in A. destruct (rv_eqb x RNone); [|discriminate]. inversion A as [A'].
    simpl. destruct (IH s' m' SF') as [m'' [SF'' R'']]. exists m''. split; [exact SF''|].
    rewrite R'', <- A'. reflexivity.
Qed.

(* ---- assembly ---------------------------------------------------------------------------------------- *)
(* key tokens of the cases are below 100 (the probe's fresh keys are 100, 101, ...) *)
Definition small_op (o : op) : Prop := forall k, In k (op_keys o) -> k < 100.

Definition wf_case (c : c03_case) : Prop :=
  1 <= ca_max c /\ Forall (Forall wf_op) (ca_progs c)
  /\ Forall (Forall small_op) (ca_progs c) /\ (forall p, In p (ca_init c) -> fst p < 100).

Lemma replay_small rc : forall (tr : list event) l lf,
  spec_replay rc l tr = Some lf -> small l ->
  (forall e, In e tr -> small_op (snd (fst e))) -> small lf.
Proof.
  induction tr as [|[[t o] x] tr IH]; intros l lf RP SM SO.
  - simpl in RP. inversion RP; subst. exact SM.
  - simpl in RP. destruct (r_accepts rc l o x) as [l'|] eqn:A; [|discriminate].
    apply (IH l' lf RP); [|intros e He; apply SO; now right].
    intros k Hk. destruct (keys_r_accepts rc l o x l' k A Hk) as [H|H]; [now apply SM|].
    apply (SO (t, o, x)); [now left|exact H].
Qed.

Lemma in_ops_of t o x (tr : list event) : In (t, o, x) tr -> In o (ops_of t tr).
Proof.
  intro H. unfold ops_of. apply in_map_iff. exists (t, o, x). split; [reflexivity|].
  apply filter_In. split; [exact H|]. simpl. apply Nat.eqb_refl.
Qed.

Lemma nth_ths0 (ps : list (list op)) t :
  nth t (map (fun p : list op => (p, @nil rv)) ps) ([], []) = (nth t ps [], []).
Proof.
  change (@nil op, @nil rv) with ((fun p : list op => (p, @nil rv)) []) at 1. apply map_nth.
Qed.

Section Assembly.
  Theorem model_outcome_holds tb (c : c03_case) order o :
    wf_case c -> model_outcome tb c order = Some o ->
    spec_holds (case_rcfg c) (ca_init c) (ca_progs c) o = true.
  Proof.
    intros [Hmax [WFp [SMp SMi]]] MO. unfold model_outcome in MO.
    set (cf := case_cfg c) in *.
    change (case_rcfg c) with (rc_of cf).
    destruct (init_link tb cf Hmax (ca_init c) shared_init M2.empty_cache (stands_for_init cf)) as [m0 [SF0 R0]].
    set (s0 := run_ops tb cf shared_init (init_ops (ca_init c))) in *.
    set (ths0 := map (fun p : list op => (p, @nil rv)) (ca_progs c)) in *.
    destruct (model_order tb cf s0 ths0 order) as [[s ths]|] eqn:EM; [|discriminate MO].
    match type of MO with (if ?b then _ else _) = _ => destruct b eqn:FB end; [|discriminate MO].
    assert (WF0 : forall t, Forall wf_op (th_ops ths0 t)).
    { intro t. unfold th_ops, ths0. rewrite nth_ths0. simpl.
      destruct (Nat.lt_ge_cases t (length (ca_progs c))) as [Lt|Ge].
      - rewrite Forall_forall in WFp. apply WFp. apply nth_In. exact Lt.
      - rewrite nth_overflow by exact Ge. constructor. }
    destruct (model_order_accepted tb cf Hmax order s0 ths0 m0 s ths SF0 WF0 EM)
      as [mf [tr [SFf [RP [LN [B [PO [PR PC]]]]]]]].
    (* every thread finished *)
    assert (DONE : forall t, th_ops ths t = []).
    { intro t. unfold th_ops. destruct (Nat.lt_ge_cases t (length ths)) as [Lt|Ge].
      - rewrite forallb_forall in FB. specialize (FB (nth t ths ([], [])) (nth_In _ _ Lt)).
        destruct (fst (nth t ths ([], []))); [reflexivity|discriminate].
      - now rewrite nth_overflow. }
    assert (LP : length ths0 = length (ca_progs c)) by (unfold ths0; apply map_length).
    assert (OPS : forall t, t < length (ca_progs c) -> nth t (ca_progs c) [] = ops_of t tr).
    { intros t Lt. specialize (PO t). rewrite DONE, app_nil_r in PO. rewrite <- PO.
      unfold th_ops, ths0. now rewrite nth_ths0. }
    assert (SMf : small (M2.ring mf)).
    { apply (replay_small (rc_of cf) tr (M2.ring m0) (M2.ring mf) RP).
      - rewrite R0. intros k Hk. destruct (keys_fold_insert _ _ _ _ Hk) as [[]|H].
        apply in_map_iff in H as [p [<- Hp]]. now apply SMi.
      - intros [[t o'] x] He. simpl.
        assert (Lt : t < length (ca_progs c)) by (pose proof (B _ He) as Be; unfold ths0 in Be; rewrite map_length in Be; exact Be).
        pose proof (in_ops_of t o' x tr He) as Ho. rewrite <- (OPS t Lt) in Ho.
        rewrite Forall_forall in SMp. specialize (SMp _ (nth_In (ca_progs c) [] Lt)). rewrite Forall_forall in SMp. now apply SMp. }
    rewrite (probe_correct tb cf s mf Hmax SFf SMf) in MO. inversion MO; subst o; clear MO.
    assert (RES : forall t, t < length (ca_progs c) -> nth t (map snd ths) [] = results_of t tr).
    { intros t Lt. specialize (PR t). unfold th_res, ths0 in PR. rewrite nth_ths0 in PR.
      simpl in PR. rewrite <- PR. change (@nil rv) with (snd (@nil op, @nil rv)). now rewrite map_nth. }
    destruct (zip_ok (ca_progs c) (map snd ths)) as [z [EZ [LZ [NZ SZ]]]].
    { rewrite map_length. transitivity (length ths0); [symmetry; exact LP|symmetry; exact LN]. }
    { intros i Hi. rewrite (OPS i Hi), (RES i Hi). apply ops_results_length. }
    unfold spec_holds, size_ok, serial_witness. simpl o_status. simpl o_results. rewrite EZ. simpl o_len.
    destruct (final_items_ok cf s mf SFf) as [F1 [F2 [F3 F4]]].
    assert (SZok : Nat.leb (view_len s) (r_max (rc_of cf)) = true) by (apply Nat.leb_le; exact F4).
    rewrite SZok. simpl.
    set (o := mkOutcome Done (map snd ths) (view_items s) (view_len s)
                        (expected_probe (rc_of cf) (M2.ring mf)) None (cf_max cf)).
    assert (FIN : final_ok (rc_of cf) o (M2.ring mf) = true).
    { unfold final_ok, o. simpl. rewrite F1, F2, F3. simpl.
      rewrite Nat.eqb_refl.
      assert (LE : list_eqb (list_eqb Nat.eqb) (expected_probe (rc_of cf) (M2.ring mf))
                           (expected_probe (rc_of cf) (M2.ring mf)) = true).
      { apply (proj2 (list_eqb_eq _ (fun a b => list_eqb_eq Nat.eqb Nat.eqb_eq a b) _ _)). reflexivity. }
      rewrite LE. reflexivity. }
    assert (ACC : accepted (rc_of cf) (final_ok (rc_of cf) o) (r_init (rc_of cf) (ca_init c)) z).
    { apply (trace_to_accepted (rc_of cf) (final_ok (rc_of cf) o) tr _ (M2.ring mf) z).
      - assert (E0 : r_init (rc_of cf) (ca_init c) = M2.ring m0) by (rewrite R0; reflexivity).
        rewrite E0. exact RP.
      - exact FIN.
      - intros e He. pose proof (B e He) as Be. unfold ths0 in Be. rewrite map_length in Be. rewrite <- LZ in Be. exact Be.
      - intros t Ht0. assert (Ht : t < length (ca_progs c)) by (rewrite <- LZ; exact Ht0).
        etransitivity; [exact (NZ t Ht)|]. rewrite (OPS t Ht), (RES t Ht). reflexivity. }
    pose proof (find_serial_complete (rc_of cf) (final_ok (rc_of cf) o) _ z ACC (total_ops (ca_progs c)) SZ) as FS.
    match goal with |- match ?X with _ => _ end = true =>
      change X with (find_serial (total_ops (ca_progs c)) (rc_of cf) (r_init (rc_of cf) (ca_init c)) z
                                 (final_ok (rc_of cf) o)) end.
    destruct (find_serial (total_ops (ca_progs c)) (rc_of cf) (r_init (rc_of cf) (ca_init c)) z
                          (final_ok (rc_of cf) o)); [reflexivity|congruence].
  Qed.

  Theorem model_outcome_calls_ok tb (c : c03_case) order o :
    wf_case c -> model_outcome tb c order = Some o ->
    calls_ok (case_rcfg c) (ca_init c) (ca_progs c) o (model_calls tb c order) = true.
  Proof.
    intros [Hmax [WFp [SMp SMi]]] MO. unfold model_outcome in MO.
    set (cf := case_cfg c) in *.
    change (case_rcfg c) with (rc_of cf).
    destruct (init_link tb cf Hmax (ca_init c) shared_init M2.empty_cache (stands_for_init cf)) as [m0 [SF0 R0]].
    set (s0 := run_ops tb cf shared_init (init_ops (ca_init c))) in *.
    set (ths0 := map (fun p : list op => (p, @nil rv)) (ca_progs c)) in *.
    destruct (model_order tb cf s0 ths0 order) as [[s ths]|] eqn:EM; [|discriminate MO].
    match type of MO with (if ?b then _ else _) = _ => destruct b eqn:FB end; [|discriminate MO].
    assert (WF0 : forall t, Forall wf_op (th_ops ths0 t)).
    { intro t. unfold th_ops, ths0. rewrite nth_ths0. simpl.
      destruct (Nat.lt_ge_cases t (length (ca_progs c))) as [Lt|Ge].
      - rewrite Forall_forall in WFp. apply WFp. apply nth_In. exact Lt.
      - rewrite nth_overflow by exact Ge. constructor. }
    destruct (model_order_accepted tb cf Hmax order s0 ths0 m0 s ths SF0 WF0 EM)
      as [mf [tr [SFf [RP [LN [B [PO [PR PC]]]]]]]].
    (* every thread finished *)
    assert (DONE : forall t, th_ops ths t = []).
    { intro t. unfold th_ops. destruct (Nat.lt_ge_cases t (length ths)) as [Lt|Ge].
      - rewrite forallb_forall in FB. specialize (FB (nth t ths ([], [])) (nth_In _ _ Lt)).
        destruct (fst (nth t ths ([], []))); [reflexivity|discriminate].
      - now rewrite nth_overflow. }
    assert (LP : length ths0 = length (ca_progs c)) by (unfold ths0; apply map_length).
    assert (OPS : forall t, t < length (ca_progs c) -> nth t (ca_progs c) [] = ops_of t tr).
    { intros t Lt. specialize (PO t). rewrite DONE, app_nil_r in PO. rewrite <- PO.
      unfold th_ops, ths0. now rewrite nth_ths0. }
    assert (SMf : small (M2.ring mf)).
    { apply (replay_small (rc_of cf) tr (M2.ring m0) (M2.ring mf) RP).
      - rewrite R0. intros k Hk. destruct (keys_fold_insert _ _ _ _ Hk) as [[]|H].
        apply in_map_iff in H as [p [<- Hp]]. now apply SMi.
      - intros [[t o'] x] He. simpl.
        assert (Lt : t < length (ca_progs c)) by (pose proof (B _ He) as Be; unfold ths0 in Be; rewrite map_length in Be; exact Be).
        pose proof (in_ops_of t o' x tr He) as Ho. rewrite <- (OPS t Lt) in Ho.
        rewrite Forall_forall in SMp. specialize (SMp _ (nth_In (ca_progs c) [] Lt)). rewrite Forall_forall in SMp. now apply SMp. }
    rewrite (probe_correct tb cf s mf Hmax SFf SMf) in MO. inversion MO; subst o; clear MO.
    assert (RES : forall t, t < length (ca_progs c) -> nth t (map snd ths) [] = results_of t tr).
    { intros t Lt. specialize (PR t). unfold th_res, ths0 in PR. rewrite nth_ths0 in PR.
      simpl in PR. rewrite <- PR. change (@nil rv) with (snd (@nil op, @nil rv)). now rewrite map_nth. }
    destruct (zip_ok (ca_progs c) (map snd ths)) as [z [EZ [LZ [NZ SZ]]]].
    { rewrite map_length. transitivity (length ths0); [symmetry; exact LP|symmetry; exact LN]. }
    { intros i Hi. rewrite (OPS i Hi), (RES i Hi). apply ops_results_length. }
    unfold calls_ok. simpl o_status. simpl o_results. rewrite EZ.
    destruct (final_items_ok cf s mf SFf) as [F1 [F2 [F3 F4]]].
    set (o := mkOutcome Done (map snd ths) (view_items s) (view_len s)
                        (expected_probe (rc_of cf) (M2.ring mf)) None (cf_max cf)).
    assert (FIN : final_ok (rc_of cf) o (M2.ring mf) = true).
    { unfold final_ok, o. simpl. rewrite F1, F2, F3. simpl.
      rewrite Nat.eqb_refl.
      assert (LE : list_eqb (list_eqb Nat.eqb) (expected_probe (rc_of cf) (M2.ring mf))
                           (expected_probe (rc_of cf) (M2.ring mf)) = true).
      { apply (proj2 (list_eqb_eq _ (fun a b => list_eqb_eq Nat.eqb Nat.eqb_eq a b) _ _)). reflexivity. }
      rewrite LE. reflexivity. }
    assert (MC : model_calls tb c order = replay_calls (rc_of cf) (M2.ring m0) tr).
    { unfold model_calls. fold cf. fold s0. fold ths0. exact PC. }
    set (fin := fun (s1 : rcache) (n : nat) => final_ok (rc_of cf) o s1 && Nat.eqb n (model_calls tb c order)).
    assert (ACC : accepted_c (rc_of cf) fin (r_init (rc_of cf) (ca_init c)) 0 z).
    { assert (E0 : r_init (rc_of cf) (ca_init c) = M2.ring m0) by (rewrite R0; reflexivity).
      apply (trace_to_accepted_c (rc_of cf) fin tr _ 0 (M2.ring mf) z).
      - rewrite E0. exact RP.
      - unfold fin. rewrite FIN. simpl. rewrite E0, MC. apply Nat.eqb_refl.
      - intros e He. pose proof (B e He) as Be. unfold ths0 in Be. rewrite map_length in Be. rewrite <- LZ in Be. exact Be.
      - intros t Ht0. assert (Ht : t < length (ca_progs c)) by (rewrite <- LZ; exact Ht0).
        etransitivity; [exact (NZ t Ht)|]. rewrite (OPS t Ht), (RES t Ht). reflexivity. }
    exact (find_serial_calls_complete (rc_of cf) fin _ 0 z ACC (total_ops (ca_progs c)) SZ).
  Qed.
End Assembly.

(* ---- boolean equalities are equalities ------------------------------------------------------------- *)
Lemma kv_eqb_iff (a b : K * V) : kv_eqb a b = true <-> a = b.
Proof.
  destruct a as [k v], b as [k' v']. unfold kv_eqb. simpl. rewrite andb_true_iff, !Nat.eqb_eq.
  split; [intros [-> ->]; reflexivity|intro E; inversion E; auto].
Qed.

Lemma exn_eqb_iff (a b : exn) : exn_eqb a b = true <-> a = b.
Proof.
  split.
  - destruct a, b; simpl; intro H; try discriminate; try reflexivity; apply Nat.eqb_eq in H; now subst.
  - intros <-. destruct a; simpl; try reflexivity; apply Nat.eqb_refl.
Qed.

Lemma rv_eqb_iff (a b : rv) : rv_eqb a b = true <-> a = b.
Proof.
  split; [|intros <-; apply rv_eqb_refl].
  destruct a, b; simpl; intro H; try discriminate; try reflexivity.
  - apply Nat.eqb_eq in H. now subst.
  - apply Bool.eqb_prop in H. now subst.
  - apply andb_true_iff in H as [H1 H2]. apply Nat.eqb_eq in H1, H2. now subst.
  - apply (list_eqb_eq kv_eqb kv_eqb_iff) in H. now subst.
  - apply Nat.eqb_eq in H. now subst.
  - apply exn_eqb_iff in H. now subst.
Qed.

Lemma outcome_eqb_eq (a b : outcome) : outcome_eqb a b = true -> a = b.
Proof.
  destruct a as [s1 r1 i1 l1 p1 e1 q1], b as [s2 r2 i2 l2 p2 e2 q2]. unfold outcome_eqb. simpl.
  rewrite !andb_true_iff. intros [[[[[[Hs Hr] Hi] Hl] Hp] He] Hq].
  assert (s1 = s2) by (destruct s1, s2; simpl in Hs; congruence).
  apply (list_eqb_eq _ (list_eqb_eq rv_eqb rv_eqb_iff)) in Hr.
  apply (list_eqb_eq kv_eqb kv_eqb_iff) in Hi.
  apply Nat.eqb_eq in Hl, Hq.
  apply (list_eqb_eq _ (list_eqb_eq Nat.eqb Nat.eqb_eq)) in Hp.
  assert (e1 = e2).
  { destruct e1, e2; simpl in He; try discriminate; [|reflexivity]. apply exn_eqb_iff in He. now subst. }
  subst. reflexivity.
Qed.

(* ---- agree transfers to holds ------------------------------------------------------------------------ *)
Theorem agree_implies_holds (c : c03_case) (r : c03_run) :
  wf_case c -> run_agree c r = true -> run_holds_core c r = true.
Proof.
  intros WF A. unfold run_agree in A.
  destruct (model_outcome gen_table c (ru_order r)) as [o|] eqn:MO; [|discriminate].
  apply andb_true_iff in A as [A _].
  apply outcome_eqb_eq in A. unfold run_holds_core. rewrite <- A.
  apply (model_outcome_holds gen_table c (ru_order r) o WF MO).
Qed.

(* ... and the on_miss call count the model computes is acceptable too: agree implies the whole holds bit *)
Theorem agree_implies_holds_full (c : c03_case) (r : c03_run) :
  wf_case c -> run_agree c r = true -> run_holds c r = true.
Proof.
  intros WF A. unfold run_holds. rewrite (agree_implies_holds c r WF A). simpl.
  unfold run_agree in A.
  destruct (model_outcome gen_table c (ru_order r)) as [o|] eqn:MO; [|discriminate].
  apply andb_true_iff in A as [A1 A2]. apply outcome_eqb_eq in A1. apply Nat.eqb_eq in A2.
  rewrite <- A1, <- A2. apply (model_outcome_calls_ok gen_table c (ru_order r) o WF MO).
Qed.

Lemma nodupb_ok l : nodupb l = true -> NoDup l.
Proof.
  induction l as [|x r IH]; simpl; intro H; constructor.
  - apply andb_true_iff in H as [H _]. apply negb_true_iff in H. intro I'.
    assert (existsb (Nat.eqb x) r = true) by (apply existsb_exists; exists x; split; [exact I'|apply Nat.eqb_refl]).
    congruence.
  - apply IH. apply andb_true_iff in H. tauto.
Qed.

Lemma wf_caseb_ok (c : c03_case) : wf_caseb c = true -> wf_case c.
Proof.
  unfold wf_caseb, wf_case. rewrite !andb_true_iff. intros [[[H1 H2] H3] H4].
  split; [apply Nat.leb_le; exact H1|]. split; [|split].
  - apply Forall_forall. intros p Hp. apply Forall_forall. intros o Ho.
    rewrite forallb_forall in H2. specialize (H2 p Hp). rewrite forallb_forall in H2. specialize (H2 o Ho).
    destruct o; simpl; auto; apply nodupb_ok; exact H2.
  - apply Forall_forall. intros p Hp. apply Forall_forall. intros o Ho k Hk.
    rewrite forallb_forall in H3. specialize (H3 p Hp). rewrite forallb_forall in H3. specialize (H3 o Ho).
    unfold small_opb in H3. rewrite forallb_forall in H3. apply Nat.ltb_lt. now apply H3.
  - intros p Hp. rewrite forallb_forall in H4. apply Nat.ltb_lt. now apply H4.
Qed.

(* what the check computes: the agree bit implies the holds bit *)
Theorem verdict_agree_implies_holds (c : c03_case) :
  fst (fst (c03_verdict c)) = true -> snd (fst (c03_verdict c)) = true.
Proof.
  unfold c03_verdict. simpl. rewrite andb_true_iff. intros [W A]. apply wf_caseb_ok in W.
  rewrite forallb_forall in *. intros r Hr. apply agree_implies_holds_full; auto.
Qed.
