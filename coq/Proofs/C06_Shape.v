(* C06: every URL that URL(text) returns with a scheme and an authority has the shape the round-trip
   and fixed-point theorems are stated for (scheme without : / ? #, absolute path). *)
From Boltons Require Import Lib.Prelude Lib.C06_Text Model.C06_Model Proofs.C06_Lists.
Open Scope N_scope.

Lemma span_spec p s : forall a b, span p s = (a, b) -> s = a ++ b /\ forallb p a = true /\ stops p b = true.
Proof.
  induction s as [|x r IH]; intros a b H; cbn [span] in H.
  - inversion H; subst. repeat split; reflexivity.
  - destruct (p x) eqn:Px.
    + destruct (span p r) as [a' b'] eqn:E. inversion H; subst.
      destruct (IH a' b eq_refl) as [E1 [E2 E3]]. repeat split.
      * cbn [app]. f_equal. exact E1.
      * cbn [forallb]. rewrite Px, E2. reflexivity.
      * exact E3.
    + inversion H; subst. repeat split; try reflexivity. cbn [stops]. rewrite Px. reflexivity.
Qed.

Lemma span_path_shape rest a b :
  stops (not_in [47; 63; 35]) rest = true -> span (not_in [63; 35]) rest = (a, b) ->
  a = [] \/ exists p', a = 47 :: p'.
Proof.
  intros S H. destruct rest as [|c r]; cbn [span] in H.
  - inversion H. left. reflexivity.
  - cbn [stops] in S. apply negb_true_iff in S. unfold not_in in S. apply negb_false_iff in S.
    cbn [memN] in S. rewrite orb_false_r in S.
    destruct (c =? 47) eqn:E47.
    + apply N.eqb_eq in E47. subst c. change (not_in [63; 35] 47) with true in H.
      destruct (span (not_in [63; 35]) r) as [a' b']. inversion H. right. eauto.
    + cbn [orb] in S. assert (NI : not_in [63; 35] c = false).
      { unfold not_in. cbn [memN]. rewrite orb_false_r. rewrite S. reflexivity. }
      rewrite NI in H. inversion H. left. reflexivity.
Qed.

Lemma url_re_shape_inv s :
  (forall sch, g_scheme (url_re s) = Some sch -> sch <> [] /\ forallb (not_in [58; 47; 63; 35]) sch = true) /\
  (g_authority (url_re s) <> None -> g_path (url_re s) = [] \/ exists p', g_path (url_re s) = 47 :: p').
Proof.
  unfold url_re.
  destruct (span (not_in [58; 47; 63; 35]) s) as [run rest] eqn:E1.
  destruct (span_spec _ _ _ _ E1) as [_ [R1 _]].
  set (X := match run with
            | [] => (None, s)
            | _ :: _ => match rest with 58 :: r => (Some run, r) | _ => (None, s) end
            end).
  assert (HX : forall sch s1, X = (Some sch, s1) -> sch <> [] /\ forallb (not_in [58; 47; 63; 35]) sch = true).
  { unfold X. intros sch s1 H. destruct run as [|r0 rr]; [discriminate|].
    destruct rest as [|c rest']; [discriminate|].
    destruct c as [|pc]; [discriminate|].
    repeat (destruct pc as [pc|pc|]; try discriminate).
    inversion H; subst. split; [discriminate|exact R1]. }
  change (match run with
          | [] => (None, s)
          | _ :: _ => match rest with 58 :: r => (Some run, r) | _ => (None, s) end
          end) with X.
  destruct X as [sch s1] eqn:EX.
  assert (A : forall au s2,
             match s1 with
             | 47 :: 47 :: r => let '(a, r') := span (not_in [47; 63; 35]) r in (Some a, r')
             | _ => (None, s1)
             end = (Some au, s2) -> stops (not_in [47; 63; 35]) s2 = true).
  { intros au s2 H. destruct s1 as [|c1 [|c2 r]]; try discriminate.
    - destruct c1 as [|pc]; [discriminate|]. repeat (destruct pc as [pc|pc|]; try discriminate).
    - destruct c1 as [|pc]; [discriminate|]. repeat (destruct pc as [pc|pc|]; try discriminate).
      destruct c2 as [|pc]; [discriminate|]. repeat (destruct pc as [pc|pc|]; try discriminate).
      destruct (span (not_in [47; 63; 35]) r) as [a r'] eqn:E2. inversion H; subst.
      apply (span_spec _ _ _ _ E2). }
  destruct (match s1 with
            | 47 :: 47 :: r => let '(a, r') := span (not_in [47; 63; 35]) r in (Some a, r')
            | _ => (None, s1)
            end) as [au s2] eqn:EA.
  destruct (span (not_in [63; 35]) s2) as [path s3] eqn:E3.
  destruct (match s3 with 63 :: r => let '(a, r') := span (not_in [35]) r in (Some a, r') | _ => (None, s3) end)
    as [q s4].
  cbn [g_scheme g_authority g_path]. split.
  - intros sch' H. inversion H; subst. apply (HX sch' s1 eq_refl).
  - intro NN. destruct au as [au|]; [|contradiction].
    apply (span_path_shape s2 path s3 (A au s2 eq_refl) E3).
Qed.

Section Shape.
Variable T : tables.
Variable O : oracles.

Lemma parse_url_fields s p :
  parse_url O s = MOk p ->
  pu_scheme p = g_scheme (url_re s) /\
  pu_sep p = (match g_authority (url_re s) with Some _ => true | None => false end) /\
  pu_path p = g_path (url_re s).
Proof.
  unfold parse_url.
  destruct (split_userinfo _) as [[user pw] hostinfo].
  destruct (split_hostport O hostinfo) as [[host port]| |]; cbn [mbind]; try discriminate.
  destruct (parse_host O host) as [[family host']| |]; cbn [mbind]; try discriminate.
  intro H. inversion H; subst. cbn. auto.
Qed.

Lemma unq_if_pct_nil : unq_if_pct T [] = [].
Proof. reflexivity. Qed.

(* a URL returned by URL(text): its scheme, if any, has none of : / ? #; if the text had an
   authority ('//'), the path is empty or absolute, i.e. path_parts starts with '' *)
Theorem parsed_shape t u :
  url_init T O t = MOk u ->
  (u_scheme u <> [] -> forallb (not_in [58; 47; 63; 35]) (u_scheme u) = true) /\
  (u_sep u = true -> exists rest, u_path u = [] :: rest).
Proof.
  unfold url_init. destruct t as [|c t'].
  { intro H. inversion H; subst. cbn. split; [contradiction|discriminate]. }
  destruct (parse_url O (c :: t')) as [p| |] eqn:P; cbn [mbind]; try discriminate.
  destruct (decode_host O (pu_host p)) as [h| |]; cbn [mbind]; try discriminate.
  intro H. inversion H; subst. cbn [u_scheme u_sep u_path]. clear H.
  destruct (parse_url_fields _ _ P) as [Fs [Fa Fp]].
  destruct (url_re_shape_inv (c :: t')) as [S1 S2]. split.
  - intro NE. rewrite Fs in *. destruct (g_scheme (url_re (c :: t'))) as [sch|]; [|contradiction].
    cbn [opt_text] in *. apply (S1 sch eq_refl).
  - intro SEP. rewrite Fa in SEP. rewrite Fp.
    destruct (g_authority (url_re (c :: t'))) as [au|] eqn:EA; [|discriminate].
    destruct (S2 ltac:(discriminate)) as [E|[p' E]]; rewrite E.
    + exists []. reflexivity.
    + cbn [split_on]. rewrite N.eqb_refl. cbn [map]. eexists. reflexivity.
Qed.
End Shape.
