(* C05: after a failed save (cleaned up), an immediate retry completes. *)
From Boltons Require Import Lib.Prelude Model.C04_Model Spec.C04_Spec Check.C04_Check
     Spec.C05_Spec Check.C05_Check Proofs.C04_Hoare Proofs.C04_Inv Proofs.C05_Inv Proofs.C05_Live.
Open Scope nat_scope.

Lemma final_wf c ops raises s0 umask crash sched o w :
  c_dest c <> c_part c -> same_dir (c_part c) = true -> wf s0 ->
  run_save c ops raises s0 umask crash sched = (o, w) -> wf (w_fs w).
Proof.
  intros Hdp Hpd Hwf Hr.
  destruct (run_safe c ops raises s0 umask crash sched Hdp Hpd Hwf) as [(Hs & _) _].
  rewrite Hr in Hs. cbn [snd] in Hs. destruct Hs as [((H & _) & _) | (H & _)]; exact H.
Qed.

Lemma retry_after_failure_lemma c ops raises s0 umask sched e w ops' umask' :
  c_dest c <> c_part c -> same_dir (c_part c) = true -> wf s0 ->
  run_save c ops raises s0 umask None sched = (Exc e, w) ->
  c_rm_part_on_exc c = true ->
  unlink_failed (c_part c) (w_trace w) = false ->
  link_then_unlink_failed (w_trace w) = false ->
  c_fdopen_invalid c = false ->
  OpenFact c s0 ->
  (c_overwrite c = true \/ (f_dir s0 (c_dest c) = None /\ appear_contents sched = [])) ->
  oracle_ok 0 0 ops' = true ->
  exists w', run_save c ops' false (w_fs w) umask' None [] = (Val tt, w') /\
             content_kill (w_fs w') (c_dest c) = Some (new_content ops') /\
             content_power (w_fs w') (c_dest c) = Some (new_content ops') /\
             f_dir (w_fs w') (c_part c) = None.
Proof.
  intros Hdp Hpd Hwf Hr Hrm Hnu Hng Hv Hof Hd Hok.
  pose proof (fault_partial_lemma c ops raises s0 umask sched _ w Hdp Hpd Hwf Hr) as (_ & _ & Hold).
  specialize (Hold Hng).
  pose proof (cleanup_lemma c ops raises s0 umask sched e w Hdp Hpd Hwf Hr Hrm Hnu) as Hc.
  assert (Hp : f_dir (w_fs w) (c_part c) = None).
  { destruct Hc as [H|(Hb & Hn0 & [Ho|(Ho & Hd0)])]; [exact H| |].
    - destruct Hof as [A|A]; congruence.
    - destruct Hd as [A|(A & _)]; congruence. }
  assert (Hdok : c_overwrite c = true \/ f_dir (w_fs w) (c_dest c) = None).
  { destruct Hd as [A|(A & Hna)]; [left; exact A|right].
    unfold dest_old in Hold. destruct (f_dir (w_fs w) (c_dest c)) as [j|]; [|reflexivity].
    destruct Hold as [(H0 & _) | (_ & (k & cnt & m & Hin & _))]; [congruence|].
    exfalso. assert (In (Some cnt) (appear_contents sched)).
    { unfold appear_contents. apply in_flat_map. exists (k, AAppear cnt m). split; [exact Hin|]. cbn. auto. }
    rewrite Hna in H. contradiction. }
  destruct (retry_completes_lemma c ops' (w_fs w) umask' Hdp Hv Hdok (or_intror Hp) Hok) as (w' & Hr').
  exists w'. split; [exact Hr'|].
  pose proof (final_wf c ops raises s0 umask None sched _ w Hdp Hpd Hwf Hr) as Hwf'.
  destruct (normal_exit_lemma c ops' false (w_fs w) umask' None [] tt w' Hdp Hpd Hwf' Hr') as (Hn & Hpow).
  unfold normal_exit_ok in Hn. apply andb_true_iff in Hn as [H1 H2].
  split; [|split; [exact Hpow|]].
  - unfold content_power, content_kill in *. destruct (f_dir (w_fs w') (c_dest c)); [|discriminate].
    cbn in H1. f_equal. apply (list_eqb_eq N.eqb N.eqb_eq). exact H1.
  - destruct (f_dir (w_fs w') (c_part c)); [discriminate|reflexivity].
Qed.
