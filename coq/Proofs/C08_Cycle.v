(* C08: outside the guard of finding C08-tuple-cycle (no tuple/frozenset is
   reached again from inside itself) the implementation's recursion coincides
   with the recursion the property demands (self-references preserved); hence
   the stack machine returns exactly Spec.spec_remap. *)
From Boltons Require Import Lib.Prelude Lib.C08_Py Spec.C08_Spec Model.C08_Model
  Proofs.C08_Machine Proofs.C08_Tree.

Definition keys {B} (m : table B) : list nat := map fst m.

(* the two registries have the same keys and differ at most at ids in [anc] *)
Definition R (anc : list nat) (mI mS : table obj) : Prop :=
  keys mI = keys mS /\ NoDup (keys mI) /\ forall i, ~ In i anc -> t_get mI i = t_get mS i.

Lemma keys_set : forall {B} (m1 m2 : table B) id a b,
  keys m1 = keys m2 -> keys (t_set m1 id a) = keys (t_set m2 id b).
Proof.
  unfold keys. induction m1 as [|[i v] r IH]; intros [|[j w] r2] id a b E; cbn in E; try discriminate.
  - reflexivity.
  - inversion E; subst. cbn [t_set]. destruct (Nat.eqb id j); cbn [map fst]; [congruence|].
    f_equal. apply IH. assumption.
Qed.

Lemma in_keys_set : forall {B} (m : table B) id v x,
  In x (keys (t_set m id v)) -> x = id \/ In x (keys m).
Proof.
  unfold keys. induction m as [|[i w] r IH]; intros id v x H; cbn [t_set] in H.
  - cbn in H. destruct H as [->|[]]. left. reflexivity.
  - destruct (Nat.eqb id i) eqn:E; cbn [map fst In] in *.
    + right. exact H.
    + destruct H as [->|H]; [right; left; reflexivity|]. destruct (IH _ _ _ H); tauto.
Qed.

Lemma nodup_keys_set : forall {B} (m : table B) id v, NoDup (keys m) -> NoDup (keys (t_set m id v)).
Proof.
  unfold keys. induction m as [|[i w] r IH]; intros id v H; cbn [t_set].
  - cbn. constructor; [intros []|constructor].
  - cbn [map fst] in H. inversion H; subst. destruct (Nat.eqb id i) eqn:E; cbn [map fst].
    + constructor; assumption.
    + constructor; [|apply IH; assumption].
      intro Hin. destruct (in_keys_set _ _ _ _ Hin) as [->|Hin2]; [|contradiction].
      rewrite Nat.eqb_refl in E. discriminate.
Qed.

Lemma t_get_not_key : forall {B} (m : table B) i, ~ In i (keys m) -> t_get m i = None.
Proof.
  unfold keys. induction m as [|[j w] r IH]; intros i H; cbn [t_get]; [reflexivity|].
  cbn [map fst In] in H. destruct (Nat.eqb i j) eqn:E; [apply Nat.eqb_eq in E; subst; tauto|].
  apply IH. tauto.
Qed.

Lemma R_nil_eq : forall mI mS, R [] mI mS -> mI = mS.
Proof.
  unfold R, keys. induction mI as [|[i a] r IH]; intros [|[j b] r2] [Hk [Hn Hg]]; cbn in Hk; try discriminate.
  - reflexivity.
  - inversion Hk; subst j. cbn [map fst] in Hn. inversion Hn; subst.
    assert (a = b).
    { specialize (Hg i (fun f => f)). cbn [t_get] in Hg. rewrite Nat.eqb_refl in Hg. congruence. }
    subst b. f_equal. apply IH. split; [assumption|]. split; [assumption|].
    intros x _. specialize (Hg x (fun f => f)). cbn [t_get] in Hg.
    destruct (Nat.eqb x i) eqn:E; [|exact Hg].
    apply Nat.eqb_eq in E. subst x.
    rewrite (t_get_not_key r i H2). rewrite (t_get_not_key r2 i); [reflexivity|].
    unfold keys. rewrite <- H1. exact H2.
Qed.

Lemma R_set_same : forall anc mI mS id v, R anc mI mS -> R anc (t_set mI id v) (t_set mS id v).
Proof.
  intros anc mI mS id v [Hk [Hn Hg]]. split; [apply keys_set; assumption|].
  split; [apply nodup_keys_set; assumption|].
  intros i Hi. rewrite !t_get_set. destruct (Nat.eqb i id); [reflexivity|apply Hg; assumption].
Qed.

Lemma R_set_open : forall anc mI mS id a b, R anc mI mS -> R (id :: anc) (t_set mI id a) (t_set mS id b).
Proof.
  intros anc mI mS id a b [Hk [Hn Hg]]. split; [apply keys_set; assumption|].
  split; [apply nodup_keys_set; assumption|].
  intros i Hi. rewrite !t_get_set. destruct (Nat.eqb i id) eqn:E.
  - apply Nat.eqb_eq in E. subst. exfalso. apply Hi. left. reflexivity.
  - apply Hg. intro. apply Hi. right. assumption.
Qed.

Lemma R_set_close : forall anc mI mS id v, R (id :: anc) mI mS -> R anc (t_set mI id v) (t_set mS id v).
Proof.
  intros anc mI mS id v [Hk [Hn Hg]]. split; [apply keys_set; assumption|].
  split; [apply nodup_keys_set; assumption|].
  intros i Hi. rewrite !t_get_set. destruct (Nat.eqb i id) eqn:E; [reflexivity|].
  apply Hg. intros [->|H]; [rewrite Nat.eqb_refl in E; discriminate|contradiction].
Qed.

Lemma existsb_eqb_false : forall id anc, existsb (Nat.eqb id) anc = false -> ~ In id anc.
Proof.
  intros id anc H Hin. assert (existsb (Nat.eqb id) anc = true).
  { apply existsb_exists. exists id. split; [assumption|apply Nat.eqb_refl]. }
  congruence.
Qed.

Section Cycle.
  Variable visit : option visit_fn.
  Variable defs : table obj.
  Notation srbI := (srb impl_blank visit defs).
  Notation srbS := (srb spec_blank visit defs).
  Notation chI := (srb_children impl_blank visit defs).
  Notation chS := (srb_children spec_blank visit defs).

  Definition same_ok (o : obj) : Prop :=
    forall anc rt p ky mI mS lg, R anc mI mS -> imm_backref anc o = false ->
      fst (fst (srbI rt p ky o mI lg)) = fst (fst (srbS rt p ky o mS lg))
      /\ snd (srbI rt p ky o mI lg) = snd (srbS rt p ky o mS lg)
      /\ R anc (snd (fst (srbI rt p ky o mI lg))) (snd (fst (srbS rt p ky o mS lg))).

  Lemma children_same : forall l, Forall (fun kv => same_ok (snd kv)) l ->
    forall anc cp acc mI mS lg, R anc mI mS ->
      existsb (fun kv => imm_backref anc (snd kv)) l = false ->
      fst (fst (chI cp l acc mI lg)) = fst (fst (chS cp l acc mS lg))
      /\ snd (chI cp l acc mI lg) = snd (chS cp l acc mS lg)
      /\ R anc (snd (fst (chI cp l acc mI lg))) (snd (fst (chS cp l acc mS lg))).
  Proof.
    induction 1 as [|[ck c] r Hc Hr IH]; intros anc cp acc mI mS lg HR Hb.
    - cbn. auto.
    - cbn [existsb snd] in Hb. apply orb_false_iff in Hb as [Hb1 Hb2].
      cbn [srb_children]. cbn [snd] in Hc.
      destruct (Hc anc false cp ck mI mS lg HR Hb1) as [Hv [Hl HR']].
      destruct (srbI false cp ck c mI lg) as [[vI mI'] lgI].
      destruct (srbS false cp ck c mS lg) as [[vS mS'] lgS].
      cbn [fst snd] in Hv, Hl, HR'. subst vS lgS.
      destruct (do_visit visit cp ck vI lgI) as [it lg2].
      apply IH; assumption.
  Qed.

  Lemma srb_same : forall o, same_ok o.
  Proof.
    induction o as [n|id k items IH|id k|k|id k|w] using obj_ind2; unfold same_ok;
      intros anc rt p ky mI mS lg HR Hb.
    - cbn. auto.
    - rewrite !srb_node. cbn [imm_backref] in Hb. apply orb_false_iff in Hb as [Hid Hch].
      apply existsb_eqb_false in Hid.
      destruct HR as [Hk [Hn Hg]]. rewrite <- (Hg id Hid).
      destruct (t_get mI id) as [v0|]; [cbn; split; [reflexivity|]; split; [reflexivity|]; split; auto|].
      cbv zeta.
      set (cp := if rt then p else p ++ [ky]).
      set (lg0 := lg ++ [EEnter p ky (RObj id) (in_view defs (ONode id k items))]).
      assert (HR0 : R (if mutable k then anc else id :: anc)
                      (t_set mI id (impl_blank id k)) (t_set mS id (spec_blank id k))).
      { unfold impl_blank, spec_blank. destruct (mutable k).
        - apply R_set_same. split; auto.
        - apply R_set_open. split; auto. }
      destruct (children_same items IH _ cp [] _ _ lg0 HR0 Hch) as [Hv [Hl HR1]].
      destruct (chI cp items [] (t_set mI id (impl_blank id k)) lg0) as [[iI m1I] l1I].
      destruct (chS cp items [] (t_set mS id (spec_blank id k)) lg0) as [[iS m1S] l1S].
      cbn [fst snd] in *. subst iS l1S. split; [reflexivity|]. split; [reflexivity|].
      destruct (mutable k); [apply R_set_same; assumption|apply R_set_close; assumption].
    - cbn [srb imm_backref] in *. apply existsb_eqb_false in Hb.
      destruct HR as [Hk [Hn Hg]]. rewrite <- (Hg id Hb).
      destruct (t_get mI id); cbn; split; try reflexivity; split; try reflexivity; split; auto.
    - cbn. auto.
    - cbn. auto.
    - cbn. auto.
  Qed.

  Theorem srb_root_same : forall root, imm_backref [] root = false ->
    srb_root impl_blank visit defs root = srb_root spec_blank visit defs root.
  Proof.
    intros root Hb. unfold srb_root. destruct root as [n|id k items|id k|k|id k|w]; try reflexivity.
    assert (HR : R [] [] []). { split; [reflexivity|]. split; [constructor|reflexivity]. }
    destruct (srb_same (ONode id k items) [] true [] KNone [] [] [] HR Hb) as [Hv [Hl HR']].
    destruct (srb impl_blank visit defs true [] KNone (ONode id k items) [] []) as [[vI mI] lI].
    destruct (srb spec_blank visit defs true [] KNone (ONode id k items) [] []) as [[vS mS] lS].
    cbn [fst snd] in *. subst. rewrite (R_nil_eq _ _ HR'). reflexivity.
  Qed.
End Cycle.

(* the machine returns what the property demands, outside the recorded guard *)
Theorem machine_refines_spec : forall visit rr root, imm_backref [] root = false ->
  remap (lift visit) rr (collect_defs root) root = spec_remap visit root.
Proof.
  intros visit rr root Hb. rewrite machine_is_recursion. unfold spec_remap. apply srb_root_same. exact Hb.
Qed.
