(* C03: what schedule exploration can and cannot add, for the micro-step model.
   Serialisability says every schedule's quiescent result is a serial one; here the converse:
   every serial order is the result of a schedule that switches threads only BETWEEN operations.
   So, for a covered lock table, pre-emptions INSIDE operations add no outcome at all: the set of
   quiescent results over all schedules = over the schedules with no intra-operation pre-emption. *)
From Boltons Require Import Lib.Prelude Lib.C03_Syntax Lib.C03_Conc Model.C03_Model
     Proofs.C03_Serial Proofs.C03_Covered Proofs.C03_Main Proofs.C03_Realise.

Theorem serial_orders_realised :
  forall tb, table_covered tb = true ->
  forall c progs sh0 order,
    exists sched,
      let s := conc_run tb c progs sh0 sched in
      let '(shS, todoS, doneS) := serial_run tb c progs sh0 order in
      m_lock s = None /\ m_sh s = shS
      /\ forall t, m_thr s t = mkThread None (todoS t) (doneS t).
Proof.
  intros tb T c progs sh0 order. unfold conc_run, serial_run. rewrite (covered_reentrant tb T).
  assert (HH : forall o, one_cs (compile_l tb c o)) by (intro o; unfold compile_l; apply compile_one_cs; exact T).
  destruct (serial_realisable shared act ares sem counters sact nat ssem op rv (compile_l tb c) HH
                              progs sh0 counters0 order) as [sched Q].
  exists sched. unfold quiescent in Q.
  destruct (serial sem (compile_l tb c) order sh0 progs) as [[shS todoS] doneS]. exact Q.
Qed.

(* both directions in one statement: the results at quiescence over ALL schedules are exactly the
   serial ones *)
Theorem quiescent_results_exactly_serial :
  forall tb, table_covered tb = true ->
  forall c progs sh0 sh (done : nat -> list rv),
    (exists sched, let s := conc_run tb c progs sh0 sched in
                   finished s /\ m_sh s = sh /\ forall t, t_done (m_thr s t) = done t)
    <->
    (exists order, let '(shS, todoS, doneS) := serial_run tb c progs sh0 order in
                   shS = sh /\ (forall t, doneS t = done t) /\ forall t, todoS t = []).
Proof.
  intros tb T c progs sh0 sh done. split.
  - intros [sched [F [Es Ed]]].
    destruct (serialisable_model tb T c progs sh0 sched F) as [order H]. exists order.
    destruct (serial_run tb c progs sh0 order) as [[shS todoS] doneS].
    destruct H as [H1 [H2 H3]]. split; [congruence|]. split; [|exact H3].
    intro t. rewrite <- H2. apply Ed.
  - intros [order H]. destruct (serial_orders_realised tb T c progs sh0 order) as [sched Q].
    exists sched. destruct (serial_run tb c progs sh0 order) as [[shS todoS] doneS].
    destruct H as [H1 [H2 H3]]. destruct Q as [_ [Q2 Q3]]. split; [|split].
    + intro t. rewrite (Q3 t). simpl. split; [reflexivity|apply H3].
    + congruence.
    + intro t. rewrite (Q3 t). simpl. apply H2.
Qed.
