(* C11: every public operation of the model preserves the invariant and
   returns / leaves behind exactly what the reference list does. *)
From Boltons Require Import Lib.Prelude Lib.C11_Iface Spec.C11_Spec Model.C11_Model
     Proofs.C11_Lists Proofs.C11_Dead Proofs.C11_Inv Proofs.C11_Sets.
From Coq Require Import Permutation.

(* ---- sort / reverse ----------------------------------------------------------------------- *)
Lemma slot_eqb_eq a b : slot_eqb a b = true <-> a = b.
Proof.
  unfold slot_eqb, option_eqb. destruct a, b; try (split; [discriminate|discriminate]); try tauto.
  rewrite N.eqb_eq. split; congruence.
Qed.

Lemma rebuild_perm s xs : Inv0 s -> Permutation xs (m_live s) ->
  Inv (mkIS (map Some xs) (remap (imap s) xs) []) /\ m_live (mkIS (map Some xs) (remap (imap s) xs) []) = xs.
Proof.
  intros H P. apply rebuild_inv.
  - apply (Permutation_NoDup (Permutation_sym P)). apply Inv0_nodup. exact H.
  - apply H.
  - intros x. rewrite <- (Inv0_keys s x H). split; apply Permutation_in; [exact P|apply Permutation_sym; exact P].
  - rewrite (inv_len s H). symmetry. apply Permutation_length. exact P.
Qed.

Lemma sort_inv s r : Inv s -> Inv (m_sort s r) /\ m_live (m_sort s r) = py_sorted (m_live s) r.
Proof.
  intros [H HL]. unfold m_sort.
  destruct (list_eqb slot_eqb (map Some (py_sorted (m_live s) r)) (items s)) eqn:E.
  - apply (list_eqb_eq slot_eqb slot_eqb_eq) in E. split; [split; assumption|].
    unfold m_live at 1. rewrite <- E. apply live_of_map_some.
  - apply rebuild_perm; [exact H|apply py_sorted_perm].
Qed.

Lemma sort_key_inv s m r : Inv s -> Inv (m_sort_key s m r) /\ m_live (m_sort_key s m r) = py_sorted_key (m_live s) m r.
Proof.
  intros [H HL]. unfold m_sort_key.
  destruct (list_eqb slot_eqb (map Some (py_sorted_key (m_live s) m r)) (items s)) eqn:E.
  - apply (list_eqb_eq slot_eqb slot_eqb_eq) in E. split; [split; assumption|].
    unfold m_live at 1. rewrite <- E. apply live_of_map_some.
  - apply rebuild_perm; [exact H|apply py_sorted_key_perm].
Qed.

Lemma reverse_inv s : Inv s -> Inv (m_reverse s) /\ m_live (m_reverse s) = rev (m_live s).
Proof.
  intros [H HL]. unfold m_reverse. apply rebuild_perm; [exact H|apply Permutation_sym, Permutation_rev].
Qed.

(* ---- building by repeated add ---------------------------------------------------------------- *)
Lemma adds_inv xs : forall s, Inv s ->
  Inv (fold_left m_add xs s) /\ m_live (fold_left m_add xs s) = uniq (m_live s ++ xs).
Proof.
  assert (G : forall s, Inv s ->
            Inv (fold_left m_add xs s) /\ m_live (fold_left m_add xs s) = fold_left l_add xs (m_live s)).
  { induction xs as [|x xs IH]; intros s H; simpl; [split; [exact H|reflexivity]|].
    destruct (add_inv s x H) as [A1 A2]. destruct (IH _ A1) as [B1 B2]. split; [exact B1|].
    rewrite B2, A2. reflexivity. }
  intros s H. destruct (G s H) as [A B]. split; [exact A|]. rewrite B.
  apply fold_l_add. apply Inv0_nodup. apply H.
Qed.

Lemma from_list_inv xs : Inv (m_from_list xs) /\ m_live (m_from_list xs) = uniq xs.
Proof. unfold m_from_list. apply (adds_inv xs m_empty Inv_empty). Qed.

Lemma from_list_nodup xs : NoDup xs -> m_live (m_from_list xs) = xs.
Proof. intros H. rewrite (proj2 (from_list_inv xs)). apply uniq_nodup. exact H. Qed.

Lemma all_elems_one o : all_elems [o] = o_elems o.
Proof. unfold all_elems. simpl. apply app_nil_r. Qed.

Lemma update_inv s os : Inv s -> Inv (m_update s os) /\ m_live (m_update s os) = s_union (m_live s) os.
Proof.
  intros H. unfold m_update, s_union. destruct os as [|o [|o2 os]].
  - split; [exact H|]. unfold all_elems. simpl. rewrite app_nil_r. symmetry. apply uniq_nodup.
    apply Inv0_nodup. apply H.
  - rewrite all_elems_one. apply adds_inv. exact H.
  - apply adds_inv. exact H.
Qed.

Lemma union_ok s os : Inv s -> m_live (m_union s os) = s_union (m_live s) os.
Proof. intros H. unfold m_union. apply (proj2 (from_list_inv _)). Qed.

Lemma in_all_one o k : forallb (opd_mem k) [o] = opd_mem k o.
Proof. simpl. apply andb_true_r. Qed.

Lemma intersection_ok s os : Inv s ->
  Inv (m_intersection s os) /\ m_live (m_intersection s os) = s_inter (m_live s) os.
Proof.
  intros H. pose proof (Inv0_nodup s (proj1 H)) as ND.
  assert (E : m_intersection s os = m_from_list (filter (in_all os) (m_live s))).
  { unfold m_intersection. destruct os as [|o [|o2 os]]; try reflexivity.
    f_equal. apply filter_ext. intros k. unfold in_all. symmetry. apply in_all_one. }
  rewrite E. split; [apply from_list_inv|]. apply from_list_nodup. apply NoDup_filter. exact ND.
Qed.

Lemma difference_ok s os : Inv s ->
  Inv (m_difference s os) /\ m_live (m_difference s os) = s_diff (m_live s) os.
Proof.
  intros H. pose proof (Inv0_nodup s (proj1 H)) as ND.
  assert (E : m_difference s os = m_from_list (filter (fun x => negb (in_any os x)) (m_live s))).
  { unfold m_difference. destruct os as [|o [|o2 os]]; try reflexivity.
    f_equal. apply filter_ext. intros k. unfold in_any. simpl. rewrite orb_false_r. reflexivity. }
  rewrite E. split; [apply from_list_inv|]. apply from_list_nodup. apply NoDup_filter. exact ND.
Qed.

Lemma opd_mem_as_operand s k : opd_mem k (as_operand s) = l_mem k (m_live s).
Proof. reflexivity. Qed.

Lemma symmetric_difference_ok s o : Inv s ->
  m_live (m_symmetric_difference s o) = s_symdiff (m_live s) o.
Proof.
  intros H. pose proof (Inv0_nodup s (proj1 H)) as ND. unfold m_symmetric_difference.
  assert (HU : Inv (m_union s [o])) by (unfold m_union; apply from_list_inv).
  destruct (intersection_ok s [o] H) as [_ LI].
  rewrite (proj2 (difference_ok _ _ HU)). rewrite (union_ok s [o] H).
  unfold s_diff, s_union, s_symdiff. rewrite all_elems_one. rewrite (uniq_app _ _ ND), filter_app.
  f_equal.
  - apply filter_ext_in. intros y Hy. unfold in_any. cbn [existsb]. rewrite orb_false_r.
    rewrite opd_mem_as_operand, LI. unfold s_inter. f_equal.
    apply bool_eq_iff. rewrite l_mem_In, filter_In. unfold in_all. rewrite in_all_one. tauto.
  - rewrite uniq_filter. apply filter_id. intros y Hy. apply filter_In in Hy. destruct Hy as [_ Hy].
    unfold in_any. cbn [existsb]. rewrite orb_false_r, opd_mem_as_operand, LI. rewrite negb_true_iff.
    apply l_mem_false. unfold s_inter. rewrite filter_In. intros [Hin _].
    apply notin_true in Hy. contradiction.
Qed.

(* ---- in-place forms built on discard ----------------------------------------------------------- *)
Lemma discard_all_inv c D : forall s, Inv s ->
  Inv (discard_all c s D) /\ m_live (discard_all c s D) = filter (notin D) (m_live s).
Proof.
  assert (G : forall s, Inv s -> Inv (discard_all c s D) /\
            m_live (discard_all c s D) = fold_left (fun l x => l_remove x l) D (m_live s)).
  { unfold discard_all. induction D as [|x D IH]; intros s H; simpl; [split; [exact H|reflexivity]|].
    destruct (discard_inv c s x H) as [A1 A2]. destruct (IH _ A1) as [B1 B2]. split; [exact B1|].
    rewrite B2, A2. reflexivity. }
  intros s H. destruct (G s H) as [A B]. split; [exact A|]. rewrite B.
  apply fold_l_remove. apply Inv0_nodup. apply H.
Qed.

Lemma intersection_update_inv c s os : Inv s ->
  Inv (m_intersection_update c s os) /\ m_live (m_intersection_update c s os) = s_inter (m_live s) os.
Proof.
  intros H. unfold m_intersection_update.
  destruct (intersection_ok s os H) as [_ LI].
  destruct (difference_ok s [as_operand (m_intersection s os)] H) as [_ LD].
  destruct (discard_all_inv c (m_live (m_difference s [as_operand (m_intersection s os)])) s H) as [A B].
  split; [exact A|]. rewrite B, LD. unfold s_diff, s_inter.
  apply filter_ext_in. intros y Hy. unfold notin.
  apply bool_eq_iff. rewrite negb_true_iff, l_mem_false, filter_In.
  unfold in_any. cbn [existsb]. rewrite orb_false_r, opd_mem_as_operand, LI.
  rewrite negb_true_iff, l_mem_false. unfold s_inter. rewrite filter_In.
  destruct (in_all os y); intuition congruence.
Qed.

Lemma diff_step_inv c st o : Inv st ->
  Inv (discard_all c st (m_live (m_intersection st [o]))) /\
  m_live (discard_all c st (m_live (m_intersection st [o]))) =
  filter (fun x => negb (opd_mem x o)) (m_live st).
Proof.
  intros H. destruct (intersection_ok st [o] H) as [_ LI].
  destruct (discard_all_inv c (m_live (m_intersection st [o])) st H) as [A B].
  split; [exact A|]. rewrite B, LI. unfold s_inter.
  apply filter_ext_in. intros y Hy. unfold notin. f_equal.
  apply bool_eq_iff. rewrite l_mem_In, filter_In. unfold in_all. rewrite in_all_one. tauto.
Qed.

Lemma diff_fold_inv c os : forall st, Inv st ->
  Inv (fold_left (fun st o => discard_all c st (m_live (m_intersection st [o]))) os st) /\
  m_live (fold_left (fun st o => discard_all c st (m_live (m_intersection st [o]))) os st) =
  s_diff (m_live st) os.
Proof.
  induction os as [|o os IH]; intros st H; cbn [fold_left].
  - split; [exact H|]. unfold s_diff. symmetry. apply filter_id. intros; reflexivity.
  - destruct (diff_step_inv c st o H) as [A1 A2]. destruct (IH _ A1) as [B1 B2].
    split; [exact B1|]. rewrite B2, A2. unfold s_diff. rewrite filter_comp.
    apply filter_ext. intros y. unfold in_any. cbn [existsb]. rewrite negb_orb. reflexivity.
Qed.

Lemma eq_self_covers s o : Inv s -> eq_self s o = true -> forall y, In y (m_live s) -> opd_mem y o = true.
Proof.
  intros H E y Hy. unfold eq_self in E. destruct (o_iset o).
  - apply andb_true_iff in E. destruct E as [_ E]. apply (list_eqb_eq N.eqb N.eqb_eq) in E.
    unfold opd_mem. rewrite <- E. apply l_mem_In. exact Hy.
  - apply andb_true_iff in E. destruct E as [E _]. rewrite forallb_forall in E. apply E. exact Hy.
Qed.

Lemma difference_update_inv c s os : Inv s ->
  Inv (m_difference_update c s os) /\ m_live (m_difference_update c s os) = s_diff (m_live s) os.
Proof.
  intros H. unfold m_difference_update. destruct (existsb (eq_self s) os) eqn:E.
  - destruct (diff_fold_inv c os (m_clear s) Inv_empty) as [A B]. split; [exact A|]. rewrite B.
    apply existsb_exists in E. destruct E as [o [Ho Eo]].
    unfold s_diff. change (m_live (m_clear s)) with (@nil K). simpl. symmetry.
    apply filter_none. intros y Hy. rewrite negb_false_iff. unfold in_any.
    apply existsb_exists. exists o. split; [exact Ho|]. apply (eq_self_covers s o H Eo y Hy).
  - apply diff_fold_inv. exact H.
Qed.

Lemma toggle_fold_inv c u : forall s, Inv s -> NoDup u ->
  let s' := fold_left (fun st v => if m_contains st v then m_discard c st v else m_add st v) u s in
  Inv s' /\ m_live s' = filter (notin u) (m_live s) ++ filter (notin (m_live s)) u.
Proof.
  induction u as [|v u IH]; intros s H ND; cbn zeta; cbn [fold_left].
  - split; [exact H|]. cbn [filter]. rewrite app_nil_r. symmetry. apply filter_id. intros; reflexivity.
  - inversion ND as [|? ? N1 N2]; subst.
    pose proof (Inv0_nodup s (proj1 H)) as NL.
    rewrite (contains_eq s v (proj1 H)). cbn [filter].
    replace (notin (m_live s) v) with (negb (l_mem v (m_live s))) by reflexivity.
    destruct (l_mem v (m_live s)) eqn:M; cbn [negb].
    + destruct (discard_inv c s v H) as [A1 A2]. destruct (IH _ A1 N2) as [B1 B2]. cbn zeta in B1, B2.
      split; [exact B1|]. rewrite B2, A2, (l_remove_filter v _ NL). f_equal.
      * rewrite filter_comp. apply filter_ext. intros y. unfold notin, l_mem. simpl.
        rewrite negb_orb, (N.eqb_sym y v). reflexivity.
      * apply filter_ext_in. intros y Hy. unfold notin. f_equal.
        apply bool_eq_iff. rewrite !l_mem_In, filter_In, negb_true_iff, N.eqb_neq.
        split; [tauto|]. intros Hin. split; [exact Hin|]. intros ->. contradiction.
    + destruct (add_inv s v H) as [A1 A2]. destruct (IH _ A1 N2) as [B1 B2]. cbn zeta in B1, B2.
      split; [exact B1|]. rewrite B2, A2. unfold l_add. rewrite M. rewrite filter_app. cbn [filter].
      replace (notin u v) with true by (symmetry; apply notin_true; exact N1).
      rewrite <- app_assoc. cbn [app]. f_equal.
      * apply filter_ext_in. intros y Hy. unfold notin, l_mem. simpl. rewrite negb_orb.
        replace (N.eqb y v) with false; [reflexivity|]. symmetry. apply N.eqb_neq. intros ->.
        apply l_mem_false in M. contradiction.
      * f_equal. apply filter_ext_in. intros y Hy. unfold notin. f_equal.
        apply bool_eq_iff. rewrite !l_mem_In, in_app_iff. simpl.
        split; [|tauto]. intros [Hin|[->|[]]]; [exact Hin|contradiction].
Qed.

Lemma symmetric_difference_update_inv c s o : Inv s ->
  Inv (m_symmetric_difference_update c s o) /\
  m_live (m_symmetric_difference_update c s o) = s_symdiff (m_live s) o.
Proof.
  intros H. unfold m_symmetric_difference_update. rewrite (proj2 (from_list_inv (o_elems o))).
  destruct (toggle_fold_inv c (uniq (o_elems o)) s H (NoDup_uniq _)) as [A B]. cbn zeta in A, B.
  split; [exact A|]. rewrite B. unfold s_symdiff. f_equal.
  - apply filter_ext. intros y. unfold notin, opd_mem. f_equal.
    apply bool_eq_iff. rewrite !l_mem_In. apply In_uniq.
  - rewrite uniq_filter. reflexivity.
Qed.

(* ---- predicates ------------------------------------------------------------------------------------ *)
Lemma forallb_same {A} (f : A -> bool) l1 l2 : (forall x, In x l1 <-> In x l2) -> forallb f l1 = forallb f l2.
Proof.
  intros H. apply bool_eq_iff. rewrite !forallb_forall. split; intros G x Hx; apply G; apply H; exact Hx.
Qed.

Lemma issubset_ok s o : Inv s ->
  (if length (o_elems o) <? m_len s then false else forallb (fun k => opd_mem k o) (d_keys (imap s)))
  = forallb (fun x => opd_mem x o) (m_live s).
Proof.
  intros [H _]. assert (E : forallb (fun k => opd_mem k o) (d_keys (imap s)) = forallb (fun x => opd_mem x o) (m_live s)).
  { apply forallb_same. intros x. rewrite <- d_mem_keys. symmetry. apply Inv0_keys. exact H. }
  destruct (length (o_elems o) <? m_len s) eqn:C; [|exact E].
  apply Nat.ltb_lt in C. unfold m_len in C. rewrite (inv_len s H) in C.
  destruct (forallb (fun x => opd_mem x o) (m_live s)) eqn:F; [|reflexivity]. exfalso.
  rewrite forallb_forall in F.
  assert (I : incl (m_live s) (o_elems o)) by (intros x Hx; apply l_mem_In; apply F; exact Hx).
  pose proof (NoDup_incl_length (Inv0_nodup s H) I). lia.
Qed.

(* ---- snapshot and digests ---------------------------------------------------------------------------- *)
Lemma all_ok_map_ok {A B} (f : A -> res B) (g : A -> B) l :
  (forall x, In x l -> f x = Ok (g x)) -> all_ok (map f l) = Ok (map g l).
Proof.
  induction l as [|x l IH]; intros H; simpl; [reflexivity|].
  rewrite (H x (or_introl eq_refl)). rewrite IH; [reflexivity|]. intros y Hy. apply H. right. exact Hy.
Qed.

Lemma map_nth_seq (l : list K) : map (fun i => nth i l 0%N) (seq 0 (length l)) = l.
Proof.
  induction l as [|x l IH]; [reflexivity|]. simpl. f_equal. rewrite <- seq_shift, map_map. exact IH.
Qed.

Lemma get_all_ok s : Inv0 s -> m_get_all s = Ok (m_live s).
Proof.
  intros H. unfold m_get_all, m_len. rewrite (inv_len s H).
  rewrite (all_ok_map_ok _ (fun i => nth i (m_live s) 0%N)).
  - rewrite map_nth_seq. reflexivity.
  - intros i Hi. apply in_seq in Hi. apply (getitem_ok s _ i H).
    unfold norm_index. replace (0 <=? Z.of_nat i)%Z with true by (symmetry; apply Z.leb_le; lia).
    replace (Z.of_nat i <? Z.of_nat (length (m_live s)))%Z with true by (symmetry; apply Z.ltb_lt; lia).
    simpl. rewrite Nat2Z.id. reflexivity.
Qed.

Lemma get_all_neg_ok s : Inv0 s -> m_get_all_neg s = Ok (m_live s).
Proof.
  intros H. unfold m_get_all_neg, m_len. rewrite (inv_len s H).
  rewrite (all_ok_map_ok _ (fun i => nth i (m_live s) 0%N)).
  - rewrite map_nth_seq. reflexivity.
  - intros i Hi. apply in_seq in Hi. apply (getitem_ok s _ i H).
    unfold norm_index.
    replace (0 <=? Z.of_nat i - Z.of_nat (length (m_live s)))%Z with false by (symmetry; apply Z.leb_gt; lia).
    replace (Z.of_nat i - Z.of_nat (length (m_live s)) <? 0)%Z with true by (symmetry; apply Z.ltb_lt; lia).
    replace (- Z.of_nat (length (m_live s)) <=? Z.of_nat i - Z.of_nat (length (m_live s)))%Z
      with true by (symmetry; apply Z.leb_le; lia).
    simpl. f_equal. lia.
Qed.

Lemma index_positions : forall B A, NoDup (A ++ B) ->
  map (fun x => l_index x (A ++ B)) B = map Some (seq (length A) (length B)).
Proof.
  induction B as [|x B IH]; intros A ND; [reflexivity|]. simpl. f_equal.
  - apply l_index_app. apply NoDup_remove_2 in ND. intros Hin. apply ND. apply in_or_app. left. exact Hin.
  - specialize (IH (A ++ [x])). rewrite <- app_assoc in IH. simpl in IH.
    rewrite app_length in IH. simpl in IH. replace (length A + 1) with (S (length A)) in IH by lia.
    apply IH. exact ND.
Qed.

Lemma index_all_ok s : Inv0 s -> m_index_all s = Ok (seq 0 (length (m_live s))).
Proof.
  intros H. unfold m_index_all.
  pose proof (index_positions (m_live s) [] (Inv0_nodup s H)) as P. simpl in P.
  assert (G : forall l (js : list nat), map (fun x => l_index x (m_live s)) l = map Some js ->
              all_ok (map (m_index s) l) = Ok js).
  { induction l as [|x l IH]; intros [|j js] E; simpl in E; try discriminate; [reflexivity|].
    injection E as E1 E2. simpl. rewrite (index_ok s x H), E1. rewrite (IH js E2). reflexivity. }
  apply G. exact P.
Qed.

Lemma snapshot_ok s : Inv0 s ->
  m_snapshot s = Ok (RSnap (m_live s) (m_live s) (m_live s) (rev (m_live s)) (seq 0 (length (m_live s)))).
Proof.
  intros H. unfold m_snapshot. rewrite (get_all_ok s H), (get_all_neg_ok s H), (index_all_ok s H). reflexivity.
Qed.

Lemma obs_ok dg s r : Inv0 s -> m_obs dg s r = spec_obs dg (m_live s) r.
Proof.
  intros H. unfold m_obs, spec_obs, m_len. rewrite (inv_len s H), (get_all_ok s H). reflexivity.
Qed.

(* ---- comparisons ------------------------------------------------------------------------------------- *)
Lemma nodupb_NoDup l : nodupb l = true -> NoDup l.
Proof.
  induction l as [|x l IH]; simpl; intros H; [constructor|].
  apply andb_true_iff in H. destruct H as [H1 H2]. constructor; [|apply IH; exact H2].
  apply negb_true_iff in H1. apply l_mem_false. exact H1.
Qed.

Lemma subset_b_incl a b : subset_b a b = true <-> incl a b.
Proof.
  unfold subset_b. rewrite forallb_forall. split; intros H x Hx; [apply l_mem_In|apply l_mem_In]; apply H; exact Hx.
Qed.

Lemma forallb_ext2 {A} (f g : A -> bool) l : (forall x, f x = g x) -> forallb f l = forallb g l.
Proof. intros H. induction l as [|x l IH]; simpl; [reflexivity|]. rewrite H, IH. reflexivity. Qed.

Lemma contains_forallb s l : Inv s -> forallb (m_contains s) l = subset_b l (m_live s).
Proof. intros [H _]. unfold subset_b. apply forallb_ext2. intros x. apply contains_eq. exact H. Qed.

Lemma eq_self_ok s o : Inv s -> eq_self s o = s_eq (m_live s) o.
Proof.
  intros H. pose proof H as [H0 _]. unfold eq_self, s_eq. destruct (o_iset o).
  - unfold m_len. rewrite (inv_len s H0).
    destruct (lK_eqb (m_live s) (o_elems o)) eqn:E; [|apply andb_false_r].
    apply (list_eqb_eq N.eqb N.eqb_eq) in E. rewrite <- E, Nat.eqb_refl. reflexivity.
  - rewrite (contains_forallb s _ H). reflexivity.
Qed.

Lemma m_le_ok s o : Inv s -> m_le s o = subset_b (m_live s) (o_elems o).
Proof.
  intros [H _]. unfold m_le, m_len. rewrite (inv_len s H).
  change (forallb (fun k => opd_mem k o) (m_live s)) with (subset_b (m_live s) (o_elems o)).
  destruct (length (o_elems o) <? length (m_live s)) eqn:C; [|reflexivity].
  apply Nat.ltb_lt in C. destruct (subset_b (m_live s) (o_elems o)) eqn:F; [|reflexivity]. exfalso.
  apply subset_b_incl in F. pose proof (NoDup_incl_length (Inv0_nodup s H) F). lia.
Qed.

Lemma m_ge_ok s o : Inv s -> NoDup (o_elems o) -> m_ge s o = subset_b (o_elems o) (m_live s).
Proof.
  intros H ND. pose proof H as [H0 _]. unfold m_ge, m_len. rewrite (inv_len s H0), (contains_forallb s _ H).
  destruct (length (m_live s) <? length (o_elems o)) eqn:C; [|reflexivity].
  apply Nat.ltb_lt in C. destruct (subset_b (o_elems o) (m_live s)) eqn:F; [|reflexivity]. exfalso.
  apply subset_b_incl in F. pose proof (NoDup_incl_length ND F). lia.
Qed.

(* for duplicate-free lists: a proper subset is a subset that is shorter *)
Lemma proper_subset_length a b : NoDup a -> NoDup b -> subset_b a b = true ->
  (length a <? length b) = negb (subset_b b a).
Proof.
  intros Na Nb S. apply subset_b_incl in S.
  destruct (subset_b b a) eqn:F; simpl.
  - apply subset_b_incl in F. apply Nat.ltb_ge. apply (NoDup_incl_length Nb F).
  - apply Nat.ltb_lt. destruct (Nat.lt_ge_cases (length a) (length b)) as [L|L]; [exact L|exfalso].
    pose proof (NoDup_length_incl Na L S) as I. apply subset_b_incl in I. congruence.
Qed.

Lemma cmp_ok s k o : Inv s -> valid_op (m_live s) (Cmp k o) = true -> m_cmp s k o = s_cmp k (m_live s) o.
Proof.
  intros H V. pose proof H as [H0 _]. pose proof (Inv0_nodup s H0) as ND.
  destruct k; cbn [m_cmp s_cmp]; cbn [valid_op] in V.
  - apply eq_self_ok. exact H.
  - f_equal. apply eq_self_ok. exact H.
  - apply m_le_ok. exact H.
  - apply nodupb_NoDup in V. rewrite (m_le_ok s o H). unfold m_len. rewrite (inv_len s H0).
    destruct (subset_b (m_live s) (o_elems o)) eqn:S; [|rewrite andb_false_r; reflexivity].
    rewrite andb_true_r. simpl. apply proper_subset_length; assumption.
  - apply nodupb_NoDup in V. apply m_ge_ok; assumption.
  - apply nodupb_NoDup in V. rewrite (m_ge_ok s o H V). unfold m_len. rewrite (inv_len s H0).
    destruct (subset_b (o_elems o) (m_live s)) eqn:S; [|rewrite andb_false_r; reflexivity].
    rewrite andb_true_r. simpl. apply proper_subset_length; assumption.
Qed.
