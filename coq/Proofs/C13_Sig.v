(* C13, part 2: the FunctionBuilder representation (args list + positional
   defaults tuple + kwonlydefaults dict + annotations dict) refines the
   signature-level reference (Spec.spec_inject / spec_expect / spec_wraps). *)
From Boltons Require Import Lib.Prelude Spec.C13_Spec Model.C13_Model
     Proofs.C13_Dict Proofs.C13_Bind Proofs.C13_Shape Proofs.C13_Realign.
From Coq Require Import Lia.

(* ---- the signature a set of fields denotes ---------------------------------------- *)
Definition mk_params (an : name -> option ann) (args : list name) (D : list value)
           (va : option name) (kwonly : list name) (kwd : pydict value) (vk : option name) : list param :=
  pos_params an args (length args - length D) D
  ++ map (fun n => mkP n VarPos None (an n)) (olist va)
  ++ map (fun n => mkP n KwOnly (d_get kwd n) (an n)) kwonly
  ++ map (fun n => mkP n VarKw None (an n)) (olist vk).

Definition mk_sig an args D va kwonly kwd vk : signature :=
  mkSig (mk_params an args D va kwonly kwd vk) (an RET).

Definition func_names (f : pyfunc) : list name :=
  f_args f ++ olist (f_varargs f) ++ f_kwonly f ++ olist (f_varkw f).

Record wf_func (f : pyfunc) : Prop := {
  wf_nodup : NoDup (func_names f);
  wf_nonzero : ~ In 0 (func_names f);
  wf_len : length (odflt (f_defaults f)) <= length (f_args f)
}.

Definition func_sig (f : pyfunc) : signature :=
  mk_sig (d_get (f_annotations f)) (f_args f) (odflt (f_defaults f)) (f_varargs f)
         (f_kwonly f) (odflt (f_kwdefaults f)) (f_varkw f).

Lemma sig_of_func_sig f : length (odflt (f_defaults f)) <= length (f_args f) -> sig_of f = Ok (func_sig f).
Proof.
  intro L. unfold sig_of. destruct (Nat.ltb_spec (length (f_args f)) (length (odflt (f_defaults f)))); [lia|].
  reflexivity.
Qed.

(* ---- generic list facts ------------------------------------------------------------- *)
Lemma filter_map_comm {A C} (f : C -> bool) (g : A -> C) l :
  filter f (map g l) = map g (filter (fun x => f (g x)) l).
Proof.
  induction l as [|x r IH]; simpl; [reflexivity|]. destruct (f (g x)); simpl; rewrite IH; reflexivity.
Qed.

Lemma filter_true {A} (f : A -> bool) l : (forall x, In x l -> f x = true) -> filter f l = l.
Proof.
  induction l as [|x r IH]; simpl; intro H; [reflexivity|].
  rewrite (H x (or_introl eq_refl)). f_equal. apply IH. intros y Hy. apply H. right. exact Hy.
Qed.

Lemma filter_ext_in' {A} (f g : A -> bool) l : (forall x, In x l -> f x = g x) -> filter f l = filter g l.
Proof.
  induction l as [|x r IH]; simpl; intro H; [reflexivity|].
  rewrite (H x (or_introl eq_refl)). destruct (g x); [f_equal|]; apply IH; intros y Hy; apply H; right; exact Hy.
Qed.

Lemma flat_map_nil {A C} (f : A -> list C) l : (forall x, In x l -> f x = []) -> flat_map f l = [].
Proof.
  induction l as [|x r IH]; simpl; intro H; [reflexivity|].
  rewrite (H x (or_introl eq_refl)). simpl. apply IH. intros y Hy. apply H. right. exact Hy.
Qed.

Lemma flat_map_ext_in' {A C} (f g : A -> list C) l : (forall x, In x l -> f x = g x) -> flat_map f l = flat_map g l.
Proof.
  induction l as [|x r IH]; simpl; intro H; [reflexivity|].
  rewrite (H x (or_introl eq_refl)). f_equal. apply IH. intros y Hy. apply H. right. exact Hy.
Qed.

Lemma existsb_false_iff {A} (f : A -> bool) l : existsb f l = false <-> (forall x, In x l -> f x = false).
Proof.
  induction l as [|x r IH]; simpl.
  - split; [intros _ y [] | reflexivity].
  - rewrite orb_false_iff, IH. split.
    + intros [H1 H2] y [<-|Hy]; [exact H1 | apply H2; exact Hy].
    + intro H. split; [apply H; left; reflexivity | intros y Hy; apply H; right; exact Hy].
Qed.

Lemma mem_In x l : mem x l = true <-> In x l.
Proof. apply existsb_eqb_In. Qed.

Lemma mem_false x l : mem x l = false <-> ~ In x l.
Proof.
  rewrite <- mem_In. destruct (mem x l); split; intro H.
  - discriminate.
  - exfalso. apply H. reflexivity.
  - intro. discriminate.
  - reflexivity.
Qed.

Lemma map_olist {A C} (g : A -> C) o : map g (olist o) = olist (option_map g o).
Proof. destruct o; reflexivity. Qed.

(* ---- the four segments of mk_params ---------------------------------------------------- *)
Section Segments.
  Variables (an : name -> option ann) (args : list name) (D : list value)
            (va : option name) (kwonly : list name) (kwd : pydict value) (vk : option name).

  Let P := pos_params an args (length args - length D) D.
  Let VA := option_map (fun n => mkP n VarPos None (an n)) va.
  Let KP := map (fun n => mkP n KwOnly (d_get kwd n) (an n)) kwonly.
  Let VK := option_map (fun n => mkP n VarKw None (an n)) vk.

  Lemma mk_params_sparams : mk_params an args D va kwonly kwd vk = sparams P VA KP VK.
  Proof. unfold mk_params, sparams, P, VA, KP, VK. rewrite !map_olist. reflexivity. Qed.

  Lemma seg_P : all_kind PosOrKw P = true.
  Proof. apply pos_params_kinds. Qed.
  Lemma seg_VA : okind VarPos VA = true.
  Proof. unfold VA. destruct va; reflexivity. Qed.
  Lemma seg_KP : all_kind KwOnly KP = true.
  Proof. unfold KP, all_kind. rewrite forallb_forall. intros p Hp. apply in_map_iff in Hp as [n [<- _]]. reflexivity. Qed.
  Lemma seg_VK : okind VarKw VK = true.
  Proof. unfold VK. destruct vk; reflexivity. Qed.

  Lemma mk_params_names :
    map p_name (mk_params an args D va kwonly kwd vk) = args ++ olist va ++ kwonly ++ olist vk.
  Proof.
    unfold mk_params. rewrite !map_app, pos_params_names, !map_map. simpl.
    rewrite !map_id. reflexivity.
  Qed.

  (* every parameter carries the annotation the dict holds for its name *)
  Lemma mk_params_ann p : In p (mk_params an args D va kwonly kwd vk) -> p_ann p = an (p_name p).
  Proof.
    unfold mk_params. intro H. repeat (apply in_app_or in H as [H|H]).
    - (* positional: by extensionality argument on pos_params *)
      clear - H. revert H. generalize (length args - length D) as skip. revert D.
      induction args as [|a r IH]; intros D0 skip H; [contradiction|].
      simpl in H. destruct skip.
      + destruct D0; destruct H as [<-|H]; try reflexivity; eapply IH; exact H.
      + destruct H as [<-|H]; [reflexivity | eapply IH; exact H].
    - apply in_map_iff in H as [n [<- _]]. reflexivity.
    - apply in_map_iff in H as [n [<- _]]. reflexivity.
    - apply in_map_iff in H as [n [<- _]]. reflexivity.
  Qed.
End Segments.

Lemma mk_params_ext an an' args D va kwonly kwd kwd' vk :
  (forall x, In x (args ++ olist va ++ kwonly ++ olist vk) -> an' x = an x) ->
  (forall k, In k kwonly -> d_get kwd' k = d_get kwd k) ->
  mk_params an' args D va kwonly kwd' vk = mk_params an args D va kwonly kwd vk.
Proof.
  intros HA HK. unfold mk_params. f_equal; [|f_equal; [|f_equal]].
  - apply pos_params_ext. intros a Ha. apply HA. apply in_or_app. left. exact Ha.
  - apply map_ext_in. intros n Hn. rewrite HA; [reflexivity|].
    apply in_or_app. right. apply in_or_app. left. exact Hn.
  - apply map_ext_in. intros n Hn. rewrite HK by exact Hn. rewrite HA; [reflexivity|].
    apply in_or_app. right. apply in_or_app. right. apply in_or_app. left. exact Hn.
  - apply map_ext_in. intros n Hn. rewrite HA; [reflexivity|].
    apply in_or_app. right. apply in_or_app. right. apply in_or_app. right. exact Hn.
Qed.

(* ---- a dict tabulated from a partial function over distinct names ------------------------- *)
Section Tabulate.
  Context {B : Type}.
  Variable g : name -> option B.
  Definition tab (l : list name) : list (name * B) :=
    flat_map (fun x => match g x with Some v => [(x, v)] | None => [] end) l.

  Lemma tab_keys_incl l : incl (map fst (tab l)) l.
  Proof.
    induction l as [|x r IH]; simpl; [apply incl_refl|]. unfold tab in *. simpl.
    rewrite map_app. intros a Ha. apply in_app_or in Ha as [Ha|Ha].
    - destruct (g x); simpl in Ha; [destruct Ha as [<-|[]]; left; reflexivity | contradiction].
    - right. apply IH. exact Ha.
  Qed.

  Lemma tab_keys_nodup l : NoDup l -> NoDup (map fst (tab l)).
  Proof.
    induction l as [|x r IH]; simpl; intro ND; [constructor|]. inversion ND; subst.
    unfold tab in *. simpl. rewrite map_app. apply NoDup_app_iff. repeat split.
    - destruct (g x); simpl; [constructor; [intros []|constructor] | constructor].
    - apply IH. assumption.
    - intros a Ha Hb. apply tab_keys_incl in Hb.
      destruct (g x); simpl in Ha; [destruct Ha as [<-|[]]; contradiction | contradiction].
  Qed.

  Lemma tab_in l x : In x l -> forall v, g x = Some v -> In (x, v) (tab l).
  Proof.
    intros Hx v Hv. unfold tab. apply in_flat_map. exists x. split; [exact Hx|]. rewrite Hv. left. reflexivity.
  Qed.

  Lemma tab_get d0 l x : NoDup l -> In x l -> ~ In x (dkeys d0) -> d_get (d_update d0 (tab l)) x = g x.
  Proof.
    intros ND Hx H0. destruct (g x) as [v|] eqn:G.
    - apply d_get_d_update_in; [apply tab_keys_nodup; exact ND | apply tab_in; assumption].
    - rewrite d_get_d_update_notin.
      + apply d_get_none_iff. exact H0.
      + intro Hin. apply in_map_iff in Hin as [[y w] [E Hin]]. simpl in E. subst y.
        unfold tab in Hin. apply in_flat_map in Hin as [z [Hz Hin]].
        destruct (g z) eqn:Gz; simpl in Hin; [|contradiction].
        destruct Hin as [Hin|[]]. inversion Hin; subst. congruence.
  Qed.

  Lemma tab_get_other d0 l x : ~ In x l -> d_get (d_update d0 (tab l)) x = d_get d0 x.
  Proof. intro H. apply d_get_d_update_notin. intro Hin. apply tab_keys_incl in Hin. contradiction. Qed.
End Tabulate.

(* ---- FunctionBuilder states ------------------------------------------------------------------ *)
Definition fb_sig (b : fbuilder) : signature :=
  mk_sig (d_get (fb_annotations b)) (fb_args b) (odflt (fb_defaults b)) (fb_varargs b)
         (fb_kwonly b) (fb_kwdefaults b) (fb_varkw b).

Record good (b : fbuilder) : Prop := {
  g_nodup : NoDup (all_names b);
  g_nonzero : ~ In 0 (all_names b);
  g_len : length (odflt (fb_defaults b)) <= length (fb_args b);
  g_kwd : incl (dkeys (fb_kwdefaults b)) (fb_kwonly b);
  g_kwd_nd : NoDup (dkeys (fb_kwdefaults b));
  g_ann_nd : NoDup (dkeys (fb_annotations b));
  g_ann : forall x, In x (dkeys (fb_annotations b)) -> x = RET \/ In x (all_names b)
}.

(* ---- getfullargspec read back from a signature --------------------------------------------------- *)
Section Argspec.
  Variables (an : name -> option ann) (args : list name) (D : list value)
            (va : option name) (kwonly : list name) (kwd : pydict value) (vk : option name).
  Hypothesis HL : length D <= length args.
  Let s := mk_sig an args D va kwonly kwd vk.

  Lemma argspec_args_eq : argspec_args s = args.
  Proof.
    unfold argspec_args, s, mk_sig. cbn [sg_params]. rewrite mk_params_sparams. unfold sparams.
    rewrite !filter_app.
    rewrite (filter_all_kind _ _ (seg_P an args D)).
    rewrite (filter_okind_other _ PosOrKw _ (seg_VA an va)) by discriminate.
    rewrite (filter_other_kind _ PosOrKw _ (seg_KP an kwonly kwd)) by discriminate.
    rewrite (filter_okind_other _ PosOrKw _ (seg_VK an vk)) by discriminate.
    rewrite !app_nil_r. apply pos_params_names.
  Qed.

  Lemma argspec_kwonly_eq : argspec_kwonly s = kwonly.
  Proof.
    unfold argspec_kwonly, s, mk_sig. cbn [sg_params]. rewrite mk_params_sparams. unfold sparams.
    rewrite !filter_app.
    rewrite (filter_other_kind _ KwOnly _ (seg_P an args D)) by discriminate.
    rewrite (filter_okind_other _ KwOnly _ (seg_VA an va)) by discriminate.
    rewrite (filter_all_kind _ _ (seg_KP an kwonly kwd)).
    rewrite (filter_okind_other _ KwOnly _ (seg_VK an vk)) by discriminate.
    rewrite app_nil_r. simpl. rewrite map_map. simpl. apply map_id.
  Qed.

  Lemma argspec_varpos_eq : argspec_var VarPos s = va.
  Proof.
    unfold argspec_var, s, mk_sig. cbn [sg_params]. rewrite mk_params_sparams. unfold sparams.
    rewrite !filter_app.
    rewrite (filter_other_kind _ VarPos _ (seg_P an args D)) by discriminate.
    rewrite (filter_okind_same _ _ (seg_VA an va)).
    rewrite (filter_other_kind _ VarPos _ (seg_KP an kwonly kwd)) by discriminate.
    rewrite (filter_okind_other _ VarPos _ (seg_VK an vk)) by discriminate.
    destruct va; reflexivity.
  Qed.

  Lemma argspec_varkw_eq : argspec_var VarKw s = vk.
  Proof.
    unfold argspec_var, s, mk_sig. cbn [sg_params]. rewrite mk_params_sparams. unfold sparams.
    rewrite !filter_app.
    rewrite (filter_other_kind _ VarKw _ (seg_P an args D)) by discriminate.
    rewrite (filter_okind_other _ VarKw _ (seg_VA an va)) by discriminate.
    rewrite (filter_other_kind _ VarKw _ (seg_KP an kwonly kwd)) by discriminate.
    rewrite (filter_okind_same _ _ (seg_VK an vk)).
    destruct vk; reflexivity.
  Qed.

  Lemma argspec_defaults_eq : odflt (argspec_defaults s) = D.
  Proof.
    unfold argspec_defaults, s, mk_sig. cbn [sg_params]. unfold mk_params.
    rewrite !flat_map_app.
    rewrite (flat_map_ext_in' _ (fun p => olist (p_default p)) (pos_params an args (length args - length D) D)).
    2:{ intros p Hp. pose proof (pos_params_kinds an args (length args - length D) D) as Kd.
        rewrite forallb_forall in Kd. rewrite (Kd p Hp). reflexivity. }
    rewrite pos_params_defaults by exact HL.
    rewrite !flat_map_nil.
    - rewrite !app_nil_r. destruct D; reflexivity.
    - intros p Hp. apply in_map_iff in Hp as [n [<- _]]. reflexivity.
    - intros p Hp. apply in_map_iff in Hp as [n [<- _]]. reflexivity.
    - intros p Hp. apply in_map_iff in Hp as [n [<- _]]. reflexivity.
  Qed.

  Lemma argspec_kwdefaults_eq : argspec_kwdefaults s = d_update [] (tab (d_get kwd) kwonly).
  Proof.
    unfold argspec_kwdefaults, s, mk_sig. cbn [sg_params]. unfold mk_params. f_equal.
    rewrite !flat_map_app.
    rewrite (flat_map_nil _ (pos_params an args (length args - length D) D)).
    2:{ intros p Hp. pose proof (pos_params_kinds an args (length args - length D) D) as Kd.
        rewrite forallb_forall in Kd. specialize (Kd p Hp). apply kind_eqb_eq in Kd. rewrite Kd. reflexivity. }
    rewrite (flat_map_nil _ (map _ (olist va))).
    2:{ intros p Hp. apply in_map_iff in Hp as [n [<- _]]. reflexivity. }
    rewrite (flat_map_nil _ (map _ (olist vk))).
    2:{ intros p Hp. apply in_map_iff in Hp as [n [<- _]]. reflexivity. }
    rewrite app_nil_r. simpl. unfold tab.
    induction kwonly as [|k r IH]; [reflexivity|]. simpl. rewrite IH. reflexivity.
  Qed.

  Lemma argspec_annotations_eq :
    argspec_annotations s =
    d_update (match an RET with Some a => [(RET, a)] | None => [] end)
             (tab an (args ++ olist va ++ kwonly ++ olist vk)).
  Proof.
    unfold argspec_annotations, s, mk_sig. cbn [sg_params sg_ret]. f_equal.
    rewrite <- mk_params_names with (an := an) (D := D) (kwd := kwd).
    pose proof (mk_params_ann an args D va kwonly kwd vk) as HA.
    induction (mk_params an args D va kwonly kwd vk) as [|p r IH]; [reflexivity|].
    simpl. unfold tab in *. simpl. rewrite IH by (intros q Hq; apply HA; right; exact Hq).
    rewrite (HA p (or_introl eq_refl)). reflexivity.
  Qed.
End Argspec.

(* ---- from_func ------------------------------------------------------------------------------------ *)
Lemma from_func_good f : wf_func f ->
  exists b, from_func f = Ok b /\ good b /\ fb_sig b = func_sig f /\
            fb_name b = f_name f /\ fb_doc b = match f_doc f with Some d => d | None => 0 end /\
            fb_module b = f_module f /\ fb_async b = f_async f.
Proof.
  intros [ND NZ L]. unfold from_func. rewrite (sig_of_func_sig f L). eexists. split; [reflexivity|].
  unfold func_sig.
  set (an := d_get (f_annotations f)). set (kwd := odflt (f_kwdefaults f)).
  set (args := f_args f) in *. set (D := odflt (f_defaults f)) in *.
  set (va := f_varargs f). set (kwonly := f_kwonly f). set (vk := f_varkw f).
  assert (NDk : NoDup kwonly).
  { unfold func_names in ND. fold args va kwonly vk in ND.
    apply NoDup_app_r in ND. apply NoDup_app_r in ND. apply NoDup_app_l in ND. exact ND. }
  (* the names, as all_names sees them *)
  assert (EN : all_names
     (mkFB (f_name f) (match f_doc f with Some d => d | None => 0 end) (f_module f)
        (argspec_args (mk_sig an args D va kwonly kwd vk))
        (argspec_var VarPos (mk_sig an args D va kwonly kwd vk))
        (argspec_var VarKw (mk_sig an args D va kwonly kwd vk))
        (argspec_defaults (mk_sig an args D va kwonly kwd vk))
        (argspec_kwonly (mk_sig an args D va kwonly kwd vk))
        (argspec_kwdefaults (mk_sig an args D va kwonly kwd vk))
        (argspec_annotations (mk_sig an args D va kwonly kwd vk)) (f_async f) (f_dict f)) = func_names f).
  { unfold all_names, func_names. cbn [fb_args fb_varargs fb_kwonly fb_varkw].
    rewrite argspec_args_eq, argspec_varpos_eq, argspec_kwonly_eq, argspec_varkw_eq by exact L. reflexivity. }
  assert (R0 : forall x, In x (func_names f) ->
               ~ In x (dkeys (match an RET with Some a => [(RET, a)] | None => [] end))).
  { intros x Hx. destruct (an RET); simpl; [|intros []]. intros [E|[]]. apply NZ. unfold RET in E. rewrite E. exact Hx. }
  split; [|split; [|repeat split]].
  - constructor.
    + rewrite EN. exact ND.
    + rewrite EN. exact NZ.
    + cbn [fb_defaults fb_args]. rewrite argspec_defaults_eq, argspec_args_eq by exact L. exact L.
    + cbn [fb_kwdefaults fb_kwonly]. rewrite argspec_kwdefaults_eq, argspec_kwonly_eq.
      intros x Hx. apply d_update_keys in Hx as [[]|Hx]. apply tab_keys_incl in Hx. exact Hx.
    + cbn [fb_kwdefaults]. rewrite argspec_kwdefaults_eq. apply d_update_nodup. constructor.
    + cbn [fb_annotations]. rewrite argspec_annotations_eq. apply d_update_nodup.
      destruct (an RET); simpl; [constructor; [intros []|constructor] | constructor].
    + intros x Hx. rewrite EN. cbn [fb_annotations] in Hx. rewrite argspec_annotations_eq in Hx.
      apply d_update_keys in Hx as [Hx|Hx].
      * left. destruct (an RET); simpl in Hx; [destruct Hx as [<-|[]]; reflexivity | contradiction].
      * right. apply tab_keys_incl in Hx. exact Hx.
  - (* the signature is the same *)
    unfold fb_sig. cbn [fb_annotations fb_args fb_defaults fb_varargs fb_kwonly fb_kwdefaults fb_varkw].
    rewrite argspec_args_eq, argspec_varpos_eq, argspec_kwonly_eq, argspec_varkw_eq, argspec_defaults_eq by exact L.
    rewrite argspec_kwdefaults_eq, argspec_annotations_eq.
    unfold mk_sig. f_equal.
    + apply mk_params_ext.
      * intros x Hx. apply tab_get; [exact ND | exact Hx | apply R0; exact Hx].
      * intros k Hk. apply tab_get; [exact NDk | exact Hk | intros []].
    + rewrite tab_get_other by (intro Hx; apply NZ; exact Hx).
      destruct (an RET) eqn:E; simpl; [reflexivity | reflexivity].
Qed.

(* ---- what the Spec's tests see on fb_sig ------------------------------------------------------------ *)
Lemma existsb_map {A C} (f : C -> bool) (g : A -> C) l : existsb f (map g l) = existsb (fun x => f (g x)) l.
Proof. induction l as [|x r IH]; simpl; [reflexivity|]. rewrite IH. reflexivity. Qed.

Lemma existsb_ext_in {A} (f g : A -> bool) l : (forall x, In x l -> f x = g x) -> existsb f l = existsb g l.
Proof.
  induction l as [|x r IH]; simpl; intro H; [reflexivity|].
  rewrite (H x (or_introl eq_refl)). f_equal. apply IH. intros y Hy. apply H. right. exact Hy.
Qed.

Lemma existsb_olist_false {A C} (f : C -> bool) (g : A -> C) o :
  (forall x, f (g x) = false) -> existsb f (map g (olist o)) = false.
Proof. intro H. destruct o; simpl; [rewrite H|]; reflexivity. Qed.

Lemma pos_named an args skip D n :
  existsb (is_named n) (pos_params an args skip D) = mem n args.
Proof.
  rewrite <- (pos_params_names an args skip D) at 2. unfold mem. rewrite existsb_map. reflexivity.
Qed.

Lemma removable_exists b n :
  existsb (removable n) (sg_params (fb_sig b)) = mem n (fb_args b) || mem n (fb_kwonly b).
Proof.
  unfold fb_sig, mk_sig, mk_params. cbn [sg_params]. rewrite !existsb_app.
  rewrite (existsb_ext_in (removable n) (is_named n) (pos_params _ _ _ _)).
  2:{ intros p Hp. pose proof (pos_params_kinds (d_get (fb_annotations b)) (fb_args b)
        (length (fb_args b) - length (odflt (fb_defaults b))) (odflt (fb_defaults b))) as Kd.
      rewrite forallb_forall in Kd. specialize (Kd p Hp). apply kind_eqb_eq in Kd.
      unfold removable. rewrite Kd. apply andb_true_r. }
  rewrite pos_named.
  rewrite (existsb_olist_false (removable n)) by (intro x; unfold removable; simpl; apply andb_false_r).
  rewrite (existsb_olist_false (removable n)) by (intro x; unfold removable; simpl; apply andb_false_r).
  rewrite existsb_map. simpl. rewrite orb_false_r.
  f_equal. unfold mem. apply existsb_ext_in. intros k _. unfold removable, is_named. simpl. apply andb_true_r.
Qed.

Lemma named_exists b n :
  existsb (is_named n) (sg_params (fb_sig b)) = mem n (all_names b).
Proof.
  unfold fb_sig, mk_sig. cbn [sg_params]. unfold mem, all_names.
  rewrite <- (mk_params_names (d_get (fb_annotations b)) (fb_args b) (odflt (fb_defaults b)) (fb_varargs b)
                (fb_kwonly b) (fb_kwdefaults b) (fb_varkw b)).
  rewrite existsb_map. reflexivity.
Qed.

Lemma has_varkw_fb b :
  has_varkw (fb_sig b) = match fb_varkw b with Some _ => true | None => false end.
Proof.
  unfold has_varkw, fb_sig, mk_sig, mk_params. cbn [sg_params]. rewrite !existsb_app.
  rewrite (proj2 (existsb_false_iff _ (pos_params _ _ _ _))).
  2:{ intros p Hp. pose proof (pos_params_kinds (d_get (fb_annotations b)) (fb_args b)
        (length (fb_args b) - length (odflt (fb_defaults b))) (odflt (fb_defaults b))) as Kd.
      rewrite forallb_forall in Kd. specialize (Kd p Hp). apply kind_eqb_eq in Kd. rewrite Kd. reflexivity. }
  rewrite (existsb_olist_false (fun p => kind_eqb (p_kind p) VarKw)) by reflexivity.
  rewrite existsb_map. simpl.
  rewrite (proj2 (existsb_false_iff _ (fb_kwonly b))) by reflexivity.
  destruct (fb_varkw b); reflexivity.
Qed.

Lemma has_pos_default_fb b : length (odflt (fb_defaults b)) <= length (fb_args b) ->
  has_pos_default (fb_sig b) = match odflt (fb_defaults b) with [] => false | _ => true end.
Proof.
  intro L. unfold has_pos_default, fb_sig, mk_sig, mk_params. cbn [sg_params]. rewrite !existsb_app.
  rewrite (existsb_olist_false (fun p => kind_eqb (p_kind p) PosOrKw && _)) by reflexivity.
  rewrite (existsb_olist_false (fun p => kind_eqb (p_kind p) PosOrKw && _)) by reflexivity.
  rewrite (existsb_map _ _ (fb_kwonly b)). simpl.
  rewrite (proj2 (existsb_false_iff _ (fb_kwonly b))) by reflexivity.
  rewrite !orb_false_r.
  pose proof (pos_params_defaults (d_get (fb_annotations b)) (fb_args b) (odflt (fb_defaults b)) L) as PD.
  pose proof (pos_params_kinds (d_get (fb_annotations b)) (fb_args b)
        (length (fb_args b) - length (odflt (fb_defaults b))) (odflt (fb_defaults b))) as Kd.
  revert PD Kd. generalize (pos_params (d_get (fb_annotations b)) (fb_args b)
        (length (fb_args b) - length (odflt (fb_defaults b))) (odflt (fb_defaults b))) as ps.
  generalize (odflt (fb_defaults b)) as D.
  intros D ps. revert D. induction ps as [|p r IH]; intros D PD Kd.
  - simpl in PD. subst D. reflexivity.
  - simpl in Kd. apply andb_true_iff in Kd as [K1 K2]. simpl. rewrite K1. simpl in PD.
    destruct (p_default p) as [d|]; simpl in PD.
    + subst D. reflexivity.
    + simpl. apply IH; assumption.
Qed.

(* ---- names bookkeeping --------------------------------------------------------------------------------- *)
Lemma NoDup_filter_app (f : nat -> bool) l1 l2 : NoDup (l1 ++ l2) -> NoDup (filter f l1 ++ l2).
Proof.
  intro H. apply NoDup_app_iff in H as [N1 [N2 Dj]]. apply NoDup_app_iff. repeat split.
  - apply NoDup_filter. exact N1.
  - exact N2.
  - intros a Ha. apply filter_In in Ha as [Ha _]. apply Dj. exact Ha.
Qed.

Lemma filter_neq_In n x l : In x (filter (fun y => negb (Nat.eqb n y)) l) <-> In x l /\ x <> n.
Proof.
  rewrite filter_In, negb_true_iff, Nat.eqb_neq. split; intros [H1 H2]; split; auto.
Qed.

Definition same_meta (b b' : fbuilder) : Prop :=
  fb_name b' = fb_name b /\ fb_doc b' = fb_doc b /\ fb_module b' = fb_module b /\
  fb_async b' = fb_async b.

Lemma same_meta_refl b : same_meta b b.
Proof. repeat split. Qed.
Lemma same_meta_trans a b c : same_meta a b -> same_meta b c -> same_meta a c.
Proof. unfold same_meta. intros [? [? [? ?]]] [? [? [? ?]]]. repeat split; congruence. Qed.

(* ---- remove_arg ------------------------------------------------------------------------------------------- *)
Lemma remove_arg_pos b n args' : good b -> list_remove n (fb_args b) = Some args' ->
  exists b', remove_arg b n = Ok b' /\ good b' /\ fb_sig b' = sig_remove n (fb_sig b) /\
             same_meta b b' /\ fb_varkw b' = fb_varkw b.
Proof.
  intros G LR. unfold remove_arg. rewrite LR. eexists. split; [reflexivity|].
  destruct G as [ND NZ L KI KN AN AI].
  set (an := d_get (fb_annotations b)). set (an' := d_get (d_del (fb_annotations b) n)).
  set (args := fb_args b) in *. set (D := odflt (fb_defaults b)) in *.
  set (kwd := fb_kwdefaults b) in *.
  unfold all_names in ND, NZ, AI. fold args in ND, NZ, AI.
  assert (NDa : NoDup args) by (apply NoDup_app_l in ND; exact ND).
  destruct (list_remove_filter n args args' NDa LR) as [Hn EA].
  assert (Hne : forall x, In x (olist (fb_varargs b) ++ fb_kwonly b ++ olist (fb_varkw b)) -> x <> n).
  { intros x Hx E. subst x. exact (NoDup_app_disj _ _ n ND Hn Hx). }
  assert (Hn0 : n <> 0) by (intro E; apply NZ; apply in_or_app; left; rewrite <- E; exact Hn).
  assert (AN' : forall x, x <> n -> an' x = an x) by (intros x Hx; apply d_get_d_del_other; exact Hx).
  assert (Ha' : forall a, In a args' -> a <> n) by (intros a Ha; rewrite EA in Ha; apply filter_neq_In in Ha; tauto).
  destruct (pos_params_remove an an' args D kwd n args' NDa L) as [L' EP].
  { intros a Ha Hk. apply KI in Hk. apply (NoDup_app_disj _ _ a ND Ha).
    apply in_or_app. right. apply in_or_app. left. exact Hk. }
  { exact LR. }
  { intros a Ha. apply AN'. apply Ha'. exact Ha. }
  cbv zeta in L', EP.
  split; [|split; [|split; [repeat split | reflexivity]]].
  - (* good *)
    constructor; unfold all_names; cbn [fb_args fb_varargs fb_kwonly fb_varkw fb_defaults fb_kwdefaults fb_annotations odflt].
    + rewrite EA. apply NoDup_filter_app. exact ND.
    + intro H0. apply NZ. apply in_app_or in H0 as [H0|H0]; apply in_or_app; [left|right; exact H0].
      rewrite EA in H0. apply filter_In in H0. tauto.
    + exact L'.
    + exact KI.
    + exact KN.
    + apply d_del_nodup. exact AN.
    + intros x Hx. assert (Hxn : x <> n) by (intro E; subst x; exact (d_del_key_gone _ _ AN Hx)).
      apply d_del_keys_incl in Hx. destruct (AI x Hx) as [E|Hin]; [left; exact E | right].
      apply in_app_or in Hin as [Hin|Hin]; apply in_or_app; [left | right; exact Hin].
      rewrite EA. apply filter_neq_In. split; assumption.
  - (* the signature *)
    unfold fb_sig, sig_remove, mk_sig. cbn [fb_args fb_varargs fb_kwonly fb_varkw fb_defaults fb_kwdefaults fb_annotations odflt sg_params sg_ret].
    fold an an' args D kwd. f_equal; [|apply AN'; exact (not_eq_sym Hn0)].
    unfold mk_params. rewrite !filter_app. f_equal; [|f_equal; [|f_equal]].
    + unfold get_defaults_dict in *. fold args D kwd. rewrite EP.
      apply filter_ext_in'. intros p Hp.
      pose proof (pos_params_kinds an args (length args - length D) D) as Kd.
      rewrite forallb_forall in Kd. specialize (Kd p Hp). apply kind_eqb_eq in Kd.
      unfold removable, is_named. rewrite Kd, andb_true_r. reflexivity.
    + rewrite filter_true by (intros p Hp; apply in_map_iff in Hp as [x [<- _]]; unfold removable; simpl; rewrite andb_false_r; reflexivity).
      apply map_ext_in. intros x Hx. rewrite AN'; [reflexivity|]. apply Hne. apply in_or_app. left. exact Hx.
    + rewrite filter_true.
      * apply map_ext_in. intros x Hx. rewrite AN'; [reflexivity|]. apply Hne. apply in_or_app. right. apply in_or_app. left. exact Hx.
      * intros p Hp. apply in_map_iff in Hp as [x [<- Hx]]. unfold removable, is_named. simpl. rewrite andb_true_r.
        apply negb_true_iff. apply Nat.eqb_neq. apply not_eq_sym. apply Hne. apply in_or_app. right. apply in_or_app. left. exact Hx.
    + rewrite filter_true by (intros p Hp; apply in_map_iff in Hp as [x [<- _]]; unfold removable; simpl; rewrite andb_false_r; reflexivity).
      apply map_ext_in. intros x Hx. rewrite AN'; [reflexivity|]. apply Hne. apply in_or_app. right. apply in_or_app. right. exact Hx.
Qed.

Lemma remove_arg_kw b n kwonly' : good b ->
  list_remove n (fb_args b) = None -> list_remove n (fb_kwonly b) = Some kwonly' ->
  exists b', remove_arg b n = Ok b' /\ good b' /\ fb_sig b' = sig_remove n (fb_sig b) /\
             same_meta b b' /\ fb_varkw b' = fb_varkw b.
Proof.
  intros G LA LK. unfold remove_arg. rewrite LA, LK. eexists. split; [reflexivity|].
  destruct G as [ND NZ L KI KN AN AI].
  set (an := d_get (fb_annotations b)). set (an' := d_get (d_del (fb_annotations b) n)).
  set (args := fb_args b) in *. set (D := odflt (fb_defaults b)) in *.
  set (kwd := fb_kwdefaults b) in *. set (kwonly := fb_kwonly b) in *.
  unfold all_names in ND, NZ, AI. fold args kwonly in ND, NZ, AI.
  assert (NDk : NoDup kwonly).
  { apply NoDup_app_r in ND. apply NoDup_app_r in ND. apply NoDup_app_l in ND. exact ND. }
  destruct (list_remove_filter n kwonly kwonly' NDk LK) as [Hn EK].
  apply list_remove_none in LA.
  assert (NDvk : NoDup (olist (fb_varargs b) ++ kwonly ++ olist (fb_varkw b))) by (apply NoDup_app_r in ND; exact ND).
  assert (Hva : forall x, In x (olist (fb_varargs b)) -> x <> n).
  { intros x Hx E. subst x. apply (NoDup_app_disj _ _ n NDvk Hx). apply in_or_app. left. exact Hn. }
  assert (Hvk : forall x, In x (olist (fb_varkw b)) -> x <> n).
  { intros x Hx E. subst x. apply NoDup_app_r in NDvk. exact (NoDup_app_disj _ _ n NDvk Hn Hx). }
  assert (Hn0 : n <> 0).
  { intro E. apply NZ. apply in_or_app. right. apply in_or_app. right. apply in_or_app. left. rewrite <- E. exact Hn. }
  assert (AN' : forall x, x <> n -> an' x = an x) by (intros x Hx; apply d_get_d_del_other; exact Hx).
  assert (Haa : forall a, In a args -> a <> n) by (intros a Ha E; subst a; contradiction).
  split; [|split; [|split; [repeat split | reflexivity]]].
  - constructor; unfold all_names; cbn [fb_args fb_varargs fb_kwonly fb_varkw fb_defaults fb_kwdefaults fb_annotations].
    + fold args. rewrite EK.
      apply NoDup_app_iff in ND as [N1 [N2 Dj]]. apply NoDup_app_iff. repeat split; [exact N1| |].
      * apply NoDup_app_iff in N2 as [M1 [M2 Dj2]]. apply NoDup_app_iff. repeat split; [exact M1| |].
        -- apply NoDup_filter_app. exact M2.
        -- intros a Ha Hb. apply (Dj2 a Ha). apply in_app_or in Hb as [Hb|Hb]; apply in_or_app; [left|right; exact Hb].
           apply filter_In in Hb. tauto.
      * intros a Ha Hb. apply (Dj a Ha). apply in_app_or in Hb as [Hb|Hb]; apply in_or_app; [left; exact Hb|right].
        apply in_app_or in Hb as [Hb|Hb]; apply in_or_app; [left|right; exact Hb]. apply filter_In in Hb. tauto.
    + fold args. intro H0. apply NZ. apply in_app_or in H0 as [H0|H0]; apply in_or_app; [left; exact H0|right].
      apply in_app_or in H0 as [H0|H0]; apply in_or_app; [left; exact H0|right].
      apply in_app_or in H0 as [H0|H0]; apply in_or_app; [left|right; exact H0].
      rewrite EK in H0. apply filter_In in H0. tauto.
    + exact L.
    + intros x Hx. assert (Hxn : x <> n) by (intro E; subst x; exact (d_del_key_gone _ _ KN Hx)).
      apply d_del_keys_incl in Hx. rewrite EK. apply filter_neq_In. split; [apply KI; exact Hx | exact Hxn].
    + apply d_del_nodup. exact KN.
    + apply d_del_nodup. exact AN.
    + fold args. intros x Hx. assert (Hxn : x <> n) by (intro E; subst x; exact (d_del_key_gone _ _ AN Hx)).
      apply d_del_keys_incl in Hx. destruct (AI x Hx) as [E|Hin]; [left; exact E | right].
      apply in_app_or in Hin as [Hin|Hin]; apply in_or_app; [left; exact Hin | right].
      apply in_app_or in Hin as [Hin|Hin]; apply in_or_app; [left; exact Hin | right].
      apply in_app_or in Hin as [Hin|Hin]; apply in_or_app; [left | right; exact Hin].
      rewrite EK. apply filter_neq_In. split; assumption.
  - unfold fb_sig, sig_remove, mk_sig. cbn [fb_args fb_varargs fb_kwonly fb_varkw fb_defaults fb_kwdefaults fb_annotations sg_params sg_ret].
    fold an an' args D kwd kwonly. f_equal; [|apply AN'; exact (not_eq_sym Hn0)].
    unfold mk_params. rewrite !filter_app. f_equal; [|f_equal; [|f_equal]].
    + rewrite filter_true.
      * apply pos_params_ext. intros a Ha. apply AN'. apply Haa. exact Ha.
      * intros p Hp. unfold removable, is_named.
        assert (In (p_name p) args) by (rewrite <- (pos_params_names an args (length args - length D) D); apply in_map; exact Hp).
        replace (Nat.eqb n (p_name p)) with false; [reflexivity|].
        symmetry. apply Nat.eqb_neq. apply not_eq_sym. apply Haa. assumption.
    + rewrite filter_true by (intros p Hp; apply in_map_iff in Hp as [x [<- _]]; unfold removable; simpl; rewrite andb_false_r; reflexivity).
      apply map_ext_in. intros x Hx. rewrite AN'; [reflexivity|]. apply Hva. exact Hx.
    + rewrite filter_map_comm. rewrite EK.
      rewrite (filter_ext_in' (fun x => negb (removable n (mkP x KwOnly (d_get kwd x) (an x))))
                              (fun y => negb (Nat.eqb n y)) kwonly)
        by (intros x _; unfold removable, is_named; simpl; rewrite andb_true_r; reflexivity).
      apply map_ext_in. intros x Hx. apply filter_neq_In in Hx as [_ Hx].
      rewrite AN' by exact Hx. rewrite (d_get_d_del_other kwd n x Hx). reflexivity.
    + rewrite filter_true by (intros p Hp; apply in_map_iff in Hp as [x [<- _]]; unfold removable; simpl; rewrite andb_false_r; reflexivity).
      apply map_ext_in. intros x Hx. rewrite AN'; [reflexivity|]. apply Hvk. exact Hx.
Qed.

Lemma remove_arg_missing b n :
  list_remove n (fb_args b) = None -> list_remove n (fb_kwonly b) = None ->
  remove_arg b n = Raise ValueError /\ existsb (removable n) (sg_params (fb_sig b)) = false.
Proof.
  intros LA LK. split.
  - unfold remove_arg. rewrite LA, LK. reflexivity.
  - rewrite removable_exists. apply list_remove_none in LA. apply list_remove_none in LK.
    apply mem_false in LA. apply mem_false in LK. rewrite LA, LK. reflexivity.
Qed.

Lemma list_remove_some_mem n l l' : list_remove n l = Some l' -> mem n l = true.
Proof.
  intro H. destruct (mem n l) eqn:E; [reflexivity|]. apply mem_false in E. apply list_remove_none in E. congruence.
Qed.

(* remove_args runs in lock-step with spec_injects *)
Lemma remove_args_refines tv inj : forall b, good b ->
  match remove_args tv b inj, spec_injects_opt tv inj (fb_sig b) with
  | Ok b', Ok s' => good b' /\ fb_sig b' = s' /\ same_meta b b'
  | Raise _, Raise _ => True
  | _, _ => False
  end.
Proof.
  induction inj as [|n r IH]; intros b G.
  - simpl. split; [exact G | split; [reflexivity | apply same_meta_refl]].
  - cbn [remove_args spec_injects_opt]. unfold spec_inject_opt.
    destruct (list_remove n (fb_args b)) as [args'|] eqn:LA.
    + destruct (remove_arg_pos b n args' G LA) as [b' [E [G' [S [M V]]]]].
      rewrite E, removable_exists, (list_remove_some_mem _ _ _ LA). simpl. rewrite <- S.
      specialize (IH b' G'). destruct (remove_args tv b' r), (spec_injects_opt tv r (fb_sig b')); try exact IH.
      destruct IH as [? [? ?]]. split; [assumption | split; [assumption | eapply same_meta_trans; eassumption]].
    + destruct (list_remove n (fb_kwonly b)) as [kwonly'|] eqn:LK.
      * destruct (remove_arg_kw b n kwonly' G LA LK) as [b' [E [G' [S [M V]]]]].
        rewrite E, removable_exists, (list_remove_some_mem _ _ _ LK), orb_true_r. rewrite <- S.
        specialize (IH b' G'). destruct (remove_args tv b' r), (spec_injects_opt tv r (fb_sig b')); try exact IH.
        destruct IH as [? [? ?]]. split; [assumption | split; [assumption | eapply same_meta_trans; eassumption]].
      * destruct (remove_arg_missing b n LA LK) as [E X]. rewrite E, X, has_varkw_fb.
        destruct tv; [|destruct (fb_varkw b); exact I].
        destruct (fb_varkw b); [apply IH; exact G | exact I].
Qed.

(* ---- add_arg ------------------------------------------------------------------------------------------------- *)
Lemma insert_pos_app q P rest :
  all_kind PosOrKw P = true ->
  match rest with [] => True | r :: _ => p_kind r <> PosOrKw end ->
  insert_pos q (P ++ rest) = P ++ q :: rest.
Proof.
  induction P as [|p r IH]; simpl; intros A H.
  - destruct rest as [|x rest']; [reflexivity|]. simpl. destruct (p_kind x); try reflexivity. congruence.
  - apply andb_true_iff in A as [A1 A2]. apply kind_eqb_eq in A1. rewrite A1. f_equal. apply IH; assumption.
Qed.

Lemma rest_head_not_pos an va kwonly kwd vk :
  match map (fun n => mkP n VarPos None (an n)) (olist va)
        ++ map (fun n => mkP n KwOnly (d_get kwd n) (an n)) kwonly
        ++ map (fun n => mkP n VarKw None (an n)) (olist vk) with
  | [] => True
  | r :: _ => p_kind r <> PosOrKw
  end.
Proof. destruct va, kwonly, vk; simpl; try exact I; discriminate. Qed.

Lemma add_arg_refines b n d : good b -> n <> 0 ->
  match add_arg b n d, spec_expect (n, d) (fb_sig b) with
  | Ok b', Ok s' => good b' /\ fb_sig b' = s' /\ same_meta b b'
  | Ok b', Raise _ => ~ NoDup (all_names b')
  | Raise _, Raise _ => True
  | Raise _, Ok _ => False
  end.
Proof.
  intros G Hn0. pose proof G as [ND NZ L KI KN AN AI].
  unfold add_arg, spec_expect. rewrite named_exists.
  destruct (mem n (fb_args b)) eqn:MA.
  { replace (mem n (all_names b)) with true; [exact I|]. symmetry. apply mem_In. apply mem_In in MA.
    unfold all_names. apply in_or_app. left. exact MA. }
  destruct (mem n (fb_kwonly b)) eqn:MK.
  { replace (mem n (all_names b)) with true; [exact I|]. symmetry. apply mem_In. apply mem_In in MK.
    unfold all_names. apply in_or_app. right. apply in_or_app. right. apply in_or_app. left. exact MK. }
  rewrite (has_pos_default_fb b L).
  set (an := d_get (fb_annotations b)). set (args := fb_args b) in *. set (D := odflt (fb_defaults b)) in *.
  assert (HD : match fb_defaults b with Some (_ :: _) => true | _ => false end =
               match D with [] => false | _ => true end).
  { unfold D. destruct (fb_defaults b) as [[|]|]; reflexivity. }
  rewrite HD.
  destruct (mem n (all_names b)) eqn:MN.
  - (* the name of *args / **kwargs: the model goes on with a duplicate name *)
    apply mem_In in MN.
    assert (DUP : ~ NoDup ((args ++ [n]) ++ olist (fb_varargs b) ++ fb_kwonly b ++ olist (fb_varkw b))).
    { intros H. rewrite <- app_assoc in H. simpl in H. apply NoDup_remove_2 in H. apply H. exact MN. }
    destruct d as [v|].
    + unfold all_names. cbn [fb_args fb_varargs fb_kwonly fb_varkw]. exact DUP.
    + destruct D; [|exact I]. unfold all_names. cbn [fb_args fb_varargs fb_kwonly fb_varkw]. exact DUP.
  - (* a fresh name *)
    apply mem_false in MN.
    assert (ANn : an n = None).
    { apply d_get_none_iff. intro Hk. destruct (AI n Hk) as [E|Hin]; [exact (Hn0 E) | exact (MN Hin)]. }
    assert (GOOD : forall dflt, length (odflt dflt) <= length (args ++ [n]) ->
      good (mkFB (fb_name b) (fb_doc b) (fb_module b) (args ++ [n]) (fb_varargs b) (fb_varkw b) dflt
                 (fb_kwonly b) (fb_kwdefaults b) (fb_annotations b) (fb_async b) (fb_dict b))).
    { intros dflt Ld. unfold all_names in ND, NZ, AI, MN. fold args in ND, NZ, AI, MN.
      constructor; unfold all_names; cbn [fb_args fb_varargs fb_kwonly fb_varkw fb_defaults fb_kwdefaults fb_annotations].
      - rewrite <- app_assoc. simpl.
        apply NoDup_app_iff in ND as [N1 [N2 Dj]]. apply NoDup_app_iff. repeat split; [exact N1| |].
        + constructor; [|exact N2]. intro H. apply MN. apply in_or_app. right. exact H.
        + intros a Ha [E|Hb]; [subst a; apply MN; apply in_or_app; left; exact Ha | exact (Dj a Ha Hb)].
      - rewrite <- app_assoc. simpl. intro H. apply in_app_or in H as [H|[H|H]].
        + apply NZ. apply in_or_app. left. exact H.
        + exact (Hn0 H).
        + apply NZ. apply in_or_app. right. exact H.
      - exact Ld.
      - exact KI.
      - exact KN.
      - exact AN.
      - intros x Hx. destruct (AI x Hx) as [E|Hin]; [left; exact E | right].
        rewrite <- app_assoc. simpl. apply in_app_or in Hin as [Hin|Hin]; apply in_or_app; [left; exact Hin | right; right; exact Hin]. }
    destruct d as [v|].
    + (* with a default: appended to the defaults tuple *)
      split; [|split; [|repeat split]].
      * apply GOOD. cbn [odflt]. fold D. rewrite !app_length. simpl. lia.
      * unfold fb_sig, mk_sig. cbn [fb_args fb_varargs fb_kwonly fb_varkw fb_defaults fb_kwdefaults fb_annotations odflt sg_params sg_ret].
        fold an args D. f_equal. unfold mk_params.
        rewrite (pos_params_snoc_default an args D n v L), ANn.
        rewrite <- app_assoc. simpl.
        rewrite (insert_pos_app _ _ _ (pos_params_kinds an args (length args - length D) D) (rest_head_not_pos an _ _ _ _)).
        reflexivity.
    + destruct D as [|d0 D0] eqn:ED; [|exact I].
      split; [|split; [|repeat split]].
      * apply GOOD. fold D. rewrite ED. simpl. lia.
      * unfold fb_sig, mk_sig. cbn [fb_args fb_varargs fb_kwonly fb_varkw fb_defaults fb_kwdefaults fb_annotations sg_params sg_ret].
        fold an args D. rewrite ED. f_equal. unfold mk_params.
        change (length (@nil value)) with 0.
        rewrite (pos_params_snoc_nodefault an args n), ANn.
        rewrite <- app_assoc. simpl.
        rewrite (insert_pos_app _ _ _ (pos_params_kinds an args (length args - 0) []) (rest_head_not_pos an _ _ _ _)).
        reflexivity.
Qed.

(* once a name is duplicated it stays duplicated: add_arg only appends to args *)
Lemma add_arg_keeps_dup b n d b' : ~ NoDup (all_names b) -> add_arg b n d = Ok b' -> ~ NoDup (all_names b').
Proof.
  intros DUP E H. apply DUP. unfold add_arg in E.
  destruct (mem n (fb_args b)); [discriminate|]. destruct (mem n (fb_kwonly b)); [discriminate|].
  assert (X : all_names b' = (fb_args b ++ [n]) ++ olist (fb_varargs b) ++ fb_kwonly b ++ olist (fb_varkw b)).
  { destruct d; [inversion E; reflexivity|].
    destruct (match fb_defaults b with Some (_ :: _) => true | _ => false end); [discriminate|].
    inversion E. reflexivity. }
  rewrite X in H. rewrite <- app_assoc in H. simpl in H. apply NoDup_remove_1 in H. exact H.
Qed.

Lemma add_args_keeps_dup exp : forall b b', ~ NoDup (all_names b) -> add_args b exp = Ok b' -> ~ NoDup (all_names b').
Proof.
  induction exp as [|[n d] r IH]; intros b b' DUP E.
  - simpl in E. inversion E; subst. exact DUP.
  - simpl in E. destruct (add_arg b n d) as [b1|e] eqn:A; [|discriminate].
    eapply IH; [|exact E]. eapply add_arg_keeps_dup; eassumption.
Qed.

(* add_args against spec_expects: lock-step, except that a clash with the name
   of *args / **kwargs surfaces only when the source is compiled *)
Lemma add_args_refines exp : forall b, good b -> Forall (fun nd => fst nd <> 0) exp ->
  match add_args b exp, spec_expects exp (fb_sig b) with
  | Ok b', Ok s' => good b' /\ fb_sig b' = s' /\ same_meta b b'
  | Ok b', Raise _ => ~ NoDup (all_names b')
  | Raise _, Raise _ => True
  | Raise _, Ok _ => False
  end.
Proof.
  induction exp as [|[n d] r IH]; intros b G NZ.
  - simpl. split; [exact G | split; [reflexivity | apply same_meta_refl]].
  - inversion NZ as [|? ? Hn NZr]; subst. simpl in Hn. cbn [add_args spec_expects].
    pose proof (add_arg_refines b n d G Hn) as A.
    destruct (add_arg b n d) as [b1|e] eqn:EA; destruct (spec_expect (n, d) (fb_sig b)) as [s1|e'] eqn:ES;
      try exact A; try contradiction.
    + destruct A as [G1 [S1 M1]]. subst s1. specialize (IH b1 G1 NZr).
      destruct (add_args b1 r), (spec_expects r (fb_sig b1)); try exact IH.
      destruct IH as [? [? ?]]. split; [assumption | split; [assumption | eapply same_meta_trans; eassumption]].
    + destruct (add_args b1 r) as [b2|] eqn:E2; [|exact I]. eapply add_args_keeps_dup; eassumption.
Qed.

(* ---- update_wrapper ------------------------------------------------------------------------------------------ *)
Definition fb_func (b : fbuilder) (gid : nat) (with_dict : bool) : pyfunc :=
  mkF (fb_name b) (Some (fb_doc b)) (fb_module b) (fb_args b) (fb_varargs b) (fb_kwonly b) (fb_varkw b)
      (fb_defaults b) (Some (fb_kwdefaults b)) (fb_annotations b) (fb_async b) gid
      (d_set (if with_dict then d_update [] (fb_dict b) else []) K_SOURCE SRC).

Lemma get_func_good b gid wd : good b ->
  get_func b gid wd = Ok (fb_func b gid wd) /\ sig_of (fb_func b gid wd) = Ok (fb_sig b).
Proof.
  intros G. split.
  - unfold get_func. rewrite (proj2 (nodup_b_NoDup _) (g_nodup b G)). reflexivity.
  - rewrite sig_of_func_sig by (simpl; apply (g_len b G)). reflexivity.
Qed.

Lemma get_func_dup b gid wd : ~ NoDup (all_names b) -> get_func b gid wd = Raise SyntaxErr.
Proof.
  intro H. unfold get_func. destruct (nodup_b (all_names b)) eqn:E; [|reflexivity].
  apply nodup_b_NoDup in E. contradiction.
Qed.

Lemma sig_of_set_doc_dict g doc d : sig_of (set_doc_dict g doc d) = sig_of g.
Proof. reflexivity. Qed.

Lemma get_invocation_fb b : get_invocation b = inv_of_params (sg_params (fb_sig b)).
Proof.
  unfold fb_sig, mk_sig. cbn [sg_params]. rewrite mk_params_sparams.
  rewrite inv_of_params_structured by (try apply seg_P; try apply seg_VA; try apply seg_KP; try apply seg_VK).
  unfold get_invocation, inv_of. rewrite pos_params_names. rewrite !map_map. simpl.
  f_equal.
  - destruct (fb_varargs b); reflexivity.
  - destruct (fb_varkw b); reflexivity.
Qed.

(* the __dict__ the result ends up with: __wrapped__ is the wrapped function,
   whatever the copied attributes said (absent with hide_wrapped); no __signature__ *)
Lemma final_dict_wrapped o fid d : NoDup (dkeys d) ->
  d_get (final_dict o fid d) K_WRAPPED = (if o_hide_wrapped o then None else Some fid) /\
  NoDup (dkeys (final_dict o fid d)) /\
  d_get (final_dict o fid d) K_SIGNATURE = None.
Proof.
  intro ND. unfold final_dict.
  assert (N1 : NoDup (dkeys (d_del d K_SIGNATURE))) by (apply d_del_nodup; exact ND).
  destruct (o_hide_wrapped o).
  - split; [apply d_get_d_del_same; exact N1|]. split; [apply d_del_nodup; exact N1|].
    rewrite d_get_d_del_other by discriminate. apply d_get_d_del_same. exact ND.
  - split; [apply d_get_d_set_same|]. split; [apply d_set_nodup; exact N1|].
    rewrite d_get_d_set_other by discriminate. apply d_get_d_del_same. exact ND.
Qed.

Lemma source_dict_nodup (d : pydict nat) (wd : bool) :
  NoDup (dkeys (d_set (if wd then @d_update nat [] d else ([] : pydict nat)) K_SOURCE SRC)).
Proof.
  apply d_set_nodup. destruct wd; [apply d_update_nodup|]; constructor.
Qed.

(* remove_args / add_args raise ValueError only *)
Lemma remove_args_raises tv inj : forall b e, remove_args tv b inj = Raise e -> e = ValueError.
Proof.
  induction inj as [|n r IH]; intros b e H; [discriminate|].
  cbn [remove_args] in H. destruct (remove_arg b n) as [b'|e'] eqn:E.
  - eapply IH; exact H.
  - assert (e' = ValueError).
    { unfold remove_arg in E. destruct (list_remove n (fb_args b)); [discriminate|].
      destruct (list_remove n (fb_kwonly b)); [discriminate|]. inversion E; reflexivity. }
    subst e'. destruct tv; [|destruct (fb_varkw b); inversion H; reflexivity].
    destruct (fb_varkw b); [eapply IH; exact H | inversion H; reflexivity].
Qed.

Lemma add_args_raises exp : forall b e, add_args b exp = Raise e -> e = ValueError.
Proof.
  induction exp as [|[n d] r IH]; intros b e H; [discriminate|].
  cbn [add_args] in H. destruct (add_arg b n d) as [b'|e'] eqn:E; [eapply IH; exact H|].
  inversion H; subst e'. unfold add_arg in E.
  destruct (mem n (fb_args b)); [inversion E; reflexivity|].
  destruct (mem n (fb_kwonly b)); [inversion E; reflexivity|].
  destruct d; [discriminate|].
  destruct (match fb_defaults b with Some (_ :: _) => true | _ => false end); [inversion E; reflexivity | discriminate].
Qed.

(* a well-formed function object (for stacking: what update_wrapper returns is one again) *)
Record wf_obj (f : pyfunc) : Prop := {
  wo_func : wf_func f;
  wo_dict : NoDup (dkeys (f_dict f))
}.

(* THE REFINEMENT: the function update_wrapper builds has the signature the
   reference computes from the wrapped function's signature, the wrapped
   function's metadata, __wrapped__ pointing at the wrapped function whatever
   attributes that one carried, and a body that passes its own parameters on. *)
Theorem update_wrapper_opt_refines o gid f inj exp :
  wf_func f -> Forall (fun nd => fst nd <> 0) exp ->
  match update_wrapper_opt o gid f inj exp, spec_wraps_opt (o_inject_to_varkw o) (func_sig f) inj exp with
  | Ok g, Ok s =>
      sig_of (b_func g) = Ok s /\
      f_name (b_func g) = f_name f /\ f_doc (b_func g) = f_doc f /\
      f_module (b_func g) = f_module f /\ f_async (b_func g) = f_async f /\
      f_id (b_func g) = gid /\
      d_get (f_dict (b_func g)) K_WRAPPED = (if o_hide_wrapped o then None else Some (f_id f)) /\
      d_get (f_dict (b_func g)) K_SIGNATURE = None /\
      b_inv g = inv_of_params (sg_params s) /\
      wf_obj (b_func g) /\
      exists b2, good b2 /\ s = fb_sig b2
  | Raise e, Raise _ => e = ValueError \/ e = SyntaxErr
  | _, _ => False
  end.
Proof.
  intros WF NZ. destruct (from_func_good f WF) as [b0 [E0 [G0 [S0 [Mn [Md [Mm Ma]]]]]]].
  unfold update_wrapper_opt, spec_wraps_opt. rewrite E0, <- S0.
  pose proof (remove_args_refines (o_inject_to_varkw o) inj b0 G0) as R.
  pose proof (remove_args_raises (o_inject_to_varkw o) inj b0) as RR.
  destruct (remove_args (o_inject_to_varkw o) b0 inj) as [b1|e1]; destruct (spec_injects_opt (o_inject_to_varkw o) inj (fb_sig b0)) as [s1|e1'];
    try exact R; try contradiction.
  2:{ left. apply RR. reflexivity. }
  destruct R as [G1 [S1 M1]]. subst s1.
  pose proof (add_args_refines exp b1 G1 NZ) as A.
  pose proof (add_args_raises exp b1) as AR.
  destruct (add_args b1 exp) as [b2|e2]; destruct (spec_expects exp (fb_sig b1)) as [s2|e2'];
    try exact A; try contradiction.
  - destruct A as [G2 [S2 M2]]. subst s2.
    destruct (get_func_good b2 gid (o_update_dict o) G2) as [GF SF]. rewrite GF.
    destruct M1 as [M1n [M1d [M1m M1a]]]. destruct M2 as [M2n [M2d [M2m M2a]]].
    assert (META : fb_name b2 = f_name f /\ fb_module b2 = f_module f /\ fb_async b2 = f_async f /\
                   fb_doc b2 = match f_doc f with Some d => d | None => 0 end).
    { repeat split; congruence. }
    destruct META as [Xn [Xm [Xa Xd]]].
    cbn [b_func b_inv]. rewrite sig_of_set_doc_dict.
    destruct (final_dict_wrapped o (f_id f) (f_dict (fb_func b2 gid (o_update_dict o)))
                (source_dict_nodup (fb_dict b2) (o_update_dict o))) as [DW [DN DS]].
    split; [exact SF|]. split; [exact Xn|].
    split; [destruct (f_doc f); simpl; [rewrite Xd|]; reflexivity|].
    split; [exact Xm|]. split; [exact Xa|]. split; [reflexivity|].
    split; [exact DW|]. split; [exact DS|]. split; [apply get_invocation_fb|].
    split.
    + constructor; [|exact DN]. constructor; cbn.
      * exact (g_nodup b2 G2).
      * exact (g_nonzero b2 G2).
      * exact (g_len b2 G2).
    + exists b2. split; [exact G2 | reflexivity].
  - rewrite (get_func_dup b2 gid (o_update_dict o) A). right. reflexivity.
  - left. apply AR. reflexivity.
Qed.

Theorem update_wrapper_refines_strong f inj exp :
  wf_func f -> Forall (fun nd => fst nd <> 0) exp ->
  match update_wrapper f inj exp, spec_wraps (func_sig f) inj exp with
  | Ok g, Ok s =>
      sig_of (b_func g) = Ok s /\
      f_name (b_func g) = f_name f /\ f_doc (b_func g) = f_doc f /\
      f_module (b_func g) = f_module f /\ f_async (b_func g) = f_async f /\
      d_get (f_dict (b_func g)) K_WRAPPED = Some (f_id f) /\
      b_inv g = inv_of_params (sg_params s) /\
      exists b2, good b2 /\ s = fb_sig b2
  | Raise e, Raise _ => e = ValueError \/ e = SyntaxErr
  | _, _ => False
  end.
Proof.
  intros WF NZ. pose proof (update_wrapper_opt_refines default_options 0 f inj exp WF NZ) as R.
  change (spec_wraps_opt (o_inject_to_varkw default_options) (func_sig f) inj exp)
    with (spec_wraps (func_sig f) inj exp) in R.
  unfold update_wrapper.
  destruct (update_wrapper_opt default_options 0 f inj exp) as [g|e], (spec_wraps (func_sig f) inj exp) as [s|e'];
    try exact R.
  destruct R as [H1 [H2 [H3 [H4 [H5 [_ [H7 [_ [H9 [_ H11]]]]]]]]]]. repeat split; assumption.
Qed.

Theorem update_wrapper_refines f inj exp :
  wf_func f -> Forall (fun nd => fst nd <> 0) exp ->
  match update_wrapper f inj exp, spec_wraps (func_sig f) inj exp with
  | Ok g, Ok s =>
      sig_of (b_func g) = Ok s /\
      f_name (b_func g) = f_name f /\ f_doc (b_func g) = f_doc f /\
      f_module (b_func g) = f_module f /\ f_async (b_func g) = f_async f /\
      d_get (f_dict (b_func g)) K_WRAPPED = Some (f_id f) /\
      b_inv g = inv_of_params (sg_params s)
  | Raise _, Raise _ => True
  | _, _ => False
  end.
Proof.
  intros WF NZ. pose proof (update_wrapper_refines_strong f inj exp WF NZ) as R.
  destruct (update_wrapper f inj exp) as [g|e], (spec_wraps (func_sig f) inj exp) as [s|e']; try exact R; try exact I.
  destruct R as [? [? [? [? [? [? [? _]]]]]]]. repeat split; assumption.
Qed.
