(* C13, part 2: the FunctionBuilder representation (args list + positional
   defaults tuple + kwonlydefaults dict + annotations dict) refines the
   signature-level reference (Spec.spec_inject / spec_expect / spec_wraps). *)
From Boltons Require Import Lib.Prelude Spec.C13_Spec Model.C13_Model
     Proofs.C13_Dict Proofs.C13_Bind Proofs.C13_Shape Proofs.C13_Realign.
From Coq Require Import Lia.

(* ---- the signature a set of fields denotes ---------------------------------------- *)
Definition mk_params (an : name -> option ann) (args : list name) (D : list value)
           (va : option name) (kwonly : list name) (kwd : pydict value) (vk : option name) : list param :=
  pos_params an args (length args - length D) D
  ++ map (fun n => mkP n VarPos None (an n)) (olist va)
  ++ map (fun n => mkP n KwOnly (d_get kwd n) (an n)) kwonly
  ++ map (fun n => mkP n VarKw None (an n)) (olist vk).

Definition mk_sig an args D va kwonly kwd vk : signature :=
  mkSig (mk_params an args D va kwonly kwd vk) (an RET).

Definition func_names (f : pyfunc) : list name :=
  f_args f ++ olist (f_varargs f) ++ f_kwonly f ++ olist (f_varkw f).

Record wf_func (f : pyfunc) : Prop := {
  wf_nodup : NoDup (func_names f);
  wf_nonzero : ~ In 0 (func_names f);
  wf_len : length (odflt (f_defaults f)) <= length (f_args f)
}.

Definition func_sig (f : pyfunc) : signature :=
  mk_sig (d_get (f_annotations f)) (f_args f) (odflt (f_defaults f)) (f_varargs f)
         (f_kwonly f) (odflt (f_kwdefaults f)) (f_varkw f).

Lemma sig_of_func_sig f : length (odflt (f_defaults f)) <= length (f_args f) -> sig_of f = Ok (func_sig f).
Proof.
  intro L. unfold sig_of. destruct (Nat.ltb_spec (length (f_args f)) (length (odflt (f_defaults f)))); [lia|].
  reflexivity.
Qed.

(* ---- generic list facts ------------------------------------------------------------- *)
Lemma filter_map_comm {A C} (f : C -> bool) (g : A -> C) l :
  filter f (map g l) = map g (filter (fun x => f (g x)) l).
Proof.
  induction l as [|x r IH]; simpl; [reflexivity|]. destruct (f (g x)); simpl; rewrite IH; reflexivity.
Qed.

Lemma filter_true {A} (f : A -> bool) l : (forall x, In x l -> f x = true) -> filter f l = l.
Proof.
  induction l as [|x r IH]; simpl; intro H; [reflexivity|].
  rewrite (H x (or_introl eq_refl)). f_equal. apply IH. intros y Hy. apply H. right. exact Hy.
Qed.

Lemma filter_ext_in' {A} (f g : A -> bool) l : (forall x, In x l -> f x = g x) -> filter f l = filter g l.
Proof.
  induction l as [|x r IH]; simpl; intro H; [reflexivity|].
  rewrite (H x (or_introl eq_refl)). destruct (g x); [f_equal|]; apply IH; intros y Hy; apply H; right; exact Hy.
Qed.

Lemma flat_map_nil {A C} (f : A -> list C) l : (forall x, In x l -> f x = []) -> flat_map f l = [].
Proof.
  induction l as [|x r IH]; simpl; intro H; [reflexivity|].
  rewrite (H x (or_introl eq_refl)). simpl. apply IH. intros y Hy. apply H. right. exact Hy.
Qed.

Lemma flat_map_ext_in' {A C} (f g : A -> list C) l : (forall x, In x l -> f x = g x) -> flat_map f l = flat_map g l.
Proof.
  induction l as [|x r IH]; simpl; intro H; [reflexivity|].
  rewrite (H x (or_introl eq_refl)). f_equal. apply IH. intros y Hy. apply H. right. exact Hy.
Qed.

Lemma existsb_false_iff {A} (f : A -> bool) l : existsb f l = false <-> (forall x, In x l -> f x = false).
Proof.
  induction l as [|x r IH]; simpl.
  - split; [intros _ y [] | reflexivity].
  - rewrite orb_false_iff, IH. split.
    + intros [H1 H2] y [<-|Hy]; [exact H1 | apply H2; exact Hy].
    + intro H. split; [apply H; left; reflexivity | intros y Hy; apply H; right; exact Hy].
Qed.

Lemma mem_In x l : mem x l = true <-> In x l.
Proof. apply existsb_eqb_In. Qed.

Lemma mem_false x l : mem x l = false <-> ~ In x l.
Proof.
  rewrite <- mem_In. destruct (mem x l); split; intro H.
  - discriminate.
  - exfalso. apply H. reflexivity.
  - intro. discriminate.
  - reflexivity.
Qed.

Lemma map_olist {A C} (g : A -> C) o : map g (olist o) = olist (option_map g o).
Proof. destruct o; reflexivity. Qed.

(* ---- the four segments of mk_params ---------------------------------------------------- *)
Section Segments.
  Variables (an : name -> option ann) (args : list name) (D : list value)
            (va : option name) (kwonly : list name) (kwd : pydict value) (vk : option name).

  Let P := pos_params an args (length args - length D) D.
  Let VA := option_map (fun n => mkP n VarPos None (an n)) va.
  Let KP := map (fun n => mkP n KwOnly (d_get kwd n) (an n)) kwonly.
  Let VK := option_map (fun n => mkP n VarKw None (an n)) vk.

  Lemma mk_params_sparams : mk_params an args D va kwonly kwd vk = sparams P VA KP VK.
  Proof. unfold mk_params, sparams, P, VA, KP, VK. rewrite !map_olist. reflexivity. Qed.

  Lemma seg_P : all_kind PosOrKw P = true.
  Proof. apply pos_params_kinds. Qed.
  Lemma seg_VA : okind VarPos VA = true.
  Proof. unfold VA. destruct va; reflexivity. Qed.
  Lemma seg_KP : all_kind KwOnly KP = true.
  Proof. unfold KP, all_kind. rewrite forallb_forall. intros p Hp. apply in_map_iff in Hp as [n [<- _]]. reflexivity. Qed.
  Lemma seg_VK : okind VarKw VK = true.
  Proof. unfold VK. destruct vk; reflexivity. Qed.

  Lemma mk_params_names :
    map p_name (mk_params an args D va kwonly kwd vk) = args ++ olist va ++ kwonly ++ olist vk.
  Proof.
    unfold mk_params. rewrite !map_app, pos_params_names, !map_map. simpl.
    rewrite !map_id. reflexivity.
  Qed.

  (* every parameter carries the annotation the dict holds for its name *)
  Lemma mk_params_ann p : In p (mk_params an args D va kwonly kwd vk) -> p_ann p = an (p_name p).
  Proof.
    unfold mk_params. intro H. repeat (apply in_app_or in H as [H|H]).
    - (* positional: by extensionality argument on pos_params *)
      clear - H. revert H. generalize (length args - length D) as skip. revert D.
      induction args as [|a r IH]; intros D0 skip H; [contradiction|].
      simpl in H. destruct skip.
      + destruct D0; destruct H as [<-|H]; try reflexivity; eapply IH; exact H.
      + destruct H as [<-|H]; [reflexivity | eapply IH; exact H].
    - apply in_map_iff in H as [n [<- _]]. reflexivity.
    - apply in_map_iff in H as [n [<- _]]. reflexivity.
    - apply in_map_iff in H as [n [<- _]]. reflexivity.
  Qed.
End Segments.

Lemma mk_params_ext an an' args D va kwonly kwd kwd' vk :
  (forall x, In x (args ++ olist va ++ kwonly ++ olist vk) -> an' x = an x) ->
  (forall k, In k kwonly -> d_get kwd' k = d_get kwd k) ->
  mk_params an' args D va kwonly kwd' vk = mk_params an args D va kwonly kwd vk.
Proof.
  intros HA HK. unfold mk_params. f_equal; [|f_equal; [|f_equal]].
  - apply pos_params_ext. intros a Ha. apply HA. apply in_or_app. left. exact Ha.
  - apply map_ext_in. intros n Hn. rewrite HA; [reflexivity|].
    apply in_or_app. right. apply in_or_app. left. exact Hn.
  - apply map_ext_in. intros n Hn. rewrite HK by exact Hn. rewrite HA; [reflexivity|].
    apply in_or_app. right. apply in_or_app. right. apply in_or_app. left. exact Hn.
  - apply map_ext_in. intros n Hn. rewrite HA; [reflexivity|].
    apply in_or_app. right. apply in_or_app. right. apply in_or_app. right. exact Hn.
Qed.

(* ---- a dict tabulated from a partial function over distinct names ------------------------- *)
Section Tabulate.
  Context {B : Type}.
  Variable g : name -> option B.
  Definition tab (l : list name) : list (name * B) :=
    flat_map (fun x => match g x with Some v => [(x, v)] | None => [] end) l.

  Lemma tab_keys_incl l : incl (map fst (tab l)) l.
  Proof.
    induction l as [|x r IH]; simpl; [apply incl_refl|]. unfold tab in *. simpl.
    rewrite map_app. intros a Ha. apply in_app_or in Ha as [Ha|Ha].
    - destruct (g x); simpl in Ha; [destruct Ha as [<-|[]]; left; reflexivity | contradiction].
    - right. apply IH. exact Ha.
  Qed.

  Lemma tab_keys_nodup l : NoDup l -> NoDup (map fst (tab l)).
  Proof.
    induction l as [|x r IH]; simpl; intro ND; [constructor|]. inversion ND; subst.
    unfold tab in *. simpl. rewrite map_app. apply NoDup_app_iff. repeat split.
    - destruct (g x); simpl; [constructor; [intros []|constructor] | constructor].
    - apply IH. assumption.
    - intros a Ha Hb. apply tab_keys_incl in Hb.
      destruct (g x); simpl in Ha; [destruct Ha as [<-|[]]; contradiction | contradiction].
  Qed.

  Lemma tab_in l x : In x l -> forall v, g x = Some v -> In (x, v) (tab l).
  Proof.
    intros Hx v Hv. unfold tab. apply in_flat_map. exists x. split; [exact Hx|]. rewrite Hv. left. reflexivity.
  Qed.

  Lemma tab_get d0 l x : NoDup l -> In x l -> ~ In x (dkeys d0) -> d_get (d_update d0 (tab l)) x = g x.
  Proof.
    intros ND Hx H0. destruct (g x) as [v|] eqn:G.
    - apply d_get_d_update_in; [apply tab_keys_nodup; exact ND | apply tab_in; assumption].
    - rewrite d_get_d_update_notin.
      + apply d_get_none_iff. exact H0.
      + intro Hin. apply in_map_iff in Hin as [[y w] [E Hin]]. simpl in E. subst y.
        unfold tab in Hin. apply in_flat_map in Hin as [z [Hz Hin]].
        destruct (g z) eqn:Gz; simpl in Hin; [|contradiction].
        destruct Hin as [Hin|[]]. inversion Hin; subst. congruence.
  Qed.

  Lemma tab_get_other d0 l x : ~ In x l -> d_get (d_update d0 (tab l)) x = d_get d0 x.
  Proof. intro H. apply d_get_d_update_notin. intro Hin. apply tab_keys_incl in Hin. contradiction. Qed.
End Tabulate.

(* ---- FunctionBuilder states ------------------------------------------------------------------ *)
Definition fb_sig (b : fbuilder) : signature :=
  mk_sig (d_get (fb_annotations b)) (fb_args b) (odflt (fb_defaults b)) (fb_varargs b)
         (fb_kwonly b) (fb_kwdefaults b) (fb_varkw b).

Record good (b : fbuilder) : Prop := {
  g_nodup : NoDup (all_names b);
  g_nonzero : ~ In 0 (all_names b);
  g_len : length (odflt (fb_defaults b)) <= length (fb_args b);
  g_kwd : incl (dkeys (fb_kwdefaults b)) (fb_kwonly b);
  g_kwd_nd : NoDup (dkeys (fb_kwdefaults b));
  g_ann_nd : NoDup (dkeys (fb_annotations b));
  g_ann : forall x, In x (dkeys (fb_annotations b)) -> x = RET \/ In x (all_names b)
}.

(* ---- getfullargspec read back from a signature --------------------------------------------------- *)
Section Argspec.
  Variables (an : name -> option ann) (args : list name) (D : list value)
            (va : option name) (kwonly : list name) (kwd : pydict value) (vk : option name).
  Hypothesis HL : length D <= length args.
  Let s := mk_sig an args D va kwonly kwd vk.

  Lemma argspec_args_eq : argspec_args s = args.
  Proof.
    unfold argspec_args, s, mk_sig. cbn [sg_params]. rewrite mk_params_sparams. unfold sparams.
    rewrite !filter_app.
    rewrite (filter_all_kind _ _ (seg_P an args D)).
    rewrite (filter_okind_other _ PosOrKw _ (seg_VA an va)) by discriminate.
    rewrite (filter_other_kind _ PosOrKw _ (seg_KP an kwonly kwd)) by discriminate.
    rewrite (filter_okind_other _ PosOrKw _ (seg_VK an vk)) by discriminate.
    rewrite !app_nil_r. apply pos_params_names.
  Qed.

  Lemma argspec_kwonly_eq : argspec_kwonly s = kwonly.
  Proof.
    unfold argspec_kwonly, s, mk_sig. cbn [sg_params]. rewrite mk_params_sparams. unfold sparams.
    rewrite !filter_app.
    rewrite (filter_other_kind _ KwOnly _ (seg_P an args D)) by discriminate.
    rewrite (filter_okind_other _ KwOnly _ (seg_VA an va)) by discriminate.
    rewrite (filter_all_kind _ _ (seg_KP an kwonly kwd)).
    rewrite (filter_okind_other _ KwOnly _ (seg_VK an vk)) by discriminate.
    rewrite app_nil_r. simpl. rewrite map_map. simpl. apply map_id.
  Qed.

  Lemma argspec_varpos_eq : argspec_var VarPos s = va.
  Proof.
    unfold argspec_var, s, mk_sig. cbn [sg_params]. rewrite mk_params_sparams. unfold sparams.
    rewrite !filter_app.
    rewrite (filter_other_kind _ VarPos _ (seg_P an args D)) by discriminate.
    rewrite (filter_okind_same _ _ (seg_VA an va)).
    rewrite (filter_other_kind _ VarPos _ (seg_KP an kwonly kwd)) by discriminate.
    rewrite (filter_okind_other _ VarPos _ (seg_VK an vk)) by discriminate.
    destruct va; reflexivity.
  Qed.

  Lemma argspec_varkw_eq : argspec_var VarKw s = vk.
  Proof.
    unfold argspec_var, s, mk_sig. cbn [sg_params]. rewrite mk_params_sparams. unfold sparams.
    rewrite !filter_app.
    rewrite (filter_other_kind _ VarKw _ (seg_P an args D)) by discriminate.
    rewrite (filter_okind_other _ VarKw _ (seg_VA an va)) by discriminate.
    rewrite (filter_other_kind _ VarKw _ (seg_KP an kwonly kwd)) by discriminate.
    rewrite (filter_okind_same _ _ (seg_VK an vk)).
    destruct vk; reflexivity.
  Qed.

  Lemma argspec_defaults_eq : odflt (argspec_defaults s) = D.
  Proof.
    unfold argspec_defaults, s, mk_sig. cbn [sg_params]. unfold mk_params.
    rewrite !flat_map_app.
    rewrite (flat_map_ext_in' _ (fun p => olist (p_default p)) (pos_params an args (length args - length D) D)).
    2:{ intros p Hp. pose proof (pos_params_kinds an args (length args - length D) D) as Kd.
        rewrite forallb_forall in Kd. rewrite (Kd p Hp). reflexivity. }
    rewrite pos_params_defaults by exact HL.
    rewrite !flat_map_nil.
    - rewrite !app_nil_r. destruct D; reflexivity.
    - intros p Hp. apply in_map_iff in Hp as [n [<- _]]. reflexivity.
    - intros p Hp. apply in_map_iff in Hp as [n [<- _]]. reflexivity.
    - intros p Hp. apply in_map_iff in Hp as [n [<- _]]. reflexivity.
  Qed.

  Lemma argspec_kwdefaults_eq : argspec_kwdefaults s = d_update [] (tab (d_get kwd) kwonly).
  Proof.
    unfold argspec_kwdefaults, s, mk_sig. cbn [sg_params]. unfold mk_params. f_equal.
    rewrite !flat_map_app.
    rewrite (flat_map_nil _ (pos_params an args (length args - length D) D)).
    2:{ intros p Hp. pose proof (pos_params_kinds an args (length args - length D) D) as Kd.
        rewrite forallb_forall in Kd. specialize (Kd p Hp). apply kind_eqb_eq in Kd. rewrite Kd. reflexivity. }
    rewrite (flat_map_nil _ (map _ (olist va))).
    2:{ intros p Hp. apply in_map_iff in Hp as [n [<- _]]. reflexivity. }
    rewrite (flat_map_nil _ (map _ (olist vk))).
    2:{ intros p Hp. apply in_map_iff in Hp as [n [<- _]]. reflexivity. }
    rewrite app_nil_r. simpl. unfold tab.
    induction kwonly as [|k r IH]; [reflexivity|]. simpl. rewrite IH. reflexivity.
  Qed.

  Lemma argspec_annotations_eq :
    argspec_annotations s =
    d_update (match an RET with Some a => [(RET, a)] | None => [] end)
             (tab an (args ++ olist va ++ kwonly ++ olist vk)).
  Proof.
    unfold argspec_annotations, s, mk_sig. cbn [sg_params sg_ret]. f_equal.
    rewrite <- mk_params_names with (an := an) (D := D) (kwd := kwd).
    pose proof (mk_params_ann an args D va kwonly kwd vk) as HA.
    induction (mk_params an args D va kwonly kwd vk) as [|p r IH]; [reflexivity|].
    simpl. unfold tab in *. simpl. rewrite IH by (intros q Hq; apply HA; right; exact Hq).
    rewrite (HA p (or_introl eq_refl)). reflexivity.
  Qed.
End Argspec.
