(* C06: find_all_links (model; the regular expression's matches are an oracle [spans]) with with_text=True returns
   pieces that tile the input (Spec.fits), and with_text=False returns the same links. *)
From Coq Require Import Lia.
From Boltons Require Import Lib.Prelude Lib.C06_Text Spec.C06_Spec Model.C06_Model Proofs.C06_Codec Proofs.C06_Quote.
Open Scope N_scope.

(* ---- Spec.fits: composition ---------------------------------------------------------------------- *)
Lemma drop_prefix_some s : forall x x', drop_prefix s x = Some x' -> x = s ++ x'.
Proof.
  induction s as [|a r IH]; intros x x' H; cbn [drop_prefix] in H.
  - injection H as <-. reflexivity.
  - destruct x as [|b x0]; [discriminate|]. destruct (a =? b) eqn:E; [|discriminate].
    apply N.eqb_eq in E. subst b. rewrite (IH x0 x' H). reflexivity.
Qed.

Lemma drop_prefix_self s y : drop_prefix s (s ++ y) = Some y.
Proof. induction s as [|a r IH]; [reflexivity|]. cbn [app drop_prefix]. rewrite N.eqb_refl. exact IH. Qed.

Lemma tails1_in x' x : In x' (tails1 x) <-> exists pre, pre <> [] /\ x = pre ++ x'.
Proof.
  revert x'. induction x as [|a r IH]; intro x'; cbn [tails1].
  - split; [contradiction|]. intros [pre [NE E]]. destruct pre; [contradiction|discriminate].
  - split.
    + cbn [In]. intros [<-|H].
      * exists [a]. split; [discriminate|reflexivity].
      * apply IH in H as [pre [NE E]]. exists (a :: pre). split; [discriminate|]. rewrite E. reflexivity.
    + intros [pre [NE E]]. destruct pre as [|p0 pr]; [contradiction|]. cbn [app] in E. injection E as <- E.
      destruct pr as [|p1 pr'].
      * left. exact E.
      * right. apply IH. exists (p1 :: pr'). split; [discriminate|exact E].
Qed.

Lemma fits_link_iff r x : existsb (fits r) (tails1 x) = true <-> exists pre x', pre <> [] /\ x = pre ++ x' /\ fits r x' = true.
Proof.
  rewrite existsb_exists. split.
  - intros [x' [I F]]. apply tails1_in in I as [pre [NE E]]. exists pre, x'. auto.
  - intros [pre [x' [NE [E F]]]]. exists x'. split; [apply tails1_in; exists pre; auto|exact F].
Qed.

Lemma fits_app l1 : forall l2 x y, fits l1 x = true -> fits l2 y = true -> fits (l1 ++ l2) (x ++ y) = true.
Proof.
  induction l1 as [|[b s] r IH]; intros l2 x y F1 F2.
  - cbn [fits] in F1. destruct x; [exact F2|discriminate].
  - cbn [app fits] in *. destruct b.
    + apply fits_link_iff in F1 as [pre [x' [NE [-> F]]]]. apply fits_link_iff.
      exists pre, (x' ++ y). split; [exact NE|]. split; [symmetry; apply app_assoc|]. apply IH; assumption.
    + destruct (drop_prefix s x) as [x'|] eqn:D; [|discriminate]. rewrite (drop_prefix_some s x x' D).
      rewrite <- app_assoc, drop_prefix_self. apply IH; assumption.
Qed.

Lemma fits_snoc_inv l s0 : forall x, fits (l ++ [(false, s0)]) x = true -> exists x1, x = x1 ++ s0 /\ fits l x1 = true.
Proof.
  induction l as [|[b s] r IH]; intros x F.
  - cbn [app fits] in F. destruct (drop_prefix s0 x) as [x'|] eqn:D; [|discriminate].
    destruct x'; [|discriminate]. exists []. split; [|reflexivity].
    rewrite (drop_prefix_some s0 x [] D). rewrite app_nil_r. reflexivity.
  - cbn [app fits] in F. destruct b.
    + apply fits_link_iff in F as [pre [x' [NE [-> F]]]]. destruct (IH x' F) as [x1 [-> F1]].
      exists (pre ++ x1). split; [apply app_assoc|]. cbn [fits]. apply fits_link_iff. exists pre, x1. auto.
    + destruct (drop_prefix s x) as [x'|] eqn:D; [|discriminate]. destruct (IH x' F) as [x1 [-> F1]].
      exists (s ++ x1). split; [rewrite (drop_prefix_some s x _ D); apply app_assoc|].
      cbn [fits]. rewrite drop_prefix_self. exact F1.
Qed.

Lemma fits_text s : fits [(false, s)] s = true.
Proof. cbn [fits]. rewrite <- (app_nil_r s) at 2. rewrite drop_prefix_self. reflexivity. Qed.

Lemma fits_one_link s y : y <> [] -> fits [(true, s)] y = true.
Proof. intro NE. change (fits [(true, s)] y) with (existsb (fits []) (tails1 y)). apply fits_link_iff. exists y, []. split; [exact NE|]. split; [symmetry; apply app_nil_r|reflexivity]. Qed.

(* ---- slices ------------------------------------------------------------------------------------------ *)
Lemma firstn_slice (t : text) a b : (a <= b)%nat -> firstn b t = firstn a t ++ slice t a b.
Proof.
  intro H. unfold slice. rewrite <- (firstn_skipn a t) at 1.
  replace b with (a + (b - a))%nat at 1 by lia.
  destruct (Nat.le_gt_cases a (length t)) as [L|L].
  - rewrite firstn_app. rewrite firstn_length, Nat.min_l by exact L.
    replace (a + (b - a) - a)%nat with (b - a)%nat by lia.
    rewrite firstn_firstn. replace (Nat.min (a + (b - a)) a) with a by lia. reflexivity.
  - rewrite (skipn_all2 t) by lia. rewrite app_nil_r, firstn_nil, app_nil_r.
    rewrite firstn_firstn. replace (Nat.min (a + (b - a)) a) with a by lia. reflexivity.
Qed.

Lemma slice_nonempty (t : text) a b : (a < b)%nat -> (b <= length t)%nat -> slice t a b <> [].
Proof.
  intros H L E. apply (f_equal (@length N)) in E. unfold slice in E. rewrite firstn_length, skipn_length in E.
  cbn [length] in E. lia.
Qed.

(* ---- the model's items as the Spec sees them ------------------------------------------------------------ *)
Notation item := (bool * url + text)%type.
Definition shape (f : url -> text) (l : list item) : list (bool * text) :=
  map (fun i => match i with inl (_, u) => (true, f u) | inr s => (false, s) end) l.
Definition only_links (l : list item) : list item := filter (fun i => match i with inl _ => true | inr _ => false end) l.

(* the matches of a regular expression that cannot match the empty string, in order, inside the text *)
Fixpoint spans_ok (n prev : nat) (spans : list (nat * nat)) : Prop :=
  match spans with
  | [] => True
  | (a, b) :: r => (prev <= a /\ a < b /\ b <= n)%nat /\ spans_ok n b r
  end.

Lemma spans_okb_ok n : forall spans prev, spans_okb n prev spans = true -> spans_ok n prev spans.
Proof.
  induction spans as [|[a b] r IH]; intros prev H; [exact I|]. cbn [spans_okb spans_ok] in *.
  apply andb_true_iff in H as [H H4]. apply andb_true_iff in H as [H H3]. apply andb_true_iff in H as [H1 H2].
  apply Nat.leb_le in H1. apply Nat.ltb_lt in H2. apply Nat.leb_le in H3. split; [lia|]. apply IH. exact H4.
Qed.

Section Links.
Variable T : tables.
Variable O : oracles.
Variable f : url -> text.

Lemma shape_app a b : shape f (a ++ b) = shape f a ++ shape f b.
Proof. apply map_app. Qed.

Lemma add_text_fits ret s x : fits (shape f ret) x = true -> fits (shape f (add_text ret s)) (x ++ s) = true.
Proof.
  intro F. unfold add_text. destruct (rev ret) as [|[lk|s0] r] eqn:R; cbv beta iota.
  - rewrite shape_app. apply fits_app; [exact F|apply fits_text].
  - rewrite shape_app. apply fits_app; [exact F|apply fits_text].
  - assert (E : ret = rev r ++ [inr s0]) by (rewrite <- (rev_involutive ret), R; reflexivity).
    rewrite E, shape_app in F. cbn [shape map] in F. destruct (fits_snoc_inv _ s0 x F) as [x1 [-> F1]].
    rewrite shape_app, <- app_assoc. apply fits_app; [exact F1|apply fits_text].
Qed.

Lemma only_links_add_text ret s : only_links (add_text ret s) = only_links ret.
Proof.
  unfold add_text, only_links. destruct (rev ret) as [|[lk|s0] r] eqn:R; cbv beta iota.
  - rewrite filter_app. cbn. apply app_nil_r.
  - rewrite filter_app. cbn. apply app_nil_r.
  - assert (E : ret = rev r ++ [inr s0]) by (rewrite <- (rev_involutive ret), R; reflexivity).
    rewrite E, !filter_app. reflexivity.
Qed.

(* what one iteration does to the state *)
Lemma fal_step_cases wt ds schemes t pe ret a b st' :
  fal_step T O wt ds schemes t (pe, ret) (a, b) = MOk st' ->
  let ret1 := if Nat.ltb pe a && wt then ret ++ [inr (slice t pe a)] else ret in
  let cur := slice t a b in
  (wt = true /\ st' = (b, add_text ret1 cur)) \/ (wt = false /\ st' = (b, ret1)) \/
  (exists u, st' = (b, ret1 ++ [inl (true, u)])) \/
  (* text[start:end] glued on also when with_text=False: schemes filter / no default scheme *)
  st' = (b, add_text ret1 cur).
Proof.
  unfold fal_step. cbv zeta. set (ret1 := if Nat.ltb pe a && wt then _ else ret). set (cur := slice t a b).
  assert (ONERR : forall x, MOk (b, if wt then add_text ret1 cur else ret1) = MOk x ->
            (wt = true /\ x = (b, add_text ret1 cur)) \/ (wt = false /\ x = (b, ret1)) \/
            (exists u, x = (b, ret1 ++ [inl (true, u)])) \/ x = (b, add_text ret1 cur)).
  { intros x H. injection H as <-. destruct wt; [left|right; left]; auto. }
  assert (FIN : forall u x,
            (if match schemes with [] => false | _ :: _ => negb (mem_text (u_scheme u) schemes) end
             then MOk (b, add_text ret1 cur) else MOk (b, ret1 ++ [inl (true, u)])) = MOk x ->
            (wt = true /\ x = (b, add_text ret1 cur)) \/ (wt = false /\ x = (b, ret1)) \/
            (exists u, x = (b, ret1 ++ [inl (true, u)])) \/ x = (b, add_text ret1 cur)).
  { intros u x H. destruct (match schemes with [] => false | _ :: _ => _ end); injection H as <-; eauto. }
  destruct (url_init T O cur) as [u|e|w]; [|destruct e; try discriminate; apply ONERR|discriminate].
  destruct (u_scheme u) as [|c r] eqn:ES; [|rewrite <- ES; apply FIN].
  destruct ds as [d|]; [|intro H; injection H as <-; auto].
  destruct (url_init T O (d ++ [58; 47; 47] ++ cur)) as [u2|e|w]; [apply FIN|destruct e; try discriminate; apply ONERR|discriminate].
Qed.

(* ---- with_text=True: the pieces tile the text -------------------------------------------------------------- *)
Lemma fal_loop_tile ds schemes t : forall spans pe ret st',
  spans_ok (length t) pe spans -> fits (shape f ret) (firstn pe t) = true ->
  fal_loop T O true ds schemes t spans (pe, ret) = MOk st' ->
  fits (shape f (snd st')) (firstn (fst st') t) = true.
Proof.
  induction spans as [|[a b] r IH]; intros pe ret st' SO F L.
  - cbn [fal_loop] in L. injection L as <-. exact F.
  - cbn [fal_loop] in L. destruct SO as [[H1 [H2 H3]] SO].
    destruct (fal_step T O true ds schemes t (pe, ret) (a, b)) as [st1| |] eqn:ST; cbn [mbind] in L; try discriminate.
    pose proof (fal_step_cases true ds schemes t pe ret a b st1 ST) as C. cbv zeta in C.
    rewrite andb_true_r in C.
    set (ret1 := if Nat.ltb pe a then ret ++ [inr (slice t pe a)] else ret) in *.
    assert (F1 : fits (shape f ret1) (firstn a t) = true).
    { unfold ret1. destruct (Nat.ltb pe a) eqn:LT.
      - rewrite shape_app, (firstn_slice t pe a H1). apply fits_app; [exact F|apply fits_text].
      - apply Nat.ltb_ge in LT. replace a with pe by lia. exact F. }
    assert (FB : firstn b t = firstn a t ++ slice t a b) by (apply firstn_slice; lia).
    assert (G : fits (shape f (snd st1)) (firstn (fst st1) t) = true /\ fst st1 = b).
    { destruct C as [[_ ->]|[[D _]|[[u ->]| ->]]]; [| discriminate | |]; cbn [fst snd]; (split; [|reflexivity]); rewrite FB.
      - apply add_text_fits. exact F1.
      - rewrite shape_app. apply fits_app; [exact F1|]. apply fits_one_link. apply slice_nonempty; assumption.
      - apply add_text_fits. exact F1. }
    destruct G as [G GE]. destruct st1 as [pe1 r1]. cbn [fst snd] in *. subst pe1.
    exact (IH b r1 st' SO G L).
Qed.

Theorem links_tile ds schemes t spans w :
  spans_ok (length t) 0 spans -> find_all_links T O true ds schemes t spans = MOk w -> fits (shape f w) t = true.
Proof.
  intros SO H. unfold find_all_links in H.
  destruct (fal_loop T O true ds schemes t spans (0%nat, [])) as [[pe ret]| |] eqn:L; cbn [mbind] in H; try discriminate.
  injection H as <-.
  pose proof (fal_loop_tile ds schemes t spans 0%nat [] (pe, ret) SO eq_refl L) as F. cbn [fst snd] in F.
  rewrite <- (firstn_skipn pe t) at 2. destruct (skipn pe t) as [|c tl] eqn:SK.
  - rewrite app_nil_r. exact F.
  - apply add_text_fits. exact F.
Qed.

(* ---- with_text=False finds the same links -------------------------------------------------------------- *)
Lemma only_links_app a b : only_links (a ++ b) = only_links a ++ only_links b.
Proof. apply filter_app. Qed.

Lemma fal_step_links ds schemes t pe ret1 ret2 a b st1 :
  only_links ret1 = only_links ret2 ->
  fal_step T O true ds schemes t (pe, ret1) (a, b) = MOk st1 ->
  exists r2, fal_step T O false ds schemes t (pe, ret2) (a, b) = MOk (fst st1, r2) /\ only_links (snd st1) = only_links r2.
Proof.
  intros E. unfold fal_step. rewrite andb_true_r, andb_false_r.
  set (r1 := if Nat.ltb pe a then ret1 ++ [inr (slice t pe a)] else ret1).
  assert (E1 : only_links r1 = only_links ret2).
  { unfold r1. destruct (Nat.ltb pe a); [|exact E]. rewrite only_links_app, E. apply app_nil_r. }
  clearbody r1. set (cur := slice t a b).
  assert (FIN : forall u st1,
            (if match schemes with [] => false | _ :: _ => negb (mem_text (u_scheme u) schemes) end
             then MOk (b, add_text r1 cur) else MOk (b, r1 ++ [inl (true, u)])) = MOk st1 ->
            exists r2,
            (if match schemes with [] => false | _ :: _ => negb (mem_text (u_scheme u) schemes) end
             then MOk (b, add_text ret2 cur) else MOk (b, ret2 ++ [inl (true, u)])) = MOk (fst st1, r2) /\
            only_links (snd st1) = only_links r2).
  { intros u x H. destruct (match schemes with [] => false | _ :: _ => _ end); injection H as <-; cbn [fst snd].
    - exists (add_text ret2 cur). split; [reflexivity|]. rewrite !only_links_add_text. exact E1.
    - exists (ret2 ++ [inl (true, u)]). split; [reflexivity|]. rewrite !only_links_app, E1. reflexivity. }
  assert (ONERR : forall st1, MOk (b, add_text r1 cur) = MOk st1 ->
            exists r2, @MOk (nat * list item) (b, ret2) = MOk (fst st1, r2) /\ only_links (snd st1) = only_links r2).
  { intros x H. injection H as <-. exists ret2. split; [reflexivity|]. cbn [snd]. rewrite only_links_add_text. exact E1. }
  destruct (url_init T O cur) as [u|e|w]; [|destruct e; try discriminate; apply ONERR|discriminate].
  destruct (u_scheme u) as [|c r] eqn:ES; [|rewrite <- ES; apply FIN].
  destruct ds as [d|].
  - destruct (url_init T O (d ++ [58; 47; 47] ++ cur)) as [u2|e|w]; [apply FIN|destruct e; try discriminate; apply ONERR|discriminate].
  - intro H. injection H as <-. exists (add_text ret2 cur). split; [reflexivity|]. cbn [snd].
    rewrite !only_links_add_text. exact E1.
Qed.

Lemma fal_loop_links ds schemes t : forall spans pe ret1 ret2 st1,
  only_links ret1 = only_links ret2 ->
  fal_loop T O true ds schemes t spans (pe, ret1) = MOk st1 ->
  exists r2, fal_loop T O false ds schemes t spans (pe, ret2) = MOk (fst st1, r2) /\ only_links (snd st1) = only_links r2.
Proof.
  induction spans as [|[a b] r IH]; intros pe ret1 ret2 st1 E L.
  - cbn [fal_loop] in *. injection L as <-. exists ret2. split; [reflexivity|exact E].
  - cbn [fal_loop] in *.
    destruct (fal_step T O true ds schemes t (pe, ret1) (a, b)) as [[pe1 r1]| |] eqn:ST; cbn [mbind] in L; try discriminate.
    destruct (fal_step_links ds schemes t pe ret1 ret2 a b (pe1, r1) E ST) as [r2 [S2 E2]]. cbn [fst snd] in *.
    rewrite S2. cbn [mbind]. exact (IH pe1 r1 r2 st1 E2 L).
Qed.

Theorem links_same ds schemes t spans w :
  find_all_links T O true ds schemes t spans = MOk w ->
  exists p, find_all_links T O false ds schemes t spans = MOk p /\ only_links p = only_links w.
Proof.
  intro H. unfold find_all_links in *.
  destruct (fal_loop T O true ds schemes t spans (0%nat, [])) as [[pe ret]| |] eqn:L; cbn [mbind] in H; try discriminate.
  injection H as <-.
  destruct (fal_loop_links ds schemes t spans 0%nat [] [] (pe, ret) eq_refl L) as [r2 [L2 E2]]. cbn [fst snd] in *.
  rewrite L2. cbn [mbind]. exists r2. split; [reflexivity|].
  destruct (skipn pe t); [symmetry; exact E2|]. rewrite only_links_add_text. symmetry. exact E2.
Qed.

Lemma links_of_shape l :
  links_of (shape f l) = map (fun i => match i with inl (_, u) => f u | inr s => s end) (only_links l).
Proof.
  unfold links_of, shape, only_links. induction l as [|[[b u]|s] r IH]; [reflexivity|..]; cbn [map filter fst snd].
  - rewrite IH. reflexivity.
  - exact IH.
Qed.

(* the two clauses of Spec.links_ok, for the model *)
Theorem links_ok_model ds schemes t spans w :
  spans_ok (length t) 0 spans -> find_all_links T O true ds schemes t spans = MOk w ->
  exists p, find_all_links T O false ds schemes t spans = MOk p /\
            links_ok t (Ok (shape f p)) (Ok (shape f w)) = true.
Proof.
  intros SO H. destruct (links_same ds schemes t spans w H) as [p [HP E]]. exists p. split; [exact HP|].
  unfold links_ok. rewrite (links_tile ds schemes t spans w SO H). cbn [andb].
  rewrite !links_of_shape, E. unfold texts_eqb.
  generalize (map (fun i : item => match i with inl (_, u) => f u | inr s => s end) (only_links w)).
  intro l. induction l as [|x r IH]; [reflexivity|]. cbn [list_eqb]. rewrite text_eqb_refl. exact IH.
Qed.
End Links.
