(* Invariants of the lossy-counting model (C20). *)
From Boltons Require Import Lib.Prelude Model.C20_Model Spec.C20_Spec.
Open Scope N_scope.

Lemma tc_add_total s k : tc_total (tc_add s k) = tc_total s + 1.
Proof. unfold tc_add. destruct (_ =? 0); reflexivity. Qed.

Lemma tc_add_w s k : tc_w (tc_add s k) = tc_w s.
Proof. unfold tc_add. destruct (_ =? 0); reflexivity. Qed.

Lemma tc_adds_total ks : forall s, tc_total (tc_adds s ks) = tc_total s + N.of_nat (length ks).
Proof.
  induction ks as [|k ks IH]; intro s; cbn [tc_adds fold_left length].
  - lia.
  - unfold tc_adds in IH. rewrite IH, tc_add_total. lia.
Qed.

Lemma total_counts_additions w ks : tc_total (tc_adds (tc_init w) ks) = N.of_nat (length ks).
Proof. rewrite tc_adds_total. reflexivity. Qed.
