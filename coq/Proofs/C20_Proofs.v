(* Invariants of the lossy-counting model (C20) and the refinement
   "for every threshold and every stream the model's public observation
   satisfies the Spec predicate that the correspondence check evaluates". *)
From Coq Require Import Permutation ZifyBool ZifyN ZifyNat.
From Boltons Require Import Lib.Prelude Model.C20_Model Spec.C20_Spec.
Open Scope N_scope.

Lemma tc_add_total s k : tc_total (tc_add s k) = tc_total s + 1.
Proof. unfold tc_add. destruct (_ =? 0); reflexivity. Qed.

Lemma tc_add_w s k : tc_w (tc_add s k) = tc_w s.
Proof. unfold tc_add. destruct (_ =? 0); reflexivity. Qed.

Lemma tc_adds_total ks : forall s, tc_total (tc_adds s ks) = tc_total s + N.of_nat (length ks).
Proof.
  induction ks as [|k ks IH]; intro s; cbn [tc_adds fold_left length].
  - lia.
  - unfold tc_adds in IH. rewrite IH, tc_add_total. lia.
Qed.

Lemma total_counts_additions w ks : tc_total (tc_adds (tc_init w) ks) = N.of_nat (length ks).
Proof. rewrite tc_adds_total. reflexivity. Qed.

(* ---- the stream ----------------------------------------------------------- *)
Lemma count_nat_app x l1 l2 : count_nat x (l1 ++ l2) = count_nat x l1 + count_nat x l2.
Proof. induction l1 as [|y r IH]; cbn [count_nat app]; [reflexivity|]. rewrite IH. lia. Qed.

Lemma true_count_snoc hist k k' :
  true_count (hist ++ [k]) k' = true_count hist k' + (if Nat.eqb k' k then 1 else 0).
Proof. unfold true_count. rewrite count_nat_app. cbn [count_nat]. lia. Qed.

(* ---- bump ----------------------------------------------------------------- *)
Definition cnt (e : K * (N * N)) : N := fst (snd e).

Lemma d_get_bump m k b k' :
  d_get (bump m k b) k' =
  if Nat.eqb k' k
  then Some (match d_get m k with Some (c, dl) => (c + 1, dl) | None => (1, b - 1) end)
  else d_get m k'.
Proof.
  induction m as [|[k0 [c dl]] r IH]; cbn [bump d_get].
  - destruct (Nat.eqb k' k) eqn:E; reflexivity.
  - destruct (Nat.eqb k k0) eqn:E0; cbn [d_get].
    + apply Nat.eqb_eq in E0; subst k0.
      destruct (Nat.eqb k' k) eqn:E; reflexivity.
    + destruct (Nat.eqb k' k0) eqn:E1.
      * apply Nat.eqb_eq in E1; subst k0.
        destruct (Nat.eqb k' k) eqn:E; [|reflexivity].
        apply Nat.eqb_eq in E; subst. rewrite Nat.eqb_refl in E0. discriminate.
      * exact IH.
Qed.

Lemma d_get_None_notin {B} (m : pydict B) k : d_get m k = None <-> ~ In k (map fst m).
Proof.
  induction m as [|[k0 v] r IH]; cbn [d_get map fst In].
  - split; [intros _ []|reflexivity].
  - destruct (Nat.eqb k k0) eqn:E.
    + apply Nat.eqb_eq in E; subst. split; [discriminate|]. intro H; exfalso; apply H; left; reflexivity.
    + apply Nat.eqb_neq in E. rewrite IH. split.
      * intros H [H1|H1]; [congruence|tauto].
      * intros H H1; apply H; right; exact H1.
Qed.

Lemma bump_keys m k b :
  map fst (bump m k b) = if d_mem m k then map fst m else map fst m ++ [k].
Proof.
  unfold d_mem. induction m as [|[k0 [c dl]] r IH]; cbn [bump d_get map fst app]; [reflexivity|].
  destruct (Nat.eqb k k0) eqn:E; cbn [map fst]; [reflexivity|].
  rewrite IH. destruct (d_get r k); reflexivity.
Qed.

Lemma bump_nodup m k b : NoDup (map fst m) -> NoDup (map fst (bump m k b)).
Proof.
  intro H. rewrite bump_keys. unfold d_mem. destruct (d_get m k) eqn:E; [exact H|].
  apply d_get_None_notin in E.
  apply NoDup_rev in H. rewrite <- (rev_involutive (map fst m ++ [k])).
  apply NoDup_rev. rewrite rev_app_distr. cbn [rev app]. constructor; [|exact H].
  rewrite <- in_rev. exact E.
Qed.

Lemma bump_sum m k b : sumN (map cnt (bump m k b)) = sumN (map cnt m) + 1.
Proof.
  induction m as [|[k0 [c dl]] r IH]; cbn [bump map sumN]; [unfold cnt; cbn [fst snd]; lia|].
  destruct (Nat.eqb k k0); cbn [map sumN]; unfold cnt at 1 3; cbn [fst snd]; lia.
Qed.

(* ---- association lists with distinct keys ---------------------------------- *)
Lemma d_get_In {B} (m : pydict B) k v :
  NoDup (map fst m) -> (d_get m k = Some v <-> In (k, v) m).
Proof.
  induction m as [|[k0 v0] r IH]; cbn [d_get map fst In]; intro ND.
  - split; [discriminate|intros []].
  - inversion ND as [|? ? Hnot ND']; subst.
    destruct (Nat.eqb k k0) eqn:E.
    + apply Nat.eqb_eq in E; subst k0. split.
      * intro H; inversion H; subst. left; reflexivity.
      * intros [H|H]; [inversion H; reflexivity|].
        exfalso. apply Hnot. apply in_map_iff. exists (k, v). split; [reflexivity|exact H].
    + apply Nat.eqb_neq in E. rewrite (IH ND'). split.
      * intro H; right; exact H.
      * intros [H|H]; [inversion H; congruence|exact H].
Qed.

Lemma filter_keys_nodup {B} (f : K * B -> bool) (m : pydict B) :
  NoDup (map fst m) -> NoDup (map fst (filter f m)).
Proof.
  induction m as [|[k0 v0] r IH]; cbn [filter map fst]; intro ND; [constructor|].
  inversion ND as [|? ? Hnot ND']; subst.
  destruct (f (k0, v0)); cbn [map fst]; [|apply IH; exact ND'].
  constructor; [|apply IH; exact ND'].
  intro H. apply Hnot. apply in_map_iff in H as [[k1 v1] [E H]]. cbn [fst] in E. subst k1.
  apply filter_In in H as [H _]. apply in_map_iff. exists (k0, v1). split; [reflexivity|exact H].
Qed.

Lemma d_get_filter_some {B} (f : K * B -> bool) (m : pydict B) k v :
  NoDup (map fst m) ->
  (d_get (filter f m) k = Some v <-> d_get m k = Some v /\ f (k, v) = true).
Proof.
  intro ND. rewrite (d_get_In _ _ _ (filter_keys_nodup f m ND)), (d_get_In _ _ _ ND).
  apply filter_In.
Qed.

Lemma d_get_filter_none {B} (f : K * B -> bool) (m : pydict B) k :
  NoDup (map fst m) -> d_get (filter f m) k = None ->
  d_get m k = None \/ exists v, d_get m k = Some v /\ f (k, v) = false.
Proof.
  intros ND H. destruct (d_get m k) as [v|] eqn:E; [|left; reflexivity].
  right. exists v. split; [reflexivity|].
  destruct (f (k, v)) eqn:F; [|reflexivity].
  assert (d_get (filter f m) k = Some v) by (apply d_get_filter_some; auto).
  congruence.
Qed.

Lemma filter_sum (f : K * (N * N) -> bool) m : sumN (map cnt (filter f m)) <= sumN (map cnt m).
Proof.
  induction m as [|e r IH]; cbn [filter map sumN]; [lia|].
  destruct (f e); cbn [map sumN]; lia.
Qed.

(* ---- division by the (variable) bucket width: kept away from lia ------------- *)
Lemma div_succ_le T w : 1 <= w -> T / w <= (T + 1) / w.
Proof. intro H. apply N.div_le_mono; lia. Qed.

Lemma div_succ_exact T w : 1 <= w -> (T + 1) mod w = 0 -> (T + 1) / w = T / w + 1.
Proof.
  intros Hw Hm. pose proof (N.div_mod (T + 1) w ltac:(lia)) as E. rewrite Hm in E.
  set (q := (T + 1) / w) in *. assert (q <> 0) by nia.
  assert (q - 1 = T / w); [|lia].
  apply N.div_unique with (r := w - 1); [lia|nia].
Qed.

Lemma div_succ_same T w : 1 <= w -> (T + 1) mod w <> 0 -> (T + 1) / w = T / w.
Proof.
  intros Hw Hm. pose proof (N.div_mod (T + 1) w ltac:(lia)) as E.
  pose proof (N.mod_lt (T + 1) w ltac:(lia)) as L.
  set (q := (T + 1) / w) in *. set (r := (T + 1) mod w) in *.
  apply N.div_unique with (r := r - 1); [lia|nia].
Qed.

(* ---- the invariant ------------------------------------------------------------ *)
Record Inv (w : N) (hist : list K) (s : tc) : Prop := mkInv {
  inv_w : tc_w s = w;
  inv_total : tc_total s = N.of_nat (length hist);
  inv_bucket : tc_bucket s = tc_total s / w + 1;
  inv_nodup : NoDup (map fst (tc_map s));
  inv_entries : forall k c dl, d_get (tc_map s) k = Some (c, dl) ->
      1 <= c /\ c <= true_count hist k /\ true_count hist k <= c + dl /\ dl <= tc_total s / w;
  inv_untracked : forall k, d_get (tc_map s) k = None -> true_count hist k <= tc_total s / w;
  inv_sum : sumN (map cnt (tc_map s)) <= tc_total s
}.

Lemma inv_init w : Inv w [] (tc_init w).
Proof.
  constructor; cbn [tc_init tc_w tc_total tc_bucket tc_map length map sumN d_get].
  - reflexivity.
  - reflexivity.
  - destruct w; reflexivity.
  - constructor.
  - discriminate.
  - intros k _. unfold true_count. cbn [count_nat]. apply N.le_0_l.
  - lia.
Qed.

Lemma inv_step w hist s k : 1 <= w -> Inv w hist s -> Inv w (hist ++ [k]) (tc_add s k).
Proof.
  intros Hw [Iw It Ib Ind Ie Iu Is].
  set (T := tc_total s) in *. set (b := tc_bucket s) in *. set (m := tc_map s) in *.
  set (m' := bump m k b).
  assert (ND' : NoDup (map fst m')) by (apply bump_nodup; exact Ind).
  (* entries of the bumped map, against the extended stream and the OLD slack *)
  assert (E' : forall k' c dl, d_get m' k' = Some (c, dl) ->
            1 <= c /\ c <= true_count (hist ++ [k]) k' /\
            true_count (hist ++ [k]) k' <= c + dl /\ dl <= T / w).
  { intros k' c dl H. unfold m' in H. rewrite d_get_bump in H. rewrite true_count_snoc.
    destruct (Nat.eqb k' k) eqn:E.
    - apply Nat.eqb_eq in E; subst k'. destruct (d_get m k) as [[c0 dl0]|] eqn:G.
      + inversion H; subst. specialize (Ie _ _ _ G). lia.
      + inversion H; subst. specialize (Iu _ G). lia.
    - specialize (Ie _ _ _ H). lia. }
  assert (U' : forall k', d_get m' k' = None -> true_count (hist ++ [k]) k' <= T / w).
  { intros k' H. unfold m' in H. rewrite d_get_bump in H. rewrite true_count_snoc.
    destruct (Nat.eqb k' k); [discriminate|]. specialize (Iu _ H). lia. }
  assert (S' : sumN (map cnt m') = sumN (map cnt m) + 1) by apply bump_sum.
  assert (Hdiv : T / w <= (T + 1) / w) by (apply div_succ_le; exact Hw).
  unfold tc_add. fold T b m m'. rewrite Iw.
  destruct ((T + 1) mod w =? 0) eqn:C.
  - (* compaction *)
    apply N.eqb_eq in C.
    assert (Hq : (T + 1) / w = T / w + 1) by (apply div_succ_exact; assumption).
    constructor; cbn [tc_w tc_total tc_bucket tc_map].
    + reflexivity.
    + rewrite app_length. cbn [length]. lia.
    + lia.
    + apply filter_keys_nodup; exact ND'.
    + intros k' c dl H. apply d_get_filter_some in H as [H _]; [|exact ND'].
      specialize (E' _ _ _ H). lia.
    + intros k' H. apply d_get_filter_none in H; [|exact ND'].
      destruct H as [H|[[c dl] [H F]]].
      * specialize (U' _ H). lia.
      * specialize (E' _ _ _ H). unfold keep in F. lia.
    + pose proof (filter_sum (keep b) m'). lia.
  - apply N.eqb_neq in C.
    assert (Hq : (T + 1) / w = T / w) by (apply div_succ_same; assumption).
    constructor; cbn [tc_w tc_total tc_bucket tc_map].
    + reflexivity.
    + rewrite app_length. cbn [length]. lia.
    + lia.
    + exact ND'.
    + intros k' c dl H. specialize (E' _ _ _ H). lia.
    + intros k' H. specialize (U' _ H). lia.
    + lia.
Qed.

Lemma inv_adds w ks : 1 <= w -> forall hist s, Inv w hist s -> Inv w (hist ++ ks) (tc_adds s ks).
Proof.
  intro Hw. induction ks as [|k ks IH]; intros hist s I; cbn [tc_adds fold_left].
  - rewrite app_nil_r. exact I.
  - replace (hist ++ k :: ks) with ((hist ++ [k]) ++ ks) by (rewrite <- app_assoc; reflexivity).
    apply IH. apply inv_step; assumption.
Qed.

Lemma inv_reachable w ks : 1 <= w -> Inv w ks (tc_adds (tc_init w) ks).
Proof. intro Hw. apply (inv_adds w ks Hw [] (tc_init w)). apply inv_init. Qed.

(* ---- sorting ---------------------------------------------------------------------- *)
Lemma kn_eqb_eq x y : pair_eqb Nat.eqb N.eqb x y = true <-> x = y.
Proof.
  destruct x as [a b], y as [c d]. unfold pair_eqb. cbn [fst snd].
  rewrite andb_true_iff, Nat.eqb_eq, N.eqb_eq. split; [intros [-> ->]; reflexivity|].
  intro H; inversion H; auto.
Qed.

Lemma remove1_split x l : In x l ->
  exists a b, l = a ++ x :: b /\ remove1 x l = Some (a ++ b).
Proof.
  induction l as [|y r IH]; intros H; [destruct H|]. cbn [remove1].
  destruct (pair_eqb Nat.eqb N.eqb x y) eqn:E.
  - apply kn_eqb_eq in E; subst. exists [], r. split; reflexivity.
  - destruct H as [H|H]; [subst; assert (pair_eqb Nat.eqb N.eqb x x = true) by (apply kn_eqb_eq; reflexivity); congruence|].
    destruct (IH H) as (a & b0 & -> & R). rewrite R. exists (y :: a), b0. split; reflexivity.
Qed.

Lemma perm_b_complete l1 : forall l2, Permutation l1 l2 -> perm_b l1 l2 = true.
Proof.
  induction l1 as [|x r IH]; intros l2 P; cbn [perm_b].
  - apply Permutation_nil in P; subst; reflexivity.
  - assert (Hin : In x l2) by (eapply Permutation_in; [exact P|left; reflexivity]).
    destruct (remove1_split x l2 Hin) as (a & b0 & -> & R). rewrite R.
    apply IH. eapply Permutation_cons_app_inv. exact P.
Qed.

Lemma ins_desc_perm x l : Permutation (ins_desc x l) (x :: l).
Proof.
  induction l as [|y r IH]; cbn [ins_desc]; [apply Permutation_refl|].
  destruct (snd x <? snd y); [|apply Permutation_refl].
  eapply Permutation_trans; [apply perm_skip; exact IH|apply perm_swap].
Qed.

Lemma sort_desc_perm l : Permutation (sort_desc l) l.
Proof.
  induction l as [|x r IH]; cbn [sort_desc fold_right]; [constructor|].
  eapply Permutation_trans; [apply ins_desc_perm|]. apply perm_skip. exact IH.
Qed.

Lemma sorted_desc_cons x y r :
  sorted_desc (x :: y :: r) = (snd y <=? snd x) && sorted_desc (y :: r).
Proof. reflexivity. Qed.

Lemma ins_desc_sorted x l : sorted_desc l = true -> sorted_desc (ins_desc x l) = true.
Proof.
  induction l as [|y r IH]; intro H; cbn [ins_desc]; [reflexivity|].
  destruct (snd x <? snd y) eqn:E.
  - destruct r as [|z r'].
    + cbn [ins_desc]. rewrite sorted_desc_cons. cbn [sorted_desc]. rewrite andb_true_r. lia.
    + rewrite sorted_desc_cons in H. apply andb_true_iff in H as [H1 H2].
      specialize (IH H2). cbn [ins_desc] in IH |- *.
      destruct (snd x <? snd z) eqn:E2; rewrite sorted_desc_cons; apply andb_true_iff; split;
        try assumption; lia.
  - rewrite sorted_desc_cons. apply andb_true_iff. split; [lia|exact H].
Qed.

Lemma sort_desc_sorted l : sorted_desc (sort_desc l) = true.
Proof.
  induction l as [|x r IH]; cbn [sort_desc fold_right]; [reflexivity|].
  apply ins_desc_sorted. exact IH.
Qed.

(* ---- small reflexivity facts --------------------------------------------------------- *)
Lemma list_eqb_refl {A} (eqb : A -> A -> bool) (H : forall a, eqb a a = true) l : list_eqb eqb l l = true.
Proof. induction l as [|x r IH]; cbn [list_eqb]; [reflexivity|]. rewrite H, IH. reflexivity. Qed.

Lemma kn_eqb_refl x : pair_eqb Nat.eqb N.eqb x x = true.
Proof. apply kn_eqb_eq. reflexivity. Qed.

Lemma nodup_b_NoDup l : NoDup l -> nodup_b l = true.
Proof.
  induction 1 as [|x r Hn _ IH]; cbn [nodup_b]; [reflexivity|]. rewrite IH, andb_true_r.
  apply negb_true_iff. destruct (existsb (Nat.eqb x) r) eqn:E; [|reflexivity].
  apply existsb_exists in E as [y [Hy E]]. apply Nat.eqb_eq in E. subst. contradiction.
Qed.

Lemma items_keys s : map fst (tc_items s) = map fst (tc_map s).
Proof. unfold tc_items. rewrite map_map. reflexivity. Qed.

Lemma items_counts s : map snd (tc_items s) = map cnt (tc_map s).
Proof. unfold tc_items. rewrite map_map. reflexivity. Qed.

Lemma find_items m probe :
  match find (fun e : K * N => Nat.eqb (fst e) probe) (map (fun e : K * (N * N) => (fst e, fst (snd e))) m) with
  | Some e => snd e | None => 0 end
  = match d_get m probe with Some (c, _) => c | None => 0 end.
Proof.
  induction m as [|[k0 [c dl]] r IH]; cbn [map find d_get fst snd]; [reflexivity|].
  rewrite (Nat.eqb_sym k0 probe). destruct (Nat.eqb probe k0); [reflexivity|exact IH].
Qed.

(* ---- the refinement: the model's observation meets the Spec ---------------------- *)
Lemma model_meets_spec w ks n probe : 1 <= w ->
  let o := observe (tc_adds (tc_init w) ks) n probe in
  spec_core w ks (o_total o) (o_items o) (o_common o) (o_uncommon o) (o_mc_all o) (o_mc_n o)
            n (o_len o) probe (o_probe o) (o_keys o) (o_values o) (o_elems o) = true.
Proof.
  intros Hw. set (s := tc_adds (tc_init w) ks).
  destruct (inv_reachable w ks Hw) as [Iw It Ib Ind Ie Iu Is]. fold s in Iw, It, Ib, Ind, Ie, Iu, Is.
  cbv zeta. unfold observe. cbn [o_total o_items o_common o_uncommon o_mc_all o_mc_n o_len o_probe o_keys o_values o_elems].
  unfold spec_core.
  repeat (apply andb_true_intro; split).
  - apply N.eqb_eq. exact It.
  - apply forallb_forall. intros [k c] Hin. unfold tc_items in Hin. apply in_map_iff in Hin as [[k0 [c0 dl]] [E Hin]].
    cbn [fst snd] in E. inversion E; subst k0 c0.
    apply (d_get_In _ _ _ Ind) in Hin. specialize (Ie _ _ _ Hin).
    unfold item_ok, slack. rewrite <- It. lia.
  - apply nodup_b_NoDup. rewrite items_keys. exact Ind.
  - unfold heavy_present. apply forallb_forall. intros k _. apply orb_true_iff.
    destruct (d_get (tc_map s) k) as [[c dl]|] eqn:G.
    + right. apply existsb_exists. exists (k, c). split; [|apply Nat.eqb_refl].
      unfold tc_items. apply in_map_iff. exists (k, (c, dl)). split; [reflexivity|].
      apply (d_get_In _ _ _ Ind). exact G.
    + left. specialize (Iu _ G). unfold slack. rewrite <- It. lia.
  - apply N.eqb_eq. reflexivity.
  - apply N.eqb_eq. unfold tc_uncommon, tc_common. rewrite items_counts. lia.
  - apply N.eqb_eq. unfold tc_len, tc_items. rewrite map_length. reflexivity.
  - apply perm_b_complete. apply sort_desc_perm.
  - apply sort_desc_sorted.
  - apply list_eqb_refl. apply kn_eqb_refl.
  - apply list_eqb_refl. apply Nat.eqb_refl.
  - apply list_eqb_refl. apply N.eqb_refl.
  - apply list_eqb_refl. apply Nat.eqb_refl.
  - apply N.eqb_eq. unfold tc_get, tc_items. symmetry. apply find_items.
Qed.

(* histories of public operations reduce to the stream of additions *)
Lemma steps_as_adds ops : forall s, fold_left tc_step ops s = tc_adds s (flat_map op_keys ops).
Proof.
  induction ops as [|o r IH]; intro s; cbn [fold_left flat_map]; [reflexivity|].
  rewrite IH. unfold tc_step, tc_adds. rewrite fold_left_app. reflexivity.
Qed.

(* ---- the individual clauses of the property, readable ---------------------------- *)
Lemma never_over w ks k : 1 <= w -> tc_get (tc_adds (tc_init w) ks) k <= true_count ks k.
Proof.
  intro Hw. destruct (inv_reachable w ks Hw) as [_ _ _ _ Ie _ _]. unfold tc_get.
  destruct (d_get _ k) as [[c dl]|] eqn:G; [|lia]. specialize (Ie _ _ _ G). lia.
Qed.

Lemma under_bounded w ks k : 1 <= w ->
  true_count ks k - tc_get (tc_adds (tc_init w) ks) k <= N.of_nat (length ks) / w.
Proof.
  intro Hw. destruct (inv_reachable w ks Hw) as [_ It _ _ Ie Iu _]. unfold tc_get. rewrite <- It.
  destruct (d_get _ k) as [[c dl]|] eqn:G.
  - specialize (Ie _ _ _ G). lia.
  - specialize (Iu _ G). lia.
Qed.

Lemma heavy_tracked w ks k : 1 <= w ->
  N.of_nat (length ks) / w < true_count ks k -> d_mem (tc_map (tc_adds (tc_init w) ks)) k = true.
Proof.
  intros Hw H. destruct (inv_reachable w ks Hw) as [_ It _ _ _ Iu _]. unfold d_mem.
  destruct (d_get _ k) eqn:G; [reflexivity|]. specialize (Iu _ G). rewrite It in Iu. lia.
Qed.

Lemma common_plus_uncommon w ks : 1 <= w ->
  let s := tc_adds (tc_init w) ks in tc_common s + tc_uncommon s = tc_total s.
Proof.
  intros Hw s. destruct (inv_reachable w ks Hw) as [_ _ _ _ _ _ Is]. fold s in Is.
  unfold tc_uncommon, tc_common. rewrite items_counts. lia.
Qed.

Lemma bucket_formula w ks : 1 <= w ->
  tc_bucket (tc_adds (tc_init w) ks) = N.of_nat (length ks) / w + 1.
Proof. intro Hw. destruct (inv_reachable w ks Hw) as [_ It Ib _ _ _ _]. rewrite Ib, It. reflexivity. Qed.

Lemma most_common_prefix s n : tc_most_common s (Some n) = firstn n (tc_most_common s None).
Proof. reflexivity. Qed.

(* ---- the size clause is false of the algorithm ----------------------------------- *)
Fixpoint range (a n : nat) : list nat :=
  match n with O => [] | S n' => a :: range (S a) n' end.
Definition rounds (a n times : nat) : list nat := concat (repeat (range a n) times).
(* 12 keys x5, 15 x4, 20 x3, 30 x2 (60 additions each), then 59 fresh keys *)
Definition size_witness : list K :=
  rounds 0 12 5 ++ rounds 100 15 4 ++ rounds 200 20 3 ++ rounds 300 30 2 ++ range 400 59.

Lemma size_witness_facts :
  length size_witness = 299%nat /\ tc_len (tc_adds (tc_init 60) size_witness) = 136.
Proof. vm_compute. split; reflexivity. Qed.

(* every prefix of every history of public operations (add / update with an iterable /
   update with a mapping or kwargs) *)
Lemma history_meets_spec w ops i n probe : 1 <= w ->
  let pre := firstn i ops in
  let o := observe (fold_left tc_step pre (tc_init w)) n probe in
  spec_core w (flat_map op_keys pre) (o_total o) (o_items o) (o_common o) (o_uncommon o)
            (o_mc_all o) (o_mc_n o) n (o_len o) probe (o_probe o) (o_keys o) (o_values o) (o_elems o) = true.
Proof. intros Hw pre. rewrite steps_as_adds. apply model_meets_spec. exact Hw. Qed.

Lemma size_refuted : exists ks, 2 * 60 < tc_len (tc_adds (tc_init 60) ks).
Proof. exists size_witness. destruct size_witness_facts as [_ ->]. reflexivity. Qed.
