(* C08: concrete witnesses (evaluated inside Coq) *)
From Boltons Require Import Lib.Prelude Lib.C08_Py Spec.C08_Spec Model.C08_Model Check.C08_Check Proofs.C08_Tree Proofs.C08_Paths Proofs.C08_Copy.

(* {'k': [4, (5, 6)], 'j': {7}} *)
Definition ex_tree : obj :=
  ONode 0 KDict [(KT 0, ONode 1 KList [(KI 0, OLeaf 4); (KI 1, ONode 2 KTuple [(KI 0, OLeaf 5); (KI 1, OLeaf 6)])]);
                 (KT 1, ONode 3 KSet [(KI 0, OLeaf 7)])].

Lemma ex_tree_ok : is_tree ex_tree = true /\ NoDup (ids ex_tree) /\ length (ids ex_tree) = 4.
Proof.
  split; [reflexivity|]. split; [|reflexivity].
  cbn. repeat constructor; cbn; intuition discriminate.
Qed.

(* d = {'self': d, 'l': [d, (1, l)]}  with l that list: cycles through a dict and a list *)
Definition ex_cyclic : obj :=
  ONode 0 KDict [(KT 0, ORef 0 KDict);
                 (KT 1, ONode 1 KList [(KI 0, ORef 0 KDict); (KI 1, ONode 2 KTuple [(KI 0, OLeaf 5); (KI 1, ORef 1 KList)])])].

Lemma ex_cyclic_ok :
  imm_backref [] ex_cyclic = false /\ exists v m lg, spec_remap None ex_cyclic = Done v m lg.
Proof. split; [reflexivity|]. eexists. eexists. eexists. vm_compute. reflexivity. Qed.

Lemma ex_paths_ok :
  wf_keys ex_cyclic /\ exists l, research (fun _ _ _ => true) ex_cyclic = Ok l
    /\ In ([KT 1; KI 1; KI 0], RLeaf 5) l
    /\ crosses_set (collect_defs ex_cyclic) ex_cyclic [KT 1; KI 1; KI 0] = false.
Proof.
  split.
  - cbn. repeat split; try reflexivity; repeat constructor; cbn; intuition discriminate.
  - eexists. split; [vm_compute; reflexivity|]. split; [cbn; tauto|reflexivity].
Qed.

(* d = {'self': d, 's': {4, (5, 6)}, 'l': [d]} *)
Definition ex_copy : obj :=
  ONode 0 KDict [(KT 0, ORef 0 KDict);
                 (KT 1, ONode 1 KSet [(KI 0, OLeaf 4); (KI 1, ONode 3 KTuple [(KI 0, OLeaf 5); (KI 1, OLeaf 6)])]);
                 (KT 2, ONode 2 KList [(KI 0, ORef 0 KDict)])].
Lemma ex_copy_ok :
  NoDup (ids ex_copy) /\ wf_keys ex_copy /\ no_sets ex_copy /\ imm_backref [] ex_copy = false.
Proof.
  split; [cbn; repeat constructor; cbn; intuition discriminate|].
  split; [cbn; repeat split; try reflexivity; repeat constructor; cbn; intuition discriminate|].
  split; [|reflexivity].
  cbn. repeat split; try discriminate; try (intros _); repeat constructor; cbn; try exact I;
    try (intros z [<-|[]]; cbn; discriminate); intros z [].
Qed.

(* a callback that raises on the leaf 6, keeps everything else *)
Definition ex_raising_visit : mvisit_fn :=
  fun _ _ v => match v with VLeaf 6 => None | _ => Some (Put None None) end.
Lemma ex_reraise_ok :
  exists lg, remap (Some ex_raising_visit) true [] ex_tree = Fail VisitError lg /\ length lg = 9.
Proof. eexists. split; [vm_compute; reflexivity|reflexivity]. Qed.

(* t = (5,); [t, t] *)
Definition ex_dag : obj := ONode 0 KList [(KI 0, ONode 1 KTuple [(KI 0, OLeaf 5)]); (KI 1, ORef 1 KTuple)].
Lemma ex_dag_ok :
  exists m lg, remap None true [] ex_dag = Done
    (ONode 0 KList [(KI 0, ONode 1 KTuple [(KI 0, OLeaf 5)]); (KI 1, ONode 1 KTuple [(KI 0, OLeaf 5)])]) m lg.
Proof. eexists. eexists. vm_compute. reflexivity. Qed.

(* an observation as the harness records it: [t, t] with t = (5,), a visit that
   drops nothing and re-keys leaves, research for leaves *)
Definition ex_case : c08_case :=
  mkCase ex_dag (Some [(PIsLeaf, Some (Put (Some (KT 1)) None))]) true
    (Ok (ONode 0 KList [(KI 0, ONode 1 KTuple [(KI 0, OLeaf 5)]); (KI 1, ORef 1 KTuple)]))
    [([KI 0], KI 0, SLeaf 5); ([], KI 0, SCont KTuple 1); ([], KI 1, SCont KTuple 1)]
    [None; Some 1; Some 1]
    ex_dag PIsLeaf None false
    (Ok [([KI 0; KI 0], RLeaf 5, Ok (RLeaf 5))])
    ex_dag None [([KI 1; KI 0], Ok (RLeaf 5), false)] None.
Lemma ex_case_ok :
  imm_backref [] (c_in ex_case) = false /\ agree ex_case = true /\ c08_verdict ex_case = (true, true, false).
Proof. split; [reflexivity|]. split; vm_compute; reflexivity. Qed.

(* t = (l,), l = [t] *)
Definition tuple_cycle : obj := ONode 0 KTuple [(KI 0, ONode 1 KList [(KI 0, ORef 0 KTuple)])].

Lemma tuple_cycle_witness :
  exists root, remap None true (collect_defs root) root <> spec_remap None root
               /\ exists m lg, remap None true (collect_defs root) root
                    = Done (ONode 0 KTuple [(KI 0, ONode 1 KList [(KI 0, OBlank KTuple)])]) m lg.
Proof.
  exists tuple_cycle. split.
  - vm_compute. discriminate.
  - eexists. eexists. vm_compute. reflexivity.
Qed.

(* {'a': {1, 2}} *)
Definition set_path : obj := ONode 0 KDict [(KT 0, ONode 1 KSet [(KI 0, OLeaf 4); (KI 1, OLeaf 5)])].

Lemma set_path_witness :
  exists root l p r, research (fun _ _ _ => true) root = Ok l /\ In (p, r) l
                     /\ p <> [KNone] /\ get_path root p <> Ok r.
Proof.
  exists set_path. eexists. exists [KT 0; KI 0], (RLeaf 4).
  split; [vm_compute; reflexivity|].
  split; [cbn; tauto|]. split; [discriminate|]. vm_compute. discriminate.
Qed.
