(* The capstone for bases rebuilt by the harness with from_parts(path_parts[1:])
   (case flag c_unrooted): the model's observation satisfies c07_holds there
   too.  The rebuilt URL differs from the parsed one only in the missing root
   marker and in _netloc_sep (from_parts leaves it ''), and neither matters to
   to_text (under an authority) or navigate. *)
From Boltons Require Import Lib.Prelude Lib.C07_Str Spec.C07_Spec Gen.C07_Gen Model.C07_Model
     Check.C07_Check Proofs.C07_StrLemmas Proofs.C07_Rds Proofs.C07_Resolve Proofs.C07_Parse
     Proofs.C07_Navigate Proofs.C07_Text Proofs.C07_Refine Proofs.C07_Unrooted Proofs.C07_RoundTrip.
Open Scope N_scope.

(* the same URL with _netloc_sep = '' *)
Definition nosep (b : url) : url :=
  mkUrl (u_scheme b) false (u_user b) (u_pass b) (u_host b) (u_port b) (u_path b) (u_query b) (u_frag b).

Lemma nosep_wf b : wf_base b -> wf_base (nosep b).
Proof.
  intro W. constructor; cbn [nosep u_scheme u_host u_path u_query u_frag].
  - exact (wb_scheme_ne b W).
  - exact (wb_scheme_chars b W).
  - exact (wb_scheme_lower b W).
  - exact (wb_host_ne b W).
  - exact (wb_host_lower b W).
  - exact (wb_auth_chars b W).
  - exact (wb_auth_lower b W).
  - exact (wb_rooted b W).
  - exact (wb_segs b W).
  - exact (wb_query b W).
  - exact (wb_frag b W).
Qed.

Lemma navigate_rel_nosep b r : navigate_rel (nosep b) r = navigate_rel b r.
Proof. reflexivity. Qed.

Lemma navigate_url_nosep b d : navigate_url (nosep b) d = navigate_url b d.
Proof. reflexivity. Qed.

Lemma to_text_nosep b : u_host b <> [] -> to_text (nosep b) = to_text b.
Proof.
  intro H. pose proof (authority_nonempty b H) as Ha. unfold to_text. cbv zeta.
  change (authority_text (nosep b)) with (authority_text b). rewrite Ha. reflexivity.
Qed.

Lemma normalize_nosep b : normalize (nosep b) = nosep (normalize b).
Proof. reflexivity. Qed.

(* unroot, as the checker's model applies it, in terms of rootpath/nosep *)
Lemma unroot_cases b : wf_base b ->
  (unroot b = b) \/
  (wf_unrooted_base (unroot b) /\ rootpath (unroot b) = nosep b).
Proof.
  intro W. destruct (wb_rooted b W) as [segs Hp]. unfold unroot.
  rewrite is_nil_nonempty, (nonempty_true _ (wb_host_ne b W)). cbn [negb]. rewrite Hp.
  destruct segs as [|s rest]; [left; reflexivity|]. destruct s as [|c s]; [left; reflexivity|].
  right. unfold from_parts.
  assert (E : rootpath {| u_scheme := u_scheme b; u_sep := false; u_user := u_user b; u_pass := u_pass b;
                          u_host := u_host b; u_port := u_port b; u_path := (c :: s) :: rest;
                          u_query := u_query b; u_frag := u_frag b |} = nosep b).
  { unfold rootpath, nosep. cbn. rewrite Hp. reflexivity. }
  split; [|exact E]. split.
  - rewrite E. apply nosep_wf, W.
  - exists c, s, rest. reflexivity.
Qed.

Definition record_obs_unrooted (b d1 d2 : url) : c07_obs :=
  let b' := unroot b in
  let n1 := navigate_url b' d1 in
  let n2 := navigate_url n1 d2 in
  let nb := normalize b in
  let nr := normalize d1 in
  mkObs (to_text b') (to_text n1) (to_text n1) (to_text b') (to_text n2)
        (to_text nb) (to_text (normalize nb)) (to_text nr) (to_text (normalize nr)) (to_text d1) (to_text d2) (u_path n1) (u_path n2) (u_query n1) (u_query n2).

Lemma record_obs_unrooted_eq b d1 d2 : wf_base b -> wf_ref d1 \/ wf_base d1 ->
  record_obs_unrooted b d1 d2 = record_obs b d1 d2.
Proof.
  intros W W1. unfold record_obs_unrooted, record_obs. cbv zeta.
  destruct (unroot_cases b W) as [E|[WU ER]]; [rewrite E; reflexivity|].
  destruct (navigate_unrooted_refines_rfc (unroot b) d1 WU W1) as [_ EN].
  rewrite EN, ER, navigate_url_nosep, (to_text_unrooted _ WU), ER, (to_text_nosep b (wb_host_ne b W)).
  reflexivity.
Qed.

Theorem model_on_texts_satisfies_spec_any_base b d1 d2 unrooted f1 f2 o0 :
  wf_base_text b -> dest_text_ok d1 -> dest_text_ok d2 ->
  exists o, c07_model (mkCase (to_text b) unrooted (to_text d1) f1 (to_text d2) f2 o0) = Some o /\
            c07_holds (mkCase (to_text b) unrooted (to_text d1) f1 (to_text d2) f2 o) = true.
Proof.
  intros Wb W1 W2. destruct unrooted; [|apply model_on_texts_satisfies_spec; assumption].
  exists (record_obs b d1 d2). split.
  - rewrite <- (record_obs_unrooted_eq b d1 d2 (wbt_wf b Wb) (dest_text_ok_wf d1 W1)).
    unfold c07_model. cbn [c_base c_unrooted c_ref1 c_ref2 c_as_url1 c_as_url2].
    rewrite (base_round_trip b Wb), (dest_round_trip d1 W1), (dest_round_trip d2 W2).
    rewrite (navigate_normal_form _ _ d1 f1 (dest_round_trip d1 W1) eq_refl).
    rewrite (navigate_normal_form _ _ d2 f2 (dest_round_trip d2 W2) eq_refl). destruct f1, f2; reflexivity.
  - pose proof (model_observation_satisfies_spec b d1 d2 f1 f2 (wbt_wf b Wb)
                  (dest_text_ok_wf d1 W1) (dest_text_ok_wf d2 W2)) as H.
    unfold c07_holds in *. exact H.
Qed.

(* The most general text-level form: the base TEXT need not be in normal form
   (it may spell a default port, ":0", an empty port, ...): whatever text the
   model of URL() parses into a well-formed base. *)
Theorem model_on_any_base_text bt b d1 d2 unrooted f1 f2 o0 :
  url_of_text bt = Some b -> wf_base b -> dest_text_ok d1 -> dest_text_ok d2 ->
  exists o, c07_model (mkCase bt unrooted (to_text d1) f1 (to_text d2) f2 o0) = Some o /\
            c07_holds (mkCase bt unrooted (to_text d1) f1 (to_text d2) f2 o) = true.
Proof.
  intros Hb Wb W1 W2. exists (record_obs b d1 d2). split.
  - destruct unrooted.
    + rewrite <- (record_obs_unrooted_eq b d1 d2 Wb (dest_text_ok_wf d1 W1)).
      unfold c07_model. cbn [c_base c_unrooted c_ref1 c_ref2 c_as_url1 c_as_url2].
      rewrite Hb, (dest_round_trip d1 W1), (dest_round_trip d2 W2).
      rewrite (navigate_normal_form _ _ d1 f1 (dest_round_trip d1 W1) eq_refl).
      rewrite (navigate_normal_form _ _ d2 f2 (dest_round_trip d2 W2) eq_refl). destruct f1, f2; reflexivity.
    + unfold c07_model. cbn [c_base c_unrooted c_ref1 c_ref2 c_as_url1 c_as_url2].
      rewrite Hb, (dest_round_trip d1 W1), (dest_round_trip d2 W2).
      rewrite (navigate_normal_form _ _ d1 f1 (dest_round_trip d1 W1) eq_refl).
      rewrite (navigate_normal_form _ _ d2 f2 (dest_round_trip d2 W2) eq_refl). destruct f1, f2; reflexivity.
  - pose proof (model_observation_satisfies_spec b d1 d2 f1 f2 Wb
                  (dest_text_ok_wf d1 W1) (dest_text_ok_wf d2 W2)) as H.
    unfold c07_holds in *. exact H.
Qed.

From Coq Require Import String.
From Boltons Require Import Proofs.C07_RfcExamples.
Open Scope list_scope.

Lemma ex_default_port :
  url_of_text (codes "http://a:80/b/../c") <> None /\
  wf_base (or_dummy (url_of_text (codes "http://a:80/b/../c"))) /\
  to_text (or_dummy (url_of_text (codes "http://a:80/b/../c"))) = codes "http://a/b/../c".
Proof.
  split; [vm_compute; discriminate|]. split; [wf_concrete | vm_compute; reflexivity].
Qed.
