(* C01: pop / popall / poplast / popitem / clear refine the pair-list reference. *)
From Boltons Require Import Lib.Prelude Spec.C01_Spec Model.C01_Model Proofs.C01_Base Proofs.C01_Prim Proofs.C01_Refine.

(* ---- deleting a key's store entry after _remove_all ------------------------------------ *)
Lemma del_store_inv s s1 k :
  StoreOk s -> CmapOk s1 -> store s1 = store s -> abs s1 = remove_key (abs s) k ->
  Inv (set_store s1 (d_del (store s) k)).
Proof.
  intros Hs Hc1 Est Eabs. split; [|exact Hc1]. split.
  - simpl. apply d_del_NoDup. apply Hs.
  - intro k'. simpl store. rewrite d_get_del by apply Hs.
    change (abs (set_store s1 (d_del (store s) k))) with (abs s1).
    rewrite Eabs, vals_of_remove_key. destruct (Nat.eqb k' k); [reflexivity | apply Hs].
Qed.

Lemma m_popall_member s k : Inv s -> has_key (abs s) k = true ->
  exists s', m_popall s k = Ok (s', vals_of (abs s) k) /\ Inv s' /\ abs s' = remove_key (abs s) k.
Proof.
  intros [Hs Hc] Hk.
  destruct (remove_all_ok s k Hc Hk) as [s1 [E1 [Hc1 [Est Eabs]]]].
  unfold m_popall. rewrite (store_mem s k Hs), Hk, E1. unfold bind.
  rewrite Est, (store_get s k Hs), Hk.
  eexists. split; [reflexivity|]. split.
  - apply (del_store_inv s s1 k); assumption.
  - exact Eabs.
Qed.

Lemma m_popall_absent s k : Inv s -> has_key (abs s) k = false -> m_popall s k = Raise KeyError.
Proof.
  intros [Hs Hc] Hk. unfold m_popall. rewrite (store_mem s k Hs), Hk. unfold bind.
  rewrite (store_get s k Hs), Hk. reflexivity.
Qed.

Lemma vals_ne l k : has_key l k = true -> vals_of l k <> [].
Proof. apply has_key_vals_true. Qed.

(* ---- pop ------------------------------------------------------------------------------------ *)
Lemma pop_refines k d : refines_op (Pop k d).
Proof.
  unfold refines_op, m_op. intros s o Hi Ho _. simpl spec_step.
  destruct (has_key (abs s) k) eqn:Hk.
  - destruct (m_popall_member s k Hi Hk) as [s' [E [Hi' Ea]]]. rewrite E.
    rewrite (last_res_last _ none_tok) by (apply vals_ne; exact Hk). unfold bind.
    split; [exact Hi'|]. rewrite Ea. reflexivity.
  - rewrite (m_popall_absent s k Hi Hk). destruct d; simpl; [|reflexivity].
    split; [exact Hi | reflexivity].
Qed.

(* ---- popall --------------------------------------------------------------------------------- *)
Lemma popall_refines k d : refines_op (PopAll k d).
Proof.
  unfold refines_op, m_op. intros s o Hi Ho _. simpl spec_step.
  destruct Hi as [Hs Hc].
  destruct (has_key (abs s) k) eqn:Hk.
  - destruct (remove_all_ok s k Hc Hk) as [s1 [E1 [Hc1 [Est Eabs]]]].
    rewrite (store_mem s k Hs), Hk, E1. unfold bind.
    rewrite Est, (store_get s k Hs), Hk. split.
    + apply (del_store_inv s s1 k); assumption.
    + change (abs (set_store s1 (d_del (store s) k))) with (abs s1). rewrite Eabs. reflexivity.
  - rewrite (store_mem s k Hs), Hk. unfold bind at 1.
    rewrite (store_get s k Hs), Hk. destruct d; simpl; [|reflexivity].
    split; [split; assumption | reflexivity].
Qed.

(* ---- poplast of a present key --------------------------------------------------------------- *)
Lemma poplast_member s o k d : Inv s -> has_key (abs s) k = true ->
  match m_op s o (PopLast (Some k) d) with
  | Ok (s', x) => Inv s' /\ abs s' = remove_last_of (abs s) k /\ x = OVal (visible (abs s) k)
  | Raise _ => False
  end.
Proof.
  intros [Hs Hc] Hk.
  destruct (remove_ok s k Hc Hk) as [s1 [l1 [v [l2 [E1 [Hc1 [Est [Eabs [Hl2 Eabs1]]]]]]]]].
  unfold m_op. rewrite E1, Est, (store_get s k Hs), Hk.
  assert (Hl2' : vals_of l2 k = []) by (apply has_key_vals; exact Hl2).
  assert (Hv : vals_of (abs s) k = vals_of l1 k ++ [v]).
  { rewrite Eabs, vals_of_app, vals_of_cons. simpl fst. simpl snd.
    rewrite Nat.eqb_refl, Hl2'. reflexivity. }
  assert (Hrest : forall k', vals_of (l1 ++ l2) k'
                             = if Nat.eqb k' k then vals_of l1 k else vals_of (abs s) k').
  { intro k'. rewrite Eabs, !vals_of_app, vals_of_cons. simpl fst. simpl snd.
    destruct (Nat.eqb k' k) eqn:E.
    - apply Nat.eqb_eq in E. subst k'. rewrite Hl2'. apply app_nil_r.
    - rewrite Nat.eqb_sym, E. reflexivity. }
  rewrite Hv, rev_app_distr. simpl rev at 1. cbv iota beta. simpl app at 1.
  cbv iota beta. rewrite rev_involutive.
  split; [|split].
  - split; [|exact Hc1]. split.
    + simpl store. destruct (vals_of l1 k); [apply d_del_NoDup | apply d_set_NoDup]; apply Hs.
    + intro k'.
      change (abs (set_store s1 (match vals_of l1 k with
                                 | [] => d_del (store s) k
                                 | _ :: _ => d_set (store s) k (vals_of l1 k)
                                 end))) with (abs s1).
      rewrite Eabs1, Hrest. simpl store.
      destruct (vals_of l1 k) as [|v0 vr] eqn:Ev.
      * rewrite d_get_del by apply Hs. destruct (Nat.eqb k' k); [reflexivity | apply Hs].
      * rewrite d_get_set. destruct (Nat.eqb k' k); [reflexivity | apply Hs].
  - change (abs (set_store s1 (match vals_of l1 k with
                               | [] => d_del (store s) k
                               | _ :: _ => d_set (store s) k (vals_of l1 k)
                               end))) with (abs s1).
    rewrite Eabs, remove_last_of_split by exact Hl2. exact Eabs1.
  - rewrite Eabs, visible_split by exact Hl2. reflexivity.
Qed.

(* ---- the last pair -------------------------------------------------------------------------- *)
Lemma store_nil_abs s : StoreOk s -> (store s = [] <-> abs s = []).
Proof.
  intro Hs. pose proof (store_len s Hs) as H. split; intro E.
  - rewrite E in H. destruct (abs s) as [|p l]; [reflexivity|].
    unfold keys1 in H. simpl in H. discriminate.
  - rewrite E in H. simpl in H. destruct (store s); [reflexivity | discriminate].
Qed.

Lemma abs_last s : abs s <> [] ->
  exists l' k v, abs s = l' ++ [(k, v)] /\ last_key s = Ok k.
Proof.
  unfold abs, m_items, last_key. intro H.
  assert (Hll : ll s <> []) by (intro E; rewrite E in H; apply H; reflexivity).
  destruct (exists_last Hll) as [l' [c E]]. rewrite E.
  exists (map ckv l'), (c_key c), (c_val c). split.
  - rewrite map_app. reflexivity.
  - rewrite rev_app_distr. reflexivity.
Qed.

Lemma has_key_last l' k v : has_key (l' ++ [(k, v)]) k = true.
Proof.
  rewrite has_key_app. simpl. unfold keyb. simpl. rewrite Nat.eqb_refl. apply orb_true_r.
Qed.

(* ---- poplast -------------------------------------------------------------------------------- *)
Lemma poplast_refines ko d : refines_op (PopLast ko d).
Proof.
  unfold refines_op. intros s o Hi Ho _. destruct ko as [k|].
  - destruct (has_key (abs s) k) eqn:Hk.
    + pose proof (poplast_member s o k d Hi Hk) as H.
      destruct (m_op s o (PopLast (Some k) d)) as [[s' x]|e]; [|contradiction].
      destruct H as [Hi' [Ea Ex]]. split; [exact Hi'|].
      simpl. rewrite Hk, Ea, Ex. reflexivity.
    + destruct Hi as [Hs Hc]. unfold m_op. rewrite (remove_absent s k Hc Hk).
      simpl. rewrite Hk. destruct d; simpl; [|reflexivity].
      split; [split; assumption | reflexivity].
  - destruct (store s) as [|p0 st0] eqn:Est.
    + assert (Ea : abs s = []) by (apply store_nil_abs; [apply Hi | exact Est]).
      unfold m_op. rewrite Est. simpl. rewrite Ea. simpl.
      destruct d; simpl; [|rewrite ?Ea; reflexivity].
      split; [exact Hi | rewrite Ea; reflexivity].
    + assert (Hne : abs s <> []).
      { intro E. apply (store_nil_abs s) in E; [|apply Hi]. rewrite E in Est. discriminate. }
      destruct (abs_last s Hne) as [l' [k [v [Ea Elast]]]].
      assert (Hk : has_key (abs s) k = true) by (rewrite Ea; apply has_key_last).
      assert (Hm : m_op s o (PopLast None d) = m_op s o (PopLast (Some k) d)).
      { unfold m_op. rewrite Est, Elast. reflexivity. }
      rewrite Hm.
      pose proof (poplast_member s o k d Hi Hk) as H.
      destruct (m_op s o (PopLast (Some k) d)) as [[s' x]|e]; [|contradiction].
      destruct H as [Hi' [Ea' Ex]]. split; [exact Hi'|].
      simpl. rewrite Ea' , Ex, Ea, rev_app_distr. simpl.
      rewrite rev_involutive.
      rewrite (remove_last_of_split l' k v []) by reflexivity.
      rewrite (visible_split l' k v []) by reflexivity.
      rewrite app_nil_r. reflexivity.
Qed.

(* ---- popitem -------------------------------------------------------------------------------- *)
Lemma popitem_refines : refines_op PopItem.
Proof.
  unfold refines_op. intros s o Hi Ho _. unfold m_op.
  destruct (store s) as [|p0 st0] eqn:Est.
  - assert (Ea : abs s = []) by (apply store_nil_abs; [apply Hi | exact Est]).
    simpl. rewrite Ea. reflexivity.
  - assert (Hne : abs s <> []).
    { intro E. apply (store_nil_abs s) in E; [|apply Hi]. rewrite E in Est. discriminate. }
    destruct (abs_last s Hne) as [l' [k [v [Ea Elast]]]].
    assert (Hk : has_key (abs s) k = true) by (rewrite Ea; apply has_key_last).
    rewrite Elast. unfold bind at 1.
    destruct (m_popall_member s k Hi Hk) as [s' [E [Hi' Ea']]]. rewrite E. unfold bind at 1.
    simpl snd. simpl fst.
    rewrite (last_res_last _ none_tok) by (apply vals_ne; exact Hk). unfold bind.
    split; [exact Hi'|].
    simpl. rewrite Ea'. change (last (vals_of (abs s) k) none_tok) with (visible (abs s) k).
    rewrite Ea, rev_app_distr. simpl.
    rewrite (visible_split l' k v []) by reflexivity. reflexivity.
Qed.

(* ---- clear ---------------------------------------------------------------------------------- *)
Lemma clear_refines : refines_op Clear.
Proof.
  unfold refines_op, m_op. intros s o Hi Ho _. split; [|reflexivity].
  split.
  - split; [constructor | intro k; reflexivity].
  - split; [constructor|]. split; [intros c []|]. split; [constructor | intro k; reflexivity].
Qed.

Print Assumptions pop_refines.
Print Assumptions popall_refines.
Print Assumptions clear_refines.
Print Assumptions poplast_refines.
Print Assumptions popitem_refines.
