(* C08: on unshared trees the graph recursion srb (hence, by C08_Machine, the
   stack machine) returns exactly the pure recursive rebuild, and calls visit
   exactly as the recursion does (post-order, right paths). *)
From Boltons Require Import Lib.Prelude Lib.C08_Py Spec.C08_Spec Model.C08_Model Proofs.C08_Machine.

Definition eitems (l : list (key * obj)) : list (key * val) := map (fun kv => (fst kv, erase (snd kv))) l.

Fixpoint ids (o : obj) : list nat :=
  match o with
  | ONode id _ items => id :: flat_map (fun kv => ids (snd kv)) items
  | _ => []
  end.

Fixpoint is_tree (o : obj) : bool :=
  match o with
  | OLeaf _ => true
  | ONode _ _ items => forallb (fun kv => is_tree (snd kv)) items
  | _ => false
  end.

Definition vfun (visit : option visit_fn) : visit_fn :=
  match visit with Some f => f | None => fun _ _ _ => Put None None end.

Definition evisits (lg : list event) : list (path * key * val) :=
  flat_map (fun e => match e with EVisit p k _ v => [(p, k, v)] | _ => [] end) lg.

Definition calls_opt (visit : option visit_fn) (p : path) (v : val) : list (path * key * val) :=
  match visit with Some f => calls f p v | None => [] end.

(* ---- stand-alone versions of the nested loops of the Spec -------------------- *)
Fixpoint rb_children (visit : visit_fn) (p : path) (l : list (key * val)) : list (key * val) :=
  match l with
  | [] => []
  | (ky, c) :: r =>
      let c' := rebuild visit (p ++ [ky]) c in
      opt_list (apply_action (fun x => x) (visit p ky c') ky c') ++ rb_children visit p r
  end.

Lemma rebuild_node : forall visit p k items,
  rebuild visit p (VNode k items) = VNode k (build (fun x => x) k (rb_children visit p items)).
Proof.
  intros. cbn [rebuild]. f_equal. f_equal.
  induction items as [|[ky c] r IH]; cbn [rb_children]; [reflexivity|]. rewrite IH. reflexivity.
Qed.

Fixpoint calls_children (visit : visit_fn) (p : path) (l : list (key * val)) : list (path * key * val) :=
  match l with
  | [] => []
  | (ky, c) :: r =>
      calls visit (p ++ [ky]) c ++ [(p, ky, rebuild visit (p ++ [ky]) c)] ++ calls_children visit p r
  end.

Lemma calls_node : forall visit p k items,
  calls visit p (VNode k items) = calls_children visit p items.
Proof.
  intros. cbn [calls].
  induction items as [|[ky c] r IH]; cbn [calls_children]; [reflexivity|]. rewrite IH. reflexivity.
Qed.

(* ---- tables ------------------------------------------------------------------ *)
Lemma t_get_set : forall {B} (m : table B) id v i,
  t_get (t_set m id v) i = if Nat.eqb i id then Some v else t_get m i.
Proof.
  induction m as [|[j w] r IH]; intros id v i; cbn [t_set t_get].
  - destruct (Nat.eqb i id); reflexivity.
  - destruct (Nat.eqb id j) eqn:E; cbn [t_get].
    + apply Nat.eqb_eq in E. subst j. destruct (Nat.eqb i id); reflexivity.
    + rewrite IH. destruct (Nat.eqb i j) eqn:E2; [|reflexivity].
      apply Nat.eqb_eq in E2. subst j.
      destruct (Nat.eqb i id) eqn:E3; [|reflexivity].
      apply Nat.eqb_eq in E3. subst. rewrite Nat.eqb_refl in E. discriminate.
Qed.

Section Tree.
  Variable blank : nat -> kind -> obj.
  Variable visit : option visit_fn.
  Variable defs : table obj.
  Notation srbB := (srb blank visit defs).
  Notation childrenB := (srb_children blank visit defs).

  (* srb only touches the table at the ids of the containers it rebuilds *)
  Definition dom_ok (o : obj) : Prop :=
    forall rt p ky m lg v m' lg', srbB rt p ky o m lg = (v, m', lg') ->
      forall i, ~ In i (ids o) -> t_get m' i = t_get m i.

  Lemma children_dom : forall l, Forall (fun kv => dom_ok (snd kv)) l ->
    forall cp acc m lg acc' m' lg', childrenB cp l acc m lg = (acc', m', lg') ->
      forall i, ~ In i (flat_map (fun kv => ids (snd kv)) l) -> t_get m' i = t_get m i.
  Proof.
    induction 1 as [|[ck c] r Hc Hr IH]; intros cp acc m lg acc' m' lg' E i Hi.
    - cbn in E. inversion E; subst. reflexivity.
    - cbn [srb_children] in E.
      destruct (srbB false cp ck c m lg) as [[c' m1] lg1] eqn:E1.
      destruct (do_visit visit cp ck c' lg1) as [it lg2].
      cbn [flat_map snd] in Hi. rewrite in_app_iff in Hi.
      rewrite (IH _ _ _ _ _ _ _ E i); [|tauto].
      apply (Hc _ _ _ _ _ _ _ _ E1). tauto.
  Qed.

  Lemma srb_dom : forall o, dom_ok o.
  Proof.
    induction o as [n|id k items IH|id k|k|id k|w] using obj_ind2; unfold dom_ok;
      intros rt p ky m lg v m' lg' E i Hi;
      try (cbn in E; inversion E; subst; reflexivity).
    - rewrite srb_node in E. destruct (t_get m id) eqn:G; [inversion E; subst; reflexivity|].
      cbv zeta in E.
      destruct (childrenB _ items [] _ _) as [[items' m1] lg1] eqn:EC.
      inversion E; subst. cbn [ids] in Hi.
      rewrite t_get_set.
      destruct (Nat.eqb i id) eqn:Ei; [apply Nat.eqb_eq in Ei; subst; exfalso; apply Hi; left; reflexivity|].
      rewrite (children_dom items IH _ _ _ _ _ _ _ EC i); [|intro; apply Hi; right; assumption].
      rewrite t_get_set, Ei. reflexivity.
    - cbn [srb] in E. destruct (t_get m id); inversion E; subst; reflexivity.
  Qed.

  (* ---- erase commutes with the container constructors ------------------------- *)
  Lemma eitems_app : forall a b, eitems (a ++ b) = eitems a ++ eitems b.
  Proof. intros. unfold eitems. apply map_app. Qed.

  Lemma eitems_reindex_from : forall l i, eitems (reindex_from i l) = reindex_from i (map erase l).
  Proof. induction l as [|x r IH]; intro i; cbn; [reflexivity|]. unfold eitems in IH. rewrite IH. reflexivity. Qed.

  Lemma map_snd_eitems : forall l, map snd (eitems l) = map erase (map snd l).
  Proof. induction l as [|[k v] r IH]; cbn; [reflexivity|]. unfold eitems in IH. rewrite IH. reflexivity. Qed.

  Lemma eitems_kd_set : forall d k v, eitems (kd_set d k v) = kd_set (eitems d) k (erase v).
  Proof.
    induction d as [|[k' v'] r IH]; intros k v; cbn [kd_set eitems map fst snd]; [reflexivity|].
    destruct (key_eqb k k'); cbn [map fst snd]; [reflexivity|]. unfold eitems in IH. rewrite IH. reflexivity.
  Qed.

  Lemma eitems_kd_update : forall items d, eitems (kd_update d items) = kd_update (eitems d) (eitems items).
  Proof.
    unfold kd_update. induction items as [|[k v] r IH]; intro d; cbn [fold_left eitems map fst snd]; [reflexivity|].
    unfold eitems in IH. rewrite IH. f_equal. apply eitems_kd_set.
  Qed.

  Lemma erase_set_insert : forall x a,
    map erase (set_insert (fun x => vnorm (erase x)) x a) = set_insert (fun x => vnorm x) (erase x) (map erase a).
  Proof.
    induction a as [|y r IH]; cbn [set_insert map]; [reflexivity|].
    destruct (vcmp (vnorm (erase x)) (vnorm (erase y))); cbn [map]; [reflexivity|reflexivity|].
    rewrite IH. reflexivity.
  Qed.

  Lemma erase_set_of : forall l,
    map erase (set_of (fun x => vnorm (erase x)) l) = set_of (fun x => vnorm x) (map erase l).
  Proof.
    unfold set_of. intro l. change (@nil val) with (map erase []). generalize (@nil obj).
    induction l as [|x r IH]; intro a; cbn [fold_left map]; [reflexivity|].
    rewrite IH. rewrite erase_set_insert. reflexivity.
  Qed.

  Lemma build_erase : forall k items, eitems (build erase k items) = build (fun x => x) k (eitems items).
  Proof.
    intros k items. destruct k; cbn [build].
    - unfold reindex. rewrite eitems_reindex_from, map_snd_eitems. reflexivity.
    - unfold reindex. rewrite eitems_reindex_from, map_snd_eitems. reflexivity.
    - apply (eitems_kd_update items []).
    - unfold reindex. rewrite eitems_reindex_from, map_snd_eitems, erase_set_of. reflexivity.
    - unfold reindex. rewrite eitems_reindex_from, map_snd_eitems, erase_set_of. reflexivity.
  Qed.

  Lemma do_visit_erase : forall p ky v lg,
    eitems (opt_list (fst (do_visit visit p ky v lg))) =
      opt_list (apply_action (fun x => x) (vfun visit p ky (erase v)) ky (erase v))
    /\ evisits (snd (do_visit visit p ky v lg)) =
       evisits lg ++ match visit with Some _ => [(p, ky, erase v)] | None => [] end.
  Proof.
    intros. unfold do_visit, vfun. destruct visit as [f|]; cbn [fst snd].
    - split.
      + destruct (f p ky (erase v)) as [|k' v']; cbn; [reflexivity|].
        destruct k', v' as [[n|kk it]|]; reflexivity.
      + unfold evisits. rewrite flat_map_app. reflexivity.
    - split; [reflexivity|]. rewrite app_nil_r. reflexivity.
  Qed.

  (* ---- the tree lemma ---------------------------------------------------------- *)
  Definition tree_ok (o : obj) : Prop :=
    is_tree o = true -> NoDup (ids o) ->
    forall rt p ky m lg v m' lg',
      (forall i, In i (ids o) -> t_get m i = None) ->
      srbB rt p ky o m lg = (v, m', lg') ->
      let cp := if rt then p else p ++ [ky] in
      erase v = rebuild (vfun visit) cp (erase o)
      /\ evisits lg' = evisits lg ++ calls_opt visit cp (erase o).

  Lemma NoDup_app_l : forall {A} (a b : list A), NoDup (a ++ b) -> NoDup a.
  Proof. induction a as [|x r IH]; intros b H; [constructor|]. cbn in H. inversion H; subst. constructor; [rewrite in_app_iff in *; tauto|eauto]. Qed.
  Lemma NoDup_app_r : forall {A} (a b : list A), NoDup (a ++ b) -> NoDup b.
  Proof. induction a as [|x r IH]; intros b H; [exact H|]. cbn in H. inversion H; subst. eauto. Qed.
  Lemma NoDup_app_disj : forall {A} (a b : list A) x, NoDup (a ++ b) -> In x a -> In x b -> False.
  Proof.
    induction a as [|y r IH]; intros b x H Ha Hb; [inversion Ha|]. cbn in H. inversion H; subst.
    destruct Ha as [->|Ha]; [apply H2; rewrite in_app_iff; tauto|eauto].
  Qed.

  Lemma children_tree : forall l, Forall (fun kv => tree_ok (snd kv)) l ->
    forallb (fun kv => is_tree (snd kv)) l = true ->
    NoDup (flat_map (fun kv => ids (snd kv)) l) ->
    forall cp acc m lg acc' m' lg',
      (forall i, In i (flat_map (fun kv => ids (snd kv)) l) -> t_get m i = None) ->
      childrenB cp l acc m lg = (acc', m', lg') ->
      eitems acc' = eitems acc ++ rb_children (vfun visit) cp (eitems l)
      /\ evisits lg' = evisits lg ++ match visit with Some f => calls_children f cp (eitems l) | None => [] end.
  Proof.
    induction 1 as [|[ck c] r Hc Hr IH]; intros Ht Hnd cp acc m lg acc' m' lg' Hm E.
    - cbn in E. inversion E; subst. cbn. rewrite !app_nil_r. destruct visit; rewrite ?app_nil_r; split; reflexivity.
    - cbn [srb_children] in E.
      destruct (srbB false cp ck c m lg) as [[c' m1] lg1] eqn:E1.
      destruct (do_visit visit cp ck c' lg1) as [it lg2] eqn:E2.
      cbn [forallb snd] in Ht. apply andb_true_iff in Ht as [Htc Htr].
      cbn [flat_map snd] in Hnd, Hm.
      cbn [snd] in Hc.
      destruct (Hc Htc (NoDup_app_l _ _ Hnd) false cp ck m lg c' m1 lg1) as [Hv Hl].
      { intros i Hi. apply Hm. rewrite in_app_iff. tauto. }
      { exact E1. }
      cbn zeta in Hv, Hl. cbn [ids] in *.
      destruct (IH Htr (NoDup_app_r _ _ Hnd) cp (acc ++ opt_list it) m1 lg2 acc' m' lg') as [Ha Hl2].
      { intros i Hi. rewrite (srb_dom c _ _ _ _ _ _ _ _ E1 i).
        - apply Hm. rewrite in_app_iff. tauto.
        - intro Hic. exact (NoDup_app_disj _ _ i Hnd Hic Hi). }
      { exact E. }
      destruct (do_visit_erase cp ck c' lg1) as [D1 D2]. rewrite E2 in D1, D2. cbn [fst snd] in D1, D2.
      split.
      + rewrite Ha. rewrite eitems_app, D1. cbn [eitems map fst snd rb_children].
        rewrite Hv. rewrite <- app_assoc. reflexivity.
      + rewrite Hl2, D2, Hl. cbn [eitems map fst snd]. unfold calls_opt.
        destruct visit as [f|]; cbn [calls_children]; rewrite <- ?app_assoc.
        * cbn [vfun] in Hv. rewrite Hv. reflexivity.
        * rewrite !app_nil_r. reflexivity.
  Qed.

  Lemma srb_tree : forall o, tree_ok o.
  Proof.
    induction o as [n|id k items IH|id k|k|id k|w] using obj_ind2; unfold tree_ok;
      intros Ht Hnd rt p ky m lg v m' lg' Hm E; try discriminate.
    - cbn in E. inversion E; subst. cbn. unfold calls_opt. destruct visit; cbn; rewrite ?app_nil_r; split; try reflexivity.
      unfold evisits. rewrite flat_map_app. cbn. rewrite app_nil_r. reflexivity.
      unfold evisits. rewrite flat_map_app. cbn. rewrite app_nil_r. reflexivity.
    - rewrite srb_node in E. rewrite (Hm id (or_introl eq_refl)) in E. cbv zeta in E.
      set (cp := if rt then p else p ++ [ky]) in *.
      destruct (childrenB cp items [] _ _) as [[items' m1] lg1] eqn:EC.
      inversion E; subst v m' lg'. clear E.
      cbn [is_tree] in Ht. cbn [ids] in Hnd, Hm. inversion Hnd as [|? ? Hnotin Hnd']; subst.
      assert (Hm' : forall i, In i (flat_map (fun kv => ids (snd kv)) items) ->
                              t_get (t_set m id (blank id k)) i = None).
      { intros i Hi. rewrite t_get_set.
        destruct (Nat.eqb i id) eqn:Ei; [apply Nat.eqb_eq in Ei; subst; contradiction|].
        apply Hm. right. exact Hi. }
      destruct (children_tree items IH Ht Hnd' cp [] _ _ _ _ _ Hm' EC) as [Ha Hl].
      cbn [erase]. fold (eitems items). fold (eitems (build erase k items')).
      rewrite rebuild_node, build_erase, Ha. cbn [eitems map app]. split; [reflexivity|].
      assert (Hex : forall l e, match e with EVisit _ _ _ _ => False | _ => True end -> evisits (l ++ [e]) = evisits l).
      { intros l e He. unfold evisits. rewrite flat_map_app. destruct e; try contradiction; cbn; apply app_nil_r. }
      rewrite (Hex lg1 (EExit p ky id (shallow_items items')) I).
      rewrite Hl.
      assert (Hev : evisits (lg ++ [EEnter p ky (RObj id) (in_view defs (ONode id k items))]) = evisits lg).
      { unfold evisits. rewrite flat_map_app. cbn [flat_map app]. apply app_nil_r. }
      rewrite Hev. unfold calls_opt. destruct visit; [rewrite calls_node|]; reflexivity.
  Qed.
End Tree.

(* ---- the theorem about the machine ---------------------------------------------- *)
Theorem machine_tree : forall (visit : option visit_fn) rr defs id k items,
  let root := ONode id k items in
  is_tree root = true -> NoDup (ids root) ->
  exists v m lg,
    remap (lift visit) rr defs root = Done v m lg
    /\ erase v = rebuild (vfun visit) [] (erase root)
    /\ evisits lg = calls_opt visit [] (erase root).
Proof.
  intros visit rr defs id k items root Ht Hnd.
  rewrite machine_is_recursion. unfold srb_root, root.
  destruct (srb impl_blank visit defs true [] KNone (ONode id k items) [] []) as [[v m] lg] eqn:E.
  exists v, m, lg. split; [reflexivity|].
  exact (srb_tree impl_blank visit defs (ONode id k items) Ht Hnd true [] KNone [] [] v m lg
           (fun i _ => eq_refl) E).
Qed.
