(* The scanner's three matchers (Model) are the reference semantics of re
   (Spec/C16_Re.v) applied to the patterns regenerated from the source
   (Gen/C16_Gen.v), for every string. *)
From Boltons Require Import Lib.Prelude Lib.C16_Text Spec.C16_Spec Spec.C16_Re Model.C16_Model Gen.C16_Gen
  Proofs.C16_Text Proofs.C16_Regex.
Open Scope N_scope.

(* ---- greedy repetition ------------------------------------------------------------------------ *)
Lemma greedy_map {R S} (g : R -> S) f k pre t :
  greedy f (fun c r => option_map g (k c r)) pre t = option_map g (greedy f k pre t).
Proof.
  revert pre. induction t as [|c t IH]; intro pre; cbn [greedy]; [reflexivity|].
  destruct (f c); [|reflexivity]. rewrite IH. destruct (greedy f k (c :: pre) t); reflexivity.
Qed.

Lemma greedy_ext {R} f (k1 k2 : str -> str -> option R) pre t :
  (forall c r, k1 c r = k2 c r) -> greedy f k1 pre t = greedy f k2 pre t.
Proof.
  intro H. revert pre. induction t as [|c t IH]; intro pre; cbn [greedy]; [apply H|].
  destruct (f c); [|apply H]. rewrite IH, H. reflexivity.
Qed.

(* when the continuation cannot succeed in front of a character of the class, nothing is
   ever given back: greedy = take the whole run *)
Lemma greedy_span {R} f (k : str -> str -> option R) :
  (forall consumed c rest, f c = true -> k consumed (c :: rest) = None) ->
  forall t pre, greedy f k pre t = let '(a, b) := span f t in k (rev pre ++ a) b.
Proof.
  intros H. induction t as [|c t IH]; intro pre; cbn [greedy span].
  - rewrite app_nil_r. reflexivity.
  - destruct (f c) eqn:E.
    + rewrite IH. destruct (span f t) as [a b]. cbn [rev]. rewrite <- app_assoc. cbn [app].
      destruct (k (rev pre ++ c :: a) b); [reflexivity|]. apply H. exact E.
    + rewrite app_nil_r. reflexivity.
Qed.

(* the same when the continuation always succeeds *)
Lemma greedy_total {R} f (k : str -> str -> option R) :
  (forall consumed rest, k consumed rest <> None) ->
  forall t pre, greedy f k pre t = let '(a, b) := span f t in k (rev pre ++ a) b.
Proof.
  intros H. induction t as [|c t IH]; intro pre; cbn [greedy span].
  - rewrite app_nil_r. reflexivity.
  - destruct (f c) eqn:E.
    + rewrite IH. destruct (span f t) as [a b]. cbn [rev]. rewrite <- app_assoc. cbn [app].
      destruct (k (rev pre ++ c :: a) b) eqn:K; [reflexivity|]. exfalso. exact (H _ _ K).
    + rewrite app_nil_r. reflexivity.
Qed.

Lemma span_rest f t : match snd (span f t) with [] => True | c :: _ => f c = false end.
Proof.
  induction t as [|c t IH]; cbn [span]; [exact I|]. destruct (f c) eqn:E.
  - destruct (span f t) as [a b]. exact IH.
  - exact E.
Qed.

Lemma span_ext f g t : (forall c, f c = g c) -> span f t = span g t.
Proof. intro H. induction t as [|c t IH]; cbn [span]; [reflexivity|]. rewrite H, IH. reflexivity. Qed.

Section Equiv.
  Context (C : cc) (OK : cc_ok C).

  (* ---- a run of literals is drop_prefix ------------------------------------------------------- *)
  Lemma rmatch_lits p r at0 s cp :
    p <> [] ->
    rmatch C (map ILit p ++ r) at0 s cp =
    match drop_prefix p s with Some rest => rmatch C r false rest cp | None => None end.
  Proof.
    revert at0 s. induction p as [|a p IH]; intros at0 s Hne; [contradiction|].
    cbn [map app rmatch drop_prefix]. destruct s as [|x s]; [reflexivity|].
    rewrite (N.eqb_sym a x). destruct (x =? a); [|reflexivity].
    destruct p as [|b p]; [reflexivity|]. apply IH. discriminate.
  Qed.

  (* ---- the greedy path group is path_split ------------------------------------------------------ *)
  Definition dotc (c : N) : bool := negb (c =? 10).

  Lemma path_split_greedy tf t : forall pre, pre <> [] ->
    path_split tf pre t =
    greedy dotc (fun consumed rest => match tf rest with Some (n, f) => Some (consumed, n, f) | None => None end) pre t.
  Proof.
    induction t as [|c t IH]; intros pre Hne.
    - cbn [path_split greedy]. destruct pre; [contradiction|reflexivity].
    - rewrite path_split_cons. cbv zeta. cbn [greedy]. unfold dotc at 1.
      destruct (c =? 10); cbn [negb].
      + destruct pre; [contradiction|reflexivity].
      + rewrite IH by discriminate. destruct pre; [contradiction|reflexivity].
  Qed.

  (* how a result of the model's matchers is laid out as captured groups *)
  Definition enc (r : str * str * option str) : caps :=
    let '(p, n, f) := r in
    match f with Some g => [(3, g); (2, n); (1, p)] | None => [(2, n); (1, p)] end.

  (* ---- the tails -------------------------------------------------------------------------------------- *)
  Definition items_qline : list item := map ILit M_qline.
  Definition items_in : list item := map ILit M_in.

  Lemma eol_after_dots p0 n consumed rest :
    rmatch C [IEol] false rest ((3, consumed) :: (2, n) :: (1, p0) :: nil) =
    match rest with
    | [] => Some (enc (p0, n, Some consumed))
    | [c] => if c =? 10 then Some (enc (p0, n, Some consumed)) else None
    | _ => None
    end.
  Proof. cbn [rmatch enc]. destruct rest as [|c [|d r]]; reflexivity. Qed.

  Lemma tail_frame_re p0 t :
    rmatch C (items_qline ++ IPlusGroup 2 CDigit :: items_in ++ [IPlusGroup 3 CDot; IEol]) false t [(1, p0)] =
    match tail_frame C t with Some (n, f) => Some (enc (p0, n, f)) | None => None end.
  Proof.
    unfold items_qline. rewrite rmatch_lits by discriminate. unfold tail_frame.
    destruct (drop_prefix M_qline t) as [t1|]; [|reflexivity].
    cbn [rmatch]. destruct t1 as [|x t1].
    - reflexivity.
    - cbn [in_cls span]. destruct (is_dg C x) eqn:Ex; [|reflexivity].
      rewrite greedy_span.
      + change (in_cls C CDigit) with (is_dg C). destruct (span (is_dg C) t1) as [a b]. cbn [rev app]. cbv beta.
        unfold items_in. rewrite rmatch_lits by discriminate.
        destruct (drop_prefix M_in b) as [f|]; [|reflexivity].
        cbn [rmatch]. unfold dot_plus_end. destruct f as [|y f]; [reflexivity|].
        cbn [in_cls span]. destruct (negb (y =? 10)) eqn:Ey; [|reflexivity].
        rewrite greedy_span.
        * change (in_cls C CDot) with (fun c => negb (c =? 10)). pose proof (span_rest (fun c => negb (c =? 10)) f) as SR.
          destruct (span (fun c => negb (c =? 10)) f) as [g rest]. cbn [rev app snd] in *. cbv beta.
          try rewrite eol_after_dots. cbn [enc]. destruct rest as [|c [|d r]]; try reflexivity.
          apply negb_false_iff in SR. rewrite SR. reflexivity.
        * intros consumed c rest Hc. cbv beta. cbn [rmatch]. destruct rest; [|reflexivity].
          apply negb_true_iff in Hc. rewrite Hc. reflexivity.
      + intros consumed c rest Hc. cbv beta. unfold items_in. rewrite rmatch_lits by discriminate.
        unfold M_in. rewrite drop_prefix_head; [reflexivity|].
        intro E. subst c. cbn [in_cls] in Hc. rewrite (dg_low C OK 44) in Hc by lia. discriminate.
  Qed.

  Lemma tail_se_re p0 t :
    rmatch C (items_qline ++ [IPlusGroup 2 CDigit]) false t [(1, p0)] =
    match tail_se C t with Some (n, f) => Some (enc (p0, n, f)) | None => None end.
  Proof.
    unfold items_qline. rewrite rmatch_lits by discriminate. unfold tail_se.
    destruct (drop_prefix M_qline t) as [t1|]; [|reflexivity].
    cbn [rmatch]. destruct t1 as [|x t1]; [reflexivity|].
    cbn [in_cls span]. destruct (is_dg C x) eqn:Ex; [|reflexivity].
    rewrite greedy_total by (intros; cbn [rmatch]; discriminate).
    change (in_cls C CDigit) with (is_dg C). destruct (span (is_dg C) t1) as [a b]. reflexivity.
  Qed.

  (* ---- the whole patterns ------------------------------------------------------------------------------ *)
  Definition items_file : list item := map ILit M_file.

  Lemma whole_re tailitems tf s :
    (forall p0 t, rmatch C tailitems false t [(1, p0)] =
                  match tf t with Some (n, f) => Some (enc (p0, n, f)) | None => None end) ->
    rmatch C (IBol :: items_file ++ IPlusGroup 1 CDot :: tailitems) true s [] =
    option_map enc (match_re tf s).
  Proof.
    intro HT. cbn [rmatch]. unfold items_file. rewrite rmatch_lits by discriminate.
    unfold match_re. destruct (drop_prefix M_file s) as [t|]; [|reflexivity].
    cbn [rmatch]. destruct t as [|x t]; [reflexivity|].
    cbn [in_cls]. rewrite path_split_cons. cbv zeta.
    destruct (x =? 10) eqn:Ex; cbn [negb]; [reflexivity|].
    rewrite path_split_greedy by discriminate.
    rewrite (greedy_ext _ _ (fun consumed rest => option_map enc
               (match tf rest with Some (n, f) => Some (consumed, n, f) | None => None end))).
    - rewrite greedy_map. change (in_cls C CDot) with dotc.
      destruct (greedy dotc _ [x] t); reflexivity.
    - intros c r. rewrite HT. destruct (tf r) as [[n f]|]; reflexivity.
  Qed.

  Theorem frame_re_is_re s :
    gen_frame_items = IBol :: items_file ++ IPlusGroup 1 CDot ::
                      (items_qline ++ IPlusGroup 2 CDigit :: items_in ++ [IPlusGroup 3 CDot; IEol]) ->
    rmatch C gen_frame_items true s [] = option_map enc (frame_re C s).
  Proof. intro E. rewrite E. apply whole_re. apply tail_frame_re. Qed.

  Theorem se_frame_re_is_re s :
    gen_se_items = IBol :: items_file ++ IPlusGroup 1 CDot :: (items_qline ++ [IPlusGroup 2 CDigit]) ->
    rmatch C gen_se_items true s [] = option_map enc (se_frame_re C s).
  Proof. intro E. rewrite E. apply whole_re. apply tail_se_re. Qed.

  (* ---- _repeat_re -------------------------------------------------------------------------------- *)
  Lemma close_re a t cp :
    rmatch C [ILit 93; IEol] a t cp = if close_ok t then Some cp else None.
  Proof.
    cbn [rmatch]. unfold close_ok, end_ok. destruct t as [|y r]; [reflexivity|].
    destruct (y =? 93); [|reflexivity]. cbn [andb]. destruct r as [|c [|d r]]; reflexivity.
  Qed.

  Lemma ropt c0 r a s cp :
    rmatch C (IOpt c0 :: r) a s cp =
    match s with
    | x :: s' => if x =? c0 then match rmatch C r false s' cp with Some res => Some res | None => rmatch C r a s cp end
                 else rmatch C r a s cp
    | [] => rmatch C r a s cp
    end.
  Proof. reflexivity. Qed.

  Theorem repeat_re_is_re s :
    gen_repeat_items = IBol :: map ILit M_prevline ++ IPlusGroup 1 CDigit ::
                       (map ILit M_moretime ++ [IOpt 115; ILit 93; IEol]) ->
    rmatch C gen_repeat_items true s [] =
    match repeat_re C s with Some d => Some [(1, d)] | None => None end.
  Proof.
    intro E. rewrite E. cbn [rmatch]. rewrite rmatch_lits by discriminate. unfold repeat_re.
    destruct (drop_prefix M_prevline s) as [t|]; [|reflexivity].
    cbn [rmatch]. destruct t as [|x t1]; [reflexivity|].
    cbn [in_cls span]. destruct (is_dg C x) eqn:Ex; [|reflexivity].
    rewrite greedy_span.
    - change (in_cls C CDigit) with (is_dg C). destruct (span (is_dg C) t1) as [a b]. cbn [rev app]. cbv beta.
      rewrite rmatch_lits by discriminate.
      destruct (drop_prefix M_moretime b) as [t3|]; [|reflexivity].
      rewrite ropt. destruct t3 as [|c r].
      + rewrite close_re. reflexivity.
      + destruct (c =? 115) eqn:Ec.
        * rewrite !close_re. destruct (close_ok r); [reflexivity|].
          apply N.eqb_eq in Ec. subst c. reflexivity.
        * rewrite close_re. destruct (close_ok (c :: r)); reflexivity.
    - intros consumed c rest Hc. cbv beta. rewrite rmatch_lits by discriminate.
      unfold M_moretime. rewrite drop_prefix_head; [reflexivity|].
      intro E2. subst c. cbn [in_cls] in Hc. rewrite (dg_low C OK 32) in Hc by lia. discriminate.
  Qed.

  (* _underline_re: any class with the same members as the model's set *)
  Theorem underline_re_is_re l s :
    gen_underline_items = [IBol; IStar (CSet l); IEol] ->
    (forall c, existsb (N.eqb c) l = inset c) ->
    (if rmatch C gen_underline_items true s [] then true else false) = underline_re s.
  Proof.
    intros E Hl. rewrite E. cbn [rmatch]. unfold underline_re.
    rewrite (greedy_ext _ _ (fun consumed rest => rmatch C [IEol] (is_nil consumed) rest [])) by reflexivity.
    assert (X : forall t, greedy (in_cls C (CSet l)) (fun consumed rest => rmatch C [IEol] (is_nil consumed) rest []) [] t
                          = let '(a, b) := span inset t in rmatch C [IEol] (is_nil a) b []).
    { intro t. rewrite greedy_span.
      - cbn [in_cls]. rewrite (span_ext _ inset) by exact Hl. destruct (span inset t); reflexivity.
      - intros consumed c rest Hc. cbn [in_cls] in Hc. rewrite Hl in Hc. cbn [rmatch].
        destruct rest; [|reflexivity].
        unfold inset in Hc. destruct (c =? 10) eqn:E10; [|reflexivity].
        apply N.eqb_eq in E10. subst c. discriminate. }
    rewrite X. change (fun c : N => (c =? 126) || (c =? 94) || (c =? 32)) with inset.
    destruct (span inset s) as [a b]. cbn [rmatch]. destruct b as [|c [|d r]]; try reflexivity.
    destruct (c =? 10); reflexivity.
  Qed.
End Equiv.
