(* C08: every pure tree, seen as an object graph in which each container is a
   distinct object ([inject]), satisfies the hypotheses of the tree theorem. *)
From Boltons Require Import Lib.Prelude Lib.C08_Py Spec.C08_Spec Model.C08_Model
  Proofs.C08_Machine Proofs.C08_Tree.

Section ValInd.
  Variable P : val -> Prop.
  Hypothesis Hleaf : forall n, P (VLeaf n).
  Hypothesis Hnode : forall k items, Forall (fun kv => P (snd kv)) items -> P (VNode k items).
  Fixpoint val_ind2 (v : val) : P v :=
    match v with
    | VLeaf n => Hleaf n
    | VNode k items =>
        Hnode k items
          ((fix go (l : list (key * val)) : Forall (fun kv => P (snd kv)) l :=
              match l with
              | [] => Forall_nil _
              | kv :: r => Forall_cons kv (val_ind2 (snd kv)) (go r)
              end) items)
    end.
End ValInd.

Fixpoint inject_items (l : list (key * val)) (n : nat) : list (key * obj) * nat :=
  match l with
  | [] => ([], n)
  | (ky, c) :: r => let '(c', n1) := inject_from c n in
                    let '(r', n2) := inject_items r n1 in ((ky, c') :: r', n2)
  end.

Lemma inject_node : forall k items n,
  inject_from (VNode k items) n =
  let '(items', n') := inject_items items (S n) in (ONode n k items', n').
Proof.
  intros. cbn [inject_from].
  assert (H : forall l m,
    (fix go (l : list (key * val)) (n : nat) : list (key * obj) * nat :=
       match l with
       | [] => ([], n)
       | (ky, c) :: r => let '(c', n1) := inject_from c n in
                         let '(r', n2) := go r n1 in ((ky, c') :: r', n2)
       end) l m = inject_items l m).
  { induction l as [|[ky c] r IH]; intro m; cbn [inject_items]; [reflexivity|].
    destruct (inject_from c m) as [c' n1]. rewrite IH. reflexivity. }
  rewrite H. reflexivity.
Qed.

Definition inj_ok (v : val) : Prop :=
  forall n o n', inject_from v n = (o, n') ->
    n <= n' /\ is_tree o = true /\ erase o = v /\ NoDup (ids o) /\ forall i, In i (ids o) -> n <= i < n'.

Lemma inject_items_ok : forall l, Forall (fun kv => inj_ok (snd kv)) l ->
  forall n l' n', inject_items l n = (l', n') ->
    n <= n' /\ forallb (fun kv => is_tree (snd kv)) l' = true /\ eitems l' = l
    /\ NoDup (flat_map (fun kv => ids (snd kv)) l')
    /\ forall i, In i (flat_map (fun kv => ids (snd kv)) l') -> n <= i < n'.
Proof.
  induction 1 as [|[ky c] r Hc Hr IH]; intros n l' n' E.
  - cbn in E. inversion E; subst. cbn. repeat split; try lia; try constructor; contradiction.
  - cbn [inject_items] in E. destruct (inject_from c n) as [c' n1] eqn:E1.
    destruct (inject_items r n1) as [r' n2] eqn:E2. inversion E; subst. cbn [snd] in Hc.
    destruct (Hc _ _ _ E1) as [L1 [T1 [R1 [D1 B1]]]].
    destruct (IH _ _ _ E2) as [L2 [T2 [R2 [D2 B2]]]].
    split; [lia|]. split; [cbn; rewrite T1, T2; reflexivity|].
    split; [cbn; rewrite R1; unfold eitems in R2; rewrite R2; reflexivity|].
    cbn [flat_map snd]. split.
    + clear - D1 D2 B1 B2.
      induction (ids c') as [|x xs IHx]; [exact D2|]. cbn. inversion D1; subst. constructor.
      * rewrite in_app_iff. intros [H|H]; [contradiction|].
        assert (n <= x < n1) by (apply B1; left; reflexivity).
        assert (n1 <= x < n') by (apply B2; assumption). lia.
      * apply IHx; [assumption|]. intros i Hi. apply B1. right. assumption.
    + intros i Hi. rewrite in_app_iff in Hi. destruct Hi as [Hi|Hi].
      * specialize (B1 i Hi). lia.
      * specialize (B2 i Hi). lia.
Qed.

Lemma inject_from_ok : forall v, inj_ok v.
Proof.
  induction v as [x|k items IH] using val_ind2; unfold inj_ok; intros n o n' E.
  - cbn in E. inversion E; subst. cbn. repeat split; try lia; try constructor; contradiction.
  - rewrite inject_node in E. destruct (inject_items items (S n)) as [items' n1] eqn:E1.
    inversion E; subst.
    destruct (inject_items_ok items IH _ _ _ E1) as [L [T [R [D B]]]].
    split; [lia|]. split; [exact T|]. split; [cbn [erase]; fold (eitems items'); rewrite R; reflexivity|].
    cbn [ids]. split.
    + constructor; [|assumption]. intro Hin. specialize (B n Hin). lia.
    + intros i [<-|Hi]; [lia|]. specialize (B i Hi). lia.
Qed.

Theorem machine_tree_val : forall (visit : option visit_fn) rr defs k items,
  let t := VNode k items in
  exists v m lg,
    remap (lift visit) rr defs (inject t) = Done v m lg
    /\ erase v = rebuild (vfun visit) [] t
    /\ evisits lg = calls_opt visit [] t.
Proof.
  intros visit rr defs k items t. unfold inject.
  destruct (inject_from t 0) as [o n'] eqn:E. cbn [fst].
  destruct (inject_from_ok t 0 o n' E) as [_ [T [R [D _]]]].
  unfold t in E. rewrite inject_node in E. destruct (inject_items items 1) as [items' n1]. inversion E; subst o n'.
  destruct (machine_tree visit rr defs 0 k items' T D) as [v [m [lg [H1 [H2 H3]]]]].
  exists v, m, lg. rewrite R in H2, H3. auto.
Qed.
