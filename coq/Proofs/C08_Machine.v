(* C08: the explicit-stack machine (Model.remap) computes exactly the recursive
   function Spec.srb instantiated with the implementation's blank objects
   ([impl_blank]) - for EVERY input term, every visit function, including
   shared and cyclic references, with the same registry and the same sequence
   of enter/visit calls.  Termination within 2*size+1 steps is a corollary. *)
From Boltons Require Import Lib.Prelude Lib.C08_Py Spec.C08_Spec Model.C08_Model.

(* ---- induction principle for the nested type ------------------------------- *)
Section ObjInd.
  Variable P : obj -> Prop.
  Hypothesis Hleaf : forall n, P (OLeaf n).
  Hypothesis Hnode : forall id k items, Forall (fun kv => P (snd kv)) items -> P (ONode id k items).
  Hypothesis Href : forall id k, P (ORef id k).
  Hypothesis Hblank : forall k, P (OBlank k).
  Hypothesis Halias : forall id k, P (OAlias id k).
  Hypothesis Hval : forall v, P (OVal v).
  Fixpoint obj_ind2 (o : obj) : P o :=
    match o with
    | OLeaf n => Hleaf n
    | ONode id k items =>
        Hnode id k items
          ((fix go (l : list (key * obj)) : Forall (fun kv => P (snd kv)) l :=
              match l with
              | [] => Forall_nil _
              | kv :: r => Forall_cons kv (obj_ind2 (snd kv)) (go r)
              end) items)
    | ORef id k => Href id k
    | OBlank k => Hblank k
    | OAlias id k => Halias id k
    | OVal v => Hval v
    end.
End ObjInd.

(* ---- the children loop of srb as a stand-alone function --------------------- *)
Section Sim.
  Variable blank : nat -> kind -> obj.
  Variable visit : option visit_fn.
  Variable defs : table obj.

  Fixpoint srb_children (cp : path) (l : list (key * obj)) (acc : list (key * obj))
           (m : table obj) (lg : list event) : list (key * obj) * table obj * list event :=
    match l with
    | [] => (acc, m, lg)
    | (ck, c) :: r =>
        let '(c', m', lg') := srb blank visit defs false cp ck c m lg in
        let '(it, lg'') := do_visit visit cp ck c' lg' in
        srb_children cp r (acc ++ opt_list it) m' lg''
    end.

  Lemma srb_node : forall rt p ky id k items m lg,
    srb blank visit defs rt p ky (ONode id k items) m lg =
    match t_get m id with
    | Some v => (v, m, lg)
    | None =>
        let cp := if rt then p else p ++ [ky] in
        let '(items', m1, lg1) :=
          srb_children cp items [] (t_set m id (blank id k))
                       (lg ++ [EEnter p ky (RObj id) (in_view defs (ONode id k items))]) in
        let v := ONode id k (build erase k items') in
        (v, t_set m1 id v, lg1 ++ [EExit p ky id (shallow_items items')])
    end.
  Proof.
    intros. cbn [srb]. destruct (t_get m id); [reflexivity|].
    set (cp := if rt then p else p ++ [ky]).
    generalize (t_set m id (blank id k)).
    generalize (lg ++ [EEnter p ky (RObj id) (in_view defs (ONode id k items))]).
    generalize (@nil (key * obj)).
    induction items as [|[ck c] r IH]; intros acc lg0 m0; cbn [srb_children].
    - reflexivity.
    - destruct (srb blank visit defs false cp ck c m0 lg0) as [[c' m'] lg'].
      destruct (do_visit visit cp ck c' lg') as [it lg''].
      apply IH.
  Qed.
End Sim.

Section Machine.
  Variable visit : option visit_fn.             (* a callback that does not raise *)
  Variable rr : bool.                           (* any value of reraise_visit *)
  Variable defs : table obj.
  Notation srbI := (srb impl_blank visit defs).
  Notation childrenI := (srb_children impl_blank visit defs).
  Notation runM := (run (lift visit) rr defs).
  Notation stepM := (step (lift visit) rr defs).

  Lemma call_visit_lift : forall p ky v l,
    call_visit (lift visit) rr p ky v l = inl (do_visit visit p ky v l).
  Proof. intros. unfold call_visit, do_visit, lift. destruct visit; reflexivity. Qed.

  Lemma run_step : forall f st it rest st',
    stk st = it :: rest -> stepM it rest st = inl st' -> runM (S f) st = runM f st'.
  Proof. intros f st it rest st' Hs Hst. cbn [run]. rewrite Hs, Hst. reflexivity. Qed.

  Lemma visit_phase_ok : forall s rg p0 acc nr pt l c ky v,
    visit_phase (lift visit) rr (mkSt s rg ((p0, acc) :: nr) pt l c) ky v =
    inl (mkSt s rg ((p0, acc ++ opt_list (fst (do_visit visit pt ky v l))) :: nr) pt
              (snd (do_visit visit pt ky v l)) v).
  Proof.
    intros. unfold visit_phase. cbn [pth lg nis stk reg]. rewrite call_visit_lift.
    destruct (do_visit visit pt ky v l) as [[item|] lg']; cbn [fst snd opt_list].
    - reflexivity.
    - rewrite app_nil_r. reflexivity.
  Qed.

  Definition items_size (l : list (key * obj)) : nat :=
    fold_right (fun kv acc => osize (snd kv) + acc) 0 l.

  (* processing one stack item = one call of srb, then the visit *)
  Definition item_ok (o : obj) : Prop :=
    forall rt ky rest rg p0 acc nr pt l c v rg' l1,
      srbI rt pt ky o rg l = (v, rg', l1) ->
      exists n, n <= 2 * osize o /\ forall f,
        runM (n + f) (mkSt (SItem rt ky o :: rest) rg ((p0, acc) :: nr) pt l c) =
        runM f (mkSt rest rg' ((p0, acc ++ opt_list (fst (do_visit visit pt ky v l1))) :: nr) pt
                     (snd (do_visit visit pt ky v l1)) v).

  Lemma children_ok : forall items, Forall (fun kv => item_ok (snd kv)) items ->
    forall cp rest rg p0 acc nr l c acc' rg' l',
      childrenI cp items acc rg l = (acc', rg', l') ->
      exists n c', n <= 2 * items_size items /\ forall f,
        runM (n + f) (mkSt (map (fun kv => SItem false (fst kv) (snd kv)) items ++ rest) rg
                           ((p0, acc) :: nr) cp l c) =
        runM f (mkSt rest rg' ((p0, acc') :: nr) cp l' c').
  Proof.
    induction 1 as [|[ck ch] r Hc Hr IH]; intros cp rest rg p0 acc nr l c acc' rg' l' E.
    - cbn in E. inversion E; subst. exists 0, c. split; [cbn; lia|]. intro f. reflexivity.
    - cbn [srb_children] in E.
      destruct (srbI false cp ck ch rg l) as [[v m1] l1] eqn:E1.
      destruct (do_visit visit cp ck v l1) as [it l2] eqn:E2.
      cbn [snd] in Hc.
      destruct (Hc false ck (map (fun kv => SItem false (fst kv) (snd kv)) r ++ rest)
                   rg p0 acc nr cp l c v m1 l1 E1) as [n1 [Hn1 R1]].
      rewrite E2 in R1. cbn [fst snd] in R1.
      destruct (IH cp rest m1 p0 (acc ++ opt_list it) nr l2 v acc' rg' l' E) as [n2 [c' [Hn2 R2]]].
      exists (n1 + n2), c'. split.
      + cbn [items_size fold_right snd] in *. unfold items_size in Hn2. lia.
      + intro f. cbn [map app fst snd]. rewrite <- Nat.add_assoc. rewrite R1. apply R2.
  Qed.

  Lemma item_sim : forall o, item_ok o.
  Proof.
    induction o as [n|id k items IH|id k|k|id k|w] using obj_ind2; unfold item_ok;
      intros rt ky rest rg p0 acc nr pt l c v rg' l1 E.
    - (* leaf *)
      cbn in E. inversion E; subst. exists 1. split; [cbn; lia|]. intro f.
      cbn [Nat.add]. erewrite run_step; [reflexivity|reflexivity|].
      cbn [step obj_id stk reg nis pth lg cur]. rewrite visit_phase_ok. reflexivity.
    - (* container *)
      rewrite srb_node in E.
      destruct (t_get rg id) as [v0|] eqn:G.
      + inversion E; subst. exists 1. split; [cbn; lia|]. intro f.
        cbn [Nat.add]. erewrite run_step; [reflexivity|reflexivity|].
        cbn [step obj_id stk reg nis pth lg cur]. rewrite G. rewrite visit_phase_ok. reflexivity.
      + cbv zeta in E.
        set (cp := if rt then pt else pt ++ [ky]) in *.
        destruct (childrenI cp items [] (t_set rg id (impl_blank id k))
                    (l ++ [EEnter pt ky (RObj id) (in_view defs (ONode id k items))]))
          as [[items' m1] lg1] eqn:EC.
        inversion E; subst v rg' l1. clear E.
        destruct (children_ok items IH cp (SExit ky id k :: rest) _ pt [] ((p0, acc) :: nr) _ c _ _ _ EC)
          as [n [c' [Hn R]]].
        exists (S (n + 1)). split.
        * cbn [osize]. fold (items_size items). lia.
        * intro f. cbn [Nat.add].
          erewrite run_step; [|reflexivity|].
          2:{ cbn [step obj_id stk reg nis pth lg cur]. rewrite G. cbn [oref_of]. reflexivity. }
          fold cp. rewrite <- Nat.add_assoc. rewrite R. cbn [Nat.add].
          erewrite run_step; [reflexivity|reflexivity|].
          cbn [step stk reg nis pth lg cur]. rewrite visit_phase_ok. reflexivity.
    - (* reference *)
      cbn [srb] in E. exists 1. split; [cbn; lia|]. intro f. cbn [Nat.add].
      destruct (t_get rg id) as [v0|] eqn:G; inversion E; subst.
      + erewrite run_step; [reflexivity|reflexivity|].
        cbn [step obj_id stk reg nis pth lg cur]. rewrite G. rewrite visit_phase_ok. reflexivity.
      + erewrite run_step; [reflexivity|reflexivity|].
        cbn [step obj_id stk reg nis pth lg cur]. rewrite G. cbn [oref_of]. rewrite visit_phase_ok. reflexivity.
    - cbn in E. inversion E; subst. exists 1. split; [cbn; lia|]. intro f.
      cbn [Nat.add]. erewrite run_step; [reflexivity|reflexivity|].
      cbn [step obj_id stk reg nis pth lg cur]. rewrite visit_phase_ok. reflexivity.
    - cbn in E. inversion E; subst. exists 1. split; [cbn; lia|]. intro f.
      cbn [Nat.add]. erewrite run_step; [reflexivity|reflexivity|].
      cbn [step obj_id stk reg nis pth lg cur]. rewrite visit_phase_ok. reflexivity.
    - cbn in E. inversion E; subst. exists 1. split; [cbn; lia|]. intro f.
      cbn [Nat.add]. erewrite run_step; [reflexivity|reflexivity|].
      cbn [step obj_id stk reg nis pth lg cur]. rewrite visit_phase_ok. reflexivity.
  Qed.

  Lemma run_more : forall f st out, runM f st = out -> out <> OutOfFuel -> forall g, f <= g -> runM g st = out.
  Proof.
    induction f as [|f IH]; intros st out E Hne g Hle.
    - cbn in E. congruence.
    - destruct g as [|g]; [lia|]. cbn [run] in *.
      destruct (stk st) as [|it rest]; [exact E|].
      destruct (stepM it rest st) as [st'|o]; [|exact E].
      apply IH; [exact E|exact Hne|lia].
  Qed.

  (* MAIN: the machine is the recursion *)
  Theorem machine_is_recursion : forall root,
    remap (lift visit) rr defs root = srb_root impl_blank visit defs root.
  Proof.
    intro root. unfold remap, srb_root, init.
    destruct root as [n|id k items|id k|k|id k|w].
    - cbn [osize]. cbn [Nat.mul Nat.add run stk step obj_id reg lg pth nis cur oref_of].
      unfold visit_phase. cbn [pth lg nis stk reg]. rewrite call_visit_lift.
      destruct (do_visit visit [] KNone (OLeaf n) _) as [[item|] lg']; reflexivity.
    - destruct (srb impl_blank visit defs true [] KNone (ONode id k items) [] []) as [[v m] lg0] eqn:E.
      rewrite srb_node in E. cbn [t_get] in E. cbv zeta in E.
      destruct (srb_children impl_blank visit defs [] items [] (t_set [] id (impl_blank id k))
                  ([] ++ [EEnter [] KNone (RObj id) (in_view defs (ONode id k items))]))
        as [[items' m1] lg1] eqn:EC.
      inversion E; subst v m lg0. clear E.
      assert (IH : Forall (fun kv => item_ok (snd kv)) items).
      { apply Forall_forall. intros kv _. apply item_sim. }
      destruct (children_ok items IH [] [SExit KNone id k] _ [] [] [] _ (ONode id k items) _ _ _ EC)
        as [n [c' [Hn R]]].
      apply run_more with (f := S (n + 2)).
      + cbn [Nat.add]. erewrite run_step; [|reflexivity|].
        2:{ cbn [step obj_id stk reg nis pth lg cur t_get oref_of]. reflexivity. }
        rewrite R. cbn [Nat.add].
        erewrite run_step; [|reflexivity|].
        2:{ cbn [step stk reg nis pth lg cur]. reflexivity. }
        reflexivity.
      + discriminate.
      + cbn [osize]. fold (items_size items). lia.
    - cbn [osize]. cbn [Nat.mul Nat.add run stk step obj_id reg lg pth nis cur oref_of t_get].
      unfold visit_phase. cbn [pth lg nis stk reg]. rewrite call_visit_lift.
      destruct (do_visit visit [] KNone (ORef id k) _) as [[item|] lg']; reflexivity.
    - cbn [osize]. cbn [Nat.mul Nat.add run stk step obj_id reg lg pth nis cur oref_of].
      unfold visit_phase. cbn [pth lg nis stk reg]. rewrite call_visit_lift.
      destruct (do_visit visit [] KNone (OBlank k) _) as [[item|] lg']; reflexivity.
    - cbn [osize]. cbn [Nat.mul Nat.add run stk step obj_id reg lg pth nis cur oref_of].
      unfold visit_phase. cbn [pth lg nis stk reg]. rewrite call_visit_lift.
      destruct (do_visit visit [] KNone (OAlias id k) _) as [[item|] lg']; reflexivity.
    - cbn [osize]. cbn [Nat.mul Nat.add run stk step obj_id reg lg pth nis cur oref_of].
      unfold visit_phase. cbn [pth lg nis stk reg]. rewrite call_visit_lift.
      destruct (do_visit visit [] KNone (OVal w) _) as [[item|] lg']; reflexivity.
  Qed.

  (* self-referential structures terminate: the step budget 2*size+1 always suffices *)
  Corollary remap_terminates : forall root, remap (lift visit) rr defs root <> OutOfFuel.
  Proof.
    intro root. rewrite machine_is_recursion. unfold srb_root.
    destruct root; try (destruct (do_visit _ _ _ _ _) as [[?|] ?]; discriminate).
    destruct (srb _ _ _ _ _ _ _ _ _) as [[? ?] ?]. discriminate.
  Qed.
End Machine.

(* reraise_visit=False: a raising callback behaves as one that answers True *)
Definition total (mv : option mvisit_fn) : option visit_fn :=
  match mv with
  | Some f => Some (fun p k x => match f p k x with Some a => a | None => Put None None end)
  | None => None
  end.

Lemma call_visit_total : forall mv rr p ky v l,
  call_visit mv false p ky v l = call_visit (lift (total mv)) rr p ky v l.
Proof.
  intros. unfold call_visit, lift, total. destruct mv as [f|]; [|reflexivity].
  destruct (f p ky (erase v)); reflexivity.
Qed.

Theorem remap_no_reraise : forall mv rr defs root,
  remap mv false defs root = remap (lift (total mv)) rr defs root.
Proof.
  intros mv rr defs root. unfold remap. generalize (init root). generalize (2 * osize root + 1).
  assert (HV : forall st ky v, visit_phase mv false st ky v = visit_phase (lift (total mv)) rr st ky v).
  { intros. unfold visit_phase. rewrite (call_visit_total mv rr). reflexivity. }
  assert (HS : forall it rest st, step mv false defs it rest st = step (lift (total mv)) rr defs it rest st).
  { intros. unfold step. destruct it as [rt ky o|ky id k].
    - destruct (match obj_id o with Some id => t_get (reg st) id | None => None end); [apply HV|].
      destruct o; try apply HV. reflexivity.
    - destruct (nis st) as [|[p0 ni] nr]; [reflexivity|]. destruct nr; [reflexivity|apply HV]. }
  induction n as [|n IH]; intro st; cbn [run]; [reflexivity|].
  destruct (stk st) as [|it rest]; [reflexivity|]. rewrite HS.
  destruct (step (lift (total mv)) rr defs it rest st); [apply IH|reflexivity].
Qed.
